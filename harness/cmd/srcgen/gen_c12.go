package main

import (
	"fmt"
	"go/ast"
	"go/token"
	"strings"
)

// ---------------------------------------------------------------- C12: statement-level translation
// c12Seq translates a statement list that mutates a fixed set of tracked local variables and leaves through
// `return` statements into a Gallina term in continuation-passing style: every tracked Go variable x is the Coq
// variable v_x (rebound by let / by the binders of a local continuation), an `if` that is followed by more
// statements binds the rest as a local function k<n> over all tracked variables, so assignments made inside a
// branch reach the code after the branch exactly as in Go. Expressions go through the shared translator (tr.expr).
type c12Var struct{ goName, coqType, init string }

type c12Gen struct {
	t      *tr
	vars   []c12Var
	nk     int
	twoVal map[string][2]string         // printed callee of `a, b := f(args)` -> Coq templates (value, second value); %s = translated first argument
	ret    func(*ast.ReturnStmt) string // translation of a return statement
}

func (g *c12Gen) tracked(name string) bool {
	for _, v := range g.vars {
		if v.goName == name {
			return true
		}
	}
	return false
}

func (g *c12Gen) binders() string {
	var parts []string
	for _, v := range g.vars {
		parts = append(parts, fmt.Sprintf("(v_%s : %s)", v.goName, v.coqType))
	}
	return strings.Join(parts, " ")
}

func (g *c12Gen) names() string {
	var parts []string
	for _, v := range g.vars {
		parts = append(parts, "v_"+v.goName)
	}
	return strings.Join(parts, " ")
}

// assign returns the let-bindings (Coq name, term) of one assignment statement
func (g *c12Gen) assign(x *ast.AssignStmt, scoped bool) [][2]string {
	t := g.t
	if x.Tok != token.DEFINE && x.Tok != token.ASSIGN {
		t.fail("unsupported assignment operator in %s", printNode(t.fset, x))
		return nil
	}
	lhsName := func(e ast.Expr) string {
		id, ok := e.(*ast.Ident)
		if !ok {
			t.fail("assignment to non-identifier in %s", printNode(t.fset, x))
			return ""
		}
		if id.Name == "_" {
			return "_"
		}
		if !g.tracked(id.Name) {
			t.fail("assignment to untracked variable %s", id.Name)
			return ""
		}
		if x.Tok == token.DEFINE && scoped {
			// := inside a nested block / if-initialiser declares a new variable whose value must not leak out
			t.fail("scoped redeclaration of %s in %s", id.Name, printNode(t.fset, x))
			return ""
		}
		return "v_" + id.Name
	}
	if len(x.Lhs) == 1 && len(x.Rhs) == 1 {
		n := lhsName(x.Lhs[0])
		v := t.expr(x.Rhs[0])
		if n == "_" || n == "" {
			return nil
		}
		return [][2]string{{n, v}}
	}
	if len(x.Lhs) == 2 && len(x.Rhs) == 1 {
		var tmpl [2]string
		arg := ""
		switch r := x.Rhs[0].(type) {
		case *ast.CallExpr:
			tm, ok := g.twoVal[printNode(t.fset, r.Fun)]
			if !ok {
				t.fail("unmapped two-valued call %s", printNode(t.fset, r.Fun))
				return nil
			}
			tmpl = tm
			if len(r.Args) > 0 {
				arg = t.expr(r.Args[0])
			}
		case *ast.TypeAssertExpr:
			tm, ok := g.twoVal["assert:"+printNode(t.fset, r)]
			if !ok {
				t.fail("unmapped type assertion %s", printNode(t.fset, r))
				return nil
			}
			tmpl = tm
		default:
			t.fail("unsupported two-valued assignment %s", printNode(t.fset, x))
			return nil
		}
		var out [][2]string
		// both right-hand values are computed from the variables as they were before the statement
		a, b := lhsName(x.Lhs[0]), lhsName(x.Lhs[1])
		va, vb := tmpl[0], tmpl[1]
		if strings.Contains(va, "%s") {
			va = fmt.Sprintf(va, arg)
		}
		if strings.Contains(vb, "%s") {
			vb = fmt.Sprintf(vb, arg)
		}
		if a != "_" && a != "" && b != "_" && b != "" {
			return [][2]string{{"'(" + a + ", " + b + ")", "(" + va + ", " + vb + ")"}}
		}
		if a != "_" && a != "" {
			out = append(out, [2]string{a, va})
		}
		if b != "_" && b != "" {
			out = append(out, [2]string{b, vb})
		}
		return out
	}
	t.fail("unsupported assignment %s", printNode(t.fset, x))
	return nil
}

// seq: k is the Coq term to continue with when the list falls through ("" = falling through is an error)
func (g *c12Gen) seq(list []ast.Stmt, k string, depth int) string {
	t := g.t
	if len(list) == 0 {
		if k == "" {
			return t.fail("statement list falls through without continuation")
		}
		return k
	}
	s, tail := list[0], list[1:]
	switch x := s.(type) {
	case *ast.ReturnStmt:
		return g.ret(x)
	case *ast.AssignStmt:
		binds := g.assign(x, depth > 0)
		body := g.seq(tail, k, depth)
		for i := len(binds) - 1; i >= 0; i-- {
			body = "(let " + binds[i][0] + " := " + binds[i][1] + " in " + body + ")"
		}
		return body
	case *ast.IfStmt:
		pre := ""
		k2 := k
		if len(tail) > 0 {
			g.nk++
			name := fmt.Sprintf("k%d", g.nk)
			rest := g.seq(tail, k, depth)
			pre = "let " + name + " := (fun " + g.binders() + " => " + rest + ") in "
			k2 = "(" + name + " " + g.names() + ")"
		}
		var initBinds [][2]string
		if x.Init != nil {
			as, ok := x.Init.(*ast.AssignStmt)
			if !ok {
				return t.fail("unsupported if-initialiser %s", printNode(t.fset, x.Init))
			}
			initBinds = g.assign(as, true)
		}
		cond := t.expr(x.Cond)
		thenS := g.seq(x.Body.List, k2, depth+1)
		var elseS string
		switch e := x.Else.(type) {
		case nil:
			elseS = k2
			if elseS == "" {
				return t.fail("if without else at the end of a list that must return")
			}
		case *ast.BlockStmt:
			elseS = g.seq(e.List, k2, depth+1)
		case *ast.IfStmt:
			elseS = g.seq([]ast.Stmt{e}, k2, depth+1)
		}
		body := "(if " + cond + " then " + thenS + " else " + elseS + ")"
		for i := len(initBinds) - 1; i >= 0; i-- {
			body = "(let " + initBinds[i][0] + " := " + initBinds[i][1] + " in " + body + ")"
		}
		return "(" + pre + body + ")"
	}
	return t.fail("unsupported statement %s", strings.Join(strings.Fields(printNode(t.fset, s)), " "))
}

// c12ApplyPrefix: everything (*PatchSet).Apply does before its first loop — the default for an empty outpath, the
// two stat calls, and the choice between falling back to applyRewrite and going on to the in-place eligibility test.
func c12ApplyPrefix(o *out) {
	const d = "lib/binpatch"
	const coqName = "apply_prefix"
	p, fd := findFunc(d, "PatchSet", "Apply")
	if fd == nil {
		o.brokenDef(coqName, "function lib/binpatch:PatchSet.Apply not found")
		return
	}
	var prefix []ast.Stmt
	sawLoop := false
	for _, s := range fd.Body.List {
		if _, ok := s.(*ast.RangeStmt); ok {
			sawLoop = true
			break
		}
		if _, ok := s.(*ast.ForStmt); ok {
			sawLoop = true
			break
		}
		prefix = append(prefix, s)
	}
	if !sawLoop {
		o.brokenDef(coqName, "Apply has no eligibility loop any more")
		return
	}
	fs := funcSpec{dir: d, recv: "PatchSet", name: "Apply",
		leaves: map[string]string{
			"err != nil": "v_err", "err == nil": "(negb v_err)", "nil != err": "v_err", "nil == err": "(negb v_err)",
			"infile.Name()": "h_name", "ininfo.Size()": "(isize v_ininfo)", "outinfo.Size()": "(isize v_outinfo)",
			"canWrite(infile)": "h_can_write", // the handle's access mode allows writing (F_GETFL)
		},
		types: map[string]string{"outpath": "str", "infile.Name()": "str", "err != nil": "bool", "err == nil": "bool", "canWrite(infile)": "bool"},
		calls: map[string]string{"canOverwrite": "can_ow"},
	}
	t := o.newTr(p, fs)
	g := &c12Gen{t: t,
		vars: []c12Var{{"outpath", "bytes", "outpath"}, {"ininfo", "info", "info0"}, {"outinfo", "info", "info0"}, {"err", "bool", "false"}, {"size", "Z", "0"}},
		twoVal: map[string][2]string{
			"infile.Stat": {"fstat_info", "fstat_err"},
			"os.Lstat":    {"(lstat_info %s)", "(lstat_err %s)"},
		}}
	for _, v := range g.vars {
		t.locals[v.goName] = "v_" + v.goName
	}
	g.ret = func(r *ast.ReturnStmt) string {
		if len(r.Results) != 1 {
			return t.fail("unsupported return %s", printNode(t.fset, r))
		}
		txt := printNode(t.fset, r.Results[0])
		if txt == "nil" {
			return "(return_k false)"
		}
		if txt == "err" {
			return "(return_k v_err)"
		}
		if ce, ok := r.Results[0].(*ast.CallExpr); ok && printNode(t.fset, ce.Fun) == "p.applyRewrite" && len(ce.Args) == 2 &&
			printNode(t.fset, ce.Args[0]) == "infile" {
			return "(rewrite_k " + t.expr(ce.Args[1]) + ")"
		}
		return t.fail("unsupported return %s", txt)
	}
	body := g.seq(prefix, "(inplace_k v_outpath v_ininfo v_outinfo v_size)", 0)
	if t.err != nil {
		o.brokenDef(coqName, t.err.Error())
		return
	}
	o.f("Definition %s {info R : Type} (rewrite_k : bytes -> R) (inplace_k : bytes -> info -> info -> Z -> R) (return_k : bool -> R)\n", coqName)
	o.f("  (fstat_info : info) (fstat_err : bool) (lstat_info : bytes -> info) (lstat_err : bytes -> bool)\n")
	o.f("  (can_ow : info -> info -> bool) (isize : info -> Z) (info0 : info) (h_can_write : bool) (h_name outpath : bytes) : R :=\n")
	o.f("  let v_outpath := outpath in let v_ininfo := info0 in let v_outinfo := info0 in let v_err := false in let v_size := 0 in\n  %s.\n", body)
	o.f("(* from lib/binpatch:PatchSet.Apply, statements before the eligibility loop; rewrite_k = return p.applyRewrite(infile, .),\n   inplace_k = control reaches the loop, return_k = any other return *)\n")
}

// c12HasLinks: hasLinks of fileutil_unix.go as a function of (type assertion succeeded, Nlink)
func c12HasLinks(o *out) {
	const d = "lib/binpatch"
	const coqName = "has_links"
	p := loadPkg(d)
	var fd *ast.FuncDecl
	if f, ok := p.files["fileutil_unix.go"]; ok {
		for _, dcl := range f.Decls {
			if x, ok := dcl.(*ast.FuncDecl); ok && x.Name.Name == "hasLinks" && x.Recv == nil {
				fd = x
			}
		}
	}
	if fd == nil {
		o.brokenDef(coqName, "function hasLinks not found in lib/binpatch/fileutil_unix.go")
		return
	}
	fs := funcSpec{dir: d, name: "hasLinks", leaves: map[string]string{"stat.Nlink": "v_stat"}, types: map[string]string{"ok": "bool"}}
	t := o.newTr(p, fs)
	g := &c12Gen{t: t, vars: []c12Var{{"stat", "Z", "0"}, {"ok", "bool", "false"}},
		twoVal: map[string][2]string{"assert:info.Sys().(*syscall.Stat_t)": {"nlink", "sys_ok"}}}
	for _, v := range g.vars {
		t.locals[v.goName] = "v_" + v.goName
	}
	g.ret = func(r *ast.ReturnStmt) string {
		if len(r.Results) != 1 {
			return t.fail("unsupported return")
		}
		return t.expr(r.Results[0])
	}
	body := g.seq(fd.Body.List, "", 0)
	if t.err != nil {
		o.brokenDef(coqName, t.err.Error())
		return
	}
	o.f("Definition %s (sys_ok : bool) (nlink : Z) : bool :=\n  let v_stat := 0 in let v_ok := false in\n  %s.\n(* from lib/binpatch/fileutil_unix.go:hasLinks; sys_ok = info.Sys() is a *syscall.Stat_t, nlink = its Nlink *)\n", coqName, body)
}

// c12AddHeap: what (*PatchSet).Add does with the byte slices themselves (aliasing). Emits
//   add_merge_mode : Z   0 = the coalesced blob is a fresh make([]byte, add_merge_make_len) filled by two copy calls at
//                            destination offsets add_merge_dst1 / add_merge_dst2; 1 = append(lastBlob, blob...) (writes into
//                            the previous blob's backing array when it has spare capacity)
//   add_stores_caller_slice : bool   the non-coalescing path stores the caller's slice itself
//   add_writes_through_caller : bool  some statement writes through blob / lastBlob / p.Blobs[i] (copy destination, index
//                            assignment, or append onto one of them)
// any other shape of the merge is a broken tie: the aliasing model has to be revisited.
func c12AddHeap(o *out) {
	const d = "lib/binpatch"
	p, fd := findFunc(d, "PatchSet", "Add")
	if fd == nil {
		o.brokenDef("add_merge_mode", "function lib/binpatch:PatchSet.Add not found")
		return
	}
	txt := func(n ast.Node) string { return strings.Join(strings.Fields(printNode(p.fset, n)), " ") }
	root := func(e ast.Expr) string { // the slice variable an expression is a view of
		for {
			switch x := e.(type) {
			case *ast.SliceExpr:
				e = x.X
				continue
			case *ast.ParenExpr:
				e = x.X
				continue
			}
			break
		}
		return txt(e)
	}
	callerOwned := func(s string) bool { return s == "blob" || s == "lastBlob" || strings.HasPrefix(s, "p.Blobs[") }
	// ---- writes through caller-owned slices anywhere in Add
	writes := []string{}
	ast.Inspect(fd.Body, func(n ast.Node) bool {
		switch x := n.(type) {
		case *ast.CallExpr:
			if id, ok := x.Fun.(*ast.Ident); ok && len(x.Args) >= 1 {
				if (id.Name == "copy" || id.Name == "append" || id.Name == "clear") && callerOwned(root(x.Args[0])) {
					writes = append(writes, txt(x))
				}
			}
		case *ast.AssignStmt:
			for _, l := range x.Lhs {
				if ix, ok := l.(*ast.IndexExpr); ok && txt(l) != "p.Blobs[i]" && callerOwned(root(ix.X)) {
					writes = append(writes, txt(x))
				}
			}
		}
		return true
	})
	o.f("Definition add_writes_through_caller : bool := %v. (* lib/binpatch:PatchSet.Add statements writing through blob/lastBlob/p.Blobs[i]: %s *)\n",
		len(writes) > 0, strings.Join(writes, " ; "))
	// ---- the non-coalescing store
	stores := false
	ast.Inspect(fd.Body, func(n ast.Node) bool {
		if st, ok := n.(ast.Stmt); ok && txt(st) == "p.Blobs = append(p.Blobs, blob)" {
			stores = true
		}
		return true
	})
	if !stores {
		o.brokenDef("add_stores_caller_slice", "Add no longer contains `p.Blobs = append(p.Blobs, blob)`")
	} else {
		o.f("Definition add_stores_caller_slice : bool := true. (* lib/binpatch:PatchSet.Add contains `p.Blobs = append(p.Blobs, blob)` *)\n")
	}
	// ---- the merge in the coalesce branch
	var block *ast.BlockStmt
	var asg *ast.AssignStmt
	nasg := 0
	ast.Inspect(fd.Body, func(n ast.Node) bool {
		if b, ok := n.(*ast.BlockStmt); ok {
			for _, s := range b.List {
				if a, ok := s.(*ast.AssignStmt); ok && len(a.Lhs) == 1 && txt(a.Lhs[0]) == "p.Blobs[i]" {
					block, asg = b, a
					nasg++
				}
			}
		}
		return true
	})
	if nasg != 1 || len(asg.Rhs) != 1 {
		o.brokenDef("add_merge_mode", fmt.Sprintf("%d assignments to p.Blobs[i] in Add (expected 1)", nasg))
		return
	}
	rhs := txt(asg.Rhs[0])
	if rhs == "append(lastBlob, blob...)" && len(block.List) == 1 {
		o.f("Definition add_merge_mode : Z := 1. (* lib/binpatch:PatchSet.Add : p.Blobs[i] = append(lastBlob, blob...) *)\n")
		o.f("Definition add_merge_make_len (last_new new_len new_combo : Z) : Z := 0.\nDefinition add_merge_dst1 (last_new new_len : Z) : Z := 0.\nDefinition add_merge_dst2 (last_new new_len : Z) : Z := 0.\n")
	} else {
		id, ok := asg.Rhs[0].(*ast.Ident)
		if !ok || len(block.List) != 4 {
			o.brokenDef("add_merge_mode", "unrecognised construction of the coalesced blob: "+txt(block))
			return
		}
		mk, ok0 := block.List[0].(*ast.AssignStmt)
		c1, ok1 := block.List[1].(*ast.ExprStmt)
		c2, ok2 := block.List[2].(*ast.ExprStmt)
		if !ok0 || !ok1 || !ok2 || block.List[3] != ast.Stmt(asg) || mk.Tok != token.DEFINE || len(mk.Lhs) != 1 || txt(mk.Lhs[0]) != id.Name {
			o.brokenDef("add_merge_mode", "unrecognised construction of the coalesced blob: "+txt(block))
			return
		}
		mkc, okm := mk.Rhs[0].(*ast.CallExpr)
		if !okm || txt(mkc.Fun) != "make" || len(mkc.Args) != 2 || txt(mkc.Args[0]) != "[]byte" {
			o.brokenDef("add_merge_mode", "coalesced blob is not a fresh make([]byte, n): "+txt(mk))
			return
		}
		fs := funcSpec{dir: d, recv: "PatchSet", name: "Add", leaves: map[string]string{
			"len(lastBlob)": "last_new", "len(blob)": "new_len", "newCombo": "new_combo"}}
		// destination offset and source of one copy call: copy(X[lo:], src) / copy(X, src)
		cp := func(s *ast.ExprStmt, wantSrc string) (string, bool) {
			ce, ok := s.X.(*ast.CallExpr)
			if !ok || txt(ce.Fun) != "copy" || len(ce.Args) != 2 || txt(ce.Args[1]) != wantSrc {
				return "", false
			}
			switch dst := ce.Args[0].(type) {
			case *ast.Ident:
				if dst.Name == id.Name {
					return "0", true
				}
			case *ast.SliceExpr:
				if txt(dst.X) == id.Name && dst.High == nil && dst.Max == nil && dst.Low != nil {
					t := o.newTr(p, fs)
					e := t.expr(dst.Low)
					if t.err == nil {
						return e, true
					}
				}
			}
			return "", false
		}
		d1, okc1 := cp(c1, "lastBlob")
		d2, okc2 := cp(c2, "blob")
		t := o.newTr(p, fs)
		ml := t.expr(mkc.Args[1])
		if !okc1 || !okc2 || t.err != nil {
			o.brokenDef("add_merge_mode", "unrecognised copy statements building the coalesced blob: "+txt(block))
			return
		}
		o.f("Definition add_merge_mode : Z := 0. (* lib/binpatch:PatchSet.Add : %s *)\n", txt(block))
		o.f("Definition add_merge_make_len (last_new new_len new_combo : Z) : Z := %s.\n", ml)
		o.f("Definition add_merge_dst1 (last_new new_len : Z) : Z := %s.\n", d1)
		o.f("Definition add_merge_dst2 (last_new new_len : Z) : Z := %s.\n", d2)
	}
	o.condOf(funcSpec{dir: d, recv: "PatchSet", name: "Add", coqName: "add_merge_guard",
		params: "(new_len : Z)", retType: "bool", leaves: map[string]string{"len(blob)": "new_len"}}, "if:len(blob)")
}

func init() {
	generators["C12_gen"] = func(o *out) {
		const d = "lib/binpatch"
		o.constInt(d, "uint32Max", "uint32Max")
		o.structLayout(d, "PatchSetHeader", "psh")
		o.structLayout(d, "PatchHeader", "ph")
		addLeaves := map[string]string{
			"last.Offset": "last_off", "last.OldSize": "last_old", "len(lastBlob)": "last_new",
			"len(blob)": "new_len", "oldSize": "old_size", "offset": "offset",
			"lastEnd": "last_end", "oldCombo": "old_combo", "newCombo": "new_combo",
		}
		o.exprOfAssign(funcSpec{dir: d, recv: "PatchSet", name: "Add", coqName: "add_last_end",
			params: "(last_off last_old : Z)", retType: "Z", leaves: addLeaves}, "lastEnd", 0)
		o.exprOfAssign(funcSpec{dir: d, recv: "PatchSet", name: "Add", coqName: "add_old_combo",
			params: "(last_old old_size : Z)", retType: "Z", leaves: addLeaves}, "oldCombo", 0)
		o.exprOfAssign(funcSpec{dir: d, recv: "PatchSet", name: "Add", coqName: "add_new_combo",
			params: "(last_new new_len : Z)", retType: "Z", leaves: addLeaves}, "newCombo", 0)
		o.condOf(funcSpec{dir: d, recv: "PatchSet", name: "Add", coqName: "add_coalesce_cond",
			params: "(offset last_end old_combo new_combo old_size new_len last_off last_old last_new : Z)", retType: "bool", leaves: addLeaves}, "if:lastEnd")
		o.condOf(funcSpec{dir: d, recv: "PatchSet", name: "Add", coqName: "add_split_cond",
			params: "(old_size : Z)", retType: "bool", leaves: addLeaves}, "for:oldSize", 0)
		o.condOf(funcSpec{dir: d, recv: "", name: "Load", coqName: "load_version_bad",
			params: "(version : Z)", retType: "bool", leaves: map[string]string{"h.Version": "version"}}, "h.Version")
		apLeaves := map[string]string{
			"patch.OldSize": "p_old", "patch.NewSize": "p_new", "patch.Offset": "p_off",
			"i": "i", "len(p.Patches)": "n", "oldEnd": "old_end", "ininfo.Size()": "in_size",
		}
		o.condOf(funcSpec{dir: d, recv: "PatchSet", name: "Apply", coqName: "apply_same_size",
			params: "(p_old p_new : Z)", retType: "bool", leaves: apLeaves}, "patch.NewSize")
		o.condOf(funcSpec{dir: d, recv: "PatchSet", name: "Apply", coqName: "apply_not_last",
			params: "(i n : Z)", retType: "bool", leaves: apLeaves}, "len(p.Patches)")
		o.exprOfAssign(funcSpec{dir: d, recv: "PatchSet", name: "Apply", coqName: "apply_old_end",
			params: "(p_off p_old : Z)", retType: "Z", leaves: apLeaves}, "oldEnd", 0)
		o.condOf(funcSpec{dir: d, recv: "PatchSet", name: "Apply", coqName: "apply_not_at_eof",
			params: "(old_end in_size : Z)", retType: "bool", leaves: apLeaves}, "oldEnd")
		o.exprOfAssign(funcSpec{dir: d, recv: "PatchSet", name: "Apply", coqName: "apply_new_size",
			params: "(p_off p_new : Z)", retType: "Z", leaves: apLeaves}, "size", 1)
		o.decisionFunc(funcSpec{dir: d, recv: "", name: "canOverwrite", coqName: "can_overwrite",
			params: "(is_regular same_file has_links : bool)", retType: "bool",
			leaves: map[string]string{"outinfo.Mode().IsRegular()": "is_regular",
				"os.SameFile(ininfo, outinfo)": "same_file", "hasLinks(outinfo)": "has_links"}})
		// the strategy choice as a function of what the handle and the output path refer to (file-system history)
		o.decisionFunc(funcSpec{dir: d, recv: "", name: "canOverwrite", coqName: "can_overwrite_io",
			params: "(in_regular out_regular same_file in_links out_links : bool)", retType: "bool",
			leaves: map[string]string{"outinfo.Mode().IsRegular()": "out_regular", "ininfo.Mode().IsRegular()": "in_regular",
				"os.SameFile(ininfo, outinfo)": "same_file", "os.SameFile(outinfo, ininfo)": "same_file",
				"hasLinks(outinfo)": "out_links", "hasLinks(ininfo)": "in_links"}})
		c12HasLinks(o)
		c12ApplyPrefix(o)
		c12AddHeap(o)
		o.hasStmt(d, "PatchSet", "Apply", "if _, err := infile.WriteAt(p.Blobs[i], patch.Offset); err != nil { return err }", "apply_writes_handle")
		o.hasStmt(d, "PatchSet", "Apply", "return infile.Truncate(size)", "apply_truncates")
		o.hasStmt(d, "PatchSet", "applyRewrite", "if _, err := infile.Seek(0, 0); err != nil { return err }", "rewrite_seeks_start")
		o.hasStmt(d, "PatchSet", "applyRewrite", "return outfile.Commit()", "rewrite_returns_commit")
		rwLeaves := map[string]string{"delta": "delta"}
		o.condOf(funcSpec{dir: d, recv: "PatchSet", name: "applyRewrite", coqName: "rewrite_out_of_order",
			params: "(delta : Z)", retType: "bool", leaves: rwLeaves}, "delta", 0)
		o.condOf(funcSpec{dir: d, recv: "PatchSet", name: "applyRewrite", coqName: "rewrite_copy_before",
			params: "(delta : Z)", retType: "bool", leaves: rwLeaves}, "delta", 1)
		for _, fn := range []string{"Add", "Dump", "Apply", "applyRewrite"} {
			fingerprint(d, "PatchSet", fn)
		}
		fingerprint(d, "", "Load")
		fingerprint(d, "sorter", "Less")
	}
}
