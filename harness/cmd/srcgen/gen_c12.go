package main

func init() {
	generators["C12_gen"] = func(o *out) {
		const d = "lib/binpatch"
		o.constInt(d, "uint32Max", "uint32Max")
		o.structLayout(d, "PatchSetHeader", "psh")
		o.structLayout(d, "PatchHeader", "ph")
		addLeaves := map[string]string{
			"last.Offset": "last_off", "last.OldSize": "last_old", "len(lastBlob)": "last_new",
			"len(blob)": "new_len", "oldSize": "old_size", "offset": "offset",
			"lastEnd": "last_end", "oldCombo": "old_combo", "newCombo": "new_combo",
		}
		o.exprOfAssign(funcSpec{dir: d, recv: "PatchSet", name: "Add", coqName: "add_last_end",
			params: "(last_off last_old : Z)", retType: "Z", leaves: addLeaves}, "lastEnd", 0)
		o.exprOfAssign(funcSpec{dir: d, recv: "PatchSet", name: "Add", coqName: "add_old_combo",
			params: "(last_old old_size : Z)", retType: "Z", leaves: addLeaves}, "oldCombo", 0)
		o.exprOfAssign(funcSpec{dir: d, recv: "PatchSet", name: "Add", coqName: "add_new_combo",
			params: "(last_new new_len : Z)", retType: "Z", leaves: addLeaves}, "newCombo", 0)
		o.condOf(funcSpec{dir: d, recv: "PatchSet", name: "Add", coqName: "add_coalesce_cond",
			params: "(offset last_end old_combo new_combo old_size new_len last_off last_old last_new : Z)", retType: "bool", leaves: addLeaves}, "if:lastEnd")
		o.condOf(funcSpec{dir: d, recv: "PatchSet", name: "Add", coqName: "add_split_cond",
			params: "(old_size : Z)", retType: "bool", leaves: addLeaves}, "for:oldSize", 0)
		o.condOf(funcSpec{dir: d, recv: "", name: "Load", coqName: "load_version_bad",
			params: "(version : Z)", retType: "bool", leaves: map[string]string{"h.Version": "version"}}, "h.Version")
		apLeaves := map[string]string{
			"patch.OldSize": "p_old", "patch.NewSize": "p_new", "patch.Offset": "p_off",
			"i": "i", "len(p.Patches)": "n", "oldEnd": "old_end", "ininfo.Size()": "in_size",
		}
		o.condOf(funcSpec{dir: d, recv: "PatchSet", name: "Apply", coqName: "apply_same_size",
			params: "(p_old p_new : Z)", retType: "bool", leaves: apLeaves}, "patch.NewSize")
		o.condOf(funcSpec{dir: d, recv: "PatchSet", name: "Apply", coqName: "apply_not_last",
			params: "(i n : Z)", retType: "bool", leaves: apLeaves}, "len(p.Patches)")
		o.exprOfAssign(funcSpec{dir: d, recv: "PatchSet", name: "Apply", coqName: "apply_old_end",
			params: "(p_off p_old : Z)", retType: "Z", leaves: apLeaves}, "oldEnd", 0)
		o.condOf(funcSpec{dir: d, recv: "PatchSet", name: "Apply", coqName: "apply_not_at_eof",
			params: "(old_end in_size : Z)", retType: "bool", leaves: apLeaves}, "oldEnd")
		o.exprOfAssign(funcSpec{dir: d, recv: "PatchSet", name: "Apply", coqName: "apply_new_size",
			params: "(p_off p_new : Z)", retType: "Z", leaves: apLeaves}, "size", 1)
		o.decisionFunc(funcSpec{dir: d, recv: "", name: "canOverwrite", coqName: "can_overwrite",
			params: "(is_regular same_file has_links : bool)", retType: "bool",
			leaves: map[string]string{"outinfo.Mode().IsRegular()": "is_regular",
				"os.SameFile(ininfo, outinfo)": "same_file", "hasLinks(outinfo)": "has_links"}})
		rwLeaves := map[string]string{"delta": "delta"}
		o.condOf(funcSpec{dir: d, recv: "PatchSet", name: "applyRewrite", coqName: "rewrite_out_of_order",
			params: "(delta : Z)", retType: "bool", leaves: rwLeaves}, "delta", 0)
		o.condOf(funcSpec{dir: d, recv: "PatchSet", name: "applyRewrite", coqName: "rewrite_copy_before",
			params: "(delta : Z)", retType: "bool", leaves: rwLeaves}, "delta", 1)
		for _, fn := range []string{"Add", "Dump", "Apply", "applyRewrite"} {
			fingerprint(d, "PatchSet", fn)
		}
		fingerprint(d, "", "Load")
		fingerprint(d, "sorter", "Less")
	}
}
