package main

import (
	"fmt"
	"go/ast"
	"go/token"
	"strconv"
	"strings"
)

// ---------------------------------------------------------------------------------------------------------------
// c13Script: the ordered "script" of a function that performs an output phase.
//
// For every call whose printed callee is one of `names` (exact text, so infile.Seek and outfile.Seek are distinct)
// one entry (callee, kind, depth, cnd) is emitted in source order:
//   callee  index into names
//   kind    how the error result of the call is handled by the code around it
//             0  ignored (expression statement, `_ = f()`, `_, _ = f()`)
//             1  checked and propagated: `if err != nil { return ... }` directly after it, `if ..., err := f(); err != nil
//                { return ... }`, `return f()`, or `err = f()` checked by the first statement after the enclosing if/else
//             2  checked; the error block first calls <x>.Close() (explicit cleanup) and then returns
//             3  checked by a block that does something else (its calls follow as entries under a fresh condition id)
//             5  result bound to a variable that is not checked before the function goes on (treated as ignored)
//             6  checked, but the block returns no error (`return x, nil`, or the function has no error result): the failure is
//                turned into an ordinary result (getSize: -1 = size unknown)
//             7  not a call: an assignment statement listed as "stmt:<text>" (its position matters, e.g. `f.File = nil`)
//             9  the call is deferred (`defer x.Close()`)
//   depth   number of enclosing for/range statements
//   cnd     the enclosing plain if statements (not error checks), outermost first: 2*j for the then-branch and 2*j+1 for
//           the else-branch of the j-th (1-based, source order) plain if of the function
// Calls inside an error block of kind 1/2 are clean-up, not steps, and are not listed.
// ---------------------------------------------------------------------------------------------------------------

type c13Entry struct {
	callee, kind, depth int
	cnd                 []int
	text                string
}

type c13Walker struct {
	p       *pkgInfo
	names   []string
	entries []c13Entry
	ifID    int
	noError bool // the function has no result of type error: a `return` in an error block cannot propagate the error
}

func (w *c13Walker) match(e ast.Expr) int {
	ce, ok := e.(*ast.CallExpr)
	if !ok {
		return -1
	}
	callee := printNode(w.p.fset, ce.Fun)
	for i, n := range w.names {
		if callee == n {
			return i
		}
	}
	return -1
}

// a name "stmt:<text>" lists the assignment statement with exactly that printed text (kind 7: a statement, not a call)
func (w *c13Walker) matchStmt(s ast.Stmt) int {
	txt := strings.Join(strings.Fields(printNode(w.p.fset, s)), " ")
	for i, n := range w.names {
		if strings.HasPrefix(n, "stmt:") && n[5:] == txt {
			return i
		}
	}
	return -1
}

func (w *c13Walker) isErrCheck(is *ast.IfStmt) bool {
	return strings.Contains(printNode(w.p.fset, is.Cond), "err != nil")
}

// classifyBlock: kind of an `if err != nil {...}` block
func (w *c13Walker) classifyBlock(is *ast.IfStmt) int {
	hasClose, hasReturn, other := false, false, false
	for _, b := range is.Body.List {
		switch x := b.(type) {
		case *ast.ReturnStmt:
			hasReturn = true
		case *ast.ExprStmt:
			if ce, ok := x.X.(*ast.CallExpr); ok && strings.HasSuffix(printNode(w.p.fset, ce.Fun), ".Close") {
				hasClose = true
			} else {
				other = true
			}
		default:
			other = true
		}
	}
	lastRet, lastIsReturn := is.Body.List[len(is.Body.List)-1].(*ast.ReturnStmt)
	// `return x, nil` inside an error block: the failure is turned into an ordinary result, not propagated
	returnsNil := lastIsReturn && len(lastRet.Results) > 0 && printNode(w.p.fset, lastRet.Results[len(lastRet.Results)-1]) == "nil"
	switch {
	case other || !hasReturn || !lastIsReturn:
		return 3
	case w.noError || returnsNil:
		return 6
	case hasClose:
		return 2
	default:
		return 1
	}
}

func allBlank(lhs []ast.Expr) bool {
	for _, l := range lhs {
		if id, ok := l.(*ast.Ident); !ok || id.Name != "_" {
			return false
		}
	}
	return true
}

func (w *c13Walker) add(callee, kind, depth int, cnd []int, n ast.Node) {
	w.entries = append(w.entries, c13Entry{callee, kind, depth, append([]int{}, cnd...), strings.Join(strings.Fields(printNode(w.p.fset, n)), " ")})
}

// walk a statement list; follow = the statements after the enclosing statement (used for `err = f()` checked later)
func (w *c13Walker) walk(list []ast.Stmt, follow []ast.Stmt, depth int, cnd []int) {
	for idx := 0; idx < len(list); idx++ {
		s := list[idx]
		rest := list[idx+1:]
		next := rest
		if len(next) == 0 {
			next = follow
		}
		switch x := s.(type) {
		case *ast.ExprStmt:
			if c := w.match(x.X); c >= 0 {
				w.add(c, 0, depth, cnd, x.X)
			}
		case *ast.DeferStmt:
			if c := w.match(x.Call); c >= 0 {
				w.add(c, 9, depth, cnd, x.Call)
			}
		case *ast.AssignStmt:
			if c := w.matchStmt(x); c >= 0 {
				w.add(c, 7, depth, cnd, x)
				continue
			}
			if len(x.Rhs) != 1 {
				continue
			}
			c := w.match(x.Rhs[0])
			if c < 0 {
				continue
			}
			if allBlank(x.Lhs) {
				w.add(c, 0, depth, cnd, x.Rhs[0])
				continue
			}
			kind := 5
			var chk *ast.IfStmt
			if len(next) > 0 {
				if is, ok := next[0].(*ast.IfStmt); ok && is.Init == nil && w.isErrCheck(is) {
					kind = w.classifyBlock(is)
					chk = is
				}
			}
			w.add(c, kind, depth, cnd, x.Rhs[0])
			if chk != nil && len(rest) > 0 {
				idx++ // the check directly follows in this list: consumed
				if kind == 3 {
					w.ifID++
					w.walk(chk.Body.List, rest[1:], depth, append(append([]int{}, cnd...), 2*w.ifID))
				}
			}
		case *ast.IfStmt:
			if as, ok := x.Init.(*ast.AssignStmt); ok && len(as.Rhs) == 1 && w.match(as.Rhs[0]) >= 0 {
				c := w.match(as.Rhs[0])
				if w.isErrCheck(x) {
					kind := w.classifyBlock(x)
					w.add(c, kind, depth, cnd, as.Rhs[0])
					if kind == 3 {
						w.ifID++
						w.walk(x.Body.List, next, depth, append(append([]int{}, cnd...), 2*w.ifID))
					}
				} else {
					w.add(c, 5, depth, cnd, as.Rhs[0])
				}
				continue
			}
			if x.Init == nil && w.isErrCheck(x) {
				// an error check whose call is not a listed one (or was listed by the assignment before it)
				continue
			}
			w.ifID++
			id := w.ifID
			w.walk(x.Body.List, next, depth, append(append([]int{}, cnd...), 2*id))
			switch e := x.Else.(type) {
			case *ast.BlockStmt:
				w.walk(e.List, next, depth, append(append([]int{}, cnd...), 2*id+1))
			case *ast.IfStmt:
				w.walk([]ast.Stmt{e}, next, depth, append(append([]int{}, cnd...), 2*id+1))
			}
		case *ast.ForStmt:
			w.walk(x.Body.List, nil, depth+1, cnd)
		case *ast.RangeStmt:
			w.walk(x.Body.List, nil, depth+1, cnd)
		case *ast.BlockStmt:
			w.walk(x.List, next, depth, cnd)
		case *ast.ReturnStmt:
			for _, r := range x.Results {
				if c := w.match(r); c >= 0 {
					w.add(c, 1, depth, cnd, r)
				}
			}
		}
	}
}

func (o *out) c13Script(dir, recv, name, coqName string, names []string) {
	p, fd := findFunc(dir, recv, name)
	if fd == nil {
		o.brokenDef(coqName, "function "+dir+":"+recv+"."+name+" not found")
		return
	}
	w := &c13Walker{p: p, names: names, noError: true}
	if fd.Type.Results != nil {
		for _, r := range fd.Type.Results.List {
			if id, ok := r.Type.(*ast.Ident); ok && id.Name == "error" {
				w.noError = false
			}
		}
	}
	w.walk(fd.Body.List, nil, 0, nil)
	var parts, descr []string
	for _, e := range w.entries {
		var cs []string
		for _, c := range e.cnd {
			cs = append(cs, fmt.Sprint(c))
		}
		parts = append(parts, fmt.Sprintf("(%d, %d, %d, [%s])", e.callee, e.kind, e.depth, strings.Join(cs, "; ")))
		descr = append(descr, fmt.Sprintf("%s/%d", w.names[e.callee], e.kind))
	}
	if len(parts) == 0 {
		o.brokenDef(coqName, "no listed call found in "+dir+":"+recv+"."+name)
		return
	}
	o.f("Definition %s : list (Z * Z * Z * list Z) :=\n  [%s].\n(* %s:%s.%s script: %s ; callee index into [%s] *)\n", coqName, strings.Join(parts, ";\n   "), dir, recv, name,
		strings.Join(descr, " "), strings.Join(names, " "))
}

// c13CallArg: is the printed n-th argument of the first call to `callee` in the function exactly `want`?
func (o *out) c13CallArg(dir, recv, name, callee string, n int, want, coqName string) {
	p, fd := findFunc(dir, recv, name)
	if fd == nil {
		o.brokenDef(coqName, "function "+dir+":"+recv+"."+name+" not found")
		return
	}
	got, found := "", false
	ast.Inspect(fd.Body, func(nd ast.Node) bool {
		if ce, ok := nd.(*ast.CallExpr); ok && !found && printNode(p.fset, ce.Fun) == callee && len(ce.Args) > n {
			got, found = strings.Join(strings.Fields(printNode(p.fset, ce.Args[n])), ""), true
		}
		return !found
	})
	if !found {
		o.brokenDef(coqName, "no call to "+callee+" in "+name)
		return
	}
	o.f("Definition %s : bool := %v. (* %s:%s.%s : argument %d of %s is `%s` *)\n", coqName, got == strings.Join(strings.Fields(want), ""), dir, recv, name, n, callee, got)
}

// c13Decision: decisionFunc for bodies that contain `if x, err := f(); cond {` (the init statement is dropped; the
// condition's leaves are supplied by the caller) — the statement list is translated by the shared translator.
func (o *out) c13Decision(fs funcSpec) {
	p, fd := findFunc(fs.dir, fs.recv, fs.name)
	if fd == nil {
		o.brokenDef(fs.coqName, "function "+fs.dir+":"+fs.recv+"."+fs.name+" not found")
		return
	}
	var strip func(list []ast.Stmt) []ast.Stmt
	strip = func(list []ast.Stmt) []ast.Stmt {
		var outl []ast.Stmt
		for _, s := range list {
			if is, ok := s.(*ast.IfStmt); ok {
				cp := *is
				cp.Init = nil
				body := *is.Body
				body.List = strip(is.Body.List)
				cp.Body = &body
				if eb, ok := is.Else.(*ast.BlockStmt); ok {
					e2 := *eb
					e2.List = strip(eb.List)
					cp.Else = &e2
				}
				outl = append(outl, &cp)
			} else {
				outl = append(outl, s)
			}
		}
		return outl
	}
	t := o.newTr(p, fs)
	body := t.stmts(strip(fd.Body.List), "")
	if t.err != nil {
		o.brokenDef(fs.coqName, t.err.Error())
		return
	}
	o.f("Definition %s %s : %s :=\n  %s.\n(* from %s:%s.%s *)\n", fs.coqName, fs.params, fs.retType, body, fs.dir, fs.recv, fs.name)
}

// ---------------------------------------------------------------------------------------------------------------
// c13OpenTree: the body of a function that hands out an output handle (atomicfile.WriteAny, atomicfile.New) as a decision
// tree `otree` (declared in the generated file itself, see c13OpenPreamble):
//   ORet h e                        return h, e
//   OIf c th el                     if c {th} else {el}; statements after the if continue both branches that fall through
//   OCall fn target flags hv ev k   hv, ev := <fn>(<target>, flags); k        (-1: result not bound / dropped)
//   OBind hv h k                    hv := <handle expression>; k
// fn:     0 New  1 ioutil.TempFile / os.CreateTemp  2 os.Create  3 os.OpenFile  4 os.Open  5 os.Remove  6 os.Truncate
// target: 0 the function's own path parameter (the destination)   1 the sibling temporary (Dir(p), Base(p)+".tmp")
// flags:  the Linux open(2) flags the call passes (O_WRONLY 1, O_RDWR 2, O_CREAT 64, O_EXCL 128, O_TRUNC 512, O_APPEND 1024)
// Every call that is not listed, every statement form that is not listed, and every call on a path other than the two
// targets is a broken tie: the model interprets the tree (C13/Stage.v), so a fallback branch, a changed flag, a dropped
// error or a moved guard changes the generated term and with it the plans the theorems quantify over.
// ---------------------------------------------------------------------------------------------------------------
const c13OpenPreamble = `(* the decision-tree language of the open phase (see c13OpenTree in gen_c13.go) *)
Inductive ohandle := HNil | HStdout (do_close : bool) | HDirect (v : Z) (do_close : bool) | HAtomic (v : Z) | HVar (v : Z).
Inductive oerr := ENone | EOf (v : Z) | ENew.
Inductive ocond := OCDash | OCSpecial | OCErr (v : Z) (nonnil : bool) | OCNot (c : ocond) | OCAnd (a b : ocond) | OCOr (a b : ocond) | OCOpaque (k : Z).
Inductive otree :=
| ORet (h : ohandle) (e : oerr)
| OIf (c : ocond) (th el : otree)
| OCall (fn target flags hv ev : Z) (k : otree)
| OBind (hv : Z) (h : ohandle) (k : otree)
| OStuck.
`

type otTr struct {
	p      *pkgInfo
	param  string // name of the path parameter
	vars   map[string]int
	names  []string
	opaque []string
	fresh  int
	err    error
}

func (t *otTr) failf(format string, a ...interface{}) string {
	if t.err == nil {
		t.err = fmt.Errorf(format, a...)
	}
	return "OStuck"
}

func (t *otTr) text(n ast.Node) string { return strings.Join(strings.Fields(printNode(t.p.fset, n)), " ") }

func (t *otTr) varOf(name string) int {
	if name == "_" {
		return -1
	}
	if v, ok := t.vars[name]; ok {
		return v
	}
	v := len(t.names)
	t.vars[name] = v
	t.names = append(t.names, name)
	return v
}

func (t *otTr) freshVar(prefix string) int {
	t.fresh++
	return t.varOf(fmt.Sprintf("%s#%d", prefix, t.fresh))
}

func c13zlit(v int) string {
	if v < 0 {
		return fmt.Sprintf("(%d)", v)
	}
	return fmt.Sprint(v)
}

var c13OpenFlags = map[string]int{"os.O_RDONLY": 0, "os.O_WRONLY": 1, "os.O_RDWR": 2, "os.O_CREATE": 64, "os.O_EXCL": 128, "os.O_TRUNC": 512,
	"os.O_APPEND": 1024, "os.O_SYNC": 1052672, "syscall.O_RDONLY": 0, "syscall.O_WRONLY": 1, "syscall.O_RDWR": 2, "syscall.O_CREAT": 64,
	"syscall.O_EXCL": 128, "syscall.O_TRUNC": 512, "syscall.O_APPEND": 1024}

func (t *otTr) flagsOf(e ast.Expr) (int, bool) {
	switch x := e.(type) {
	case *ast.ParenExpr:
		return t.flagsOf(x.X)
	case *ast.BinaryExpr:
		if x.Op == token.OR || x.Op == token.ADD {
			a, ok1 := t.flagsOf(x.X)
			b, ok2 := t.flagsOf(x.Y)
			return a | b, ok1 && ok2
		}
	case *ast.BasicLit:
		if v, err := strconv.ParseInt(x.Value, 0, 64); err == nil {
			return int(v), true
		}
	default:
		if v, ok := c13OpenFlags[t.text(e)]; ok {
			return v, true
		}
	}
	return 0, false
}

// call: (fn, target, flags) of a listed call, ok=false when the call is not one the language knows
func (t *otTr) call(ce *ast.CallExpr) (fn, target, flags int, ok bool) {
	callee := t.text(ce.Fun)
	arg := func(i int) string {
		if i < len(ce.Args) {
			return strings.ReplaceAll(t.text(ce.Args[i]), " ", "")
		}
		return ""
	}
	onDest := func() bool { return arg(0) == t.param }
	switch callee {
	case "New", "atomicfile.New":
		return 0, 0, 0, onDest()
	case "ioutil.TempFile", "os.CreateTemp":
		if arg(0) == "filepath.Dir("+t.param+")" && arg(1) == "filepath.Base("+t.param+")+\".tmp\"" {
			return 1, 1, 2 | 64 | 128, true
		}
		return 1, 2, 0, false
	case "os.Create":
		return 2, 0, 2 | 64 | 512, onDest()
	case "os.OpenFile":
		if len(ce.Args) < 2 {
			return 3, 0, 0, false
		}
		fl, fok := t.flagsOf(ce.Args[1])
		return 3, 0, fl, onDest() && fok
	case "os.Open":
		return 4, 0, 0, onDest()
	case "os.Remove":
		return 5, 0, 0, onDest()
	case "os.Truncate":
		return 6, 0, 0, onDest()
	}
	return -1, 0, 0, false
}

func (t *otTr) handle(e ast.Expr) string {
	switch x := e.(type) {
	case *ast.ParenExpr:
		return t.handle(x.X)
	case *ast.Ident:
		if x.Name == "nil" {
			return "HNil"
		}
		if _, ok := t.vars[x.Name]; ok {
			return fmt.Sprintf("(HVar %d)", t.vars[x.Name])
		}
	case *ast.UnaryExpr:
		if x.Op == token.AND {
			return t.handle(x.X)
		}
	case *ast.CompositeLit:
		ty := t.text(x.Type)
		var elts []ast.Expr
		for _, el := range x.Elts {
			if kv, ok := el.(*ast.KeyValueExpr); ok {
				elts = append(elts, kv.Value)
			} else {
				elts = append(elts, el)
			}
		}
		if len(elts) == 2 {
			first := t.text(elts[0])
			switch ty {
			case "nopAtomic":
				dc := t.text(elts[1])
				if dc == "true" || dc == "false" {
					if first == "os.Stdout" {
						return fmt.Sprintf("(HStdout %s)", dc)
					}
					if v, ok := t.vars[first]; ok {
						return fmt.Sprintf("(HDirect %d %s)", v, dc)
					}
				}
			case "atomicFile":
				if v, ok := t.vars[first]; ok && t.text(elts[1]) == t.param {
					return fmt.Sprintf("(HAtomic %d)", v)
				}
			}
		}
	}
	t.failf("unsupported handle expression %s", t.text(e))
	return "HNil"
}

func (t *otTr) errExpr(e ast.Expr) string {
	switch x := e.(type) {
	case *ast.Ident:
		if x.Name == "nil" {
			return "ENone"
		}
		if v, ok := t.vars[x.Name]; ok {
			return fmt.Sprintf("(EOf %d)", v)
		}
	case *ast.CallExpr:
		c := t.text(x.Fun)
		if c == "errors.New" || c == "fmt.Errorf" {
			return "ENew"
		}
	}
	t.failf("unsupported error expression %s", t.text(e))
	return "ENone"
}

func (t *otTr) opaqueOf(e ast.Expr) string {
	txt := t.text(e)
	for i, o := range t.opaque {
		if o == txt {
			return fmt.Sprintf("(OCOpaque %d)", i)
		}
	}
	t.opaque = append(t.opaque, txt)
	return fmt.Sprintf("(OCOpaque %d)", len(t.opaque)-1)
}

func (t *otTr) cond(e ast.Expr) string {
	switch x := e.(type) {
	case *ast.ParenExpr:
		return t.cond(x.X)
	case *ast.UnaryExpr:
		if x.Op == token.NOT {
			return "(OCNot " + t.cond(x.X) + ")"
		}
	case *ast.CallExpr:
		if t.text(x.Fun) == "isSpecial" && len(x.Args) == 1 && t.text(x.Args[0]) == t.param {
			return "OCSpecial"
		}
	case *ast.BinaryExpr:
		switch x.Op {
		case token.LAND:
			return "(OCAnd " + t.cond(x.X) + " " + t.cond(x.Y) + ")"
		case token.LOR:
			return "(OCOr " + t.cond(x.X) + " " + t.cond(x.Y) + ")"
		case token.EQL, token.NEQ:
			a, b := t.text(x.X), t.text(x.Y)
			if a == "nil" {
				a, b = b, a
			}
			if v, ok := t.vars[a]; ok && b == "nil" {
				if x.Op == token.NEQ {
					return fmt.Sprintf("(OCErr %d true)", v)
				}
				return fmt.Sprintf("(OCErr %d false)", v)
			}
			if (a == t.param && b == `"-"`) || (b == t.param && a == `"-"`) {
				if x.Op == token.EQL {
					return "OCDash"
				}
				return "(OCNot OCDash)"
			}
		}
	}
	return t.opaqueOf(e)
}

// stmts: the tree of a statement list; rest = the tree of what follows when the list falls through
func (t *otTr) stmts(list []ast.Stmt, rest string) string {
	if len(list) == 0 {
		return rest
	}
	s, tail := list[0], list[1:]
	switch x := s.(type) {
	case *ast.ReturnStmt:
		if len(x.Results) == 1 {
			if ce, ok := x.Results[0].(*ast.CallExpr); ok {
				fn, target, flags, ok := t.call(ce)
				if !ok {
					return t.failf("unsupported call %s", t.text(ce))
				}
				hv, ev := t.freshVar("ret"), t.freshVar("reterr")
				return fmt.Sprintf("(OCall %d %d %d %d %d (ORet (HVar %d) (EOf %d)))", fn, target, flags, hv, ev, hv, ev)
			}
		}
		if len(x.Results) != 2 {
			return t.failf("unsupported return %s", t.text(x))
		}
		return "(ORet " + t.handle(x.Results[0]) + " " + t.errExpr(x.Results[1]) + ")"
	case *ast.IfStmt:
		cont := t.stmts(tail, rest)
		build := func() string {
			c := t.cond(x.Cond)
			th := t.stmts(x.Body.List, cont)
			el := cont
			switch e := x.Else.(type) {
			case *ast.BlockStmt:
				el = t.stmts(e.List, cont)
			case *ast.IfStmt:
				el = t.stmts([]ast.Stmt{e}, cont)
			}
			return "(OIf " + c + " " + th + " " + el + ")"
		}
		if x.Init != nil {
			// `if x, err := f(); cond {...}`: the assignment, then the if (the variables stay visible: harmless here)
			return t.assign(x.Init, build)
		}
		return build()
	case *ast.AssignStmt:
		return t.assign(x, func() string { return t.stmts(tail, rest) })
	case *ast.ExprStmt:
		if ce, ok := x.X.(*ast.CallExpr); ok {
			callee := t.text(ce.Fun)
			if callee == "runtime.SetFinalizer" {
				return t.stmts(tail, rest)
			}
			if fn, target, flags, ok := t.call(ce); ok {
				return fmt.Sprintf("(OCall %d %d %d (-1) (-1) %s)", fn, target, flags, t.stmts(tail, rest))
			}
		}
		return t.failf("unsupported statement %s", t.text(s))
	case *ast.DeclStmt, *ast.EmptyStmt:
		return t.stmts(tail, rest)
	case *ast.BlockStmt:
		return t.stmts(append(append([]ast.Stmt{}, x.List...), tail...), rest)
	}
	return t.failf("unsupported statement %s", t.text(s))
}

func (t *otTr) assign(s ast.Stmt, k func() string) string {
	x, ok := s.(*ast.AssignStmt)
	if !ok || len(x.Rhs) != 1 {
		return t.failf("unsupported statement %s", t.text(s))
	}
	var lhs []string
	for _, l := range x.Lhs {
		id, ok := l.(*ast.Ident)
		if !ok {
			return t.failf("unsupported assignment %s", t.text(s))
		}
		lhs = append(lhs, id.Name)
	}
	if ce, ok := x.Rhs[0].(*ast.CallExpr); ok {
		fn, target, flags, ok := t.call(ce)
		if !ok {
			return t.failf("unsupported call %s", t.text(ce))
		}
		hv, ev := -1, -1
		switch {
		case len(lhs) == 2:
			hv, ev = t.varOf(lhs[0]), t.varOf(lhs[1])
		case len(lhs) == 1 && (fn == 5 || fn == 6):
			ev = t.varOf(lhs[0])
		default:
			return t.failf("unsupported assignment %s", t.text(s))
		}
		return fmt.Sprintf("(OCall %d %d %d %s %s %s)", fn, target, flags, c13zlit(hv), c13zlit(ev), k())
	}
	if len(lhs) == 1 {
		h := t.handle(x.Rhs[0])
		v := t.varOf(lhs[0])
		return fmt.Sprintf("(OBind %s %s %s)", c13zlit(v), h, k())
	}
	return t.failf("unsupported assignment %s", t.text(s))
}

func (o *out) c13OpenTree(dir, name, coqName string) {
	p, fd := findFunc(dir, "", name)
	if fd == nil {
		o.brokenDef(coqName, "function "+dir+":."+name+" not found")
		return
	}
	if fd.Type.Params == nil || len(fd.Type.Params.List) != 1 || len(fd.Type.Params.List[0].Names) != 1 {
		o.brokenDef(coqName, name+" no longer takes exactly one (path) parameter")
		return
	}
	t := &otTr{p: p, param: fd.Type.Params.List[0].Names[0].Name, vars: map[string]int{}}
	tree := t.stmts(fd.Body.List, "OStuck")
	if t.err != nil {
		o.brokenDef(coqName, t.err.Error())
		return
	}
	var vn, on []string
	for i, n := range t.names {
		vn = append(vn, fmt.Sprintf("%d=%s", i, n))
	}
	for i, c := range t.opaque {
		on = append(on, fmt.Sprintf("%d=`%s`", i, c))
	}
	o.f("Definition %s : otree :=\n  %s.\n(* from %s:.%s(%s) ; variables %s ; opaque conditions %s *)\n", coqName, tree, dir, name, t.param, strings.Join(vn, " "), strings.Join(on, " "))
}

// c13OsCalls: every call `os.X(...)`, `ioutil.X(...)`, `syscall.X(...)` in the function, in source order, as indices into
// `known` (a call that is not in `known` is listed as -1: a file-system call the model has no reading for)
func (o *out) c13OsCalls(dir, recv, name, coqName string, known []string) {
	p, fd := findFunc(dir, recv, name)
	if fd == nil {
		o.brokenDef(coqName, "function "+dir+":"+recv+"."+name+" not found")
		return
	}
	var idx, descr []string
	ast.Inspect(fd.Body, func(nd ast.Node) bool {
		ce, ok := nd.(*ast.CallExpr)
		if !ok {
			return true
		}
		callee := printNode(p.fset, ce.Fun)
		if !(strings.HasPrefix(callee, "os.") || strings.HasPrefix(callee, "ioutil.") || strings.HasPrefix(callee, "syscall.") || strings.HasPrefix(callee, "unix.")) {
			return true
		}
		k := -1
		for i, n := range known {
			if n == callee {
				k = i
			}
		}
		idx = append(idx, c13zlit(k))
		descr = append(descr, callee)
		return true
	})
	o.f("Definition %s : list Z := [%s]. (* %s:%s.%s calls into os / ioutil / syscall: %s ; index into [%s] *)\n", coqName, strings.Join(idx, "; "), dir, recv, name,
		strings.Join(descr, " "), strings.Join(known, " "))
}

func init() {
	generators["C13_gen"] = func(o *out) {
		const a = "lib/atomicfile"
		const bp = "lib/binpatch"
		// the model is the POSIX build: hasLinks exists twice (fileutil_unix.go / fileutil_windows.go) and the shared loader
		// ignores build constraints, so drop the Windows file from the parsed package
		delete(loadPkg(bp).files, "fileutil_windows.go")
		// index into [Chmod Close Remove Rename]
		o.callOrder(a, "atomicFile", "Commit", "commit_calls", []string{"Chmod", "Close", "Remove", "Rename"})
		// index into [Close Remove]
		o.callOrder(a, "atomicFile", "Close", "close_calls", []string{"Close", "Remove"})
		o.callOrder(a, "", "New", "new_calls", []string{"TempFile", "SetFinalizer"})
		o.callOrder(a, "", "WriteInPlace", "writeinplace_calls", []string{"New", "Seek", "Copy", "Close"})
		o.hasStmt(a, "", "WriteFile", "defer f.Close()", "writefile_defers_close")
		o.hasStmt("signers", "fileProducer", "Apply", "defer f.Close()", "apply_defers_close")
		o.hasStmt(bp, "PatchSet", "applyRewrite", "defer outfile.Close()", "rewrite_defers_close")
		o.hasStmt("signers/msi", "msiTransformer", "Apply", "defer f.Close()", "msi_defers_close")
		o.hasStmt("signers/pgp", "pgpTransformer", "Apply", "defer outfile.Close()", "pgp_defers_close")
		// is the fallback remove-then-rename guarded (only reached when the first rename failed)?
		o.condOf(funcSpec{dir: a, recv: "atomicFile", name: "Commit", coqName: "commit_fallback_guard",
			params: "(is_windows : bool)", retType: "bool",
			leaves: map[string]string{`runtime.GOOS != "windows"`: "(negb is_windows)"},
			types:  map[string]string{`runtime.GOOS != "windows"`: "bool"}}, "runtime.GOOS")

		// ------------------------------------------------------------------ scripts of the output strategies
		o.f("\n(* ---- scripts: (callee, error handling kind, loop depth, enclosing plain-if branches); see gen_c13.go ---- *)\n")
		o.c13Script(a, "atomicFile", "Commit", "commit_script", []string{"f.File.Chmod", "f.File.Close", "os.Remove", "os.Rename", "stmt:f.File = nil"})
		o.c13Script(a, "atomicFile", "Close", "close_script", []string{"f.File.Close", "os.Remove"})
		o.c13Script(a, "", "New", "new_script", []string{"ioutil.TempFile"})
		o.c13Script(a, "", "WriteFile", "writefile_script", []string{"WriteAny", "f.Close", "f.Write", "f.Commit"})
		o.c13Script(a, "", "WriteInPlace", "writeinplace_script", []string{"New", "src.Seek", "io.Copy", "outfile.Seek", "src.Close"})
		o.c13Script("signers", "fileProducer", "Apply", "whole_script",
			[]string{"atomicfile.WriteAny", "f.Close", "io.Copy", "p.f.Close", "f.Commit", "ApplyBinPatch"})
		o.c13Script(bp, "PatchSet", "applyRewrite", "rewrite_script",
			[]string{"infile.Seek", "atomicfile.New", "outfile.Close", "io.CopyN", "outfile.Write", "io.Copy", "infile.Close", "outfile.Commit", "errors.New"})
		o.c13Script("signers/msi", "msiTransformer", "Apply", "msi_script",
			[]string{"t.cdf.Close", "ioutil.ReadAll", "atomicfile.WriteInPlace", "f.Close", "comdoc.WriteFile", "authenticode.InsertMSISignature", "cdf.Close", "f.Commit"})
		o.c13Script("signers/pgp", "pgpTransformer", "Apply", "pgp_script",
			[]string{"atomicfile.WriteAny", "outfile.Close", "t.stream.Seek", "ioutil.ReadAll", "pgptools.MergeClearSign", "pgptools.MergeSignature", "io.Copy", "t.closer.Close", "outfile.Commit"})
		// pgptools.MergeClearSign writes through a bufio.Writer; is the error of its final Flush returned or dropped (deferred)?
		o.c13Script("lib/pgptools", "", "MergeClearSign", "mergeclearsign_script", []string{"out.Flush", "out.Write", "ClearSign", "headClearSign"})
		o.c13Script("lib/pgptools", "", "MergeSignature", "mergesignature_script", []string{"writeOnePass", "serializeLiteral", "io.Copy", "litWriter.Close", "armorer.Write", "armorer.Close"})
		// the command line runs the module's Fixup (pe-coff: FixPEChecksum) on the destination AFTER Apply has committed it
		o.callOrder("cmdline/token", "", "signCmd", "token_sign_calls", []string{"Apply", "OpenFile", "Fixup"})
		o.callOrder("cmdline/remotecmd", "", "signCmd", "remote_sign_calls", []string{"Apply", "OpenFile", "Fixup"})
		o.c13Script("lib/authenticode", "", "FixPEChecksum", "fixpe_script", []string{"f.Seek", "readDosHeader", "io.Copy", "f.WriteAt"})
		// MergeSignature with armor: go-crypto's armor encoder drops the error of its last line; relic remembers write errors itself
		o.hasStmt("lib/pgptools", "", "MergeSignature", "sticky := &stickyWriter{w: w}", "armor_errors_sticky")
		o.c13CallArg("lib/pgptools", "", "MergeSignature", "armor.Encode", 0, "sticky", "armor_writes_through_sticky")
		// pgptools.getSize (used by MergeSignature): three Seeks on the input, a failure means "size unknown", not an error
		o.c13Script("lib/pgptools", "", "getSize", "getsize_script", []string{"seek.Seek"})
		// binpatch.Apply: every fallback is applyRewrite; the in-place branch is WriteAt per patch, then Truncate
		o.callOrder(bp, "PatchSet", "Apply", "apply_calls", []string{"Stat", "Lstat", "applyRewrite", "WriteAt", "Truncate"})
		o.c13Script(bp, "PatchSet", "Apply", "apply_inplace_script", []string{"infile.WriteAt", "infile.Truncate"})

		// ------------------------------------------------------------------ decisions
		o.f("\n(* ---- decisions ---- *)\n")
		// WriteAny and New as decision trees over their fallible calls (the choice 0 = stdout / 1 = direct write to a special file /
		// 2 = write-rename, and what happens when a call fails, are read off the tree by C13/Stage.v)
		o.f("%s", c13OpenPreamble)
		o.c13OpenTree(a, "WriteAny", "writeany_tree")
		o.c13OpenTree(a, "New", "new_tree")
		// the callers that stage through WriteAny make no file-system call of their own (a fallback such as os.Create(dest) would show here)
		osKnown := []string{"ioutil.ReadAll", "os.Create", "os.OpenFile", "os.WriteFile", "ioutil.WriteFile", "os.Remove", "os.Rename", "os.Truncate", "os.Open", "ioutil.TempFile", "os.CreateTemp"}
		o.c13OsCalls("signers", "fileProducer", "Apply", "whole_os_calls", osKnown)
		o.c13OsCalls("signers/pgp", "pgpTransformer", "Apply", "pgp_os_calls", osKnown)
		o.c13OsCalls(a, "", "WriteFile", "writefile_os_calls", osKnown)
		o.c13Decision(funcSpec{dir: a, recv: "", name: "isSpecial", coqName: "is_special",
			params: "(stat_ok is_regular : bool)", retType: "bool",
			leaves: map[string]string{"err == nil": "stat_ok", "stat.Mode().IsRegular()": "is_regular"},
			types:  map[string]string{"err == nil": "bool", "stat.Mode().IsRegular()": "bool"}})
		o.c13CallArg(a, "", "isSpecial", "os.Stat", 0, "path", "is_special_follows_links") // os.Stat (follows links), not Lstat
		// nopAtomic.Commit closes only when doClose
		o.decisionFunc(funcSpec{dir: a, recv: "nopAtomic", name: "Commit", coqName: "nop_commit_closes",
			params: "(do_close : bool)", retType: "bool",
			leaves: map[string]string{"a.doClose": "do_close", "a.Close()": "true", "nil": "false"},
			types:  map[string]string{"a.doClose": "bool"}})
		// WriteInPlace edits the source itself iff the two names are the same string
		o.condOf(funcSpec{dir: a, recv: "", name: "WriteInPlace", coqName: "wip_same_name",
			params: "(src_name dest : bytes)", retType: "bool",
			leaves: map[string]string{"src.Name()": "src_name", "dest": "dest"},
			types:  map[string]string{"src.Name()": "str", "dest": "str"}}, "src.Name()")
		// atomicFile.Close / Commit on an already closed object
		o.condOf(funcSpec{dir: a, recv: "atomicFile", name: "Close", coqName: "close_is_noop",
			params: "(file_is_nil : bool)", retType: "bool",
			leaves: map[string]string{"f.File == nil": "file_is_nil"}, types: map[string]string{"f.File == nil": "bool"}}, "f.File")
		o.hasStmt(a, "atomicFile", "Commit", "f.File = nil", "commit_disarms")
		o.hasStmt(a, "atomicFile", "Close", "f.File = nil", "close_disarms")
		// the temporary is created in the destination's directory under <base>.tmp*
		o.c13CallArg(a, "", "New", "ioutil.TempFile", 0, "filepath.Dir(name)", "temp_in_dest_dir")
		o.c13CallArg(a, "", "New", "ioutil.TempFile", 1, `filepath.Base(name) + ".tmp"`, "temp_prefix_base_tmp")
		o.c13CallArg(a, "atomicFile", "Commit", "os.Rename", 0, "f.File.Name()", "commit_renames_temp")
		o.c13CallArg(a, "atomicFile", "Commit", "os.Rename", 1, "f.name", "commit_renames_to_dest")
		o.c13CallArg(a, "atomicFile", "Close", "os.Remove", 0, "f.File.Name()", "close_removes_temp")
		// fileProducer.Apply: patch or whole file
		o.condOf(funcSpec{dir: "signers", recv: "fileProducer", name: "Apply", coqName: "apply_is_patch",
			params: "(mimetype mime_binpatch : bytes)", retType: "bool",
			leaves: map[string]string{"mimetype": "mimetype", "binpatch.MimeType": "mime_binpatch"},
			types:  map[string]string{"mimetype": "str", "binpatch.MimeType": "str"}}, "mimetype")
		// pgp: merge or plain copy
		o.condOf(funcSpec{dir: "signers/pgp", recv: "pgpTransformer", name: "Apply", coqName: "pgp_merges",
			params: "(inline clearsign : bool)", retType: "bool",
			leaves: map[string]string{"t.inline": "inline", "t.clearsign": "clearsign"},
			types:  map[string]string{"t.inline": "bool", "t.clearsign": "bool"}}, "t.inline")
		o.condOf(funcSpec{dir: "signers/pgp", recv: "pgpTransformer", name: "Apply", coqName: "pgp_merge_clearsign",
			params: "(clearsign : bool)", retType: "bool",
			leaves: map[string]string{"t.clearsign": "clearsign"}, types: map[string]string{"t.clearsign": "bool"}}, "if:t.clearsign", 1)

		// binpatch.Apply: when is the input overwritten in place?
		apLeaves := map[string]string{
			"patch.OldSize": "p_old", "patch.NewSize": "p_new", "patch.Offset": "p_off",
			"i": "i", "len(p.Patches)": "n", "oldEnd": "old_end", "ininfo.Size()": "in_size",
			"err != nil": "lstat_fails", "canOverwrite(ininfo, outinfo)": "can_ow", "canWrite(infile)": "can_write",
		}
		apTypes := map[string]string{"err != nil": "bool", "canOverwrite(ininfo, outinfo)": "bool", "canWrite(infile)": "bool"}
		o.condOf(funcSpec{dir: bp, recv: "PatchSet", name: "Apply", coqName: "apply_fallback_first",
			params: "(lstat_fails can_ow can_write : bool)", retType: "bool", leaves: apLeaves, types: apTypes}, "canOverwrite")
		o.condOf(funcSpec{dir: bp, recv: "PatchSet", name: "Apply", coqName: "apply_same_size",
			params: "(p_old p_new : Z)", retType: "bool", leaves: apLeaves}, "patch.NewSize")
		o.condOf(funcSpec{dir: bp, recv: "PatchSet", name: "Apply", coqName: "apply_not_last",
			params: "(i n : Z)", retType: "bool", leaves: apLeaves}, "len(p.Patches)")
		o.exprOfAssign(funcSpec{dir: bp, recv: "PatchSet", name: "Apply", coqName: "apply_old_end",
			params: "(p_off p_old : Z)", retType: "Z", leaves: apLeaves}, "oldEnd", 0)
		o.condOf(funcSpec{dir: bp, recv: "PatchSet", name: "Apply", coqName: "apply_not_at_eof",
			params: "(old_end in_size : Z)", retType: "bool", leaves: apLeaves}, "oldEnd")
		o.exprOfAssign(funcSpec{dir: bp, recv: "PatchSet", name: "Apply", coqName: "apply_new_size",
			params: "(p_off p_new : Z)", retType: "Z", leaves: apLeaves}, "size", 1)
		o.c13CallArg(bp, "PatchSet", "Apply", "os.Lstat", 0, "outpath", "apply_lstats_outpath") // Lstat: a symbolic link is not a regular file
		o.decisionFunc(funcSpec{dir: bp, recv: "", name: "canOverwrite", coqName: "can_overwrite",
			params: "(is_regular same_file has_links : bool)", retType: "bool",
			leaves: map[string]string{"outinfo.Mode().IsRegular()": "is_regular",
				"os.SameFile(ininfo, outinfo)": "same_file", "hasLinks(outinfo)": "has_links"},
			types: map[string]string{"outinfo.Mode().IsRegular()": "bool", "os.SameFile(ininfo, outinfo)": "bool", "hasLinks(outinfo)": "bool"}})
		o.decisionFunc(funcSpec{dir: bp, recv: "", name: "hasLinks", coqName: "has_links",
			params: "(sys_ok : bool) (nlink : Z)", retType: "bool",
			leaves: map[string]string{"ok": "sys_ok", "stat.Nlink": "nlink"}, types: map[string]string{"ok": "bool"},
			ignore: []string{"info.Sys()"}})
		rwLeaves := map[string]string{"delta": "delta"}
		o.condOf(funcSpec{dir: bp, recv: "PatchSet", name: "applyRewrite", coqName: "rewrite_out_of_order",
			params: "(delta : Z)", retType: "bool", leaves: rwLeaves}, "delta", 0)
		o.condOf(funcSpec{dir: bp, recv: "PatchSet", name: "applyRewrite", coqName: "rewrite_copy_before",
			params: "(delta : Z)", retType: "bool", leaves: rwLeaves}, "delta", 1)
		o.exprOfAssign(funcSpec{dir: bp, recv: "PatchSet", name: "applyRewrite", coqName: "rewrite_delta",
			params: "(p_off pos : Z)", retType: "Z", leaves: map[string]string{"patch.Offset": "p_off", "pos": "pos"}}, "delta", 0)
		o.exprOfAssign(funcSpec{dir: bp, recv: "PatchSet", name: "applyRewrite", coqName: "rewrite_skip",
			params: "(p_old : Z)", retType: "Z", leaves: map[string]string{"patch.OldSize": "p_old"}}, "delta", 1)

		for _, fn := range [][3]string{{a, "atomicFile", "Commit"}, {a, "atomicFile", "Close"}, {a, "", "New"}, {a, "", "WriteInPlace"}, {a, "", "WriteAny"}, {a, "", "WriteFile"},
			{a, "", "isSpecial"}, {a, "nopAtomic", "Commit"},
			{"signers", "fileProducer", "Apply"}, {bp, "PatchSet", "applyRewrite"}, {bp, "PatchSet", "Apply"}, {bp, "", "canOverwrite"},
			{"signers/msi", "msiTransformer", "Apply"}, {"signers/pgp", "pgpTransformer", "Apply"},
			{"lib/pgptools", "", "MergeClearSign"}, {"lib/pgptools", "", "MergeSignature"}, {"lib/pgptools", "", "getSize"},
			{"cmdline/token", "", "signCmd"}, {"cmdline/remotecmd", "", "signCmd"}, {"lib/authenticode", "", "FixPEChecksum"}} {
			fingerprint(fn[0], fn[1], fn[2])
		}
	}
}
