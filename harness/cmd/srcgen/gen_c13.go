package main

func init() {
	generators["C13_gen"] = func(o *out) {
		const a = "lib/atomicfile"
		// index into [Chmod Close Remove Rename]
		o.callOrder(a, "atomicFile", "Commit", "commit_calls", []string{"Chmod", "Close", "Remove", "Rename"})
		// index into [Close Remove]
		o.callOrder(a, "atomicFile", "Close", "close_calls", []string{"Close", "Remove"})
		o.callOrder(a, "", "New", "new_calls", []string{"TempFile", "SetFinalizer"})
		o.callOrder(a, "", "WriteInPlace", "writeinplace_calls", []string{"New", "Seek", "Copy", "Close"})
		o.hasStmt(a, "", "WriteFile", "defer f.Close()", "writefile_defers_close")
		o.hasStmt("signers", "fileProducer", "Apply", "defer f.Close()", "apply_defers_close")
		o.hasStmt("lib/binpatch", "PatchSet", "applyRewrite", "defer outfile.Close()", "rewrite_defers_close")
		o.hasStmt("signers/msi", "msiTransformer", "Apply", "defer f.Close()", "msi_defers_close")
		o.hasStmt("signers/pgp", "pgpTransformer", "Apply", "defer outfile.Close()", "pgp_defers_close")
		// is the fallback remove-then-rename guarded (only reached when the first rename failed)?
		o.condOf(funcSpec{dir: a, recv: "atomicFile", name: "Commit", coqName: "commit_fallback_guard",
			params: "(is_windows : bool)", retType: "bool",
			leaves: map[string]string{`runtime.GOOS != "windows"`: "(negb is_windows)"},
			types:  map[string]string{`runtime.GOOS != "windows"`: "bool"}}, "runtime.GOOS")
		for _, fn := range [][3]string{{a, "atomicFile", "Commit"}, {a, "atomicFile", "Close"}, {a, "", "New"}, {a, "", "WriteInPlace"}, {a, "", "WriteAny"}, {a, "", "WriteFile"},
			{"signers", "fileProducer", "Apply"}, {"lib/binpatch", "PatchSet", "applyRewrite"}, {"signers/msi", "msiTransformer", "Apply"}, {"signers/pgp", "pgpTransformer", "Apply"}} {
			fingerprint(fn[0], fn[1], fn[2])
		}
	}
}
