package main

import (
	"fmt"
	"go/ast"
	"go/token"
	"os"
	"os/exec"
	"path/filepath"
	"regexp"
	"strconv"
	"strings"
)

// FmtPGP — OpenPGP packet framing written by relic itself (lib/pgptools/inline.go: the literal data packet of an inline
// signed message).  Thresholds and octet expressions of serializeHeader are translated; the model in coq/FmtPGP is built from them.
//
// Second part (pgp_cs_*): the cleartext signature path of lib/pgptools/clearsign.go (ClearSign / DetachClearSign / tailClearSign /
// MergeClearSign / headClearSign): which line reader splits the signer's stream into lines and with which limits, the loop bodies
// as ordered step lists, the marker comparison, the line terminators written, what happens to a reader error, whether the pipe is
// closed before the result is reported.  The constants of the Go standard library the readers depend on (bufio.MaxScanTokenSize,
// bufio's default buffer size) are read from GOROOT, the decisions of the cleartext encoder (go-crypto clearsign.dashEscaper: the
// trailing-whitespace set, the dash test, the line feed test, the escape prefix) from the module cache.
func init() {
	generators["FmtPGP_gen"] = func(o *out) {
		const d = "lib/pgptools"
		L := map[string]string{"length": "length", "ptype": "ptype"}
		T := map[string]string{}
		fs := func(coq, params, ret string) funcSpec {
			return funcSpec{dir: d, name: "serializeHeader", coqName: coq, params: params, retType: ret, leaves: L, types: T, calls: map[string]string{"byte": "wrap8"}}
		}
		o.condOf(fs("pgp_len_one_octet", "(length : Z)", "bool"), "if:length <", 0)
		o.condOf(fs("pgp_len_two_octet", "(length : Z)", "bool"), "if:length <", 1)
		o.exprOfAssign(fs("pgp_tag_octet", "(ptype : Z)", "Z"), "buf[0]", 0)
		o.exprOfAssign(fs("pgp_one_b1", "(length : Z)", "Z"), "buf[1]", 0)
		o.exprOfAssign(fs("pgp_two_b1", "(length : Z)", "Z"), "buf[1]", 1)
		o.exprOfAssign(fs("pgp_two_b2", "(length : Z)", "Z"), "buf[2]", 0)
		o.exprOfAssign(fs("pgp_five_b1", "(length : Z)", "Z"), "buf[1]", 2)
		o.exprOfAssign(fs("pgp_five_b2", "(length : Z)", "Z"), "buf[2]", 1)
		o.exprOfAssign(fs("pgp_five_b3", "(length : Z)", "Z"), "buf[3]", 0)
		o.exprOfAssign(fs("pgp_five_b4", "(length : Z)", "Z"), "buf[4]", 0)
		o.exprOfAssign(fs("pgp_five_b5", "(length : Z)", "Z"), "buf[5]", 0)
		o.hasStmt(d, "", "serializeHeader", "length -= 192", "pgp_two_subtracts_192")
		o.constInt(d, "maxLiteralSize", "pgp_max_literal_size")
		slL := map[string]string{"len(filename)": "name_len", "psize": "psize"}
		o.condOf(funcSpec{dir: d, name: "serializeLiteral", coqName: "pgp_name_too_long", params: "(name_len : Z)", retType: "bool", leaves: slL}, "if:len(filename) >")
		o.condOf(funcSpec{dir: d, name: "serializeLiteral", coqName: "pgp_literal_too_big", params: "(psize : Z)", retType: "bool", leaves: slL}, "if:psize >")
		o.hasStmt(d, "", "serializeLiteral", "filename = filename[:255]", "pgp_name_cut_255")
		o.hasStmt(d, "", "serializeLiteral", "packetType := 11", "pgp_literal_is_tag_11")
		for _, fn := range []string{"serializeHeader", "serializeLiteral", "MergeSignature", "getSize", "writeOnePass"} {
			fingerprint(d, "", fn)
		}
		pgpcsGenerate(o, d)
	}
}

// ---------------------------------------------------------------- cleartext signature path

// pgpcsGoEnv returns GOROOT and GOMODCACHE of the toolchain that builds the harness.
func pgpcsGoEnv() (goroot, modcache string) {
	cmd := exec.Command("go", "env", "GOROOT", "GOMODCACHE")
	cmd.Env = append(os.Environ(), "GOFLAGS=-mod=mod", "GOPROXY=off", "GOSUMDB=off", "GOTOOLCHAIN=local")
	outb, err := cmd.Output()
	if err == nil {
		ls := strings.Split(strings.TrimSpace(string(outb)), "\n")
		if len(ls) == 2 {
			return strings.TrimSpace(ls[0]), strings.TrimSpace(ls[1])
		}
	}
	home, _ := os.UserHomeDir()
	return os.Getenv("GOROOT"), filepath.Join(home, "go", "pkg", "mod")
}

// pgpcsRel turns an absolute directory into a path relative to the repo root (loadPkg joins every dir with the repo root).
func pgpcsRel(abs string) string {
	r, err := filepath.Rel(repo, abs)
	if err != nil {
		return abs
	}
	return r
}

// pgpcsModDir: directory of a dependency of /repo in the module cache, version taken from /repo/go.mod.
func pgpcsModDir(modcache, module, sub string) string {
	gm, err := os.ReadFile(filepath.Join(repo, "go.mod"))
	if err != nil {
		return ""
	}
	m := regexp.MustCompile(`(?m)^\s*` + regexp.QuoteMeta(module) + `\s+(v[^\s]+)`).FindStringSubmatch(string(gm))
	if m == nil {
		return ""
	}
	var esc strings.Builder // module cache escaping: upper case letter -> '!' + lower case
	for _, c := range module {
		if c >= 'A' && c <= 'Z' {
			esc.WriteByte('!')
			esc.WriteRune(c + 32)
		} else {
			esc.WriteRune(c)
		}
	}
	return filepath.Join(modcache, esc.String()+"@"+m[1], sub)
}

// pgpcsVarBytes emits a package-level `var name = []byte("literal")` as a byte list.
func pgpcsVarBytes(o *out, dir, goName, coqName string) {
	ce, _, _, _ := findConstExpr(dir, goName)
	if call, ok := ce.(*ast.CallExpr); ok && len(call.Args) == 1 {
		if at, ok := call.Fun.(*ast.ArrayType); ok && at.Len == nil {
			if id, ok := at.Elt.(*ast.Ident); ok && id.Name == "byte" {
				if bl, ok := call.Args[0].(*ast.BasicLit); ok && bl.Kind == token.STRING {
					s, _ := strconv.Unquote(bl.Value)
					o.f("Definition %s : list Z := %s. (* %s.%s = []byte(%q) *)\n", coqName, bytesLit([]byte(s)), dir, goName, s)
					return
				}
			}
		}
	}
	o.brokenDef(coqName, "variable "+dir+"."+goName+" is not []byte(\"literal\")")
}

// pgpcsBodies: the body of fn plus the bodies of the package-level helpers of the same package it calls (one level), so that a line
// reader moved into a helper is still seen.
func pgpcsBodies(dir, name string) (*pkgInfo, *ast.FuncDecl, []*ast.BlockStmt) {
	p, fd := findFunc(dir, "", name)
	if fd == nil {
		return p, nil, nil
	}
	bodies := []*ast.BlockStmt{fd.Body}
	seen := map[string]bool{name: true}
	ast.Inspect(fd.Body, func(n ast.Node) bool {
		if ce, ok := n.(*ast.CallExpr); ok {
			if id, ok := ce.Fun.(*ast.Ident); ok && !seen[id.Name] {
				seen[id.Name] = true
				if _, h := findFunc(dir, "", id.Name); h != nil && h.Body != nil {
					bodies = append(bodies, h.Body)
				}
			}
		}
		return true
	})
	return p, fd, bodies
}

// pgpcsReader classifies the line reader of fn and emits <prefix>_reader (1 = bufio.Scanner with the default split function
// ScanLines; 2 = bufio.Reader.ReadLine whose isPrefix result is discarded), <prefix>_max_token (Scanner: the token limit) and
// <prefix>_bufsize (Reader: the buffer size).  Anything else is a broken tie: the model has no definition for it.
func pgpcsReader(o *out, dir, name, prefix, goBufio string) {
	p, fd, bodies := pgpcsBodies(dir, name)
	if fd == nil {
		o.brokenDef(prefix+"_reader", "function "+dir+"."+name+" not found")
		return
	}
	scanner, reader, readLine, prefixDropped := false, false, false, false
	var maxTok, bufSize ast.Expr
	other := ""
	for _, b := range bodies {
		ast.Inspect(b, func(n ast.Node) bool {
			switch x := n.(type) {
			case *ast.CallExpr:
				fn := printNode(p.fset, x.Fun)
				switch {
				case fn == "bufio.NewScanner":
					scanner = true
				case fn == "bufio.NewReader":
					reader = true
				case fn == "bufio.NewReaderSize" && len(x.Args) == 2:
					reader, bufSize = true, x.Args[1]
				case strings.HasSuffix(fn, ".Buffer") && len(x.Args) == 2:
					maxTok = x.Args[1]
				case strings.HasSuffix(fn, ".Split"):
					if len(x.Args) != 1 || printNode(p.fset, x.Args[0]) != "bufio.ScanLines" {
						other = "Scanner.Split with a split function other than bufio.ScanLines"
					}
				case strings.HasSuffix(fn, ".ReadLine"):
					readLine = true
				case strings.HasSuffix(fn, ".ReadString"), strings.HasSuffix(fn, ".ReadBytes"), strings.HasSuffix(fn, ".ReadSlice"),
					strings.HasSuffix(fn, ".ReadRune"), strings.HasSuffix(fn, ".ReadByte"), fn == "io.ReadAll", fn == "ioutil.ReadAll":
					other = "line reader built on " + fn
				}
			case *ast.AssignStmt:
				if len(x.Rhs) == 1 && len(x.Lhs) == 3 {
					if ce, ok := x.Rhs[0].(*ast.CallExpr); ok && strings.HasSuffix(printNode(p.fset, ce.Fun), ".ReadLine") {
						if id, ok := x.Lhs[1].(*ast.Ident); ok && id.Name == "_" {
							prefixDropped = true
						}
					}
				}
			}
			return true
		})
	}
	kind := 0
	switch {
	case other != "":
	case scanner && !reader && !readLine:
		kind = 1
	case reader && readLine && prefixDropped && !scanner:
		kind = 2
	case reader && readLine && !prefixDropped:
		other = "bufio.Reader.ReadLine with isPrefix handling"
	default:
		other = "no recognised line reader"
	}
	if kind == 0 {
		o.brokenDef(prefix+"_reader", name+": "+other+" (not modelled)")
		return
	}
	o.f("Definition %s_reader : Z := %d. (* %s.%s: 1 = bufio.Scanner + ScanLines, 2 = bufio.Reader.ReadLine with isPrefix discarded *)\n", prefix, kind, dir, name)
	emit := func(suffix string, e ast.Expr, dflt string, floor int64) {
		if e == nil {
			o.f("Definition %s_%s : Z := %s. (* %s.%s: library default *)\n", prefix, suffix, dflt, dir, name)
			return
		}
		v, err := evalConst(dir, e, 0)
		if err != nil || v.isFloat {
			o.brokenDef(prefix+"_"+suffix, fmt.Sprintf("%s: size argument %s is not a constant expression", name, printNode(p.fset, e)))
			return
		}
		if v.i < floor {
			v.i = floor
		}
		o.f("Definition %s_%s : Z := %d. (* %s.%s: %s *)\n", prefix, suffix, v.i, dir, name, printNode(p.fset, e))
	}
	emit("max_token", maxTok, "go_bufio_MaxScanTokenSize", 0)
	emit("bufsize", bufSize, "go_bufio_defaultBufSize", 16) // bufio: minReadBufferSize = 16
	_ = goBufio
}

// pgpcsLoop finds the single for statement of fn and emits its top-level body as an ordered list of step classes:
//
//	0  line := <reader>                       4  if <reader error / EOF test> {...}   (no effect on what is written)
//	1  if <marker test> { ...; return }       2  write(line)   3  write(crlf)      5  tail: if <copy condition> { copying = true; writes }
//
// writer is the printed receiver of the Write calls ("w" in headClearSign).
func pgpcsLoop(o *out, dir, name, coqName, writer string) *ast.ForStmt {
	p, fd := findFunc(dir, "", name)
	if fd == nil {
		o.brokenDef(coqName, "function "+dir+"."+name+" not found")
		return nil
	}
	var loop *ast.ForStmt
	n := 0
	for _, st := range fd.Body.List {
		if f, ok := st.(*ast.ForStmt); ok {
			loop = f
			n++
		}
	}
	if n != 1 {
		o.brokenDef(coqName, fmt.Sprintf("%s: expected exactly one top-level for statement, found %d", name, n))
		return nil
	}
	var steps, notes []string
	for _, st := range loop.Body.List {
		txt := strings.Join(strings.Fields(printNode(p.fset, st)), " ")
		cls := -1
		switch x := st.(type) {
		case *ast.AssignStmt:
			if id, ok := x.Lhs[0].(*ast.Ident); ok && id.Name == "line" && x.Tok == token.DEFINE {
				cls = 0
			}
		case *ast.IfStmt:
			cond := printNode(p.fset, x.Cond)
			switch {
			case x.Init != nil:
				init := strings.Join(strings.Fields(printNode(p.fset, x.Init)), " ")
				if cond == "err != nil" && len(x.Body.List) == 1 && printNode(p.fset, x.Body.List[0]) == "return err" && x.Else == nil {
					switch init {
					case "_, err := " + writer + ".Write(line)":
						cls = 2
					case "_, err := " + writer + ".Write(crlf)":
						cls = 3
					}
				}
			case strings.Contains(cond, "copying"):
				cls = 5
			case strings.Contains(cond, "sigHeader"):
				// the marker test must leave the function
				if k := len(x.Body.List); k > 0 && x.Else == nil {
					if _, ok := x.Body.List[k-1].(*ast.ReturnStmt); ok {
						cls = 1
					}
				}
			default:
				// a test of the reader's error only (err == io.EOF { break } else if err != nil { return ... })
				onlyErr := true
				ast.Inspect(x.Cond, func(n ast.Node) bool {
					if id, ok := n.(*ast.Ident); ok && id.Name != "err" && id.Name != "io" && id.Name != "EOF" && id.Name != "nil" {
						onlyErr = false
					}
					return true
				})
				writes := false
				ast.Inspect(x, func(n ast.Node) bool {
					if ce, ok := n.(*ast.CallExpr); ok && strings.Contains(printNode(p.fset, ce.Fun), "Write") {
						writes = true
					}
					return true
				})
				if onlyErr && !writes {
					cls = 4
				}
			}
		}
		if cls < 0 {
			o.brokenDef(coqName, name+": loop statement not classified: "+txt)
			return loop
		}
		steps = append(steps, strconv.Itoa(cls))
		notes = append(notes, txt)
	}
	o.f("Definition %s : list Z := [%s]. (* %s.%s loop body: %s *)\n", coqName, strings.Join(steps, "; "), dir, name, strings.Join(notes, " ;; "))
	return loop
}

// pgpcsTailWrites: inside the copy block of tailClearSign, the writes in order: (0, []) = the line, (1, bytes) = a literal.
func pgpcsTailWrites(o *out, dir, name, coqName string, loop *ast.ForStmt) {
	p, _ := findFunc(dir, "", name)
	if loop == nil {
		o.brokenDef(coqName, name+": no loop")
		return
	}
	var items []string
	okAll := true
	for _, st := range loop.Body.List {
		is, ok := st.(*ast.IfStmt)
		if !ok || !strings.Contains(printNode(p.fset, is.Cond), "copying") {
			continue
		}
		for _, b := range is.Body.List {
			txt := strings.Join(strings.Fields(printNode(p.fset, b)), " ")
			if txt == "copying = true" {
				continue
			}
			es, ok := b.(*ast.ExprStmt)
			if !ok {
				okAll = false
				continue
			}
			call, ok := es.X.(*ast.CallExpr)
			if !ok || len(call.Args) != 1 {
				okAll = false
				continue
			}
			fn, arg := printNode(p.fset, call.Fun), printNode(p.fset, call.Args[0])
			bl, isLit := call.Args[0].(*ast.BasicLit)
			switch {
			case fn == "out.Write" && arg == "line":
				items = append(items, "(0, [])")
			case fn == "out.Write" && arg == "crlf":
				items = append(items, "(1, [13; 10])")
			case fn == "out.WriteString" && isLit && bl.Kind == token.STRING:
				s, _ := strconv.Unquote(bl.Value)
				items = append(items, "(1, "+bytesLit([]byte(s))+")")
			default:
				okAll = false
			}
		}
	}
	if !okAll || len(items) == 0 {
		o.brokenDef(coqName, name+": copy block contains a statement that is not a write of the line or of a literal")
		return
	}
	o.f("Definition %s : list (Z * list Z) := [%s]. (* %s.%s copy block: (0, _) = the line, (1, b) = literal b *)\n", coqName, strings.Join(items, "; "), dir, name)
}

// pgpcsGoroutine: in fn, the function literal started with `go`: does it close the read side of the pipe (readPipe.CloseWithError)
// BEFORE it sends its result on the channel?  If not, a reader that stops early leaves the writer blocked for ever.
func pgpcsGoroutine(o *out, dir, name, coqName string) {
	p, fd := findFunc(dir, "", name)
	if fd == nil {
		o.brokenDef(coqName, "function "+dir+"."+name+" not found")
		return
	}
	var lit *ast.FuncLit
	ast.Inspect(fd.Body, func(n ast.Node) bool {
		if g, ok := n.(*ast.GoStmt); ok && lit == nil {
			if fl, ok := g.Call.Fun.(*ast.FuncLit); ok {
				lit = fl
			}
		}
		return true
	})
	if lit == nil {
		o.brokenDef(coqName, name+": no goroutine literal")
		return
	}
	idxClose, idxSend := -1, -1
	for i, st := range lit.Body.List {
		txt := strings.Join(strings.Fields(printNode(p.fset, st)), " ")
		if strings.Contains(txt, "readPipe.CloseWithError(") || strings.Contains(txt, "readPipe.Close()") {
			if idxClose < 0 {
				idxClose = i
			}
		}
		if _, ok := st.(*ast.SendStmt); ok && idxSend < 0 {
			idxSend = i
		}
	}
	if idxSend < 0 {
		o.brokenDef(coqName, name+": goroutine does not send its result at top level")
		return
	}
	o.f("Definition %s : bool := %v. (* %s.%s: the reading goroutine closes readPipe before `done <- ...` *)\n", coqName, idxClose >= 0 && idxClose < idxSend, dir, name)
}

// pgpcsFingerprint records the fingerprint of a function outside /repo under a key that does not depend on where /repo lives.
func pgpcsFingerprint(dir, alias, recv, name string) {
	fp := fingerprint(dir, recv, name)
	delete(fingers, dir+":"+recv+"."+name)
	fingers[alias+":"+recv+"."+name] = fp
}

func pgpcsGenerate(o *out, d string) {
	goroot, modcache := pgpcsGoEnv()
	bufioDir := pgpcsRel(filepath.Join(goroot, "src", "bufio"))
	o.f("\n(* ---- cleartext signatures (lib/pgptools/clearsign.go); Go standard library constants from GOROOT/src/bufio, encoder decisions from go-crypto in the module cache *)\n")
	o.constInt(bufioDir, "MaxScanTokenSize", "go_bufio_MaxScanTokenSize")
	o.constInt(bufioDir, "defaultBufSize", "go_bufio_defaultBufSize")
	// the error test of Scanner.Scan when the buffer is full and holds no token
	o.condOf(funcSpec{dir: bufioDir, recv: "Scanner", name: "Scan", coqName: "go_bufio_scan_full_is_error", params: "(buflen max_token : Z)", retType: "bool",
		leaves: map[string]string{"len(s.buf)": "buflen", "s.maxTokenSize": "max_token", "maxInt/2": "4611686018427387903", "maxInt / 2": "4611686018427387903"}}, "if:s.maxTokenSize")
	pgpcsFingerprint(bufioDir, "GOROOT/src/bufio", "", "ScanLines")
	pgpcsFingerprint(bufioDir, "GOROOT/src/bufio", "", "dropCR")
	pgpcsFingerprint(bufioDir, "GOROOT/src/bufio", "Scanner", "Scan")
	pgpcsFingerprint(bufioDir, "GOROOT/src/bufio", "Reader", "ReadLine")

	pgpcsVarBytes(o, d, "sigHeader", "pgp_cs_sig_header")
	pgpcsVarBytes(o, d, "crlf", "pgp_cs_crlf")
	// ClearSign: encoder, copy, close, then the trailing line terminator
	o.hasStmt(d, "", "ClearSign", "_, err = w.Write(crlf)", "pgp_cs_clearsign_writes_crlf")

	// headClearSign
	pgpcsReader(o, d, "headClearSign", "pgp_cs_head", bufioDir)
	pgpcsLoop(o, d, "headClearSign", "pgp_cs_head_steps", "w")
	eq := map[string]string{"bytes.Equal": "bytes_eqb"}
	lv := map[string]string{"line": "line", "sigHeader": "sig_header", "copying": "copying"}
	ty := map[string]string{"copying": "bool", "bytes.Equal()": "bool"}
	o.condOf(funcSpec{dir: d, name: "headClearSign", coqName: "pgp_cs_head_is_sig", params: "(line sig_header : list Z)", retType: "bool", leaves: lv, types: ty, calls: eq}, "if:sigHeader")
	o.hasStmt(d, "", "headClearSign", "_, err := io.Copy(io.Discard, r)", "pgp_cs_head_drains")
	o.hasStmt(d, "", "headClearSign", "if s.Err() != nil { return s.Err() }", "pgp_cs_head_returns_scan_err")

	// tailClearSign
	pgpcsReader(o, d, "tailClearSign", "pgp_cs_tail", bufioDir)
	tl := pgpcsLoop(o, d, "tailClearSign", "pgp_cs_tail_steps", "out")
	o.condOf(funcSpec{dir: d, name: "tailClearSign", coqName: "pgp_cs_tail_copy_cond", params: "(copying : bool) (line sig_header : list Z)", retType: "bool", leaves: lv, types: ty, calls: eq}, "if:copying")
	o.hasStmt(d, "", "tailClearSign", "copying = true", "pgp_cs_tail_sets_copying")
	pgpcsTailWrites(o, d, "tailClearSign", "pgp_cs_tail_writes", tl)
	o.hasStmt(d, "", "tailClearSign", "return out.Bytes(), s.Err()", "pgp_cs_tail_returns_scan_err")

	// DetachClearSign / MergeClearSign: the goroutines and what follows them
	pgpcsGoroutine(o, d, "DetachClearSign", "pgp_cs_detach_closes_pipe")
	pgpcsGoroutine(o, d, "MergeClearSign", "pgp_cs_merge_closes_pipe")
	o.callOrder(d, "", "MergeClearSign", "pgp_cs_merge_calls", []string{"configFromSig", "headClearSign", "ClearSign", "out.Write", "out.Flush"})
	o.hasStmt(d, "", "MergeClearSign", "if err := <-done; err != nil { return err }", "pgp_cs_merge_returns_head_err")
	for _, fn := range []string{"ClearSign", "DetachClearSign", "tailClearSign", "MergeClearSign", "headClearSign", "configFromSig"} {
		fingerprint(d, "", fn)
	}

	// the cleartext encoder of github.com/ProtonMail/go-crypto (version pinned by /repo/go.mod)
	cs := pgpcsModDir(modcache, "github.com/ProtonMail/go-crypto", "openpgp/clearsign")
	if cs == "" {
		o.brokenDef("pgp_esc_is_ws", "github.com/ProtonMail/go-crypto not found in /repo/go.mod")
		return
	}
	csDir := pgpcsRel(cs)
	bl := map[string]string{"b": "b"}
	o.condOf(funcSpec{dir: csDir, recv: "dashEscaper", name: "Write", coqName: "pgp_esc_is_ws", params: "(b : Z)", retType: "bool", leaves: bl}, "if:b == ' '")
	o.condOf(funcSpec{dir: csDir, recv: "dashEscaper", name: "Write", coqName: "pgp_esc_is_dash", params: "(b : Z)", retType: "bool", leaves: bl}, "if:b == '-'")
	o.condOf(funcSpec{dir: csDir, recv: "dashEscaper", name: "Write", coqName: "pgp_esc_is_lf", params: "(b : Z)", retType: "bool", leaves: bl}, "if:b == '\\n'", 0)
	pgpcsVarBytes(o, csDir, "dashEscape", "pgp_esc_dash_escape")
	pgpcsVarBytes(o, csDir, "crlf", "pgp_esc_crlf")
	pgpcsVarBytes(o, csDir, "start", "pgp_esc_start")
	pgpcsFingerprint(csDir, "go-crypto/openpgp/clearsign", "dashEscaper", "Write")
	pgpcsFingerprint(csDir, "go-crypto/openpgp/clearsign", "dashEscaper", "Close")
	pgpcsFingerprint(csDir, "go-crypto/openpgp/clearsign", "", "EncodeMulti")
}
