package main

// FmtPGP — OpenPGP packet framing written by relic itself (lib/pgptools/inline.go: the literal data packet of an inline
// signed message).  Thresholds and octet expressions of serializeHeader are translated; the model in coq/FmtPGP is built from them.
func init() {
	generators["FmtPGP_gen"] = func(o *out) {
		const d = "lib/pgptools"
		L := map[string]string{"length": "length", "ptype": "ptype"}
		T := map[string]string{}
		fs := func(coq, params, ret string) funcSpec {
			return funcSpec{dir: d, name: "serializeHeader", coqName: coq, params: params, retType: ret, leaves: L, types: T, calls: map[string]string{"byte": "wrap8"}}
		}
		o.condOf(fs("pgp_len_one_octet", "(length : Z)", "bool"), "if:length <", 0)
		o.condOf(fs("pgp_len_two_octet", "(length : Z)", "bool"), "if:length <", 1)
		o.exprOfAssign(fs("pgp_tag_octet", "(ptype : Z)", "Z"), "buf[0]", 0)
		o.exprOfAssign(fs("pgp_one_b1", "(length : Z)", "Z"), "buf[1]", 0)
		o.exprOfAssign(fs("pgp_two_b1", "(length : Z)", "Z"), "buf[1]", 1)
		o.exprOfAssign(fs("pgp_two_b2", "(length : Z)", "Z"), "buf[2]", 0)
		o.exprOfAssign(fs("pgp_five_b1", "(length : Z)", "Z"), "buf[1]", 2)
		o.exprOfAssign(fs("pgp_five_b2", "(length : Z)", "Z"), "buf[2]", 1)
		o.exprOfAssign(fs("pgp_five_b3", "(length : Z)", "Z"), "buf[3]", 0)
		o.exprOfAssign(fs("pgp_five_b4", "(length : Z)", "Z"), "buf[4]", 0)
		o.exprOfAssign(fs("pgp_five_b5", "(length : Z)", "Z"), "buf[5]", 0)
		o.hasStmt(d, "", "serializeHeader", "length -= 192", "pgp_two_subtracts_192")
		o.constInt(d, "maxLiteralSize", "pgp_max_literal_size")
		slL := map[string]string{"len(filename)": "name_len", "psize": "psize"}
		o.condOf(funcSpec{dir: d, name: "serializeLiteral", coqName: "pgp_name_too_long", params: "(name_len : Z)", retType: "bool", leaves: slL}, "if:len(filename) >")
		o.condOf(funcSpec{dir: d, name: "serializeLiteral", coqName: "pgp_literal_too_big", params: "(psize : Z)", retType: "bool", leaves: slL}, "if:psize >")
		o.hasStmt(d, "", "serializeLiteral", "filename = filename[:255]", "pgp_name_cut_255")
		o.hasStmt(d, "", "serializeLiteral", "packetType := 11", "pgp_literal_is_tag_11")
		for _, fn := range []string{"serializeHeader", "serializeLiteral", "MergeSignature", "getSize", "writeOnePass"} {
			fingerprint(d, "", fn)
		}
	}
}
