package main

func init() {
	generators["C20_gen"] = func(o *out) {
		const d = "server"
		o.decisionFunc(funcSpec{dir: d, recv: "Server", name: "Healthy", coqName: "healthy_gen",
			params: "(disabled : bool) (since interval status : Z)", retType: "bool",
			leaves: map[string]string{"s.Config.Server.Disabled": "disabled", "time.Since(healthLastPing)": "since",
				"s.healthCheckInterval()": "interval", "healthStatus": "status"},
			types:  map[string]string{"s.Config.Server.Disabled": "bool"},
			ignore: []string{"healthMu.Lock()", "healthMu.Unlock()", "log.Error()"}})
		hc := map[string]string{"len(notOK)": "n_not_ok", "last": "last", "s.Config.Server.TokenCheckFailures": "failures"}
		o.condOf(funcSpec{dir: d, recv: "Server", name: "healthCheck", coqName: "hc_all_ok",
			params: "(n_not_ok : Z)", retType: "bool", leaves: hc}, "len(notOK)")
		o.condOf(funcSpec{dir: d, recv: "Server", name: "healthCheck", coqName: "hc_can_decrement",
			params: "(last : Z)", retType: "bool", leaves: hc}, "last", 2)
		o.exprOfAssign(funcSpec{dir: d, recv: "Server", name: "healthCheck", coqName: "hc_reset_value",
			params: "(failures : Z)", retType: "Z", leaves: hc}, "next", 1)
		o.exprOfAssign(funcSpec{dir: d, recv: "Server", name: "healthCheck", coqName: "hc_start_value",
			params: "(last : Z)", retType: "Z", leaves: hc}, "next", 0)
		o.hasStmt(d, "Server", "healthCheck", "next--", "hc_decrements")
		o.exprOfAssign(funcSpec{dir: d, recv: "Server", name: "startHealthCheck", coqName: "health_init_status",
			params: "(failures : Z)", retType: "Z", leaves: hc}, "healthStatus", 0)
		o.selectArmExits(d, "Server", "healthCheckLoop", "s.Closed", "loop_closed_exits")
		fingerprint(d, "Server", "healthCheck")
		fingerprint(d, "Server", "healthCheckLoop")
		fingerprint(d, "Server", "Healthy")
		fingerprint(d, "Server", "pingOne")
		fingerprint(d, "Server", "serveHealth")
	}
}
