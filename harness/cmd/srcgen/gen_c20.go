package main

import (
	"go/ast"
	"go/token"
	"strconv"
	"strings"
)

func init() {
	generators["C20_gen"] = func(o *out) {
		const d = "server"
		o.decisionFunc(funcSpec{dir: d, recv: "Server", name: "Healthy", coqName: "healthy_gen",
			params: "(disabled : bool) (since interval status : Z)", retType: "bool",
			leaves: map[string]string{"s.Config.Server.Disabled": "disabled", "time.Since(healthLastPing)": "since",
				"s.healthCheckInterval()": "interval", "healthStatus": "status"},
			types:  map[string]string{"s.Config.Server.Disabled": "bool"},
			ignore: []string{"healthMu.Lock()", "healthMu.Unlock()", "log.Error()"}})
		hc := map[string]string{"len(notOK)": "n_not_ok", "last": "last", "s.Config.Server.TokenCheckFailures": "failures"}
		o.condOf(funcSpec{dir: d, recv: "Server", name: "healthCheck", coqName: "hc_all_ok",
			params: "(n_not_ok : Z)", retType: "bool", leaves: hc}, "len(notOK)")
		o.condOf(funcSpec{dir: d, recv: "Server", name: "healthCheck", coqName: "hc_can_decrement",
			params: "(last : Z)", retType: "bool", leaves: hc}, "last", 2)
		o.exprOfAssign(funcSpec{dir: d, recv: "Server", name: "healthCheck", coqName: "hc_reset_value",
			params: "(failures : Z)", retType: "Z", leaves: hc}, "next", 1)
		o.exprOfAssign(funcSpec{dir: d, recv: "Server", name: "healthCheck", coqName: "hc_start_value",
			params: "(last : Z)", retType: "Z", leaves: hc}, "next", 0)
		o.hasStmt(d, "Server", "healthCheck", "next--", "hc_decrements")
		o.exprOfAssign(funcSpec{dir: d, recv: "Server", name: "startHealthCheck", coqName: "health_init_status",
			params: "(failures : Z)", retType: "Z", leaves: hc}, "healthStatus", 0)
		o.selectArmExits(d, "Server", "healthCheckLoop", "s.Closed", "loop_closed_exits")
		// lock discipline: the order of lock operations, token pings, Closed tests, returns and accesses of the shared state
		o.lockEvents(d, "Server", "healthCheck", "healthMu", "hc_events")
		o.lockEvents(d, "Server", "Healthy", "healthMu", "healthy_events")
		o.lockEvents(d, "Server", "serveHealth", "healthMu", "serve_health_events")
		o.lockEvents(d, "Server", "pingOne", "healthMu", "ping_one_events")
		// Close waits for the background loop: startHealthCheck publishes a channel that the loop goroutine closes on
		// return, and Close receives from it before it closes the tokens
		o.hasStmt(d, "Server", "startHealthCheck", "s.healthDone = done", "start_publishes_done")
		o.hasStmt(d, "Server", "startHealthCheck", "defer close(done)", "start_loop_closes_done")
		o.stmtBefore(d, "Server", "Close", "<-s.healthDone", "for _, t := range s.tokens", "close_waits_for_loop")
		fingerprint(d, "Server", "healthCheck")
		fingerprint(d, "Server", "healthCheckLoop")
		fingerprint(d, "Server", "Healthy")
		fingerprint(d, "Server", "pingOne")
		fingerprint(d, "Server", "serveHealth")
	}
}

// ---------------------------------------------------------------- lock discipline (C20)
//
// lockEvents linearises a function body, in source (= execution) order, into the events that matter for the lock
// discipline of server/view_health.go.  Codes (kept in step with coq/C20/Lock.v):
//
//	 1 healthMu.Lock()        2 healthMu.Unlock()      3 defer healthMu.Unlock()
//	 4 read healthStatus      5 read healthLastPing    6 write healthStatus      7 write healthLastPing
//	 8 token ping (a call of a method named Ping)      9 the next conditional block is guarded by <-s.Closed
//	10 return                11 begin of `for ... range s.tokens`                12 end of that loop
//	13 begin of a conditional block (if/else/case/other loop body)               14 end of it
//	15 begin of a function literal / go statement      16 end of it
//	17 blocking primitive other than the above (channel operation outside a select with default, time.Sleep, Wait)
//
// Calls of functions and methods of the same package are inlined (depth <= 3): their returns are dropped and their
// deferred unlocks are moved to the end of the inlined body, which is what happens at run time.  Empty conditional
// blocks are removed.
type lockWalker struct {
	p     *pkgInfo
	dir   string
	mutex string
	self  string // name of the receiver variable of the function being walked
	ev    []int
	depth int
}

var c20EventNames = map[int]string{1: "Lock", 2: "Unlock", 3: "DeferUnlock", 4: "rdStatus", 5: "rdLast", 6: "wrStatus", 7: "wrLast",
	8: "Ping", 9: "onClosed", 10: "return", 11: "tokens{", 12: "}tokens", 13: "{", 14: "}", 15: "func{", 16: "}func", 17: "BLOCK"}

func (w *lockWalker) emit(c int) { w.ev = append(w.ev, c) }

func (w *lockWalker) callee(ce *ast.CallExpr) string { return printNode(w.p.fset, ce.Fun) }

func (w *lockWalker) expr(e ast.Expr) {
	switch x := e.(type) {
	case nil:
	case *ast.Ident:
		switch x.Name {
		case "healthStatus":
			w.emit(4)
		case "healthLastPing":
			w.emit(5)
		}
	case *ast.CallExpr:
		for _, a := range x.Args {
			w.expr(a)
		}
		callee := w.callee(x)
		switch {
		case callee == w.mutex+".Lock":
			w.emit(1)
			return
		case callee == w.mutex+".Unlock":
			w.emit(2)
			return
		case callee == "time.Sleep" || strings.HasSuffix(callee, ".Wait"):
			w.emit(17)
			return
		}
		if sel, ok := x.Fun.(*ast.SelectorExpr); ok {
			if sel.Sel.Name == "Ping" {
				w.expr(sel.X)
				w.emit(8)
				return
			}
			// a method of the same package (receiver is a plain identifier such as s)
			if id, ok := sel.X.(*ast.Ident); ok && id.Name == w.self && w.self != "" {
				if w.inline("Server", sel.Sel.Name) {
					return
				}
			}
			w.expr(sel.X)
			return
		}
		if id, ok := x.Fun.(*ast.Ident); ok {
			if w.inline("", id.Name) {
				return
			}
			return
		}
		if fl, ok := x.Fun.(*ast.FuncLit); ok {
			w.emit(15)
			w.block(fl.Body.List)
			w.emit(16)
			return
		}
		w.expr(x.Fun)
	case *ast.FuncLit:
		w.emit(15)
		w.block(x.Body.List)
		w.emit(16)
	case *ast.BinaryExpr:
		w.expr(x.X)
		w.expr(x.Y)
	case *ast.UnaryExpr:
		w.expr(x.X)
		if x.Op == token.ARROW {
			w.emit(17)
		}
	case *ast.ParenExpr:
		w.expr(x.X)
	case *ast.SelectorExpr:
		w.expr(x.X)
	case *ast.IndexExpr:
		w.expr(x.X)
		w.expr(x.Index)
	case *ast.SliceExpr:
		w.expr(x.X)
		w.expr(x.Low)
		w.expr(x.High)
		w.expr(x.Max)
	case *ast.StarExpr:
		w.expr(x.X)
	case *ast.TypeAssertExpr:
		w.expr(x.X)
	case *ast.CompositeLit:
		for _, el := range x.Elts {
			w.expr(el)
		}
	case *ast.KeyValueExpr:
		w.expr(x.Key)
		w.expr(x.Value)
	}
}

// inline the events of a same-package function; false when there is no such function.
func (w *lockWalker) inline(recv, name string) bool {
	_, fd := findFunc(w.dir, recv, name)
	if fd == nil || fd.Body == nil {
		return false
	}
	if w.depth >= 3 {
		w.emit(17) // too deep to follow: treated as potentially blocking
		return true
	}
	sub := &lockWalker{p: w.p, dir: w.dir, mutex: w.mutex, self: recvName(fd), depth: w.depth + 1}
	sub.block(fd.Body.List)
	deferred := 0
	for _, c := range sub.ev {
		switch c {
		case 10:
		case 3:
			deferred++
		default:
			w.emit(c)
		}
	}
	for ; deferred > 0; deferred-- {
		w.emit(2)
	}
	return true
}

func (w *lockWalker) cond(body func()) {
	w.emit(13)
	body()
	w.emit(14)
}

func (w *lockWalker) lhs(e ast.Expr) {
	if id, ok := e.(*ast.Ident); ok {
		switch id.Name {
		case "healthStatus":
			w.emit(6)
		case "healthLastPing":
			w.emit(7)
		}
		return
	}
	w.expr(e)
}

func (w *lockWalker) block(list []ast.Stmt) {
	for _, s := range list {
		w.stmt(s)
	}
}

func (w *lockWalker) stmt(s ast.Stmt) {
	switch x := s.(type) {
	case nil:
	case *ast.ExprStmt:
		w.expr(x.X)
	case *ast.AssignStmt:
		for _, r := range x.Rhs {
			w.expr(r)
		}
		for _, l := range x.Lhs {
			if x.Tok != token.ASSIGN && x.Tok != token.DEFINE {
				w.expr(l) // compound assignment reads first
			}
			w.lhs(l)
		}
	case *ast.IncDecStmt:
		w.expr(x.X)
		w.lhs(x.X)
	case *ast.DeclStmt:
		if gd, ok := x.Decl.(*ast.GenDecl); ok {
			for _, sp := range gd.Specs {
				if vs, ok := sp.(*ast.ValueSpec); ok {
					for _, v := range vs.Values {
						w.expr(v)
					}
				}
			}
		}
	case *ast.DeferStmt:
		if w.callee(x.Call) == w.mutex+".Unlock" {
			w.emit(3)
			return
		}
		for _, a := range x.Call.Args {
			w.expr(a)
		}
		if fl, ok := x.Call.Fun.(*ast.FuncLit); ok {
			w.emit(15)
			w.block(fl.Body.List)
			w.emit(16)
		}
	case *ast.GoStmt:
		w.emit(15)
		w.expr(x.Call)
		w.emit(16)
	case *ast.ReturnStmt:
		for _, r := range x.Results {
			w.expr(r)
		}
		w.emit(10)
	case *ast.BlockStmt:
		w.block(x.List)
	case *ast.LabeledStmt:
		w.stmt(x.Stmt)
	case *ast.IfStmt:
		w.stmt(x.Init)
		w.expr(x.Cond)
		w.cond(func() { w.block(x.Body.List) })
		if x.Else != nil {
			w.cond(func() { w.stmt(x.Else) })
		}
	case *ast.ForStmt:
		w.stmt(x.Init)
		w.expr(x.Cond)
		w.cond(func() { w.block(x.Body.List); w.stmt(x.Post) })
	case *ast.RangeStmt:
		if strings.HasSuffix(printNode(w.p.fset, x.X), ".tokens") {
			w.emit(11)
			w.block(x.Body.List)
			w.emit(12)
			return
		}
		w.expr(x.X)
		w.cond(func() { w.block(x.Body.List) })
	case *ast.SwitchStmt:
		w.stmt(x.Init)
		w.expr(x.Tag)
		for _, c := range x.Body.List {
			cc := c.(*ast.CaseClause)
			for _, e := range cc.List {
				w.expr(e)
			}
			w.cond(func() { w.block(cc.Body) })
		}
	case *ast.TypeSwitchStmt:
		for _, c := range x.Body.List {
			cc := c.(*ast.CaseClause)
			w.cond(func() { w.block(cc.Body) })
		}
	case *ast.SelectStmt:
		hasDefault := false
		for _, c := range x.Body.List {
			if c.(*ast.CommClause).Comm == nil {
				hasDefault = true
			}
		}
		for _, c := range x.Body.List {
			cc := c.(*ast.CommClause)
			if cc.Comm != nil {
				comm := printNode(w.p.fset, cc.Comm)
				if strings.Contains(comm, ".Closed") {
					w.emit(9)
				} else if !hasDefault {
					w.emit(17)
				}
			}
			w.cond(func() { w.block(cc.Body) })
		}
	case *ast.SendStmt:
		w.expr(x.Chan)
		w.expr(x.Value)
		w.emit(17)
	}
}

// prune removes empty conditional blocks (and a Closed marker in front of an empty block), repeatedly.
func pruneEvents(ev []int) []int {
	for {
		var out []int
		changed := false
		for i := 0; i < len(ev); i++ {
			if ev[i] == 13 && i+1 < len(ev) && ev[i+1] == 14 {
				if len(out) > 0 && out[len(out)-1] == 9 {
					out = out[:len(out)-1]
				}
				i++
				changed = true
				continue
			}
			if ev[i] == 15 && i+1 < len(ev) && ev[i+1] == 16 {
				i++
				changed = true
				continue
			}
			out = append(out, ev[i])
		}
		ev = out
		if !changed {
			return ev
		}
	}
}

func recvName(fd *ast.FuncDecl) string {
	if fd.Recv != nil && len(fd.Recv.List) == 1 && len(fd.Recv.List[0].Names) == 1 {
		return fd.Recv.List[0].Names[0].Name
	}
	return ""
}

// stmtBefore emits a bool: the function contains a statement printing as `first` that comes, in source order, before the
// first statement whose printed form starts with `thenPrefix` (false when either is missing; select statements are not searched).
func (o *out) stmtBefore(dir, recv, name, first, thenPrefix, coqName string) {
	p, fd := findFunc(dir, recv, name)
	if fd == nil || fd.Body == nil {
		o.brokenDef(coqName, "function "+dir+":"+recv+"."+name+" not found")
		return
	}
	posFirst, posThen := token.NoPos, token.NoPos
	ast.Inspect(fd.Body, func(n ast.Node) bool {
		if _, ok := n.(*ast.SelectStmt); ok {
			return false // a communication inside a select is not an unconditional wait
		}
		if st, ok := n.(ast.Stmt); ok {
			txt := strings.Join(strings.Fields(printNode(p.fset, st)), " ")
			if txt == first && posFirst == token.NoPos {
				posFirst = st.Pos()
			}
			if strings.HasPrefix(txt, thenPrefix) && posThen == token.NoPos {
				posThen = st.Pos()
			}
		}
		return true
	})
	ok := posFirst != token.NoPos && posThen != token.NoPos && posFirst < posThen
	o.f("Definition %s : bool := %v. (* %s:%s.%s: `%s` precedes `%s...` *)\n", coqName, ok, dir, recv, name, first, thenPrefix)
}

func (o *out) lockEvents(dir, recv, name, mutex, coqName string) {
	p, fd := findFunc(dir, recv, name)
	if fd == nil || fd.Body == nil {
		o.brokenDef(coqName, "function "+dir+":"+recv+"."+name+" not found")
		return
	}
	w := &lockWalker{p: p, dir: dir, mutex: mutex, self: recvName(fd)}
	w.block(fd.Body.List)
	ev := pruneEvents(w.ev)
	var nums, names []string
	for _, c := range ev {
		nums = append(nums, strconv.Itoa(c))
		names = append(names, c20EventNames[c])
	}
	o.f("Definition %s : list Z := [%s].\n(* %s:%s.%s lock/ping/state events in execution order: %s *)\n", coqName, strings.Join(nums, "; "), dir, recv, name, strings.Join(names, " "))
}
