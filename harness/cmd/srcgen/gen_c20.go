package main

import (
	"fmt"
	"go/ast"
	"go/token"
	"strconv"
	"strings"
)

func init() {
	generators["C20_gen"] = func(o *out) {
		const d = "server"
		o.decisionFunc(funcSpec{dir: d, recv: "Server", name: "Healthy", coqName: "healthy_gen",
			params: "(disabled : bool) (since interval status : Z)", retType: "bool",
			leaves: map[string]string{"s.Config.Server.Disabled": "disabled", "time.Since(healthLastPing)": "since",
				"s.healthCheckInterval()": "interval", "healthStatus": "status"},
			types:  map[string]string{"s.Config.Server.Disabled": "bool"},
			ignore: []string{"healthMu.Lock()", "healthMu.Unlock()", "log.Error()"}})
		hc := map[string]string{"len(notOK)": "n_not_ok", "last": "last", "s.Config.Server.TokenCheckFailures": "failures"}
		o.condOf(funcSpec{dir: d, recv: "Server", name: "healthCheck", coqName: "hc_all_ok",
			params: "(n_not_ok : Z)", retType: "bool", leaves: hc}, "len(notOK)")
		o.condOf(funcSpec{dir: d, recv: "Server", name: "healthCheck", coqName: "hc_can_decrement",
			params: "(last : Z)", retType: "bool", leaves: hc}, "last", 2)
		o.exprOfAssign(funcSpec{dir: d, recv: "Server", name: "healthCheck", coqName: "hc_reset_value",
			params: "(failures : Z)", retType: "Z", leaves: hc}, "next", 1)
		o.exprOfAssign(funcSpec{dir: d, recv: "Server", name: "healthCheck", coqName: "hc_start_value",
			params: "(last : Z)", retType: "Z", leaves: hc}, "next", 0)
		o.hasStmt(d, "Server", "healthCheck", "next--", "hc_decrements")
		o.exprOfAssign(funcSpec{dir: d, recv: "Server", name: "startHealthCheck", coqName: "health_init_status",
			params: "(failures : Z)", retType: "Z", leaves: hc}, "healthStatus", 0)
		o.selectArmExits(d, "Server", "healthCheckLoop", "s.Closed", "loop_closed_exits")
		// lock discipline: the order of lock operations, token pings, Closed tests, returns and accesses of the shared state
		o.lockEvents(d, "Server", "healthCheck", "healthMu", "hc_events")
		o.lockEvents(d, "Server", "Healthy", "healthMu", "healthy_events")
		o.lockEvents(d, "Server", "serveHealth", "healthMu", "serve_health_events")
		o.lockEvents(d, "Server", "pingOne", "healthMu", "ping_one_events")
		// Close waits for the background loop: startHealthCheck publishes a channel that the loop goroutine closes on
		// return, and Close receives from it before it closes the tokens
		o.hasStmt(d, "Server", "startHealthCheck", "s.healthDone = done", "start_publishes_done")
		o.hasStmt(d, "Server", "startHealthCheck", "defer close(done)", "start_loop_closes_done")
		o.stmtBefore(d, "Server", "Close", "<-s.healthDone", "for _, t := range s.tokens", "close_waits_for_loop")
		// timeout scope of the token pings: which context each Ping receives, where the contexts on its chain are
		// created relative to the token loop, with which duration; what pingOne makes of the ping's error; which
		// outcome healthCheck counts as a failed token
		o.pingScope(d, "Server", "healthCheck")
		fingerprint(d, "Server", "healthCheck")
		fingerprint(d, "Server", "healthCheckLoop")
		fingerprint(d, "Server", "Healthy")
		fingerprint(d, "Server", "pingOne")
		fingerprint(d, "Server", "serveHealth")
	}
}

// ---------------------------------------------------------------- lock discipline (C20)
//
// lockEvents linearises a function body, in source (= execution) order, into the events that matter for the lock
// discipline of server/view_health.go.  Codes (kept in step with coq/C20/Lock.v):
//
//	 1 healthMu.Lock()        2 healthMu.Unlock()      3 defer healthMu.Unlock()
//	 4 read healthStatus      5 read healthLastPing    6 write healthStatus      7 write healthLastPing
//	 8 token ping (a call of a method named Ping)      9 the next conditional block is guarded by <-s.Closed
//	10 return                11 begin of `for ... range s.tokens`                12 end of that loop
//	13 begin of a conditional block (if/else/case/other loop body)               14 end of it
//	15 begin of a function literal / go statement      16 end of it
//	17 blocking primitive other than the above (channel operation outside a select with default, time.Sleep, Wait)
//
// Calls of functions and methods of the same package are inlined (depth <= 3): their returns are dropped and their
// deferred unlocks are moved to the end of the inlined body, which is what happens at run time.  Empty conditional
// blocks are removed.
type lockWalker struct {
	p     *pkgInfo
	dir   string
	mutex string
	self  string // name of the receiver variable of the function being walked
	ev    []int
	depth int
}

var c20EventNames = map[int]string{1: "Lock", 2: "Unlock", 3: "DeferUnlock", 4: "rdStatus", 5: "rdLast", 6: "wrStatus", 7: "wrLast",
	8: "Ping", 9: "onClosed", 10: "return", 11: "tokens{", 12: "}tokens", 13: "{", 14: "}", 15: "func{", 16: "}func", 17: "BLOCK"}

func (w *lockWalker) emit(c int) { w.ev = append(w.ev, c) }

func (w *lockWalker) callee(ce *ast.CallExpr) string { return printNode(w.p.fset, ce.Fun) }

func (w *lockWalker) expr(e ast.Expr) {
	switch x := e.(type) {
	case nil:
	case *ast.Ident:
		switch x.Name {
		case "healthStatus":
			w.emit(4)
		case "healthLastPing":
			w.emit(5)
		}
	case *ast.CallExpr:
		for _, a := range x.Args {
			w.expr(a)
		}
		callee := w.callee(x)
		switch {
		case callee == w.mutex+".Lock":
			w.emit(1)
			return
		case callee == w.mutex+".Unlock":
			w.emit(2)
			return
		case callee == "time.Sleep" || strings.HasSuffix(callee, ".Wait"):
			w.emit(17)
			return
		}
		if sel, ok := x.Fun.(*ast.SelectorExpr); ok {
			if sel.Sel.Name == "Ping" {
				w.expr(sel.X)
				w.emit(8)
				return
			}
			// a method of the same package (receiver is a plain identifier such as s)
			if id, ok := sel.X.(*ast.Ident); ok && id.Name == w.self && w.self != "" {
				if w.inline("Server", sel.Sel.Name) {
					return
				}
			}
			w.expr(sel.X)
			return
		}
		if id, ok := x.Fun.(*ast.Ident); ok {
			if w.inline("", id.Name) {
				return
			}
			return
		}
		if fl, ok := x.Fun.(*ast.FuncLit); ok {
			w.emit(15)
			w.block(fl.Body.List)
			w.emit(16)
			return
		}
		w.expr(x.Fun)
	case *ast.FuncLit:
		w.emit(15)
		w.block(x.Body.List)
		w.emit(16)
	case *ast.BinaryExpr:
		w.expr(x.X)
		w.expr(x.Y)
	case *ast.UnaryExpr:
		w.expr(x.X)
		if x.Op == token.ARROW {
			w.emit(17)
		}
	case *ast.ParenExpr:
		w.expr(x.X)
	case *ast.SelectorExpr:
		w.expr(x.X)
	case *ast.IndexExpr:
		w.expr(x.X)
		w.expr(x.Index)
	case *ast.SliceExpr:
		w.expr(x.X)
		w.expr(x.Low)
		w.expr(x.High)
		w.expr(x.Max)
	case *ast.StarExpr:
		w.expr(x.X)
	case *ast.TypeAssertExpr:
		w.expr(x.X)
	case *ast.CompositeLit:
		for _, el := range x.Elts {
			w.expr(el)
		}
	case *ast.KeyValueExpr:
		w.expr(x.Key)
		w.expr(x.Value)
	}
}

// inline the events of a same-package function; false when there is no such function.
func (w *lockWalker) inline(recv, name string) bool {
	_, fd := findFunc(w.dir, recv, name)
	if fd == nil || fd.Body == nil {
		return false
	}
	if w.depth >= 3 {
		w.emit(17) // too deep to follow: treated as potentially blocking
		return true
	}
	sub := &lockWalker{p: w.p, dir: w.dir, mutex: w.mutex, self: recvName(fd), depth: w.depth + 1}
	sub.block(fd.Body.List)
	deferred := 0
	for _, c := range sub.ev {
		switch c {
		case 10:
		case 3:
			deferred++
		default:
			w.emit(c)
		}
	}
	for ; deferred > 0; deferred-- {
		w.emit(2)
	}
	return true
}

func (w *lockWalker) cond(body func()) {
	w.emit(13)
	body()
	w.emit(14)
}

func (w *lockWalker) lhs(e ast.Expr) {
	if id, ok := e.(*ast.Ident); ok {
		switch id.Name {
		case "healthStatus":
			w.emit(6)
		case "healthLastPing":
			w.emit(7)
		}
		return
	}
	w.expr(e)
}

func (w *lockWalker) block(list []ast.Stmt) {
	for _, s := range list {
		w.stmt(s)
	}
}

func (w *lockWalker) stmt(s ast.Stmt) {
	switch x := s.(type) {
	case nil:
	case *ast.ExprStmt:
		w.expr(x.X)
	case *ast.AssignStmt:
		for _, r := range x.Rhs {
			w.expr(r)
		}
		for _, l := range x.Lhs {
			if x.Tok != token.ASSIGN && x.Tok != token.DEFINE {
				w.expr(l) // compound assignment reads first
			}
			w.lhs(l)
		}
	case *ast.IncDecStmt:
		w.expr(x.X)
		w.lhs(x.X)
	case *ast.DeclStmt:
		if gd, ok := x.Decl.(*ast.GenDecl); ok {
			for _, sp := range gd.Specs {
				if vs, ok := sp.(*ast.ValueSpec); ok {
					for _, v := range vs.Values {
						w.expr(v)
					}
				}
			}
		}
	case *ast.DeferStmt:
		if w.callee(x.Call) == w.mutex+".Unlock" {
			w.emit(3)
			return
		}
		for _, a := range x.Call.Args {
			w.expr(a)
		}
		if fl, ok := x.Call.Fun.(*ast.FuncLit); ok {
			w.emit(15)
			w.block(fl.Body.List)
			w.emit(16)
		}
	case *ast.GoStmt:
		w.emit(15)
		w.expr(x.Call)
		w.emit(16)
	case *ast.ReturnStmt:
		for _, r := range x.Results {
			w.expr(r)
		}
		w.emit(10)
	case *ast.BlockStmt:
		w.block(x.List)
	case *ast.LabeledStmt:
		w.stmt(x.Stmt)
	case *ast.IfStmt:
		w.stmt(x.Init)
		w.expr(x.Cond)
		w.cond(func() { w.block(x.Body.List) })
		if x.Else != nil {
			w.cond(func() { w.stmt(x.Else) })
		}
	case *ast.ForStmt:
		w.stmt(x.Init)
		w.expr(x.Cond)
		w.cond(func() { w.block(x.Body.List); w.stmt(x.Post) })
	case *ast.RangeStmt:
		if strings.HasSuffix(printNode(w.p.fset, x.X), ".tokens") {
			w.emit(11)
			w.block(x.Body.List)
			w.emit(12)
			return
		}
		w.expr(x.X)
		w.cond(func() { w.block(x.Body.List) })
	case *ast.SwitchStmt:
		w.stmt(x.Init)
		w.expr(x.Tag)
		for _, c := range x.Body.List {
			cc := c.(*ast.CaseClause)
			for _, e := range cc.List {
				w.expr(e)
			}
			w.cond(func() { w.block(cc.Body) })
		}
	case *ast.TypeSwitchStmt:
		for _, c := range x.Body.List {
			cc := c.(*ast.CaseClause)
			w.cond(func() { w.block(cc.Body) })
		}
	case *ast.SelectStmt:
		hasDefault := false
		for _, c := range x.Body.List {
			if c.(*ast.CommClause).Comm == nil {
				hasDefault = true
			}
		}
		for _, c := range x.Body.List {
			cc := c.(*ast.CommClause)
			if cc.Comm != nil {
				comm := printNode(w.p.fset, cc.Comm)
				if strings.Contains(comm, ".Closed") {
					w.emit(9)
				} else if !hasDefault {
					w.emit(17)
				}
			}
			w.cond(func() { w.block(cc.Body) })
		}
	case *ast.SendStmt:
		w.expr(x.Chan)
		w.expr(x.Value)
		w.emit(17)
	}
}

// prune removes empty conditional blocks (and a Closed marker in front of an empty block), repeatedly.
func pruneEvents(ev []int) []int {
	for {
		var out []int
		changed := false
		for i := 0; i < len(ev); i++ {
			if ev[i] == 13 && i+1 < len(ev) && ev[i+1] == 14 {
				if len(out) > 0 && out[len(out)-1] == 9 {
					out = out[:len(out)-1]
				}
				i++
				changed = true
				continue
			}
			if ev[i] == 15 && i+1 < len(ev) && ev[i+1] == 16 {
				i++
				changed = true
				continue
			}
			out = append(out, ev[i])
		}
		ev = out
		if !changed {
			return ev
		}
	}
}

func recvName(fd *ast.FuncDecl) string {
	if fd.Recv != nil && len(fd.Recv.List) == 1 && len(fd.Recv.List[0].Names) == 1 {
		return fd.Recv.List[0].Names[0].Name
	}
	return ""
}

// stmtBefore emits a bool: the function contains a statement printing as `first` that comes, in source order, before the
// first statement whose printed form starts with `thenPrefix` (false when either is missing; select statements are not searched).
func (o *out) stmtBefore(dir, recv, name, first, thenPrefix, coqName string) {
	p, fd := findFunc(dir, recv, name)
	if fd == nil || fd.Body == nil {
		o.brokenDef(coqName, "function "+dir+":"+recv+"."+name+" not found")
		return
	}
	posFirst, posThen := token.NoPos, token.NoPos
	ast.Inspect(fd.Body, func(n ast.Node) bool {
		if _, ok := n.(*ast.SelectStmt); ok {
			return false // a communication inside a select is not an unconditional wait
		}
		if st, ok := n.(ast.Stmt); ok {
			txt := strings.Join(strings.Fields(printNode(p.fset, st)), " ")
			if txt == first && posFirst == token.NoPos {
				posFirst = st.Pos()
			}
			if strings.HasPrefix(txt, thenPrefix) && posThen == token.NoPos {
				posThen = st.Pos()
			}
		}
		return true
	})
	ok := posFirst != token.NoPos && posThen != token.NoPos && posFirst < posThen
	o.f("Definition %s : bool := %v. (* %s:%s.%s: `%s` precedes `%s...` *)\n", coqName, ok, dir, recv, name, first, thenPrefix)
}

func (o *out) lockEvents(dir, recv, name, mutex, coqName string) {
	p, fd := findFunc(dir, recv, name)
	if fd == nil || fd.Body == nil {
		o.brokenDef(coqName, "function "+dir+":"+recv+"."+name+" not found")
		return
	}
	w := &lockWalker{p: p, dir: dir, mutex: mutex, self: recvName(fd)}
	w.block(fd.Body.List)
	ev := pruneEvents(w.ev)
	var nums, names []string
	for _, c := range ev {
		nums = append(nums, strconv.Itoa(c))
		names = append(names, c20EventNames[c])
	}
	o.f("Definition %s : list Z := [%s].\n(* %s:%s.%s lock/ping/state events in execution order: %s *)\n", coqName, strings.Join(nums, "; "), dir, recv, name, strings.Join(names, " "))
}

// ---------------------------------------------------------------- timeout scope of the token pings (C20)
//
// pingScope follows the context that reaches Token.Ping back to context.Background().  It finds the token loop
// (`for ... range <x>.tokens`) of the round function, the Ping call made from the loop body (directly or through
// same-package methods, depth <= 3), and resolves the Ping's argument:
//
//	identifier bound by `c, cancel := context.WithTimeout(parent, dur)`  -> one chain element, then parent is resolved
//	identifier bound by `c, cancel := context.WithCancel(parent)`        -> no element, parent is resolved
//	a parameter of the function                                          -> the argument at the call site, in the caller
//	context.Background() / context.TODO()                                -> end of the chain
//
// Each element is (site, duration in ns, live): site 1 = the creating statement is executed once per token (it is inside
// the token loop, or in a function called from inside it), 2 = once per round (in the round function, outside the
// loop); live = false when the cancel function is called (not deferred) before the Ping.  Anything else (a context kept
// in a struct field, WithDeadline, a duration srcgen cannot translate) is a broken tie.  Emitted:
//
//	ping_ctx_chain (timeout_s interval_s n_tokens : Z) : list (Z * Z * bool)
//	ping_one_ok (err_nonnil ctx_expired : bool) : bool      the return tree of the function that calls Ping
//	hc_token_not_ok (ping_ok : bool) : bool                 path condition of `notOK = append(notOK, ...)` in the loop
type scopeFrame struct {
	p      *pkgInfo
	fd     *ast.FuncDecl
	call   *ast.CallExpr // the call made in this frame that leads to the Ping (the Ping call itself in the last frame)
	inLoop bool          // the whole function is executed once per token
}

func isTokensRange(p *pkgInfo, rs *ast.RangeStmt) bool {
	return strings.HasSuffix(printNode(p.fset, rs.X), ".tokens")
}

// pingPath finds, below node, a call of a method named Ping, directly or through same-package methods.
func pingPath(dir string, p *pkgInfo, fd *ast.FuncDecl, node ast.Node, inLoop bool, depth int) ([]scopeFrame, int) {
	var best []scopeFrame
	n := 0
	ast.Inspect(node, func(x ast.Node) bool {
		ce, ok := x.(*ast.CallExpr)
		if !ok {
			return true
		}
		sel, ok := ce.Fun.(*ast.SelectorExpr)
		if !ok {
			return true
		}
		if sel.Sel.Name == "Ping" {
			n++
			if best == nil {
				best = []scopeFrame{{p: p, fd: fd, call: ce, inLoop: inLoop}}
			}
			return true
		}
		if id, ok := sel.X.(*ast.Ident); ok && id.Name == recvName(fd) && depth < 3 {
			if p2, fd2 := findFunc(dir, "Server", sel.Sel.Name); fd2 != nil && fd2.Body != nil {
				sub, k := pingPath(dir, p2, fd2, fd2.Body, true, depth+1)
				if k > 0 {
					n += k
					if best == nil {
						best = append([]scopeFrame{{p: p, fd: fd, call: ce, inLoop: inLoop}}, sub...)
					}
				}
			}
		}
		return true
	})
	return best, n
}

// bindingOf finds the statement `name, _ := <call>` (or `name := <call>`) in fd that lexically precedes pos.
func bindingOf(fd *ast.FuncDecl, name string, pos token.Pos) (*ast.AssignStmt, *ast.CallExpr) {
	var as *ast.AssignStmt
	var call *ast.CallExpr
	ast.Inspect(fd.Body, func(n ast.Node) bool {
		a, ok := n.(*ast.AssignStmt)
		if !ok || a.Pos() >= pos || len(a.Rhs) != 1 || len(a.Lhs) == 0 {
			return true
		}
		if id, ok := a.Lhs[0].(*ast.Ident); ok && id.Name == name {
			if ce, ok := a.Rhs[0].(*ast.CallExpr); ok {
				as, call = a, ce // the last one before pos wins
			} else {
				as, call = a, nil
			}
		}
		return true
	})
	return as, call
}

func paramIndex(fd *ast.FuncDecl, name string) int {
	k := 0
	for _, f := range fd.Type.Params.List {
		for _, nm := range f.Names {
			if nm.Name == name {
				return k
			}
			k++
		}
		if len(f.Names) == 0 {
			k++
		}
	}
	return -1
}

// inlineHelper replaces a call of a same-package method without arguments whose body is a single return by the
// returned expression (e.g. s.healthCheckInterval()).
func inlineHelper(dir string, fd *ast.FuncDecl, e ast.Expr) ast.Expr {
	ce, ok := e.(*ast.CallExpr)
	if !ok || len(ce.Args) != 0 {
		return e
	}
	sel, ok := ce.Fun.(*ast.SelectorExpr)
	if !ok {
		return e
	}
	if id, ok := sel.X.(*ast.Ident); !ok || id.Name != recvName(fd) {
		return e
	}
	_, h := findFunc(dir, "Server", sel.Sel.Name)
	if h == nil || h.Body == nil || len(h.Body.List) != 1 || recvName(h) != recvName(fd) {
		return e
	}
	if rs, ok := h.Body.List[0].(*ast.ReturnStmt); ok && len(rs.Results) == 1 {
		return rs.Results[0]
	}
	return e
}

var scopeDurLeaves = map[string]string{
	"time.Duration(s.Config.Server.TokenCheckTimeout)":  "timeout_s",
	"time.Duration(s.Config.Server.TokenCheckInterval)": "interval_s",
	"s.Config.Server.TokenCheckTimeout":                 "timeout_s",
	"s.Config.Server.TokenCheckInterval":                "interval_s",
	"time.Duration(len(s.tokens))":                      "n_tokens",
	"len(s.tokens)":                                     "n_tokens",
}

func (o *out) pingScope(dir, recv, round string) {
	const chainName, okName, notOkName = "ping_ctx_chain", "ping_one_ok", "hc_token_not_ok"
	p, fd := findFunc(dir, recv, round)
	if fd == nil || fd.Body == nil {
		for _, n := range []string{chainName, okName, notOkName} {
			o.brokenDef(n, "function "+dir+":"+recv+"."+round+" not found")
		}
		return
	}
	var loop *ast.RangeStmt
	ast.Inspect(fd.Body, func(n ast.Node) bool {
		if rs, ok := n.(*ast.RangeStmt); ok && loop == nil && isTokensRange(p, rs) {
			loop = rs
		}
		return loop == nil
	})
	if loop == nil {
		for _, n := range []string{chainName, okName, notOkName} {
			o.brokenDef(n, "no `for ... range s.tokens` loop in "+round)
		}
		return
	}
	frames, nping := pingPath(dir, p, fd, loop.Body, false, 0)
	if nping != 1 || len(frames) == 0 {
		for _, n := range []string{chainName, okName, notOkName} {
			o.brokenDef(n, fmt.Sprintf("%d Ping call sites reachable from the token loop of %s (want exactly 1)", nping, round))
		}
		return
	}
	if _, outside := pingPath(dir, p, fd, fd.Body, false, 0); outside != nping {
		o.brokenDef(chainName, "a token is also pinged outside the token loop of "+round)
		return
	}
	// ---- the chain
	type elem struct {
		site  int
		dur   string
		live  bool
		where string
	}
	var chain []elem
	var trail []string
	fail := ""
	k := len(frames) - 1
	ping := frames[k].call
	if len(ping.Args) != 1 {
		fail = "Ping is not called with exactly one argument"
	}
	var cur ast.Expr
	if fail == "" {
		cur = ping.Args[0]
	}
	usePos := ping.Pos()
	for steps := 0; fail == "" && steps < 16; steps++ {
		fr := frames[k]
		txt := printNode(fr.p.fset, cur)
		if txt == "context.Background()" || txt == "context.TODO()" {
			trail = append(trail, txt)
			break
		}
		id, ok := cur.(*ast.Ident)
		if !ok {
			fail = "context of unknown origin reaches Ping: " + txt
			break
		}
		if pi := paramIndex(fr.fd, id.Name); pi >= 0 {
			if as, _ := bindingOf(fr.fd, id.Name, usePos); as != nil {
				fail = "parameter " + id.Name + " of " + fr.fd.Name.Name + " is reassigned"
				break
			}
			if k == 0 {
				fail = "context parameter " + id.Name + " of the round function " + fr.fd.Name.Name
				break
			}
			k--
			if pi >= len(frames[k].call.Args) {
				fail = "call of " + fr.fd.Name.Name + " has too few arguments"
				break
			}
			cur = frames[k].call.Args[pi]
			usePos = frames[k].call.Pos()
			trail = append(trail, "parameter "+id.Name+" of "+fr.fd.Name.Name)
			continue
		}
		as, call := bindingOf(fr.fd, id.Name, usePos)
		if as == nil || call == nil {
			fail = "no binding of " + id.Name + " by a context constructor in " + fr.fd.Name.Name
			break
		}
		// the creating statement must be executed unconditionally: directly in the function body or in the loop body
		direct := false
		for _, st := range fr.fd.Body.List {
			direct = direct || st == ast.Stmt(as)
		}
		if k == 0 {
			for _, st := range loop.Body.List {
				direct = direct || st == ast.Stmt(as)
			}
		}
		if !direct {
			fail = "context " + id.Name + " is created conditionally (" + printNode(fr.p.fset, as) + " is nested in another statement of " + fr.fd.Name.Name + ")"
			break
		}
		ctor := printNode(fr.p.fset, call.Fun)
		site := 2
		if fr.inLoop || (k == 0 && as.Pos() >= loop.Body.Pos() && as.End() <= loop.Body.End()) {
			site = 1
		}
		// is the cancel function called (not deferred) between the creation and the use?
		live := true
		if len(as.Lhs) == 2 {
			if cid, ok := as.Lhs[1].(*ast.Ident); ok && cid.Name != "_" {
				ast.Inspect(fr.fd.Body, func(n ast.Node) bool {
					if _, isDefer := n.(*ast.DeferStmt); isDefer {
						return false
					}
					if ce, ok := n.(*ast.CallExpr); ok && ce.Pos() > as.End() && ce.Pos() < usePos {
						if f, ok := ce.Fun.(*ast.Ident); ok && f.Name == cid.Name {
							live = false
						}
					}
					return true
				})
			}
		}
		where := map[int]string{1: "once per token", 2: "once per round, before/outside the token loop"}[site]
		switch ctor {
		case "context.WithTimeout":
			if len(call.Args) != 2 {
				fail = "context.WithTimeout with unexpected arguments"
				break
			}
			t := o.newTr(fr.p, funcSpec{dir: dir, leaves: scopeDurLeaves})
			if rn := recvName(fr.fd); rn != "s" && rn != "" {
				l2 := map[string]string{}
				for kk, v := range scopeDurLeaves {
					l2[strings.ReplaceAll(kk, "s.", rn+".")] = v
				}
				t.leaves = l2
			}
			d := t.expr(inlineHelper(dir, fr.fd, call.Args[1]))
			if t.err != nil {
				fail = "duration of " + printNode(fr.p.fset, call) + ": " + t.err.Error()
				break
			}
			chain = append(chain, elem{site, d, live, where})
			trail = append(trail, fmt.Sprintf("%s := %s in %s (%s)", id.Name, printNode(fr.p.fset, call), fr.fd.Name.Name, where))
			cur = call.Args[0]
		case "context.WithCancel":
			if !live {
				chain = append(chain, elem{site, "0", false, where})
			}
			trail = append(trail, fmt.Sprintf("%s := %s in %s", id.Name, printNode(fr.p.fset, call), fr.fd.Name.Name))
			cur = call.Args[0]
		default:
			fail = "context " + id.Name + " is made by " + ctor + ", which the scope model does not cover"
		}
		usePos = as.Pos()
	}
	if fail != "" {
		o.brokenDef(chainName, fail)
	} else {
		var items []string
		for _, e := range chain {
			items = append(items, fmt.Sprintf("(%d, %s, %v)", e.site, e.dur, e.live))
		}
		o.f("Definition %s (timeout_s interval_s n_tokens : Z) : list (Z * Z * bool) :=\n  [%s].\n(* %s:%s.%s: Ping(%s) <- %s *)\n",
			chainName, strings.Join(items, "; "), dir, recv, round, printNode(frames[len(frames)-1].p.fset, ping.Args[0]), strings.Join(trail, " <- "))
	}
	// ---- what the function that calls Ping returns
	last := frames[len(frames)-1]
	if len(frames) < 2 {
		o.brokenDef(okName, "Ping is called directly in the token loop of "+round+" (no pingOne-like function to translate)")
	} else {
		ctxName := "ctx"
		if id, ok := ping.Args[0].(*ast.Ident); ok {
			ctxName = id.Name
		}
		errName := ""
		ast.Inspect(last.fd.Body, func(n ast.Node) bool {
			if as, ok := n.(*ast.AssignStmt); ok && len(as.Rhs) == 1 && as.Rhs[0] == ast.Expr(ping) && len(as.Lhs) == 1 {
				if id, ok := as.Lhs[0].(*ast.Ident); ok {
					errName = id.Name
				}
			}
			return true
		})
		pingTxt := printNode(last.p.fset, ping)
		leaves := map[string]string{
			pingTxt + " != nil": "err_nonnil", pingTxt + " == nil": "(negb err_nonnil)",
			ctxName + ".Err() != nil": "ctx_expired", ctxName + ".Err() == nil": "(negb ctx_expired)",
		}
		if errName != "" {
			leaves[errName+" != nil"] = "err_nonnil"
			leaves[errName+" == nil"] = "(negb err_nonnil)"
		}
		t := o.newTr(last.p, funcSpec{dir: dir, leaves: leaves})
		body := retTree(t, last.fd.Body.List, "")
		if t.err != nil {
			o.brokenDef(okName, t.err.Error())
		} else {
			o.f("Definition %s (err_nonnil ctx_expired : bool) : bool :=\n  %s.\n(* return tree of %s:%s.%s, err = result of %s *)\n", okName, body, dir, recv, last.fd.Name.Name, pingTxt)
		}
	}
	// ---- which ping outcome healthCheck counts as a failed token
	{
		leaves := map[string]string{printNode(p.fset, frames[0].call): "ping_ok"}
		t := o.newTr(p, funcSpec{dir: dir, leaves: leaves})
		var conds []string
		found := 0
		var walk func(list []ast.Stmt, path []string)
		walk = func(list []ast.Stmt, path []string) {
			for _, s := range list {
				switch x := s.(type) {
				case *ast.AssignStmt:
					if len(x.Lhs) == 1 && len(x.Rhs) == 1 && printNode(p.fset, x.Lhs[0]) == "notOK" && strings.HasPrefix(printNode(p.fset, x.Rhs[0]), "append(notOK") {
						found++
						c := "true"
						if len(path) > 0 {
							c = "(" + strings.Join(path, " && ") + ")"
						}
						conds = append(conds, c)
					}
				case *ast.IfStmt:
					if x.Init != nil {
						walk([]ast.Stmt{x.Init}, path)
					}
					c := t.expr(x.Cond)
					walk(x.Body.List, append(append([]string{}, path...), c))
					switch e := x.Else.(type) {
					case *ast.BlockStmt:
						walk(e.List, append(append([]string{}, path...), "(negb "+c+")"))
					case *ast.IfStmt:
						walk([]ast.Stmt{e}, append(append([]string{}, path...), "(negb "+c+")"))
					}
				case *ast.BlockStmt:
					walk(x.List, path)
				}
			}
		}
		// the result of the ping may be kept in a local first (`ok := s.pingOne(...)`)
		for _, s := range loop.Body.List {
			if as, ok := s.(*ast.AssignStmt); ok && len(as.Lhs) == 1 && len(as.Rhs) == 1 && as.Rhs[0] == ast.Expr(frames[0].call) {
				if id, ok := as.Lhs[0].(*ast.Ident); ok {
					leaves[id.Name] = "ping_ok"
				}
			}
		}
		// only the if statements that lead to the append are translated; others would be unmapped
		var relevant []ast.Stmt
		for _, s := range loop.Body.List {
			if is, ok := s.(*ast.IfStmt); ok && !strings.Contains(printNode(p.fset, is), "append(notOK") {
				continue
			}
			relevant = append(relevant, s)
		}
		walk(relevant, nil)
		switch {
		case found == 0:
			o.brokenDef(notOkName, "no `notOK = append(notOK, ...)` in the token loop of "+round)
		case t.err != nil:
			o.brokenDef(notOkName, t.err.Error())
		default:
			o.f("Definition %s (ping_ok : bool) : bool :=\n  %s.\n(* %s:%s.%s: path condition of `notOK = append(notOK, ...)`, ping_ok = %s *)\n",
				notOkName, strings.Join(conds, " || "), dir, recv, round, printNode(p.fset, frames[0].call))
		}
	}
}

func containsReturn(n ast.Node) bool {
	found := false
	ast.Inspect(n, func(x ast.Node) bool {
		if _, ok := x.(*ast.FuncLit); ok {
			return false
		}
		if _, ok := x.(*ast.ReturnStmt); ok {
			found = true
		}
		return !found
	})
	return found
}

// retTree translates the return structure of a loop-free body: if statements that contain a return become
// conditionals, everything else (logging, bookkeeping, the init statement of an if) is skipped.
func retTree(t *tr, list []ast.Stmt, rest string) string {
	for i, s := range list {
		switch x := s.(type) {
		case *ast.ReturnStmt:
			if len(x.Results) != 1 {
				return t.fail("return with %d results", len(x.Results))
			}
			return t.expr(x.Results[0])
		case *ast.IfStmt:
			if !containsReturn(x) {
				continue
			}
			cont := retTree(t, list[i+1:], rest)
			thenS := retTree(t, x.Body.List, cont)
			elseS := cont
			switch e := x.Else.(type) {
			case *ast.BlockStmt:
				elseS = retTree(t, e.List, cont)
			case *ast.IfStmt:
				elseS = retTree(t, []ast.Stmt{e}, cont)
			}
			return "(if " + t.expr(x.Cond) + " then " + thenS + " else " + elseS + ")"
		case *ast.ForStmt, *ast.RangeStmt, *ast.SwitchStmt, *ast.SelectStmt, *ast.TypeSwitchStmt:
			if containsReturn(x) {
				return t.fail("return inside a loop/switch/select")
			}
		}
	}
	if rest == "" {
		return t.fail("fallthrough without a return")
	}
	return rest
}
