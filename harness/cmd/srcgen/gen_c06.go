package main

import (
	"fmt"
	"go/ast"
	"go/parser"
	"go/token"
	"os/exec"
	"path/filepath"
	"runtime"
	"strconv"
	"strings"
)

func init() {
	generators["C06_gen"] = func(o *out) {
		// index into [Init Sign PublishAudit Write]
		o.callOrder("server", "Server", "serveSign", "serve_calls", []string{"Init", "Sign", "PublishAudit", "Write"})
		// index into [Publish AppendTo]
		o.callOrder("internal/signinit", "", "PublishAudit", "publish_calls", []string{"Publish", "AppendTo"})
		// index into [OpenFile Marshal Write Close]
		o.callOrder("lib/audit", "Info", "AppendTo", "append_calls", []string{"OpenFile", "Marshal", "Write", "Close"})
		// standalone: index into [Init Sign Apply Fixup PublishAudit]
		o.callOrder("cmdline/token", "", "signCmd", "standalone_calls", []string{"Init", "Sign", "Apply", "Fixup", "PublishAudit"})
		pl := map[string]string{`aconf != nil && aconf.URL != ""`: "amqp_configured", `logFile != ""`: "file_configured"}
		pt := map[string]string{`aconf != nil && aconf.URL != ""`: "bool", `logFile != ""`: "bool"}
		o.condOf(funcSpec{dir: "internal/signinit", recv: "", name: "PublishAudit", coqName: "publish_uses_amqp",
			params: "(amqp_configured : bool)", retType: "bool", leaves: pl, types: pt}, "aconf", 0)
		o.condOf(funcSpec{dir: "internal/signinit", recv: "", name: "PublishAudit", coqName: "publish_uses_file",
			params: "(file_configured : bool)", retType: "bool", leaves: pl, types: pt}, "logFile", 0)
		for _, fn := range [][3]string{{"server", "Server", "serveSign"}, {"internal/signinit", "", "PublishAudit"}, {"internal/signinit", "", "Init"},
			{"lib/audit", "Info", "AppendTo"}, {"lib/audit", "Info", "Marshal"}, {"lib/audit", "", "New"}, {"cmdline/token", "", "signCmd"}} {
			fingerprint(fn[0], fn[1], fn[2])
		}
		genAppendProgram(o)
	}
}

// ---------------------------------------------------------------------------------------------------------------------
// lib/audit Info.AppendTo as an I/O program: which writer every byte of the record goes through, how many
// Write / WriteByte / WriteString / Flush calls there are and in which order, whether the line terminator is part of the
// same buffer, which results are checked, the open(2) flags, and every branch on the record length. The statements are
// translated one by one; a statement the translator does not understand is a broken tie (the definition is not emitted
// and C06/Append.v stops compiling).

const appendIR = `(* the I/O program of lib/audit Info.AppendTo (types are emitted here so that this file stands alone) *)
Inductive apiece := PBlob | PByte (b : Z).                  (* a piece of a payload: the record buffer as it is now / a literal byte *)
Inductive acmp := CLt | CLe | CGt | CGe | CEq | CNe.
(* chk: what the code does with the error result: 0 ignored; 1 "!= nil" leads to a non-nil return; 2 "== nil" leads to a
   non-nil return (inverted test); 3 "!= nil" leads to "return nil" (error swallowed, function stops) *)
Inductive aop :=
| AOpen (chk : Z)                                           (* os.OpenFile with the flags below *)
| AMarshal (chk : Z)                                        (* blob, err := info.Marshal() *)
| AAppend (lit : list Z)                                    (* blob = append(blob, lit...) *)
| ANewWriter (w : Z) (under : Z) (size : Z)                 (* w := bufio.NewWriterSize(under, size); writer 0 is the file *)
| AWrite (w : Z) (p : list apiece) (chk : Z)                (* ONE Write/WriteString/Fprintf call on writer w carrying p *)
| AWriteByte (w : Z) (c : Z) (chk : Z)
| AFlush (w : Z) (chk : Z)
| AIf (c : acmp) (k : Z) (n : Z) (t e : list aop)           (* if len(blob)+k c n { t } else { e } *)
| AReturn (ok : bool).
`

type apTr struct {
	p       *pkgInfo
	file    string
	blob    string
	writers map[string]int
	nextW   int
	errs    []string
	flags   map[string]bool
	opened  bool
}

func (t *apTr) fail(format string, a ...interface{}) {
	t.errs = append(t.errs, fmt.Sprintf(format, a...))
}

func (t *apTr) src(n ast.Node) string {
	return strings.Join(strings.Fields(printNode(t.p.fset, n)), " ")
}

type aopT struct {
	kind    string // open marshal append neww write wbyte flush if ret
	w       int
	under   int
	size    int64
	payload []int // -1 = blob, else a literal byte
	c       int64
	chk     int
	cmp     string
	k, n    int64
	t, e    []*aopT
	ok      bool
	binds   bool // the statement binds the error result to a variable a later `if err ...` can test
}

func c06CoqZ(v int64) string {
	if v < 0 {
		return fmt.Sprintf("(%d)", v)
	}
	return strconv.FormatInt(v, 10)
}

func coqPieces(p []int) string {
	var s []string
	for _, x := range p {
		if x < 0 {
			s = append(s, "PBlob")
		} else {
			s = append(s, fmt.Sprintf("PByte %d", x))
		}
	}
	return "[" + strings.Join(s, "; ") + "]"
}

func coqOps(ops []*aopT, ind string) string {
	var s []string
	for _, op := range ops {
		switch op.kind {
		case "open":
			s = append(s, fmt.Sprintf("AOpen %d", op.chk))
		case "marshal":
			s = append(s, fmt.Sprintf("AMarshal %d", op.chk))
		case "append":
			var b []string
			for _, x := range op.payload {
				b = append(b, strconv.Itoa(x))
			}
			s = append(s, "AAppend ["+strings.Join(b, "; ")+"]")
		case "neww":
			s = append(s, fmt.Sprintf("ANewWriter %d %d %s", op.w, op.under, c06CoqZ(op.size)))
		case "write":
			s = append(s, fmt.Sprintf("AWrite %d %s %d", op.w, coqPieces(op.payload), op.chk))
		case "wbyte":
			s = append(s, fmt.Sprintf("AWriteByte %d %s %d", op.w, c06CoqZ(op.c), op.chk))
		case "flush":
			s = append(s, fmt.Sprintf("AFlush %d %d", op.w, op.chk))
		case "if":
			s = append(s, fmt.Sprintf("AIf %s %s %s\n%s    %s\n%s    %s", op.cmp, c06CoqZ(op.k), c06CoqZ(op.n), ind, coqOps(op.t, ind+"    "), ind, coqOps(op.e, ind+"    ")))
		case "ret":
			s = append(s, fmt.Sprintf("AReturn %v", op.ok))
		}
	}
	return "[" + strings.Join(s, ";\n"+ind+" ") + "]"
}

// payload of a Write-like call: the record buffer and literal bytes, in order
func (t *apTr) payload(e ast.Expr) ([]int, bool) {
	switch x := e.(type) {
	case *ast.ParenExpr:
		return t.payload(x.X)
	case *ast.Ident:
		if x.Name == t.blob && t.blob != "" {
			return []int{-1}, true
		}
	case *ast.BasicLit:
		switch x.Kind {
		case token.STRING:
			s, err := strconv.Unquote(x.Value)
			if err == nil {
				var r []int
				for _, b := range []byte(s) {
					r = append(r, int(b))
				}
				return r, true
			}
		case token.CHAR:
			r, _, _, err := strconv.UnquoteChar(x.Value[1:len(x.Value)-1], '\'')
			if err == nil && r < 256 {
				return []int{int(r)}, true
			}
		case token.INT:
			v, err := strconv.ParseInt(x.Value, 0, 64)
			if err == nil && v >= 0 && v < 256 {
				return []int{int(v)}, true
			}
		}
	case *ast.BinaryExpr:
		if x.Op == token.ADD {
			a, ok1 := t.payload(x.X)
			b, ok2 := t.payload(x.Y)
			return append(a, b...), ok1 && ok2
		}
	case *ast.CompositeLit:
		if t.src(x.Type) == "[]byte" {
			var r []int
			for _, el := range x.Elts {
				p, ok := t.payload(el)
				if !ok || len(p) != 1 || p[0] < 0 {
					return nil, false
				}
				r = append(r, p[0])
			}
			return r, true
		}
	case *ast.SliceExpr:
		if x.Low == nil && x.High == nil && x.Max == nil {
			return t.payload(x.X)
		}
	case *ast.CallExpr:
		fn := t.src(x.Fun)
		if (fn == "string" || fn == "[]byte") && len(x.Args) == 1 {
			return t.payload(x.Args[0])
		}
		if fn == "append" && len(x.Args) >= 1 {
			r, ok := t.payload(x.Args[0])
			for _, a := range x.Args[1:] {
				p, ok2 := t.payload(a)
				r, ok = append(r, p...), ok && ok2
			}
			return r, ok
		}
	}
	return nil, false
}

func (t *apTr) writerOf(e ast.Expr) (int, bool) {
	if id, ok := e.(*ast.Ident); ok {
		if id.Name == t.file && t.file != "" {
			return 0, true
		}
		if w, ok := t.writers[id.Name]; ok {
			return w, true
		}
	}
	return 0, false
}

// a call that moves bytes: returns the op (chk unset) or nil if the call is not one the translator knows
func (t *apTr) ioCall(ce *ast.CallExpr) *aopT {
	fn := t.src(ce.Fun)
	if sel, ok := ce.Fun.(*ast.SelectorExpr); ok {
		if w, ok := t.writerOf(sel.X); ok {
			switch sel.Sel.Name {
			case "Write", "WriteString":
				if len(ce.Args) == 1 {
					if p, ok := t.payload(ce.Args[0]); ok {
						return &aopT{kind: "write", w: w, payload: p}
					}
				}
			case "WriteByte":
				if len(ce.Args) == 1 && w != 0 {
					if p, ok := t.payload(ce.Args[0]); ok && len(p) == 1 && p[0] >= 0 {
						return &aopT{kind: "wbyte", w: w, c: int64(p[0])}
					}
				}
			case "Flush":
				if len(ce.Args) == 0 && w != 0 {
					return &aopT{kind: "flush", w: w}
				}
			}
			t.fail("call on the audit file / its writer that is not translated: %s", t.src(ce))
			return nil
		}
	}
	switch fn {
	case "io.WriteString":
		if len(ce.Args) == 2 {
			if w, ok := t.writerOf(ce.Args[0]); ok {
				if p, ok := t.payload(ce.Args[1]); ok {
					return &aopT{kind: "write", w: w, payload: p}
				}
			}
		}
	case "fmt.Fprint", "fmt.Fprintln":
		if len(ce.Args) == 2 {
			if w, ok := t.writerOf(ce.Args[0]); ok {
				if p, ok := t.payload(ce.Args[1]); ok {
					if fn == "fmt.Fprintln" {
						p = append(p, 10)
					}
					return &aopT{kind: "write", w: w, payload: p}
				}
			}
		}
	case "fmt.Fprintf":
		if len(ce.Args) >= 2 {
			w, ok := t.writerOf(ce.Args[0])
			lit, ok2 := ce.Args[1].(*ast.BasicLit)
			if ok && ok2 && lit.Kind == token.STRING {
				f, err := strconv.Unquote(lit.Value)
				args := ce.Args[2:]
				var p []int
				good := err == nil
				for i := 0; good && i < len(f); i++ {
					if f[i] != '%' {
						p = append(p, int(f[i]))
						continue
					}
					i++
					switch {
					case i < len(f) && f[i] == '%':
						p = append(p, '%')
					case i < len(f) && (f[i] == 's' || f[i] == 'v') && len(args) > 0:
						q, ok := t.payload(args[0])
						args = args[1:]
						p, good = append(p, q...), ok
					default:
						good = false
					}
				}
				if good && len(args) == 0 {
					return &aopT{kind: "write", w: w, payload: p}
				}
			}
		}
	default:
		return nil
	}
	t.fail("write to the audit file that is not translated: %s", t.src(ce))
	return nil
}

var cmpNames = map[token.Token]string{token.LSS: "CLt", token.LEQ: "CLe", token.GTR: "CGt", token.GEQ: "CGe", token.EQL: "CEq", token.NEQ: "CNe"}

// `err != nil` / `err == nil` (any variable whose name ends in err) -> 1 / 2
func errCond(e ast.Expr) int {
	b, ok := e.(*ast.BinaryExpr)
	if !ok {
		return 0
	}
	x, ok1 := b.X.(*ast.Ident)
	y, ok2 := b.Y.(*ast.Ident)
	if !ok1 || !ok2 || y.Name != "nil" || !strings.HasSuffix(strings.ToLower(x.Name), "err") {
		return 0
	}
	switch b.Op {
	case token.NEQ:
		return 1
	case token.EQL:
		return 2
	}
	return 0
}

// what the body of an `if err ...` does: 1 returns a non-nil error, 3 returns nil, 0 neither (falls through)
func (t *apTr) bodyOutcome(b *ast.BlockStmt) int {
	for _, s := range b.List {
		if r, ok := s.(*ast.ReturnStmt); ok {
			if len(r.Results) == 1 && t.src(r.Results[0]) == "nil" {
				return 3
			}
			return 1
		}
	}
	return 0
}

func bindsErr(lhs []ast.Expr) bool {
	for _, l := range lhs {
		if id, ok := l.(*ast.Ident); ok && strings.HasSuffix(strings.ToLower(id.Name), "err") {
			return true
		}
	}
	return false
}

// chk value from the test and what its body does
func chkOf(cond, outcome int) (int, bool) {
	switch {
	case outcome == 0:
		return 0, true // the error is looked at but the function carries on
	case cond == 1 && outcome == 1:
		return 1, true
	case cond == 2 && outcome == 1:
		return 2, true
	case cond == 1 && outcome == 3:
		return 3, true
	}
	return 0, false
}

func (t *apTr) lenExpr(e ast.Expr) (int64, bool) {
	switch x := e.(type) {
	case *ast.ParenExpr:
		return t.lenExpr(x.X)
	case *ast.CallExpr:
		if t.src(x.Fun) == "len" && len(x.Args) == 1 && t.src(x.Args[0]) == t.blob && t.blob != "" {
			return 0, true
		}
	case *ast.BinaryExpr:
		if x.Op == token.ADD || x.Op == token.SUB {
			k, ok := t.lenExpr(x.X)
			c, err := evalConst("lib/audit", x.Y, 0)
			if ok && err == nil && !c.isFloat {
				if x.Op == token.SUB {
					return k - c.i, true
				}
				return k + c.i, true
			}
		}
	}
	return 0, false
}

func (t *apTr) openFlags(e ast.Expr) {
	switch x := e.(type) {
	case *ast.BinaryExpr:
		if x.Op == token.OR {
			t.openFlags(x.X)
			t.openFlags(x.Y)
			return
		}
	case *ast.ParenExpr:
		t.openFlags(x.X)
		return
	case *ast.SelectorExpr:
		s := t.src(x)
		if strings.HasPrefix(s, "os.O_") || strings.HasPrefix(s, "syscall.O_") || strings.HasPrefix(s, "unix.O_") {
			t.flags[s[strings.Index(s, ".")+1:]] = true
			return
		}
	}
	t.fail("open flags not understood: %s", t.src(e))
}

func (t *apTr) stmts(list []ast.Stmt) []*aopT {
	var ops []*aopT
	last := func() *aopT {
		if len(ops) == 0 {
			return nil
		}
		return ops[len(ops)-1]
	}
	for _, s := range list {
		switch x := s.(type) {
		case *ast.DeferStmt:
			// deferred Close (plain or inside a closure): not part of the write path; the function is fingerprinted
			if !strings.Contains(t.src(x), ".Close()") {
				t.fail("deferred statement not understood: %s", t.src(x))
			}
		case *ast.AssignStmt:
			if len(x.Rhs) != 1 {
				t.fail("statement not translated: %s", t.src(x))
				continue
			}
			ce, isCall := x.Rhs[0].(*ast.CallExpr)
			if !isCall {
				t.fail("statement not translated: %s", t.src(x))
				continue
			}
			fn := t.src(ce.Fun)
			switch {
			case fn == "os.OpenFile" && len(ce.Args) == 3 && len(x.Lhs) == 2:
				t.file, t.opened = t.src(x.Lhs[0]), true
				t.openFlags(ce.Args[1])
				ops = append(ops, &aopT{kind: "open", binds: bindsErr(x.Lhs)})
			case fn == "os.Create" && len(x.Lhs) == 2:
				t.file, t.opened = t.src(x.Lhs[0]), true
				t.flags["O_RDWR"], t.flags["O_CREATE"], t.flags["O_TRUNC"] = true, true, true
				ops = append(ops, &aopT{kind: "open", binds: bindsErr(x.Lhs)})
			case strings.HasSuffix(fn, ".Marshal") && len(ce.Args) == 0 && len(x.Lhs) == 2:
				t.blob = t.src(x.Lhs[0])
				ops = append(ops, &aopT{kind: "marshal", binds: bindsErr(x.Lhs)})
			case fn == "append" && len(x.Lhs) == 1 && t.src(x.Lhs[0]) == t.blob && len(ce.Args) >= 2 && t.src(ce.Args[0]) == t.blob:
				var lit []int
				good := true
				for _, a := range ce.Args[1:] {
					p, ok := t.payload(a)
					for _, b := range p {
						good = good && b >= 0
					}
					lit, good = append(lit, p...), good && ok
				}
				if !good || ce.Ellipsis != token.NoPos && len(ce.Args) != 2 {
					t.fail("append to the record buffer not translated: %s", t.src(x))
					continue
				}
				ops = append(ops, &aopT{kind: "append", payload: lit})
			case (fn == "bufio.NewWriter" && len(ce.Args) == 1 || fn == "bufio.NewWriterSize" && len(ce.Args) == 2) && len(x.Lhs) == 1:
				under, ok := t.writerOf(ce.Args[0])
				if !ok {
					t.fail("buffered writer over something that is not the audit file: %s", t.src(x))
					continue
				}
				size := int64(0) // 0 = bufio's default
				if len(ce.Args) == 2 {
					c, err := evalConst("lib/audit", ce.Args[1], 0)
					if err != nil || c.isFloat {
						t.fail("buffer size is not a constant: %s", t.src(x))
						continue
					}
					size = c.i
				}
				t.nextW++
				t.writers[t.src(x.Lhs[0])] = t.nextW
				ops = append(ops, &aopT{kind: "neww", w: t.nextW, under: under, size: size})
			default:
				if op := t.ioCall(ce); op != nil {
					op.binds = bindsErr(x.Lhs)
					ops = append(ops, op)
				} else {
					t.fail("statement not translated: %s", t.src(x))
				}
			}
		case *ast.ExprStmt:
			ce, ok := x.X.(*ast.CallExpr)
			if !ok {
				t.fail("statement not translated: %s", t.src(x))
				continue
			}
			if op := t.ioCall(ce); op != nil {
				ops = append(ops, op)
			} else if len(t.errs) == 0 {
				t.fail("statement not translated: %s", t.src(x))
			}
		case *ast.IfStmt:
			// (a) if <call>; err ... { ... }   (b) if err ... { ... } testing the previous statement   (c) if len(blob) ...
			if x.Init != nil {
				as, ok := x.Init.(*ast.AssignStmt)
				var op *aopT
				if ok && len(as.Rhs) == 1 {
					if ce, ok := as.Rhs[0].(*ast.CallExpr); ok {
						op = t.ioCall(ce)
					}
				}
				c := errCond(x.Cond)
				if op == nil || c == 0 || x.Else != nil || !bindsErr(as.Lhs) {
					t.fail("if statement not translated: %s", t.src(x))
					continue
				}
				chk, ok := chkOf(c, t.bodyOutcome(x.Body))
				if !ok {
					t.fail("error test not translated: %s", t.src(x))
					continue
				}
				op.chk = chk
				ops = append(ops, op)
				continue
			}
			if c := errCond(x.Cond); c != 0 {
				l := last()
				if l == nil || !l.binds || x.Else != nil {
					t.fail("error test without a preceding call: %s", t.src(x))
					continue
				}
				chk, ok := chkOf(c, t.bodyOutcome(x.Body))
				if !ok {
					t.fail("error test not translated: %s", t.src(x))
					continue
				}
				l.chk, l.binds = chk, false
				continue
			}
			if b, ok := x.Cond.(*ast.BinaryExpr); ok {
				k, ok1 := t.lenExpr(b.X)
				n, err := evalConst("lib/audit", b.Y, 0)
				cmp, ok2 := cmpNames[b.Op]
				if ok1 && ok2 && err == nil && !n.isFloat {
					op := &aopT{kind: "if", cmp: cmp, k: k, n: n.i, t: t.stmts(x.Body.List)}
					switch e := x.Else.(type) {
					case nil:
					case *ast.BlockStmt:
						op.e = t.stmts(e.List)
					default:
						op.e = t.stmts([]ast.Stmt{e})
					}
					ops = append(ops, op)
					continue
				}
			}
			t.fail("if statement not translated: %s", t.src(x))
		case *ast.ReturnStmt:
			if len(x.Results) != 1 {
				t.fail("return not translated: %s", t.src(x))
				continue
			}
			if t.src(x.Results[0]) == "nil" {
				ops = append(ops, &aopT{kind: "ret", ok: true})
				continue
			}
			if ce, ok := x.Results[0].(*ast.CallExpr); ok {
				if op := t.ioCall(ce); op != nil { // return w.Flush()
					op.chk = 1
					ops = append(ops, op, &aopT{kind: "ret", ok: true})
					continue
				}
				if len(t.errs) > 0 {
					continue
				}
			}
			ops = append(ops, &aopT{kind: "ret", ok: false})
		default:
			t.fail("statement not translated: %s", t.src(s))
		}
	}
	return ops
}

// a constant of the Go standard library the harness is built with (bufio's default buffer, the runtime's write cap)
func gorootConst(rel, name string) (int64, error) {
	root := runtime.GOROOT()
	if out, err := exec.Command("go", "env", "GOROOT").Output(); err == nil && strings.TrimSpace(string(out)) != "" {
		root = strings.TrimSpace(string(out))
	}
	fset := token.NewFileSet()
	f, err := parser.ParseFile(fset, filepath.Join(root, "src", rel), nil, 0)
	if err != nil {
		return 0, err
	}
	for _, d := range f.Decls {
		gd, ok := d.(*ast.GenDecl)
		if !ok || gd.Tok != token.CONST {
			continue
		}
		for _, s := range gd.Specs {
			vs := s.(*ast.ValueSpec)
			for i, n := range vs.Names {
				if n.Name == name && len(vs.Values) > i {
					c, err := evalConst("", vs.Values[i], 0)
					if err != nil || c.isFloat {
						return 0, fmt.Errorf("constant %s of %s is not an integer literal expression", name, rel)
					}
					return c.i, nil
				}
			}
		}
	}
	return 0, fmt.Errorf("constant %s not found in %s", name, rel)
}

func genAppendProgram(o *out) {
	for _, c := range [][3]string{{"bufio/bufio.go", "defaultBufSize", "bufio_default_size"}, {"internal/poll/fd_unix.go", "maxRW", "os_max_rw"}} {
		v, err := gorootConst(c[0], c[1])
		if err != nil {
			o.brokenDef(c[2], err.Error())
			continue
		}
		o.f("Definition %s : Z := %d. (* GOROOT/src/%s : %s *)\n", c[2], v, c[0], c[1])
	}
	o.f("\n%s\n", appendIR)
	p, fd := findFunc("lib/audit", "Info", "AppendTo")
	if fd == nil {
		o.brokenDef("append_prog", "function lib/audit:Info.AppendTo not found")
		return
	}
	t := &apTr{p: p, writers: map[string]int{}, flags: map[string]bool{}}
	ops := t.stmts(fd.Body.List)
	if !t.opened && len(t.errs) == 0 {
		t.fail("no os.OpenFile in AppendTo")
	}
	if len(t.errs) > 0 {
		o.brokenDef("append_prog", strings.Join(t.errs, " | "))
		return
	}
	var fl []string
	for _, k := range []string{"O_APPEND", "O_CREATE", "O_WRONLY", "O_RDWR", "O_TRUNC", "O_EXCL", "O_SYNC"} {
		if t.flags[k] {
			fl = append(fl, k)
		}
		delete(t.flags, k)
	}
	for k := range t.flags {
		o.brokenDef("append_open_append", "open flag not modelled: "+k)
		return
	}
	o.f("(* lib/audit:Info.AppendTo : os.OpenFile flags %s *)\n", strings.Join(fl, "|"))
	has := func(k string) bool { return strings.Contains("|"+strings.Join(fl, "|")+"|", "|"+k+"|") }
	o.f("Definition append_open_append : bool := %v.\nDefinition append_open_trunc : bool := %v.\nDefinition append_open_create : bool := %v.\nDefinition append_open_writable : bool := %v.\n",
		has("O_APPEND"), has("O_TRUNC"), has("O_CREATE"), has("O_WRONLY") || has("O_RDWR"))
	o.f("(* lib/audit:Info.AppendTo, statement by statement *)\nDefinition append_prog : list aop :=\n  %s.\n", coqOps(ops, "  "))
}
