package main

func init() {
	generators["C06_gen"] = func(o *out) {
		// index into [Init Sign PublishAudit Write]
		o.callOrder("server", "Server", "serveSign", "serve_calls", []string{"Init", "Sign", "PublishAudit", "Write"})
		// index into [Publish AppendTo]
		o.callOrder("internal/signinit", "", "PublishAudit", "publish_calls", []string{"Publish", "AppendTo"})
		// index into [OpenFile Marshal Write Close]
		o.callOrder("lib/audit", "Info", "AppendTo", "append_calls", []string{"OpenFile", "Marshal", "Write", "Close"})
		// standalone: index into [Init Sign Apply Fixup PublishAudit]
		o.callOrder("cmdline/token", "", "signCmd", "standalone_calls", []string{"Init", "Sign", "Apply", "Fixup", "PublishAudit"})
		pl := map[string]string{`aconf != nil && aconf.URL != ""`: "amqp_configured", `logFile != ""`: "file_configured"}
		pt := map[string]string{`aconf != nil && aconf.URL != ""`: "bool", `logFile != ""`: "bool"}
		o.condOf(funcSpec{dir: "internal/signinit", recv: "", name: "PublishAudit", coqName: "publish_uses_amqp",
			params: "(amqp_configured : bool)", retType: "bool", leaves: pl, types: pt}, "aconf", 0)
		o.condOf(funcSpec{dir: "internal/signinit", recv: "", name: "PublishAudit", coqName: "publish_uses_file",
			params: "(file_configured : bool)", retType: "bool", leaves: pl, types: pt}, "logFile", 0)
		for _, fn := range [][3]string{{"server", "Server", "serveSign"}, {"internal/signinit", "", "PublishAudit"}, {"internal/signinit", "", "Init"},
			{"lib/audit", "Info", "AppendTo"}, {"lib/audit", "Info", "Marshal"}, {"lib/audit", "", "New"}, {"cmdline/token", "", "signCmd"}} {
			fingerprint(fn[0], fn[1], fn[2])
		}
	}
}
