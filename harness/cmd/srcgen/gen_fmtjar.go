package main

// FmtJAR — format module for the JAR signing text layer (lib/signjar: manifest.go, digest.go, sign.go, verify.go) and the
// hash-name table of lib/x509tools.  Everything the Go code decides without a loop is translated here: constants and string
// literals (line length, separators, attribute names, suffixes), slice bounds, every branch condition, the switch of
// splitManifest, the whole of keepFile, the name expressions of sigNames, the composite literal of a new manifest section,
// the argument expressions of every writeAttribute call of DigestManifest, the emission order of DigestManifest / Verify.
// The loops (writeAttribute, splitManifest, parseSection, parseManifest, Dump, writeSection, updateManifest, verifyManifest,
// hashFile, verifySigFile, Verify) are hand-modelled in coq/FmtJAR/Model.v on top of these definitions and fingerprinted.
// Library calls are translated to the functions of coq/FmtJAR/Lib.v.

import (
	"fmt"
	"go/ast"
	"go/token"
	"sort"
	"strconv"
	"strings"
)

type jarX struct {
	p       *pkgInfo
	dir     string
	leaves  map[string]string // printed Go expression (spaces removed) -> Coq term
	types   map[string]string // printed Go expression -> "str" | "Z" | "bool" | "hdr"
	nilable map[string]string // printed Go expression -> Coq bool term "is present"
	locals  map[string]string
	err     error
}

func (x *jarX) fail(format string, a ...interface{}) string {
	if x.err == nil {
		x.err = fmt.Errorf(format, a...)
	}
	return "BROKEN"
}

func (x *jarX) pr(e ast.Expr) string { return strings.Join(strings.Fields(printNode(x.p.fset, e)), "") }

var jarCallTypes = map[string]string{
	"strings.HasPrefix": "bool", "strings.HasSuffix": "bool", "strings.Contains": "bool", "keepFile": "bool", "hasDigest": "bool",
	"strings.ToUpper": "str", "strings.ToLower": "str", "strings.TrimSpace": "str", "bytes.TrimSpace": "str", "path.Dir": "str",
	"path.Base": "str", "path.Ext": "str", "string": "str", "strings.Replace": "str", "hashSection": "str",
	"len": "Z", "int": "Z", "int64": "Z",
}

// string constant expressions of the package: literals, named constants, concatenations
func jarConstStr(dir string, e ast.Expr) (string, bool) {
	switch v := e.(type) {
	case *ast.BasicLit:
		if v.Kind == token.STRING {
			s, err := strconv.Unquote(v.Value)
			return s, err == nil
		}
	case *ast.ParenExpr:
		return jarConstStr(dir, v.X)
	case *ast.Ident:
		if ce, _, _, _ := findConstExpr(dir, v.Name); ce != nil {
			return jarConstStr(dir, ce)
		}
	case *ast.BinaryExpr:
		if v.Op == token.ADD {
			a, ok1 := jarConstStr(dir, v.X)
			b, ok2 := jarConstStr(dir, v.Y)
			return a + b, ok1 && ok2
		}
	}
	return "", false
}

func (x *jarX) typeOf(e ast.Expr) string {
	if t, ok := x.types[x.pr(e)]; ok {
		return t
	}
	switch v := e.(type) {
	case *ast.BasicLit:
		if v.Kind == token.STRING {
			return "str"
		}
		return "Z"
	case *ast.ParenExpr:
		return x.typeOf(v.X)
	case *ast.SliceExpr:
		return "str"
	case *ast.CompositeLit:
		return "str"
	case *ast.UnaryExpr:
		if v.Op == token.NOT {
			return "bool"
		}
		return x.typeOf(v.X)
	case *ast.BinaryExpr:
		switch v.Op {
		case token.LAND, token.LOR, token.EQL, token.NEQ, token.LSS, token.LEQ, token.GTR, token.GEQ:
			return "bool"
		}
		if x.typeOf(v.X) == "str" || x.typeOf(v.Y) == "str" {
			return "str"
		}
		return "Z"
	case *ast.Ident:
		if v.Name == "true" || v.Name == "false" {
			return "bool"
		}
		if _, ok := jarConstStr(x.dir, v); ok {
			return "str"
		}
	case *ast.CallExpr:
		fn := x.pr(v.Fun)
		if t, ok := jarCallTypes[fn]; ok {
			return t
		}
		if _, ok := v.Fun.(*ast.ArrayType); ok { // []byte(x)
			return "str"
		}
		if se, ok := v.Fun.(*ast.SelectorExpr); ok && se.Sel.Name == "Get" {
			return "str"
		}
	}
	return "Z"
}

func (x *jarX) expr(e ast.Expr) string {
	if c, ok := x.leaves[x.pr(e)]; ok {
		return c
	}
	switch v := e.(type) {
	case *ast.ParenExpr:
		return x.expr(v.X)
	case *ast.BasicLit:
		switch v.Kind {
		case token.STRING:
			s, err := strconv.Unquote(v.Value)
			if err != nil {
				return x.fail("bad string literal %s", v.Value)
			}
			return bytesLit([]byte(s))
		case token.INT:
			n, err := strconv.ParseInt(v.Value, 0, 64)
			if err != nil {
				return x.fail("bad int literal %s", v.Value)
			}
			return jarZ(n)
		case token.CHAR:
			r, _, _, err := strconv.UnquoteChar(v.Value[1:len(v.Value)-1], '\'')
			if err != nil {
				return x.fail("bad char literal %s", v.Value)
			}
			return jarZ(int64(r))
		}
	case *ast.Ident:
		if v.Name == "true" || v.Name == "false" {
			return v.Name
		}
		if c, ok := x.locals[v.Name]; ok {
			return c
		}
		if s, ok := jarConstStr(x.dir, v); ok {
			return bytesLit([]byte(s))
		}
		if ce, _, si, _ := findConstExpr(x.dir, v.Name); ce != nil {
			if cv, err := evalConst(x.dir, ce, si); err == nil && !cv.isFloat {
				return jarZ(cv.i)
			}
		}
		return x.fail("unmapped identifier %s", v.Name)
	case *ast.CompositeLit: // []byte{'\n'} / []byte{}
		if at, ok := v.Type.(*ast.ArrayType); ok && x.pr(at.Elt) == "byte" {
			var items []string
			for _, el := range v.Elts {
				items = append(items, x.expr(el))
			}
			return "[" + strings.Join(items, "; ") + "]"
		}
	case *ast.SliceExpr:
		lo, hi := "0", "(zlen "+x.expr(v.X)+")"
		if v.Low != nil {
			lo = x.expr(v.Low)
		}
		if v.High != nil {
			hi = x.expr(v.High)
		}
		return "(zslice " + lo + " " + hi + " " + x.expr(v.X) + ")"
	case *ast.UnaryExpr:
		switch v.Op {
		case token.NOT:
			return "(negb " + x.expr(v.X) + ")"
		case token.SUB:
			return "(- " + x.expr(v.X) + ")"
		}
	case *ast.CallExpr:
		if _, ok := v.Fun.(*ast.ArrayType); ok && len(v.Args) == 1 { // []byte("...")
			return x.expr(v.Args[0])
		}
		fn := x.pr(v.Fun)
		arg := func(i int) string { return x.expr(v.Args[i]) }
		switch fn {
		case "strings.HasPrefix", "bytes.HasPrefix":
			return "(jhas_prefix " + arg(0) + " " + arg(1) + ")"
		case "strings.HasSuffix", "bytes.HasSuffix":
			return "(jhas_suffix " + arg(0) + " " + arg(1) + ")"
		case "strings.Contains":
			return "(jcontains " + arg(0) + " " + arg(1) + ")"
		case "strings.ToUpper":
			return "(jto_upper " + arg(0) + ")"
		case "strings.ToLower":
			return "(jto_lower " + arg(0) + ")"
		case "strings.TrimSpace", "bytes.TrimSpace":
			return "(jtrim " + arg(0) + ")"
		case "path.Dir":
			return "(jpath_dir " + arg(0) + ")"
		case "path.Base":
			return "(jpath_base " + arg(0) + ")"
		case "path.Ext":
			return "(jpath_ext " + arg(0) + ")"
		case "keepFile":
			return "(jar_keep_file " + arg(0) + ")"
		case "hasDigest":
			return "(jar_has_digest " + arg(0) + ")"
		case "hashSection":
			return "(H " + arg(1) + ")"
		case "strings.Replace":
			// only the shape strings.Replace(s, <one byte>, "", 1) is modelled
			if o, ok := jarConstStr(x.dir, v.Args[1]); ok && len(o) == 1 {
				if n, ok := jarConstStr(x.dir, v.Args[2]); ok && n == "" && x.pr(v.Args[3]) == "1" {
					return "(jdel_first " + jarZ(int64(o[0])) + " " + arg(0) + ")"
				}
			}
			return x.fail("strings.Replace with an unmodelled shape: %s", x.pr(e))
		case "len":
			return "(zlen " + arg(0) + ")"
		case "string", "int", "int64":
			return arg(0)
		}
		if se, ok := v.Fun.(*ast.SelectorExpr); ok && se.Sel.Name == "Get" && len(v.Args) == 1 && x.typeOf(se.X) == "hdr" {
			return "(hget " + x.expr(se.X) + " " + arg(0) + ")"
		}
		return x.fail("unmapped call %s", fn)
	case *ast.BinaryExpr:
		// comparisons with nil
		if id, ok := v.Y.(*ast.Ident); ok && id.Name == "nil" && (v.Op == token.EQL || v.Op == token.NEQ) {
			pres, ok := x.nilable[x.pr(v.X)]
			if !ok {
				return x.fail("nil comparison of unmapped %s", x.pr(v.X))
			}
			if v.Op == token.EQL {
				return "(negb " + pres + ")"
			}
			return pres
		}
		a, b := x.expr(v.X), x.expr(v.Y)
		ta, tb := x.typeOf(v.X), x.typeOf(v.Y)
		str := ta == "str" || tb == "str"
		switch v.Op {
		case token.ADD:
			if str {
				return "(" + a + " ++ " + b + ")"
			}
			return "(" + a + " + " + b + ")"
		case token.SUB:
			return "(" + a + " - " + b + ")"
		case token.MUL:
			return "(" + a + " * " + b + ")"
		case token.LAND:
			return "(" + a + " && " + b + ")"
		case token.LOR:
			return "(" + a + " || " + b + ")"
		case token.EQL, token.NEQ:
			r := "(" + a + " =? " + b + ")"
			if str {
				r = "(bytes_eqb " + a + " " + b + ")"
			} else if ta == "bool" {
				r = "(Bool.eqb " + a + " " + b + ")"
			}
			if v.Op == token.NEQ {
				r = "(negb " + r + ")"
			}
			return r
		case token.LSS:
			return "(" + a + " <? " + b + ")"
		case token.LEQ:
			return "(" + a + " <=? " + b + ")"
		case token.GTR:
			return "(" + a + " >? " + b + ")"
		case token.GEQ:
			return "(" + a + " >=? " + b + ")"
		}
	}
	return x.fail("unsupported expression %s", x.pr(e))
}

// statements of a loop-free function ending in returns -> Gallina
func (x *jarX) stmts(list []ast.Stmt, rest string) string {
	if len(list) == 0 {
		if rest == "" {
			return x.fail("fallthrough without continuation")
		}
		return rest
	}
	s, tail := list[0], list[1:]
	cont := func() string {
		if len(tail) > 0 || rest != "" {
			return x.stmts(tail, rest)
		}
		return ""
	}
	switch v := s.(type) {
	case *ast.ReturnStmt:
		if len(v.Results) == 1 {
			return x.expr(v.Results[0])
		}
	case *ast.IfStmt:
		if v.Init != nil {
			return x.fail("if with init")
		}
		c := cont()
		thenS := x.stmts(v.Body.List, c)
		var elseS string
		switch e := v.Else.(type) {
		case nil:
			elseS = c
			if elseS == "" {
				return x.fail("if without else at end")
			}
		case *ast.BlockStmt:
			elseS = x.stmts(e.List, c)
		case *ast.IfStmt:
			elseS = x.stmts([]ast.Stmt{e}, c)
		}
		return "(if " + x.expr(v.Cond) + " then " + thenS + " else " + elseS + ")"
	case *ast.AssignStmt:
		if len(v.Lhs) == 1 && len(v.Rhs) == 1 && (v.Tok == token.ASSIGN || v.Tok == token.DEFINE) {
			if id, ok := v.Lhs[0].(*ast.Ident); ok {
				val := x.expr(v.Rhs[0])
				// the variable keeps its Go type; shadow the leaf for the rest of the body
				key := id.Name
				name := "v_" + id.Name + strconv.Itoa(len(x.locals))
				oldL, hadL := x.leaves[key]
				delete(x.leaves, key)
				oldV, hadV := x.locals[key]
				x.locals[key] = name
				body := x.stmts(tail, rest)
				if hadV {
					x.locals[key] = oldV
				} else {
					delete(x.locals, key)
				}
				if hadL {
					x.leaves[key] = oldL
				}
				return "(let " + name + " := " + val + " in " + body + ")"
			}
		}
	case *ast.SwitchStmt:
		if v.Init != nil {
			return x.fail("switch with init")
		}
		c := cont()
		var deflt *ast.CaseClause
		var clauses []*ast.CaseClause
		for _, cl := range v.Body.List {
			cc := cl.(*ast.CaseClause)
			if cc.List == nil {
				deflt = cc
			} else {
				clauses = append(clauses, cc)
			}
		}
		res := c
		if deflt != nil {
			res = x.stmts(deflt.Body, c)
		} else if res == "" {
			return x.fail("switch without default at end")
		}
		for i := len(clauses) - 1; i >= 0; i-- {
			cc := clauses[i]
			var conds []string
			for _, ce := range cc.List {
				if v.Tag != nil {
					conds = append(conds, x.expr(&ast.BinaryExpr{X: v.Tag, Op: token.EQL, Y: ce}))
				} else {
					conds = append(conds, x.expr(ce))
				}
			}
			res = "(if " + strings.Join(conds, " || ") + " then " + x.stmts(cc.Body, c) + " else " + res + ")"
		}
		return res
	}
	return x.fail("unsupported statement %s", strings.Join(strings.Fields(printNode(x.p.fset, s)), " "))
}

func jarZ(n int64) string {
	if n < 0 {
		return fmt.Sprintf("(%d)", n)
	}
	return fmt.Sprintf("%d", n)
}

type jarSpec struct {
	dir, recv, fn string
	coq, params   string
	ret           string
	leaves        map[string]string
	types         map[string]string
	nilable       map[string]string
}

func (s jarSpec) newX(p *pkgInfo) *jarX {
	x := &jarX{p: p, dir: s.dir, leaves: map[string]string{}, types: map[string]string{}, nilable: map[string]string{}, locals: map[string]string{}}
	for k, v := range s.leaves {
		x.leaves[strings.Join(strings.Fields(k), "")] = v
	}
	for k, v := range s.types {
		x.types[strings.Join(strings.Fields(k), "")] = v
	}
	for k, v := range s.nilable {
		x.nilable[strings.Join(strings.Fields(k), "")] = v
	}
	return x
}

func (o *out) jarDef(s jarSpec, what, body string, src string) {
	ps := s.params
	if ps != "" {
		ps = " " + ps
	}
	o.f("Definition %s%s : %s :=\n  %s.\n(* from %s:%s.%s : %s : %s *)\n", s.coq, ps, s.ret, body, s.dir, s.recv, s.fn, what, strings.ReplaceAll(src, "*)", "* )"))
}

func (o *out) jarEmit(s jarSpec, what string, find func(p *pkgInfo, fd *ast.FuncDecl) ast.Expr) {
	p, fd := findFunc(s.dir, s.recv, s.fn)
	if fd == nil {
		o.brokenDef(s.coq, "function "+s.dir+":"+s.recv+"."+s.fn+" not found")
		return
	}
	e := find(p, fd)
	if e == nil {
		o.brokenDef(s.coq, what+" not found in "+s.fn)
		return
	}
	x := s.newX(p)
	c := x.expr(e)
	if x.err != nil {
		o.brokenDef(s.coq, x.err.Error())
		return
	}
	o.jarDef(s, what, c, strings.Join(strings.Fields(printNode(p.fset, e)), " "))
}

// whole loop-free function
func (o *out) jarFunc(s jarSpec) {
	p, fd := findFunc(s.dir, s.recv, s.fn)
	if fd == nil {
		o.brokenDef(s.coq, "function "+s.dir+":"+s.recv+"."+s.fn+" not found")
		return
	}
	x := s.newX(p)
	c := x.stmts(fd.Body.List, "")
	if x.err != nil {
		o.brokenDef(s.coq, x.err.Error())
		return
	}
	o.jarDef(s, "whole body", c, "")
}

// ---- finders
func jarCond(kind, marker string, nth int) (string, func(*pkgInfo, *ast.FuncDecl) ast.Expr) {
	return fmt.Sprintf("%s condition #%d containing `%s`", kind, nth, marker), func(p *pkgInfo, fd *ast.FuncDecl) ast.Expr {
		var found ast.Expr
		k := 0
		ast.Inspect(fd.Body, func(n ast.Node) bool {
			if found != nil {
				return false
			}
			var cond ast.Expr
			if is, ok := n.(*ast.IfStmt); ok && kind == "if" {
				cond = is.Cond
			}
			if fs, ok := n.(*ast.ForStmt); ok && kind == "for" {
				cond = fs.Cond
			}
			if cond != nil && strings.Contains(strings.Join(strings.Fields(printNode(p.fset, cond)), " "), marker) {
				if k == nth {
					found = cond
					return false
				}
				k++
			}
			return true
		})
		return found
	}
}

// right-hand side of the nth assignment (=, :=, +=) whose single left-hand side prints as lhs
func jarAssign(lhs string, nth int) (string, func(*pkgInfo, *ast.FuncDecl) ast.Expr) {
	return fmt.Sprintf("assignment #%d to %s", nth, lhs), func(p *pkgInfo, fd *ast.FuncDecl) ast.Expr {
		var found ast.Expr
		k := 0
		ast.Inspect(fd.Body, func(n ast.Node) bool {
			if found != nil {
				return false
			}
			if as, ok := n.(*ast.AssignStmt); ok && len(as.Lhs) == 1 && len(as.Rhs) == 1 && printNode(p.fset, as.Lhs[0]) == lhs {
				if k == nth {
					found = as.Rhs[0]
					return false
				}
				k++
			}
			return true
		})
		return found
	}
}

// argument arg of the nth call whose callee prints as callee
func jarCallArg(callee string, nth, arg int) (string, func(*pkgInfo, *ast.FuncDecl) ast.Expr) {
	return fmt.Sprintf("argument %d of call #%d to %s", arg, nth, callee), func(p *pkgInfo, fd *ast.FuncDecl) ast.Expr {
		var found ast.Expr
		k := 0
		ast.Inspect(fd.Body, func(n ast.Node) bool {
			if found != nil {
				return false
			}
			if ce, ok := n.(*ast.CallExpr); ok && printNode(p.fset, ce.Fun) == callee {
				if k == nth {
					if len(ce.Args) > arg {
						found = ce.Args[arg]
					}
					return false
				}
				k++
			}
			return true
		})
		return found
	}
}

// a sub-expression of another finder's result
func jarSub(inner func() (string, func(*pkgInfo, *ast.FuncDecl) ast.Expr), what string, pick func(ast.Expr) ast.Expr) (string, func(*pkgInfo, *ast.FuncDecl) ast.Expr) {
	w, f := inner()
	return w + " (" + what + ")", func(p *pkgInfo, fd *ast.FuncDecl) ast.Expr {
		e := f(p, fd)
		if e == nil {
			return nil
		}
		return pick(e)
	}
}

// first slice expression inside e: its low / high bound
func jarSliceBound(part string) func(ast.Expr) ast.Expr {
	return func(e ast.Expr) ast.Expr {
		var found ast.Expr
		ast.Inspect(e, func(n ast.Node) bool {
			if found != nil {
				return false
			}
			if se, ok := n.(*ast.SliceExpr); ok {
				if part == "low" {
					found = se.Low
				} else {
					found = se.High
				}
				return false
			}
			return true
		})
		return found
	}
}

// the range expression of the nth range statement
func jarRangeExpr(nth int) (string, func(*pkgInfo, *ast.FuncDecl) ast.Expr) {
	return fmt.Sprintf("range expression #%d", nth), func(p *pkgInfo, fd *ast.FuncDecl) ast.Expr {
		var found ast.Expr
		k := 0
		ast.Inspect(fd.Body, func(n ast.Node) bool {
			if found != nil {
				return false
			}
			if rs, ok := n.(*ast.RangeStmt); ok {
				if k == nth {
					found = rs.X
					return false
				}
				k++
			}
			return true
		})
		return found
	}
}

// the switch of splitManifest: which value `v` gets in each case, as a chain of if/else over the case conditions.
// Cases that do not assign v keep `keep` (the variable's value before the switch).
func (o *out) jarSwitchAssign(s jarSpec, v, keep string) {
	p, fd := findFunc(s.dir, s.recv, s.fn)
	if fd == nil {
		o.brokenDef(s.coq, "function not found")
		return
	}
	var sw *ast.SwitchStmt
	ast.Inspect(fd.Body, func(n ast.Node) bool {
		if sw != nil {
			return false
		}
		if x, ok := n.(*ast.SwitchStmt); ok && x.Tag == nil {
			sw = x
			return false
		}
		return true
	})
	if sw == nil {
		o.brokenDef(s.coq, "no tagless switch in "+s.fn)
		return
	}
	x := s.newX(p)
	valOf := func(body []ast.Stmt) string {
		for _, st := range body {
			if as, ok := st.(*ast.AssignStmt); ok && len(as.Lhs) == 1 && len(as.Rhs) == 1 && printNode(p.fset, as.Lhs[0]) == v {
				return x.expr(as.Rhs[0])
			}
		}
		if keep == "" {
			x.fail("a case of the switch does not assign %s", v)
		}
		return keep
	}
	res := keep
	var clauses []*ast.CaseClause
	hasDefault := false
	for _, cl := range sw.Body.List {
		cc := cl.(*ast.CaseClause)
		if cc.List == nil {
			res = valOf(cc.Body)
			hasDefault = true
		} else {
			clauses = append(clauses, cc)
		}
	}
	if !hasDefault && keep == "" {
		o.brokenDef(s.coq, "switch has no default")
		return
	}
	for i := len(clauses) - 1; i >= 0; i-- {
		var conds []string
		for _, ce := range clauses[i].List {
			conds = append(conds, x.expr(ce))
		}
		res = "(if " + strings.Join(conds, " || ") + " then " + valOf(clauses[i].Body) + " else " + res + ")"
	}
	if x.err != nil {
		o.brokenDef(s.coq, x.err.Error())
		return
	}
	o.jarDef(s, "value of "+v+" after the switch", res, "")
}

// "%s<sep>%s" format of the nth fmt.Sprintf call: the separator, and optionally the suffix after the second verb
func (o *out) jarSprintfParts(dir, fn string, nth int, coqSep, coqTail string) {
	p, fd := findFunc(dir, "", fn)
	if fd == nil {
		o.brokenDef(coqSep, "function "+fn+" not found")
		return
	}
	_, f := jarCallArg("fmt.Sprintf", nth, 0)
	e := f(p, fd)
	s, ok := "", false
	if e != nil {
		s, ok = jarConstStr(dir, e)
	}
	parts := strings.Split(s, "%s")
	if !ok || len(parts) != 3 || parts[0] != "" || (coqTail == "" && parts[2] != "") {
		o.brokenDef(coqSep, fmt.Sprintf("fmt.Sprintf #%d of %s does not have the format %%s<sep>%%s<tail> (%q)", nth, fn, s))
		return
	}
	o.f("Definition %s : list Z := %s. (* %s.%s: fmt.Sprintf(%q, ...) *)\n", coqSep, bytesLit([]byte(parts[1])), dir, fn, s)
	if coqTail != "" {
		o.f("Definition %s : list Z := %s.\n", coqTail, bytesLit([]byte(parts[2])))
	}
}

// composite literal http.Header{k: []string{v}, ...} -> list of pairs
func (o *out) jarHeaderLit(s jarSpec) {
	p, fd := findFunc(s.dir, s.recv, s.fn)
	if fd == nil {
		o.brokenDef(s.coq, "function not found")
		return
	}
	var cl *ast.CompositeLit
	ast.Inspect(fd.Body, func(n ast.Node) bool {
		if cl != nil {
			return false
		}
		if c, ok := n.(*ast.CompositeLit); ok && c.Type != nil && printNode(p.fset, c.Type) == "http.Header" {
			cl = c
			return false
		}
		return true
	})
	if cl == nil {
		o.brokenDef(s.coq, "no http.Header literal in "+s.fn)
		return
	}
	x := s.newX(p)
	var items []string
	for _, el := range cl.Elts {
		kv, ok := el.(*ast.KeyValueExpr)
		if !ok {
			x.fail("non key/value element")
			break
		}
		vl, ok := kv.Value.(*ast.CompositeLit)
		if !ok || len(vl.Elts) != 1 {
			x.fail("header value is not a one-element []string")
			break
		}
		items = append(items, "("+x.expr(kv.Key)+", "+x.expr(vl.Elts[0])+")")
	}
	if x.err != nil {
		o.brokenDef(s.coq, x.err.Error())
		return
	}
	o.jarDef(s, "http.Header literal", "["+strings.Join(items, "; ")+"]", strings.Join(strings.Fields(printNode(p.fset, cl)), " "))
}

// var HashNames = map[crypto.Hash]string{...}
func (o *out) jarHashNames() {
	const d = "lib/x509tools"
	ids := map[string]int{"crypto.MD4": 1, "crypto.MD5": 2, "crypto.SHA1": 3, "crypto.SHA224": 4, "crypto.SHA256": 5, "crypto.SHA384": 6, "crypto.SHA512": 7}
	ce, p, _, _ := findConstExpr(d, "HashNames")
	cl, ok := ce.(*ast.CompositeLit)
	if !ok {
		o.brokenDef("jar_hash_names", "var HashNames map literal not found")
		return
	}
	var items []string
	for _, el := range cl.Elts {
		kv, ok := el.(*ast.KeyValueExpr)
		if !ok {
			continue
		}
		id, ok1 := ids[printNode(p.fset, kv.Key)]
		s, ok2 := jarConstStr(d, kv.Value)
		if !ok1 || !ok2 {
			o.brokenDef("jar_hash_names", "unexpected HashNames entry "+printNode(p.fset, kv))
			return
		}
		items = append(items, fmt.Sprintf("(%d, %s)", id, bytesLit([]byte(s))))
	}
	sort.Strings(items)
	o.f("Definition jar_hash_names : list (Z * list Z) := [%s]. (* %s.HashNames, keyed by crypto.Hash (MD5=2 SHA1=3 SHA224=4 SHA256=5 SHA384=6 SHA512=7) *)\n", strings.Join(items, "; "), d)
}

func init() {
	generators["FmtJAR_gen"] = func(o *out) {
		const d = "lib/signjar"
		o.f("From Relic Require Import FmtJAR.Lib.\n\n")
		sp := func(fn, coq, params, ret string, leaves map[string]string) jarSpec {
			return jarSpec{dir: d, fn: fn, coq: coq, params: params, ret: ret, leaves: leaves}
		}
		emit := func(s jarSpec, w string, f func(*pkgInfo, *ast.FuncDecl) ast.Expr) { o.jarEmit(s, w, f) }
		cond := func(s jarSpec, kind, marker string, nth int) { w, f := jarCond(kind, marker, nth); emit(s, w, f) }
		asg := func(s jarSpec, lhs string, nth int) { w, f := jarAssign(lhs, nth); emit(s, w, f) }
		carg := func(s jarSpec, callee string, nth, arg int) { w, f := jarCallArg(callee, nth, arg); emit(s, w, f) }

		// ---- names
		if s, ok := jarConstStr(d, &ast.Ident{Name: "metaInf"}); ok {
			o.f("Definition jar_meta_inf : list Z := %s. (* %s.metaInf = %q *)\n", bytesLit([]byte(s)), d, s)
		} else {
			o.brokenDef("jar_meta_inf", "constant metaInf not found")
		}
		if s, ok := jarConstStr(d, &ast.Ident{Name: "manifestName"}); ok {
			o.f("Definition jar_manifest_name : list Z := %s. (* %s.manifestName = %q *)\n", bytesLit([]byte(s)), d, s)
		} else {
			o.brokenDef("jar_manifest_name", "constant manifestName not found")
		}

		// ---- writeAttribute
		o.f("\n(* ---- writeAttribute *)\n")
		o.constInt(d, "maxLineLength", "jar_max_line_length")
		o.jarSprintfParts(d, "writeAttribute", 0, "jar_wa_sep", "")
		wa := map[string]string{"i": "i", "len(line)": "len_line", "goal": "goal", "j": "j"}
		cond(sp("writeAttribute", "jar_wa_more", "(i len_line : Z)", "bool", wa), "for", "len(line)", 0)
		asg(sp("writeAttribute", "jar_wa_goal0", "", "Z", wa), "goal", 0)
		cond(sp("writeAttribute", "jar_wa_is_cont", "(i : Z)", "bool", wa), "if", "i", 0)
		carg(sp("writeAttribute", "jar_wa_cont_prefix", "", "list Z", wa), "out.Write", 0, 0)
		o.hasStmt(d, "", "writeAttribute", "goal--", "jar_wa_goal_dec")
		asg(sp("writeAttribute", "jar_wa_j", "(i goal : Z)", "Z", wa), "j", 0)
		cond(sp("writeAttribute", "jar_wa_clamp", "(j len_line : Z)", "bool", wa), "if", "j", 0)
		asg(sp("writeAttribute", "jar_wa_clamped", "(len_line : Z)", "Z", wa), "j", 1)
		carg(sp("writeAttribute", "jar_wa_eol", "", "list Z", wa), "out.Write", 2, 0)
		o.hasStmt(d, "", "writeAttribute", "i = j", "jar_wa_advances")
		o.callOrder(d, "", "writeAttribute", "jar_wa_calls", []string{"Sprintf", "Write"})

		// ---- writeSection / Dump
		o.f("\n(* ---- writeSection, Dump *)\n")
		ws := map[string]string{"value": "value", "key": "key", "first": "first"}
		wst := map[string]string{"value": "str", "key": "str", "first": "str"}
		wss := func(coq, params string) jarSpec {
			s := sp("writeSection", coq, params, "bool", ws)
			s.types = wst
			return s
		}
		cond(wss("jar_ws_first_present", "(value : list Z)"), "if", "value", 0)
		cond(wss("jar_ws_skip_key", "(key first : list Z)"), "if", "key", 0)
		o.hasStmt(d, "", "writeSection", "sort.Strings(keys)", "jar_ws_sorts")
		carg(sp("writeSection", "jar_ws_end", "", "list Z", ws), "out.Write", 0, 0)
		o.callOrder(d, "", "writeSection", "jar_ws_calls", []string{"Get", "writeAttribute", "Strings", "Write"})
		dm := jarSpec{dir: d, recv: "FilesMap", fn: "Dump", ret: "list Z"}
		dm.coq = "jar_dump_main_first"
		w, f := jarCallArg("writeSection", 0, 2)
		emit(dm, w, f)
		dm.coq = "jar_dump_sec_first"
		w, f = jarCallArg("writeSection", 1, 2)
		emit(dm, w, f)
		dmc := jarSpec{dir: d, recv: "FilesMap", fn: "Dump", coq: "jar_dump_emit", params: "(present : bool)", ret: "bool", nilable: map[string]string{"section": "present"}}
		w, f = jarCond("if", "section", 0)
		emit(dmc, w, f)

		// ---- splitManifest
		o.f("\n(* ---- splitManifest *)\n")
		sm := map[string]string{"len(manifest)": "len_m", "i1": "i1", "i2": "i2", "section": "section", "malformed": "malformed"}
		cond(sp("splitManifest", "jar_sm_more", "(len_m : Z)", "bool", sm), "for", "len(manifest)", 0)
		carg(sp("splitManifest", "jar_sm_sep1", "", "list Z", sm), "bytes.Index", 0, 1)
		carg(sp("splitManifest", "jar_sm_sep2", "", "list Z", sm), "bytes.Index", 1, 1)
		o.jarSwitchAssign(sp("splitManifest", "jar_sm_idx", "(i1 i2 len_m : Z)", "Z", sm), "idx", "")
		smm := sp("splitManifest", "jar_sm_malformed_after", "(i1 i2 : Z) (malformed : bool)", "bool", sm)
		smm.types = map[string]string{"malformed": "bool"}
		o.jarSwitchAssign(smm, "malformed", "malformed")
		cond(sp("splitManifest", "jar_sm_empty", "(section : list Z)", "bool", sm), "if", "TrimSpace", 0)
		o.hasStmt(d, "", "splitManifest", "malformed = true", "jar_sm_sets_malformed")
		o.hasStmt(d, "", "splitManifest", "continue", "jar_sm_empty_skipped")
		o.hasStmt(d, "", "splitManifest", "section := manifest[:idx]", "jar_sm_section_is_prefix")
		o.hasStmt(d, "", "splitManifest", "manifest = manifest[idx:]", "jar_sm_rest_is_suffix")

		// ---- parseSection
		o.f("\n(* ---- parseSection *)\n")
		ps := map[string]string{"len(line)": "len_line", "idx": "idx", "line": "line"}
		carg(sp("parseSection", "jar_ps_r1_old", "", "list Z", ps), "bytes.ReplaceAll", 0, 1)
		carg(sp("parseSection", "jar_ps_r1_new", "", "list Z", ps), "bytes.ReplaceAll", 0, 2)
		carg(sp("parseSection", "jar_ps_r2_old", "", "list Z", ps), "bytes.ReplaceAll", 1, 1)
		carg(sp("parseSection", "jar_ps_r2_new", "", "list Z", ps), "bytes.ReplaceAll", 1, 2)
		carg(sp("parseSection", "jar_ps_split_sep", "", "list Z", ps), "bytes.Split", 0, 1)
		cond(sp("parseSection", "jar_ps_skip_line", "(len_line : Z)", "bool", ps), "if", "len(line)", 0)
		carg(sp("parseSection", "jar_ps_colon", "", "Z", ps), "bytes.IndexRune", 0, 1)
		cond(sp("parseSection", "jar_ps_no_colon", "(idx : Z)", "bool", ps), "if", "idx", 0)
		psk := sp("parseSection", "jar_ps_key_hi", "(idx : Z)", "Z", ps)
		w, f = jarSub(func() (string, func(*pkgInfo, *ast.FuncDecl) ast.Expr) { return jarAssign("key", 0) }, "slice high bound", jarSliceBound("high"))
		emit(psk, w, f)
		psv := sp("parseSection", "jar_ps_val_lo", "(idx : Z)", "Z", ps)
		w, f = jarSub(func() (string, func(*pkgInfo, *ast.FuncDecl) ast.Expr) { return jarAssign("value", 0) }, "slice low bound", jarSliceBound("low"))
		emit(psv, w, f)
		o.hasStmt(d, "", "parseSection", "key := strings.TrimSpace(string(line[:idx]))", "jar_ps_key_trimmed_prefix")
		o.hasStmt(d, "", "parseSection", "value := strings.TrimSpace(string(line[idx+1:]))", "jar_ps_value_trimmed_suffix")
		o.hasStmt(d, "", "parseSection", "hdr.Set(key, value)", "jar_ps_sets")
		o.callOrder(d, "", "parseSection", "jar_ps_calls", []string{"ReplaceAll", "Split", "IndexRune", "TrimSpace", "Set"})

		// ---- parseManifest / ParseManifest
		o.f("\n(* ---- parseManifest *)\n")
		pm := map[string]string{"len(sections)": "n", "i": "i", "len(section)": "len_section", "name": "name"}
		cond(sp("parseManifest", "jar_pm_no_sections", "(n : Z)", "bool", pm), "if", "len(sections)", 0)
		cond(sp("parseManifest", "jar_pm_skip", "(i len_section : Z)", "bool", pm), "if", "len(section)", 0)
		cond(sp("parseManifest", "jar_pm_is_main", "(i : Z)", "bool", pm), "if", "i ==", 0)
		carg(sp("parseManifest", "jar_pm_name_key", "", "list Z", pm), "hdr.Get", 0, 0)
		cond(sp("parseManifest", "jar_pm_name_missing", "(name : list Z)", "bool", pm), "if", "name", 0)
		o.hasStmt(d, "", "parseManifest", "files.Order = append(files.Order, name)", "jar_pm_appends_order")
		o.hasStmt(d, "", "parseManifest", "files.Files[name] = hdr", "jar_pm_sets_files")
		PM := jarSpec{dir: d, fn: "ParseManifest", coq: "jar_PM_refuses", params: "(malformed : bool)", ret: "bool", leaves: map[string]string{"malformed": "malformed"}}
		w, f = jarCond("if", "malformed", 0)
		emit(PM, w, f)

		// ---- DigestManifest
		o.f("\n(* ---- DigestManifest *)\n")
		dg := map[string]string{"malformed": "malformed", "len(sections)": "n", "hashName": "hn", "sectionsOnly": "sections_only", "apkV2": "apk_v2", "name": "name",
			"sections[0]": "main_sec", "manifest": "manifest", "section": "section",
			"fmt.Sprintf(\"%s (%s)\", config.UserAgent, config.Author)": "created_by"}
		dgs := func(coq, params, ret string) jarSpec { return sp("DigestManifest", coq, params, ret, dg) }
		cond(dgs("jar_dm_refuses", "(malformed : bool)", "bool"), "if", "malformed", 0)
		cond(dgs("jar_dm_empty", "(n : Z)", "bool"), "if", "len(sections)", 0)
		cond(dgs("jar_dm_hash_unknown", "(hn : list Z)", "bool"), "if", "hashName", 0)
		cond(dgs("jar_dm_whole", "(sections_only : bool)", "bool"), "if", "sectionsOnly", 0)
		cond(dgs("jar_dm_apk", "(apk_v2 : bool)", "bool"), "if", "apkV2", 0)
		cond(dgs("jar_dm_name_missing", "(name : list Z)", "bool"), "if", "name", 0)
		hp := "(H : list Z -> list Z) (hn main_sec manifest section created_by name : list Z)"
		for i := 0; i < 7; i++ {
			carg(dgs(fmt.Sprintf("jar_dm_k%d", i), hp, "list Z"), "writeAttribute", i, 1)
			carg(dgs(fmt.Sprintf("jar_dm_v%d", i), hp, "list Z"), "writeAttribute", i, 2)
		}
		carg(dgs("jar_dm_main_end", "", "list Z"), "output.WriteString", 0, 0)
		carg(dgs("jar_dm_sec_end", "", "list Z"), "output.WriteString", 1, 0)
		rs := dgs("jar_dm_first_file_section", "", "Z")
		w, f = jarSub(func() (string, func(*pkgInfo, *ast.FuncDecl) ast.Expr) { return jarRangeExpr(0) }, "slice low bound", jarSliceBound("low"))
		emit(rs, w, f)
		carg(dgs("jar_dm_name_key", "", "list Z"), "hdr.Get", 0, 0)
		o.callOrder(d, "", "DigestManifest", "jar_dm_calls", []string{"splitManifest", "writeAttribute", "WriteString", "parseSection", "hashSection"})
		o.callOrder(d, "", "hashSection", "jar_hs_calls", []string{"New", "Write", "EncodeToString", "Sum"})

		// ---- keepFile, sigNames
		o.f("\n(* ---- keepFile, sigNames *)\n")
		o.jarFunc(jarSpec{dir: d, fn: "keepFile", coq: "jar_keep_file", params: "(name : list Z)", ret: "bool", leaves: map[string]string{"name": "name"}, types: map[string]string{"name": "str"}})
		sn := map[string]string{"alias": "alias", "signame": "signame", "pkcsname": "pkcsname"}
		snt := map[string]string{"alias": "str", "signame": "str", "pkcsname": "str"}
		sns := func(coq, params string) jarSpec {
			s := sp("sigNames", coq, params, "list Z", sn)
			s.types = snt
			return s
		}
		asg(sns("jar_sn_signame", "(alias : list Z)"), "signame", 0)
		asg(sns("jar_sn_pkcsname", "(alias : list Z)"), "pkcsname", 0)
		asg(sns("jar_sn_rsa_ext", ""), "pkcsname", 1)
		asg(sns("jar_sn_ec_ext", ""), "pkcsname", 2)
		asg(sns("jar_sn_other_signame", "(signame : list Z)"), "signame", 1)
		asg(sns("jar_sn_other_pkcsname", "(pkcsname : list Z)"), "pkcsname", 3)

		// ---- hasDigest, hashFile
		o.f("\n(* ---- hasDigest, hashFile *)\n")
		hd := sp("hasDigest", "jar_hd_match", "(key : list Z)", "bool", map[string]string{"key": "key"})
		hd.types = map[string]string{"key": "str"}
		cond(hd, "if", "key", 0)
		hf := map[string]string{"suffix": "suffix", "key": "key", "hash.Available()": "available", "len(digesters)": "n", "calculated": "calculated", "digester.value": "value"}
		hft := map[string]string{"suffix": "str", "key": "str", "calculated": "str", "digester.value": "str", "hash.Available()": "bool"}
		hfs := func(coq, params, ret string) jarSpec {
			s := sp("hashFile", coq, params, ret, hf)
			s.types = hft
			return s
		}
		asg(hfs("jar_hf_suffix", "(suffix : list Z)", "list Z"), "suffix", 0)
		cond(hfs("jar_hf_skip", "(key suffix : list Z)", "bool"), "if", "suffix", 0)
		asg(hfs("jar_hf_hash_name", "(key suffix : list Z)", "list Z"), "hashName", 0)
		cond(hfs("jar_hf_unknown", "(available : bool)", "bool"), "if", "Available", 0)
		cond(hfs("jar_hf_none", "(n : Z)", "bool"), "if", "len(digesters)", 0)
		cond(hfs("jar_hf_mismatch", "(calculated value : list Z)", "bool"), "if", "calculated", 0)
		o.hasStmt(d, "", "hashFile", "return errNoDigests", "jar_hf_none_is_no_digests")

		// ---- digestFiles / updateManifest
		o.f("\n(* ---- digestFiles, updateManifest *)\n")
		df := sp("digestFiles", "jar_df_is_manifest", "(name : list Z)", "bool", map[string]string{"f.Name": "name"})
		df.types = map[string]string{"f.Name": "str"}
		cond(df, "if", "manifestName", 0)
		df.coq = "jar_df_not_hashed"
		cond(df, "if", "keepFile", 0)
		um := map[string]string{"attrs": "attrs", "hashName": "hash_name", "existing": "existing", "calculated": "calculated", "name": "name", "changed": "changed", "malformed": "malformed"}
		umt := map[string]string{"attrs": "hdr", "hashName": "str", "existing": "str", "calculated": "str", "name": "str", "changed": "bool", "malformed": "bool"}
		ums := func(coq, params, ret string) jarSpec {
			s := sp("updateManifest", coq, params, ret, um)
			s.types = umt
			s.nilable = map[string]string{"attrs": "attrs_present", "jd.Manifest": "manifest_present"}
			return s
		}
		cond(ums("jar_um_no_manifest", "(manifest_present : bool)", "bool"), "if", "jd.Manifest", 0)
		cond(ums("jar_um_hash_unknown", "(hash_name : list Z)", "bool"), "if", "hashName ==", 0)
		asg(ums("jar_um_digest_suffix", "", "list Z"), "hashName", 1)
		cond(ums("jar_um_new_section", "(attrs_present : bool)", "bool"), "if", "attrs ==", 0)
		cond(ums("jar_um_magic", "(attrs : hdr)", "bool"), "if", "Magic", 0)
		asg(ums("jar_um_existing", "(attrs : hdr) (hash_name : list Z)", "list Z"), "existing", 0)
		cond(ums("jar_um_has_existing", "(existing : list Z)", "bool"), "if", "existing !=", 0)
		cond(ums("jar_um_mismatch", "(existing calculated : list Z)", "bool"), "if", "existing !=", 1)
		o.jarHeaderLit(ums("jar_um_new_hdr", "(name hash_name calculated : list Z)", "list (list Z * list Z)"))
		cond(ums("jar_um_dir_needs", "(name : list Z) (attrs : hdr) (hash_name : list Z)", "bool"), "if", "HasSuffix", 0)
		cond(ums("jar_um_redump", "(changed malformed : bool)", "bool"), "if", "changed", 0)
		o.hasStmt(d, "", "updateManifest", "attrs.Set(hashName, calculated)", "jar_um_sets_digest")
		o.hasStmt(d, "", "updateManifest", "files.Order = append(files.Order, name)", "jar_um_appends_order")
		o.hasStmt(d, "", "updateManifest", "jd.Manifest = files.Dump()", "jar_um_dumps")

		// ---- Verify (classification of members), verifyManifest, verifySigFile
		o.f("\n(* ---- Verify, verifyManifest, verifySigFile *)\n")
		vf := map[string]string{"dir": "dir", "name": "name", "i": "i", "ext": "ext", "len(sigfiles)": "n", "skipDigests": "skip_digests"}
		vft := map[string]string{"dir": "str", "name": "str", "ext": "str", "skipDigests": "bool"}
		vfs := func(coq, params, ret string) jarSpec {
			s := sp("Verify", coq, params, ret, vf)
			s.types = vft
			s.nilable = map[string]string{"manifest": "manifest_present", "pkcs": "blob_present"}
			return s
		}
		cond(vfs("jar_v_skip", "(dir name : list Z)", "bool"), "if", "dir", 0)
		cond(vfs("jar_v_no_ext", "(i : Z)", "bool"), "if", "i <", 0)
		carg(vfs("jar_v_ext_sep", "", "list Z"), "strings.LastIndex", 0, 1)
		cond(vfs("jar_v_is_manifest", "(name : list Z)", "bool"), "if", "MANIFEST", 0)
		cond(vfs("jar_v_is_sf", "(ext : list Z)", "bool"), "if", "ext ==", 0)
		cond(vfs("jar_v_is_blob", "(name ext : list Z)", "bool"), "if", "ext ==", 1)
		cond(vfs("jar_v_no_manifest", "(manifest_present : bool)", "bool"), "if", "manifest ==", 0)
		cond(vfs("jar_v_not_signed", "(n : Z)", "bool"), "if", "len(sigfiles)", 0)
		cond(vfs("jar_v_no_blob", "(blob_present : bool)", "bool"), "if", "pkcs ==", 0)
		cond(vfs("jar_v_check_digests", "(skip_digests : bool)", "bool"), "if", "skipDigests", 0)
		o.hasStmt(d, "", "Verify", "dir, name := path.Split(strings.ToUpper(f.Name))", "jar_v_splits_upper_name")
		o.callOrder(d, "", "Verify", "jar_v_calls", []string{"Unmarshal", "Verify", "VerifyOptionalTimestamp", "verifySigFile", "verifyManifest"})
		vm := map[string]string{"keys": "keys", "filename": "filename"}
		vms := func(coq, params string) jarSpec {
			s := sp("verifyManifest", coq, params, "bool", vm)
			s.types = map[string]string{"keys": "hdr", "filename": "str"}
			s.nilable = map[string]string{"fh": "member_present"}
			return s
		}
		cond(vms("jar_vm_magic", "(keys : hdr)"), "if", "Magic", 0)
		cond(vms("jar_vm_missing", "(member_present : bool)"), "if", "fh ==", 0)
		cond(vms("jar_vm_is_dir", "(filename : list Z)"), "if", "HasSuffix", 0)
		o.hasStmt(d, "", "verifyManifest", "continue", "jar_vm_continues")
		vs := map[string]string{"err": "err", "errNoDigests": "4", "malformed": "malformed", "i": "i", "name": "name"}
		vss := func(coq, params, ret string) jarSpec {
			s := sp("verifySigFile", coq, params, ret, vs)
			s.types = map[string]string{"name": "str", "malformed": "bool"}
			s.nilable = map[string]string{"section": "section_present", "err": "(negb (err =? 0))"}
			return s
		}
		carg(vss("jar_vs_suffix_whole", "", "list Z"), "hashFile", 0, 2)
		carg(vss("jar_vs_suffix_main", "", "list Z"), "hashFile", 1, 2)
		carg(vss("jar_vs_suffix_section", "", "list Z"), "hashFile", 2, 2)
		cond(vss("jar_vs_hard_error", "(err : Z)", "bool"), "if", "errNoDigests", 0)
		cond(vss("jar_vs_refuses", "(malformed : bool)", "bool"), "if", "malformed", 0)
		cond(vss("jar_vs_is_main", "(i : Z)", "bool"), "if", "i ==", 0)
		cond(vss("jar_vs_name_missing", "(name : list Z)", "bool"), "if", "name ==", 0)
		cond(vss("jar_vs_section_missing", "(section_present : bool)", "bool"), "if", "section ==", 0)
		o.callOrder(d, "", "verifySigFile", "jar_vs_calls", []string{"ParseManifest", "hashFile", "splitManifest", "parseSection"})

		// ---- lib/x509tools: hash names
		o.f("\n(* ---- lib/x509tools: HashNames, normalName *)\n")
		o.jarHashNames()
		nn := jarSpec{dir: "lib/x509tools", fn: "normalName", coq: "jar_normal_name", params: "(name : list Z)", ret: "list Z", leaves: map[string]string{"name": "name"}, types: map[string]string{"name": "str"}}
		o.jarFunc(nn)

		for _, fn := range []string{"ParseManifest", "parseManifest", "splitManifest", "parseSection", "hashSection", "DigestManifest", "writeAttribute", "writeSection",
			"digestFiles", "updateManifest", "keepFile", "sigNames", "Verify", "verifyManifest", "hasDigest", "hashFile", "verifySigFile"} {
			fingerprint(d, "", fn)
		}
		fingerprint(d, "FilesMap", "Dump")
		fingerprint(d, "JarDigest", "Sign")
		fingerprint(d, "JarDigest", "insertSignature")
		fingerprint("lib/x509tools", "", "HashByName")
	}
}
