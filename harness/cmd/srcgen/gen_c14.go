package main

import (
	"bufio"
	"crypto/sha256"
	"encoding/hex"
	"fmt"
	"go/ast"
	"go/parser"
	"go/token"
	"os"
	"path/filepath"
	"sort"
	"strconv"
	"strings"
)

// ---- helpers private to the C14 generator (prefix c14) ------------------------------------------------------------

func c14norm(s string) string { return strings.Join(strings.Fields(s), " ") }

// c14LoadAbs registers a package that lives outside the relic tree (a module of the module cache) under a symbolic key.
func c14LoadAbs(key, abs string) bool {
	if _, ok := pkgs[key]; ok {
		return true
	}
	p := &pkgInfo{fset: token.NewFileSet(), files: map[string]*ast.File{}}
	ents, err := os.ReadDir(abs)
	if err != nil {
		return false
	}
	for _, e := range ents {
		n := e.Name()
		if !strings.HasSuffix(n, ".go") || strings.HasSuffix(n, "_test.go") {
			continue
		}
		f, err := parser.ParseFile(p.fset, filepath.Join(abs, n), nil, 0)
		if err != nil {
			continue
		}
		p.files[n] = f
	}
	pkgs[key] = p
	return len(p.files) > 0
}

// c14ModDir: directory of module `mod` at the version pinned in relic's go.mod
func c14ModDir(mod string) string {
	f, err := os.Open(filepath.Join(repo, "go.mod"))
	if err != nil {
		return ""
	}
	defer f.Close()
	ver := ""
	sc := bufio.NewScanner(f)
	for sc.Scan() {
		fs := strings.Fields(sc.Text())
		for i, w := range fs {
			if w == mod && i+1 < len(fs) {
				ver = fs[i+1]
			}
		}
	}
	if ver == "" {
		return ""
	}
	cache := os.Getenv("GOMODCACHE")
	if cache == "" {
		gp := os.Getenv("GOPATH")
		if gp == "" {
			home := os.Getenv("HOME")
			if home == "" {
				home = "/root"
			}
			gp = filepath.Join(home, "go")
		}
		cache = filepath.Join(gp, "pkg", "mod")
	}
	return filepath.Join(cache, mod+"@"+ver)
}

// c14StmtPos: index of the first top-level statement of the function whose normalised text starts with prefix (-1: none)
func (o *out) c14StmtPos(dir, recv, name, prefix, coqName string) {
	p, fd := findFunc(dir, recv, name)
	if fd == nil {
		o.brokenDef(coqName, "function "+dir+":"+recv+"."+name+" not found")
		return
	}
	pos := -1
	for i, st := range fd.Body.List {
		if strings.HasPrefix(c14norm(printNode(p.fset, st)), prefix) {
			pos = i
			break
		}
	}
	if pos < 0 {
		o.f("Definition %s : Z := (-1). (* %s:%s.%s has NO top-level statement starting `%s` *)\n", coqName, dir, recv, name, prefix)
		return
	}
	o.f("Definition %s : Z := %d. (* %s:%s.%s top-level statement #%d starts `%s` *)\n", coqName, pos, dir, recv, name, pos, prefix)
}

// c14CountCalls: number of calls (function literals included) whose printed callee equals or ends in .suffix
func (o *out) c14CountCalls(dir, recv, name, callee, coqName string) {
	p, fd := findFunc(dir, recv, name)
	if fd == nil {
		o.brokenDef(coqName, "function "+dir+":"+recv+"."+name+" not found")
		return
	}
	n := 0
	ast.Inspect(fd.Body, func(x ast.Node) bool {
		if ce, ok := x.(*ast.CallExpr); ok {
			c := printNode(p.fset, ce.Fun)
			if c == callee || strings.HasSuffix(c, "."+callee) {
				n++
			}
		}
		return true
	})
	o.f("Definition %s : Z := %d. (* %s:%s.%s : number of calls to %s *)\n", coqName, n, dir, recv, name, callee)
}

// c14KeyValue: translate the value of the first composite-literal field `key: value` in the function
func (o *out) c14KeyValue(fs funcSpec, key string) {
	p, fd := findFunc(fs.dir, fs.recv, fs.name)
	if fd == nil {
		o.brokenDef(fs.coqName, "function "+fs.dir+":"+fs.recv+"."+fs.name+" not found")
		return
	}
	var found ast.Expr
	ast.Inspect(fd.Body, func(x ast.Node) bool {
		if kv, ok := x.(*ast.KeyValueExpr); ok && found == nil {
			if id, ok := kv.Key.(*ast.Ident); ok && id.Name == key {
				found = kv.Value
			}
		}
		return found == nil
	})
	if found == nil {
		o.brokenDef(fs.coqName, "no composite literal field `"+key+":` in "+fs.name)
		return
	}
	t := o.newTr(p, fs)
	c := t.expr(found)
	if t.err != nil {
		o.brokenDef(fs.coqName, t.err.Error())
		return
	}
	o.f("Definition %s %s : %s :=\n  %s.\n(* from %s:%s.%s : %s: %s *)\n", fs.coqName, fs.params, fs.retType, c, fs.dir, fs.recv, fs.name, key, printNode(p.fset, found))
}

// c14KeyValueIs: bool — the function contains a composite-literal field `key: want` (printed value equal to want)
func (o *out) c14KeyValueIs(dir, recv, name, key, want, coqName string) {
	p, fd := findFunc(dir, recv, name)
	if fd == nil {
		o.brokenDef(coqName, "function "+dir+":"+recv+"."+name+" not found")
		return
	}
	found, got := false, ""
	ast.Inspect(fd.Body, func(x ast.Node) bool {
		if kv, ok := x.(*ast.KeyValueExpr); ok {
			if id, ok := kv.Key.(*ast.Ident); ok && id.Name == key {
				got = c14norm(printNode(p.fset, kv.Value))
				if got == want {
					found = true
				}
			}
		}
		return true
	})
	o.f("Definition %s : bool := %v. (* %s:%s.%s : field `%s:` is `%s` (want `%s`) *)\n", coqName, found, dir, recv, name, key, got, want)
}

// c14IndexAll: bool — every index expression on `base` in the function uses the index `want`, and there are exactly n of them
func (o *out) c14IndexAll(dir, recv, name, base, want string, n int, coqName string) {
	p, fd := findFunc(dir, recv, name)
	if fd == nil {
		o.brokenDef(coqName, "function "+dir+":"+recv+"."+name+" not found")
		return
	}
	var got []string
	ast.Inspect(fd.Body, func(x ast.Node) bool {
		if ie, ok := x.(*ast.IndexExpr); ok && printNode(p.fset, ie.X) == base {
			got = append(got, printNode(p.fset, ie.Index))
		}
		return true
	})
	ok := len(got) == n
	for _, g := range got {
		if g != want {
			ok = false
		}
	}
	o.f("Definition %s : bool := %v. (* %s:%s.%s : indices used on %s: %s *)\n", coqName, ok, dir, recv, name, base, strings.Join(got, ", "))
}

// c14CallArgs: bool — the (first) call to callee has exactly these printed arguments
func (o *out) c14CallArgs(dir, recv, name, callee string, want []string, coqName string) {
	p, fd := findFunc(dir, recv, name)
	if fd == nil {
		o.brokenDef(coqName, "function "+dir+":"+recv+"."+name+" not found")
		return
	}
	var got []string
	seen := false
	ast.Inspect(fd.Body, func(x ast.Node) bool {
		if ce, ok := x.(*ast.CallExpr); ok && !seen && printNode(p.fset, ce.Fun) == callee {
			seen = true
			for _, a := range ce.Args {
				got = append(got, c14norm(printNode(p.fset, a)))
			}
		}
		return true
	})
	ok := seen && len(got) == len(want)
	for i := range got {
		if ok && got[i] != want[i] {
			ok = false
		}
	}
	o.f("Definition %s : bool := %v. (* %s:%s.%s : %s(%s) *)\n", coqName, ok, dir, recv, name, callee, strings.Join(got, ", "))
}

// c14CallArgIs: bool — argument #idx of the first call to callee prints as want
func (o *out) c14CallArgIs(dir, recv, name, callee string, idx int, want, coqName string) {
	p, fd := findFunc(dir, recv, name)
	if fd == nil {
		o.brokenDef(coqName, "function "+dir+":"+recv+"."+name+" not found")
		return
	}
	got, seen := "", false
	ast.Inspect(fd.Body, func(x ast.Node) bool {
		if ce, ok := x.(*ast.CallExpr); ok && !seen && printNode(p.fset, ce.Fun) == callee && len(ce.Args) > idx {
			seen = true
			got = c14norm(printNode(p.fset, ce.Args[idx]))
		}
		return true
	})
	o.f("Definition %s : bool := %v. (* %s:%s.%s : %s argument %d is `%s` *)\n", coqName, seen && got == want, dir, recv, name, callee, idx, got)
}

// c14ConstArg: integer value of argument #idx of the first call to callee
func (o *out) c14ConstArg(dir, recv, name, callee string, idx int, coqName string) {
	p, fd := findFunc(dir, recv, name)
	if fd == nil {
		o.brokenDef(coqName, "function "+dir+":"+recv+"."+name+" not found")
		return
	}
	var arg ast.Expr
	ast.Inspect(fd.Body, func(x ast.Node) bool {
		if ce, ok := x.(*ast.CallExpr); ok && arg == nil && printNode(p.fset, ce.Fun) == callee && len(ce.Args) > idx {
			arg = ce.Args[idx]
		}
		return arg == nil
	})
	if arg == nil {
		o.brokenDef(coqName, "no call to "+callee+" in "+name)
		return
	}
	v, err := evalConst(dir, arg, 0)
	if err != nil || v.isFloat {
		o.brokenDef(coqName, fmt.Sprintf("argument %d of %s is not an integer constant expression (%v)", idx, callee, err))
		return
	}
	o.f("Definition %s : Z := %d. (* %s:%s.%s : %s arg %d = %s *)\n", coqName, v.i, dir, recv, name, callee, idx, printNode(p.fset, arg))
}

// c14InsideClosure: bool — every call to one of `callees` sits inside a function literal passed to a call of `wrapper`
func (o *out) c14InsideClosure(dir, recv, name, wrapper string, callees []string, coqName string) {
	p, fd := findFunc(dir, recv, name)
	if fd == nil {
		o.brokenDef(coqName, "function "+dir+":"+recv+"."+name+" not found")
		return
	}
	inside := map[string]int{}
	total := map[string]int{}
	count := func(root ast.Node, into map[string]int) {
		ast.Inspect(root, func(x ast.Node) bool {
			if ce, ok := x.(*ast.CallExpr); ok {
				c := printNode(p.fset, ce.Fun)
				for _, nm := range callees {
					if c == nm || strings.HasSuffix(c, "."+nm) {
						into[nm]++
					}
				}
			}
			return true
		})
	}
	count(fd.Body, total)
	ast.Inspect(fd.Body, func(x ast.Node) bool {
		if ce, ok := x.(*ast.CallExpr); ok && printNode(p.fset, ce.Fun) == wrapper {
			for _, a := range ce.Args {
				if fl, ok := a.(*ast.FuncLit); ok {
					count(fl.Body, inside)
				}
			}
			return false
		}
		return true
	})
	ok := true
	for _, nm := range callees {
		if total[nm] == 0 || total[nm] != inside[nm] {
			ok = false
		}
	}
	o.f("Definition %s : bool := %v. (* %s:%s.%s : calls %v all inside the closure given to %s *)\n", coqName, ok, dir, recv, name, callees, wrapper)
}

// c14SharedVars: package-level variables of the listed packages and every write to one of them from a function other
// than init (assignment, op-assignment, ++/--, element or field store, delete, address taken). Scope approximation: a
// function that declares a local of the same name is skipped for that name.
func (o *out) c14SharedVars(dirs []string) {
	var vars, writes []string
	// pass 1: names per package, keyed by the package's base name (as it appears in qualified identifiers)
	byBase := map[string]map[string]string{} // base -> var -> dir
	for _, dir := range dirs {
		p := loadPkg(dir)
		for _, f := range p.files {
			base := f.Name.Name
			if byBase[base] == nil {
				byBase[base] = map[string]string{}
			}
			for _, d := range f.Decls {
				if gd, ok := d.(*ast.GenDecl); ok && gd.Tok == token.VAR {
					for _, s := range gd.Specs {
						for _, n := range s.(*ast.ValueSpec).Names {
							byBase[base][n.Name] = dir
						}
					}
				}
			}
		}
	}
	for _, dir := range dirs {
		p := loadPkg(dir)
		names := map[string]string{} // name -> type/initialiser text
		var fnames []string
		for fn := range p.files {
			fnames = append(fnames, fn)
		}
		sort.Strings(fnames)
		for _, fn := range fnames {
			for _, d := range p.files[fn].Decls {
				gd, ok := d.(*ast.GenDecl)
				if !ok || gd.Tok != token.VAR {
					continue
				}
				for _, s := range gd.Specs {
					vs := s.(*ast.ValueSpec)
					for _, n := range vs.Names {
						if n.Name == "_" {
							continue
						}
						names[n.Name] = ""
					}
				}
			}
		}
		for n := range names {
			vars = append(vars, dir+":"+n)
		}
		for _, fn := range fnames {
			for _, d := range p.files[fn].Decls {
				fd, ok := d.(*ast.FuncDecl)
				if !ok || fd.Body == nil || (fd.Name.Name == "init" && fd.Recv == nil) {
					continue
				}
				local := map[string]bool{}
				addFields := func(fl *ast.FieldList) {
					if fl == nil {
						return
					}
					for _, f := range fl.List {
						for _, n := range f.Names {
							local[n.Name] = true
						}
					}
				}
				addFields(fd.Recv)
				addFields(fd.Type.Params)
				addFields(fd.Type.Results)
				ast.Inspect(fd.Body, func(x ast.Node) bool {
					switch s := x.(type) {
					case *ast.AssignStmt:
						if s.Tok == token.DEFINE {
							for _, l := range s.Lhs {
								if id, ok := l.(*ast.Ident); ok {
									local[id.Name] = true
								}
							}
						}
					case *ast.ValueSpec:
						for _, n := range s.Names {
							local[n.Name] = true
						}
					case *ast.RangeStmt:
						if s.Tok == token.DEFINE {
							for _, e := range []ast.Expr{s.Key, s.Value} {
								if id, ok := e.(*ast.Ident); ok {
									local[id.Name] = true
								}
							}
						}
					case *ast.FuncLit:
						addFields(s.Type.Params)
					}
					return true
				})
				root := func(e ast.Expr) string {
					for {
						switch x := e.(type) {
						case *ast.Ident:
							return x.Name
						case *ast.SelectorExpr:
							if id, ok := x.X.(*ast.Ident); ok && !local[id.Name] {
								if _, isVar := names[id.Name]; !isVar {
									if d2, ok := byBase[id.Name][x.Sel.Name]; ok {
										return "@" + d2 + ":" + x.Sel.Name
									}
								}
							}
							e = x.X
						case *ast.IndexExpr:
							e = x.X
						case *ast.StarExpr:
							e = x.X
						case *ast.ParenExpr:
							e = x.X
						default:
							return ""
						}
					}
				}
				fname := fd.Name.Name
				if fd.Recv != nil && len(fd.Recv.List) == 1 {
					t := fd.Recv.List[0].Type
					if s, ok := t.(*ast.StarExpr); ok {
						t = s.X
					}
					if id, ok := t.(*ast.Ident); ok {
						fname = id.Name + "." + fname
					}
				}
				seen := map[string]bool{}
				note := func(n string) {
					if strings.HasPrefix(n, "@") && !seen[n] {
						seen[n] = true
						writes = append(writes, n[1:]+"<-"+dir+"."+fname)
						return
					}
					if _, ok := names[n]; ok && !local[n] && !seen[n] {
						seen[n] = true
						writes = append(writes, dir+":"+n+"<-"+fname)
					}
				}
				ast.Inspect(fd.Body, func(x ast.Node) bool {
					switch s := x.(type) {
					case *ast.AssignStmt:
						if s.Tok != token.DEFINE {
							for _, l := range s.Lhs {
								note(root(l))
							}
						}
					case *ast.IncDecStmt:
						note(root(s.X))
					case *ast.UnaryExpr:
						if s.Op == token.AND {
							note(root(s.X))
						}
					case *ast.CallExpr:
						if id, ok := s.Fun.(*ast.Ident); ok && id.Name == "delete" && len(s.Args) > 0 {
							note(root(s.Args[0]))
						}
					}
					return true
				})
			}
		}
	}
	sort.Strings(vars)
	sort.Strings(writes)
	q := func(xs []string) string {
		var ps []string
		for _, x := range xs {
			ps = append(ps, fmt.Sprintf("%q%%string", x))
		}
		return "[" + strings.Join(ps, ";\n  ") + "]"
	}
	o.f("Definition shared_vars : list String.string :=\n  %s.\n(* package-level variables of %v *)\n", q(vars), dirs)
	o.f("Definition shared_writes : list String.string :=\n  %s.\n(* writes to package-level variables outside init(), as package:var<-function *)\n", q(writes))
}

// c14StructFieldsAre: bool — struct `name` in dir has exactly these fields (embedded fields by type name), in order
func (o *out) c14StructFieldsAre(dir, name string, want []string, coqName string) {
	p, st := findStruct(dir, name)
	if st == nil {
		o.brokenDef(coqName, "struct "+dir+"."+name+" not found")
		return
	}
	var got []string
	for _, f := range st.Fields.List {
		if len(f.Names) == 0 {
			got = append(got, printNode(p.fset, f.Type))
		}
		for _, n := range f.Names {
			got = append(got, n.Name)
		}
	}
	ok := len(got) == len(want)
	for i := range got {
		if ok && got[i] != want[i] {
			ok = false
		}
	}
	o.f("Definition %s : bool := %v. (* %s.%s fields: %s *)\n", coqName, ok, dir, name, strings.Join(got, " "))
}

// c14RangeGuard: bool — in function fn the body of the `for ... range <over>` loop begins with a select whose case on
// `marker` returns, and the call to `callee` comes after that select inside the loop body
func (o *out) c14RangeGuard(dir, recv, name, over, marker, callee, coqName string) {
	p, fd := findFunc(dir, recv, name)
	if fd == nil {
		o.brokenDef(coqName, "function "+dir+":"+recv+"."+name+" not found")
		return
	}
	ok := false
	ast.Inspect(fd.Body, func(x ast.Node) bool {
		rs, isR := x.(*ast.RangeStmt)
		if !isR || printNode(p.fset, rs.X) != over || len(rs.Body.List) == 0 {
			return true
		}
		sel, isS := rs.Body.List[0].(*ast.SelectStmt)
		if !isS {
			return true
		}
		guard := false
		for _, cl := range sel.Body.List {
			cc := cl.(*ast.CommClause)
			if cc.Comm != nil && strings.Contains(printNode(p.fset, cc.Comm), marker) {
				for _, st := range cc.Body {
					if _, isRet := st.(*ast.ReturnStmt); isRet {
						guard = true
					}
				}
			}
		}
		called := false
		for _, st := range rs.Body.List[1:] {
			ast.Inspect(st, func(y ast.Node) bool {
				if ce, isC := y.(*ast.CallExpr); isC {
					c := printNode(p.fset, ce.Fun)
					if c == callee || strings.HasSuffix(c, "."+callee) {
						called = true
					}
				}
				return true
			})
		}
		if guard && called {
			ok = true
		}
		return true
	})
	o.f("Definition %s : bool := %v. (* %s:%s.%s : loop over %s checks %s (and returns) before every %s *)\n", coqName, ok, dir, recv, name, over, marker, callee)
}

// c14GoDefers: bool — the function starts a goroutine `go func() { defer <deferred>; <call>() }()`
func (o *out) c14GoDefers(dir, recv, name, deferred, call, coqName string) {
	p, fd := findFunc(dir, recv, name)
	if fd == nil {
		o.brokenDef(coqName, "function "+dir+":"+recv+"."+name+" not found")
		return
	}
	ok := false
	ast.Inspect(fd.Body, func(x ast.Node) bool {
		gs, isG := x.(*ast.GoStmt)
		if !isG {
			return true
		}
		fl, isF := gs.Call.Fun.(*ast.FuncLit)
		if !isF || len(fl.Body.List) < 2 {
			return true
		}
		d, isD := fl.Body.List[0].(*ast.DeferStmt)
		if isD && c14norm(printNode(p.fset, d.Call)) == deferred && strings.Contains(printNode(p.fset, fl.Body.List[1]), call) {
			ok = true
		}
		return true
	})
	o.f("Definition %s : bool := %v. (* %s:%s.%s : go func() { defer %s; %s } *)\n", coqName, ok, dir, recv, name, deferred, call)
}


// ---- process-level shutdown (cmdline/servecmd, server/daemon): statement-level translation into thread programs ----------
//
// A function body becomes a list of items (kind, ops):
//   kind 0: the ops are calls made directly, in order, on the goroutine running the function
//   kind 1: d.eg.Go(func() error { ... })  — a new MEMBER of the errgroup runs the ops
//   kind 3: the same inside `for ... range d.listeners` — one member per listener
//   kind 2: go f(...) / go func() { ... }() — a new goroutine that is NOT a member of the errgroup
// ops are indices into the vocabulary given by the caller (printed callee -> code). Deferred calls of the function run
// after its last statement (LIFO). Statements without a vocabulary call are dropped. A vocabulary call under an if / else
// / switch / loop other than `range d.listeners` is listed in <name>_guards, which the model requires to be empty.

func c14FindFuncInFile(dir, file, name string) (*pkgInfo, *ast.FuncDecl) {
	p := loadPkg(dir)
	f, ok := p.files[file]
	if !ok {
		return p, nil
	}
	for _, d := range f.Decls {
		if fd, ok := d.(*ast.FuncDecl); ok && fd.Name.Name == name && fd.Body != nil {
			return p, fd
		}
	}
	return p, nil
}

type c14Item struct {
	kind int
	ops  []int
}

type c14ProgTr struct {
	p      *pkgInfo
	vocab  map[string]int
	items  []c14Item
	defers []c14Item
	guards []string
	errs   []string
}

// calls of the vocabulary inside n, in source order; function literals are not entered
func (t *c14ProgTr) calls(n ast.Node) []int {
	var ops []int
	if n == nil {
		return nil
	}
	ast.Inspect(n, func(x ast.Node) bool {
		switch y := x.(type) {
		case *ast.FuncLit:
			if t.hasVocab(y.Body) {
				t.errs = append(t.errs, "function literal with modelled calls used as a value")
			}
			return false
		case *ast.CallExpr:
			// arguments are evaluated before the call
			for _, a := range y.Args {
				ops = append(ops, t.calls(a)...)
			}
			if sel, ok := y.Fun.(*ast.SelectorExpr); ok {
				ops = append(ops, t.calls(sel.X)...)
			}
			if c, ok := t.vocab[printNode(t.p.fset, y.Fun)]; ok {
				ops = append(ops, c)
			}
			return false
		}
		return true
	})
	return ops
}

func (t *c14ProgTr) hasVocab(n ast.Node) bool {
	found := false
	if n == nil {
		return false
	}
	ast.Inspect(n, func(x ast.Node) bool {
		if ce, ok := x.(*ast.CallExpr); ok {
			if _, ok := t.vocab[printNode(t.p.fset, ce.Fun)]; ok {
				found = true
			}
		}
		return !found
	})
	return found
}

// body of a closure that becomes a thread: flat list of ops; nested spawns are not supported
func (t *c14ProgTr) closureOps(b *ast.BlockStmt) []int {
	var ops, deferred []int
	var walk func(list []ast.Stmt)
	walk = func(list []ast.Stmt) {
		for _, s := range list {
			switch x := s.(type) {
			case *ast.DeferStmt:
				if c, ok := t.vocab[printNode(t.p.fset, x.Call.Fun)]; ok {
					deferred = append([]int{c}, deferred...)
				}
			case *ast.GoStmt:
				if t.hasVocab(x) {
					t.errs = append(t.errs, "goroutine with modelled calls started inside a closure")
				}
			case *ast.IfStmt:
				if x.Init != nil {
					ops = append(ops, t.calls(x.Init)...)
				}
				ops = append(ops, t.calls(x.Cond)...)
				if t.hasVocab(x.Body) || (x.Else != nil && t.hasVocab(x.Else)) {
					t.guards = append(t.guards, c14norm(printNode(t.p.fset, x.Cond)))
					walk(x.Body.List)
					if eb, ok := x.Else.(*ast.BlockStmt); ok {
						walk(eb.List)
					} else if x.Else != nil {
						walk([]ast.Stmt{x.Else})
					}
				}
			case *ast.BlockStmt:
				walk(x.List)
			case *ast.ForStmt, *ast.RangeStmt, *ast.SwitchStmt, *ast.SelectStmt, *ast.TypeSwitchStmt:
				if t.hasVocab(x) {
					t.errs = append(t.errs, "loop / switch with modelled calls inside a closure")
				}
			default:
				ops = append(ops, t.calls(s)...)
			}
		}
	}
	walk(b.List)
	return append(ops, deferred...)
}

func (t *c14ProgTr) walk(list []ast.Stmt, perListener bool, guarded bool) {
	emit := func(it c14Item) {
		if len(it.ops) > 0 {
			t.items = append(t.items, it)
		}
	}
	for _, s := range list {
		switch x := s.(type) {
		case *ast.ExprStmt:
			if ce, ok := x.X.(*ast.CallExpr); ok && printNode(t.p.fset, ce.Fun) == "d.eg.Go" && len(ce.Args) == 1 {
				if fl, ok := ce.Args[0].(*ast.FuncLit); ok {
					k := 1
					if perListener {
						k = 3
					}
					emit(c14Item{k, t.closureOps(fl.Body)})
					continue
				}
			}
			emit(c14Item{0, t.calls(s)})
		case *ast.GoStmt:
			if fl, ok := x.Call.Fun.(*ast.FuncLit); ok {
				emit(c14Item{2, t.closureOps(fl.Body)})
			} else if c, ok := t.vocab[printNode(t.p.fset, x.Call.Fun)]; ok {
				emit(c14Item{2, []int{c}})
			}
		case *ast.DeferStmt:
			if fl, ok := x.Call.Fun.(*ast.FuncLit); ok {
				if ops := t.closureOps(fl.Body); len(ops) > 0 {
					t.defers = append([]c14Item{{0, ops}}, t.defers...)
				}
			} else if c, ok := t.vocab[printNode(t.p.fset, x.Call.Fun)]; ok {
				t.defers = append([]c14Item{{0, []int{c}}}, t.defers...)
			}
		case *ast.IfStmt:
			var ops []int
			if x.Init != nil {
				ops = append(ops, t.calls(x.Init)...)
			}
			ops = append(ops, t.calls(x.Cond)...)
			emit(c14Item{0, ops})
			inner := t.hasVocab(x.Body) || (x.Else != nil && t.hasVocab(x.Else))
			if inner {
				t.guards = append(t.guards, c14norm(printNode(t.p.fset, x.Cond)))
				t.walk(x.Body.List, perListener, true)
				switch e := x.Else.(type) {
				case *ast.BlockStmt:
					t.walk(e.List, perListener, true)
				case *ast.IfStmt:
					t.walk([]ast.Stmt{e}, perListener, true)
				}
			}
		case *ast.BlockStmt:
			t.walk(x.List, perListener, guarded)
		case *ast.RangeStmt:
			if !t.hasVocab(x.Body) {
				continue
			}
			if printNode(t.p.fset, x.X) == "d.listeners" {
				t.walk(x.Body.List, true, guarded)
			} else {
				t.guards = append(t.guards, "range "+c14norm(printNode(t.p.fset, x.X)))
				t.walk(x.Body.List, perListener, true)
			}
		case *ast.ForStmt:
			if t.hasVocab(x.Body) {
				t.guards = append(t.guards, "for "+c14norm(printNode(t.p.fset, x.Cond)))
				t.walk(x.Body.List, perListener, true)
			}
		case *ast.SwitchStmt, *ast.SelectStmt, *ast.TypeSwitchStmt:
			if t.hasVocab(x) {
				t.errs = append(t.errs, "switch / select with modelled calls")
			}
		default: // assignments, declarations, returns, sends ...
			emit(c14Item{0, t.calls(s)})
		}
	}
}

func c14ItemsCoq(items []c14Item) string {
	var ps []string
	for _, it := range items {
		var os []string
		for _, c := range it.ops {
			os = append(os, strconv.Itoa(c))
		}
		ps = append(ps, fmt.Sprintf("(%d, [%s])", it.kind, strings.Join(os, "; ")))
	}
	return "[" + strings.Join(ps, "; ") + "]"
}

// c14Prog: emit <coqName> : list (Z * list Z) and <coqName>_guards : list String.string
func (o *out) c14Prog(p *pkgInfo, fd *ast.FuncDecl, where string, vocab map[string]int, coqName string) {
	if fd == nil {
		o.brokenDef(coqName, "function "+where+" not found")
		return
	}
	t := &c14ProgTr{p: p, vocab: vocab}
	t.walk(fd.Body.List, false, false)
	if len(t.errs) > 0 {
		o.brokenDef(coqName, where+": "+strings.Join(t.errs, "; "))
		return
	}
	items := append(t.items, t.defers...)
	var names []string
	for n, c := range vocab {
		names = append(names, fmt.Sprintf("%d=%s", c, n))
	}
	sort.Strings(names)
	o.f("Definition %s : list (Z * list Z) := %s.\n(* %s as (kind, calls): kind 0 direct, 1 errgroup member, 3 errgroup member per listener, 2 plain goroutine; calls: %s *)\n",
		coqName, c14ItemsCoq(items), where, strings.Join(names, " "))
	var gs []string
	for _, g := range t.guards {
		gs = append(gs, fmt.Sprintf("%q%%string", g))
	}
	o.f("Definition %s_guards : list String.string := [%s]. (* conditions / loops under which one of those calls sits *)\n", coqName, strings.Join(gs, "; "))
}

var c14SigNum = map[string]int{"syscall.SIGHUP": 1, "syscall.SIGINT": 2, "os.Interrupt": 2, "syscall.SIGQUIT": 3, "syscall.SIGKILL": 9, "os.Kill": 9,
	"syscall.SIGUSR1": 10, "syscall.SIGUSR2": 12, "syscall.SIGPIPE": 13, "syscall.SIGALRM": 14, "syscall.SIGTERM": 15}

// c14Signals: cmdline/servecmd/signals_unix.go watchSignals — the notified signals, the channel capacity, whether the
// receive sits in an endless loop, and the switch as a decision function  sig_action sig already = (action, already').
// action: 0 nothing, 1 `go srv.Close()` (asynchronous graceful shutdown), 3 srv.Close() called on the watcher itself,
// 2 os.Exit(sig_exit_code)
func (o *out) c14Signals() {
	const dir, file, name = "cmdline/servecmd", "signals_unix.go", "watchSignals"
	p, fd := c14FindFuncInFile(dir, file, name)
	if fd == nil {
		o.brokenDef("sig_action", dir+"/"+file+": "+name+" not found")
		return
	}
	// signal.Notify(ch, ...)
	var sigs []string
	notified := false
	capacity := int64(-1)
	ast.Inspect(fd.Body, func(x ast.Node) bool {
		ce, ok := x.(*ast.CallExpr)
		if !ok {
			return true
		}
		switch printNode(p.fset, ce.Fun) {
		case "signal.Notify":
			notified = true
			for _, a := range ce.Args[1:] {
				if n, ok := c14SigNum[printNode(p.fset, a)]; ok {
					sigs = append(sigs, strconv.Itoa(n))
				} else {
					sigs = append(sigs, "(-1)")
				}
			}
		case "make":
			if len(ce.Args) == 2 && strings.HasPrefix(printNode(p.fset, ce.Args[0]), "chan os.Signal") {
				if v, err := evalConst(dir, ce.Args[1], 0); err == nil {
					capacity = v.i
				}
			}
		}
		return true
	})
	if !notified {
		o.brokenDef("sig_notified", "no signal.Notify call in watchSignals")
		return
	}
	o.f("Definition sig_notified : list Z := [%s]. (* %s/%s: signal.Notify arguments (signal numbers on linux) *)\n", strings.Join(sigs, "; "), dir, file)
	o.f("Definition sig_chan_cap : Z := %d. (* capacity of the channel handed to signal.Notify (a signal arriving while it is full is dropped) *)\n", capacity)
	// the loop
	var loop *ast.ForStmt
	for _, s := range fd.Body.List {
		if fs, ok := s.(*ast.ForStmt); ok && fs.Cond == nil && fs.Init == nil && fs.Post == nil {
			loop = fs
		}
	}
	var sw *ast.SwitchStmt
	body := fd.Body.List
	if loop != nil {
		body = loop.Body.List
	}
	recvFirst := false
	for i, s := range body {
		if as, ok := s.(*ast.AssignStmt); ok && i == 0 && c14norm(printNode(p.fset, as)) == "sig := <-ch" {
			recvFirst = true
		}
		if x, ok := s.(*ast.SwitchStmt); ok && sw == nil {
			sw = x
		}
	}
	o.f("Definition sig_loop_forever : bool := %v. (* the receive `sig := <-ch` and the switch sit in `for { }` *)\n", loop != nil && recvFirst && sw != nil)
	if sw == nil || sw.Tag != nil || sw.Init != nil {
		o.brokenDef("sig_action", "watchSignals: no tagless switch after the receive")
		return
	}
	fs := funcSpec{dir: dir, coqName: "sig_action", leaves: map[string]string{"sig": "sig", "already": "already"},
		types: map[string]string{"already": "bool", "!already": "bool"}}
	for n, v := range c14SigNum {
		fs.leaves[n] = strconv.Itoa(v)
	}
	t := o.newTr(p, fs)
	exitCode := int64(-1)
	classify := func(list []ast.Stmt) (string, bool) {
		act, sets, bad := 0, false, ""
		for _, s := range list {
			switch x := s.(type) {
			case *ast.GoStmt:
				closes := false
				ast.Inspect(x, func(y ast.Node) bool {
					if ce, ok := y.(*ast.CallExpr); ok && printNode(p.fset, ce.Fun) == "srv.Close" {
						closes = true
					}
					return true
				})
				if closes {
					if act != 0 {
						bad = "two actions in one case"
					}
					act = 1
				}
			case *ast.AssignStmt:
				switch c14norm(printNode(p.fset, x)) {
				case "already = true":
					sets = true
				default:
					if strings.Contains(printNode(p.fset, x), "srv.Close") {
						act = 3
					} else if strings.HasPrefix(c14norm(printNode(p.fset, x)), "already") {
						bad = "unexpected assignment " + printNode(p.fset, x)
					}
				}
			default:
				ast.Inspect(s, func(y ast.Node) bool {
					if _, ok := y.(*ast.FuncLit); ok {
						return false
					}
					if ce, ok := y.(*ast.CallExpr); ok {
						switch printNode(p.fset, ce.Fun) {
						case "srv.Close":
							if act != 0 {
								bad = "two actions in one case"
							}
							act = 3
						case "os.Exit":
							if act != 0 {
								bad = "two actions in one case"
							}
							act = 2
							if len(ce.Args) == 1 {
								if v, err := evalConst(dir, ce.Args[0], 0); err == nil {
									exitCode = v.i
								}
							}
						}
					}
					return true
				})
			}
		}
		if bad != "" {
			t.fail("%s", bad)
		}
		return fmt.Sprintf("(%d, %v)", act, "ALREADY"), sets
	}
	res := "(0, already)"
	var deflt *ast.CaseClause
	var clauses []*ast.CaseClause
	for _, c := range sw.Body.List {
		cc := c.(*ast.CaseClause)
		if cc.List == nil {
			deflt = cc
		} else {
			clauses = append(clauses, cc)
		}
	}
	mk := func(cc *ast.CaseClause) string {
		r, sets := classify(cc.Body)
		if sets {
			return strings.Replace(r, "ALREADY", "true", 1)
		}
		return strings.Replace(r, "ALREADY", "already", 1)
	}
	if deflt != nil {
		res = mk(deflt)
	}
	var srcs []string
	for i := len(clauses) - 1; i >= 0; i-- {
		cc := clauses[i]
		var conds []string
		for _, ce := range cc.List {
			conds = append(conds, t.expr(ce))
			srcs = append([]string{c14norm(printNode(p.fset, ce))}, srcs...)
		}
		res = "(if " + strings.Join(conds, " || ") + " then " + mk(cc) + " else " + res + ")"
	}
	if t.err != nil {
		o.brokenDef("sig_action", t.err.Error())
		return
	}
	o.f("Definition sig_action (sig : Z) (already : bool) : Z * bool :=\n  %s.\n(* from %s/%s %s: cases %s ; action 0 nothing, 1 go srv.Close(), 3 srv.Close() on the watcher, 2 os.Exit *)\n",
		res, dir, file, name, strings.Join(srcs, " | "))
	o.f("Definition sig_exit_code : Z := %d. (* argument of os.Exit in watchSignals *)\n", exitCode)
	h := sha256.Sum256([]byte(c14norm(printNode(p.fset, fd))))
	fingers[dir+":."+name+"@unix"] = hex.EncodeToString(h[:8])
}

// c14CondOfInit: translate the condition of the if statement whose init statement contains `initMarker`
func (o *out) c14CondOfInit(fs funcSpec, initMarker string) {
	p, fd := findFunc(fs.dir, fs.recv, fs.name)
	if fd == nil {
		o.brokenDef(fs.coqName, "function "+fs.dir+":"+fs.recv+"."+fs.name+" not found")
		return
	}
	var found ast.Expr
	ast.Inspect(fd.Body, func(n ast.Node) bool {
		if is, ok := n.(*ast.IfStmt); ok && found == nil && is.Init != nil && strings.Contains(printNode(p.fset, is.Init), initMarker) {
			found = is.Cond
		}
		return found == nil
	})
	if found == nil {
		o.brokenDef(fs.coqName, "no `if "+initMarker+"; ...` in "+fs.name)
		return
	}
	t := o.newTr(p, fs)
	c := t.expr(found)
	if t.err != nil {
		o.brokenDef(fs.coqName, t.err.Error())
		return
	}
	o.f("Definition %s %s : %s :=\n  %s.\n(* from %s:%s.%s : if %s; %s *)\n", fs.coqName, fs.params, fs.retType, c, fs.dir, fs.recv, fs.name, initMarker, printNode(p.fset, found))
}

func init() {
	selectorConsts["math.MaxInt64"] = cval{i: 1<<63 - 1}
	generators["C14_gen"] = func(o *out) {
		o.f("From Coq Require Import String.\n")
		// closeonce.Close: index into [Lock Closed f StoreUintptr Unlock]
		o.callOrder("internal/closeonce", "Closed", "Close", "closeonce_calls", []string{"Lock", "Closed", "f", "StoreUintptr", "Unlock"})
		o.condOf(funcSpec{dir: "internal/closeonce", recv: "Closed", name: "Close", coqName: "closeonce_skip",
			params: "(already : bool)", retType: "bool", leaves: map[string]string{"o.Closed()": "already"}, types: map[string]string{"o.Closed()": "bool"}}, "o.Closed()")
		// Cache.GetKey: lock taken first, token consulted while holding it; index into [Lock Unlock KeyID GetKey]
		o.callOrder("token/tokencache", "Cache", "GetKey", "cache_calls", []string{"Lock", "Unlock", "KeyID", "GetKey"})
		o.hasStmt("token/tokencache", "Cache", "GetKey", "defer c.mu.Unlock()", "cache_unlock_deferred")
		// healthCheck: index into [Lock Unlock pingOne Now]
		o.callOrder("server", "Server", "healthCheck", "health_calls", []string{"Lock", "Unlock", "pingOne", "Now"})
		// per-request objects: FlagsFromQuery builds a fresh FlagValues; Init builds a fresh audit record and options
		o.hasStmt("signers", "Signer", "FlagsFromQuery", "values := &FlagValues{ Defs: s.flags, Values: make(map[string]string), }", "flags_fresh_per_request")
		o.callOrder("internal/signinit", "", "Init", "init_calls", []string{"InitKey", "New", "SetTimestamp", "WithContext"})
		// daemon.Close: Shutdown (waits for handlers) precedes closing the tokens; index into [Shutdown Close Wait]
		o.callOrder("server/daemon", "Daemon", "Close", "daemon_close_calls", []string{"Shutdown", "Close", "Wait"})

		// ---------------- (a) token/tokencache/cache.go with time
		const tc = "token/tokencache"
		cl := map[string]string{"cached.key != nil": "has_cached", "time.Now()": "now", "len(wantKeyID)": "want_len",
			"bytes.Equal(wantKeyID, haveKeyID)": "ids_equal", "c.expiry": "expiry"}
		ct := map[string]string{"cached.key != nil": "bool", "bytes.Equal(wantKeyID, haveKeyID)": "bool"}
		cc := map[string]string{"cached.expires.After": "Z.gtb expires", "cached.expires.Before": "Z.ltb expires", "cached.expires.Equal": "Z.eqb expires",
			"time.Now().Add": "Z.add now", "time.Now().Before": "Z.ltb now", "time.Now().After": "Z.gtb now"}
		o.condOf(funcSpec{dir: tc, recv: "Cache", name: "GetKey", coqName: "cache_entry_live",
			params: "(has_cached : bool) (expires now : Z)", retType: "bool", leaves: cl, types: ct, calls: cc}, "cached.key")
		o.condOf(funcSpec{dir: tc, recv: "Cache", name: "GetKey", coqName: "cache_id_acceptable",
			params: "(want_len : Z) (ids_equal : bool)", retType: "bool", leaves: cl, types: ct, calls: cc}, "haveKeyID")
		o.condOf(funcSpec{dir: tc, recv: "Cache", name: "GetKey", coqName: "cache_may_store",
			params: "(expiry want_len : Z)", retType: "bool", leaves: cl, types: ct, calls: cc}, "c.expiry")
		o.c14KeyValue(funcSpec{dir: tc, recv: "Cache", name: "GetKey", coqName: "cache_store_expires",
			params: "(now expiry : Z)", retType: "Z", leaves: cl, types: ct, calls: cc}, "expires")
		o.c14KeyValueIs(tc, "Cache", "GetKey", "key", "key", "cache_stores_fetched_key")
		o.c14IndexAll(tc, "Cache", "GetKey", "c.keys", "keyName", 2, "cache_indexed_by_request_name")
		o.c14CallArgs(tc, "Cache", "GetKey", "c.Token.GetKey", []string{"ctx", "keyName"}, "cache_fetches_request_name")
		// statement skeleton of GetKey (top level): positions of the lock, the deferred unlock, the fetch, its error check, the store
		o.c14StmtPos(tc, "Cache", "GetKey", "c.mu.Lock()", "cache_pos_lock")
		o.c14StmtPos(tc, "Cache", "GetKey", "defer c.mu.Unlock()", "cache_pos_defer_unlock")
		o.c14StmtPos(tc, "Cache", "GetKey", "cached := c.keys[", "cache_pos_lookup")
		o.c14StmtPos(tc, "Cache", "GetKey", "if cached.key != nil", "cache_pos_check")
		o.c14StmtPos(tc, "Cache", "GetKey", "key, err := c.Token.GetKey(", "cache_pos_fetch")
		o.c14StmtPos(tc, "Cache", "GetKey", "if err != nil { return nil, err }", "cache_pos_errcheck")
		o.c14StmtPos(tc, "Cache", "GetKey", "if c.expiry > 0", "cache_pos_store")
		o.c14StmtPos(tc, "Cache", "GetKey", "return key, nil", "cache_pos_return")
		o.c14CountCalls(tc, "Cache", "GetKey", "Unlock", "cache_unlock_calls")
		o.c14CountCalls(tc, "Cache", "GetKey", "Lock", "cache_lock_calls")
		o.hasStmt(tc, "Cache", "GetKey", "return cached.key, nil", "cache_hit_returns_cached")
		o.c14KeyValueIs(tc, "", "New", "expiry", "expiry", "cache_new_keeps_expiry")
		// the cache holds nothing but the key map: no table of in-flight lookups shared between callers
		o.c14StructFieldsAre(tc, "Cache", []string{"token.Token", "keys", "mu", "expiry"}, "cache_struct_plain")
		o.c14StructFieldsAre(tc, "cachedKey", []string{"expires", "key"}, "cache_entry_plain")
		o.c14StructFieldsAre(tc, "RateLimited", []string{"token.Token", "limit"}, "rl_struct_plain")
		o.c14StructFieldsAre("internal/closeonce", "Closed", []string{"done", "mu", "err"}, "closeonce_struct_plain")

		// ---------------- (b) token/tokencache/ratelimit.go (relic's wrapper) and the limiter it drives
		rl := map[string]string{"burst": "burst"}
		o.condOf(funcSpec{dir: tc, recv: "", name: "NewLimiter", coqName: "rl_burst_too_small", params: "(burst : Z)", retType: "bool", leaves: rl}, "burst")
		o.exprOfAssign(funcSpec{dir: tc, recv: "", name: "NewLimiter", coqName: "rl_burst_floor", params: "", retType: "Z"}, "burst", 0)
		o.c14CallArgs(tc, "", "NewLimiter", "rate.NewLimiter", []string{"rate.Limit(limit)", "burst"}, "rl_newlimiter_args")
		// each entry point waits on the shared limiter BEFORE touching the token; index into [Wait <operation>]
		o.callOrder(tc, "RateLimited", "GetKey", "rl_getkey_calls", []string{"Wait", "GetKey"})
		o.callOrder(tc, "rateLimitedKey", "Sign", "rl_sign_calls", []string{"Wait", "Sign"})
		o.callOrder(tc, "rateLimitedKey", "SignContext", "rl_signctx_calls", []string{"Wait", "SignContext"})
		o.c14StmtPos(tc, "RateLimited", "GetKey", "if err := r.limit.Wait(ctx); err != nil { return nil, err }", "rl_getkey_wait_checked")
		o.c14StmtPos(tc, "rateLimitedKey", "Sign", "if err := k.limit.Wait(context.Background()); err != nil { return nil, err }", "rl_sign_wait_checked")
		o.c14StmtPos(tc, "rateLimitedKey", "SignContext", "if err := k.limit.Wait(ctx); err != nil { return nil, err }", "rl_signctx_wait_checked")
		o.c14KeyValueIs(tc, "RateLimited", "GetKey", "limit", "r.limit", "rl_key_shares_limiter")
		o.c14KeyValueIs(tc, "RateLimited", "GetKey", "Key", "key", "rl_key_wraps_fetched")
		// server wiring: Metrics -> (RateLimit != 0: NewLimiter) -> tokencache.New ; index into [Token NewLimiter New]
		o.callOrder("server", "Server", "openTokens", "open_tokens_calls", []string{"Token", "NewLimiter", "New"})
		o.condOf(funcSpec{dir: "server", recv: "Server", name: "openTokens", coqName: "rl_enabled", params: "(ratelimit : Z)", retType: "bool",
			leaves: map[string]string{"tconf.RateLimit": "ratelimit"}}, "tconf.RateLimit")
		o.c14CallArgs("server", "Server", "openTokens", "tokencache.NewLimiter", []string{"tok", "tconf.RateLimit", "tconf.RateBurst"}, "open_tokens_limiter_args")
		o.c14CallArgs("server", "Server", "openTokens", "tokencache.New", []string{"tok", "expiry"}, "open_tokens_cache_args")
		// golang.org/x/time/rate at the version relic pins
		if xd := c14ModDir("golang.org/x/time"); xd == "" || !c14LoadAbs("@xtime/rate", filepath.Join(xd, "rate")) {
			o.brokenDef("rate_*", "golang.org/x/time/rate not found in the module cache ("+xd+")")
		} else {
			const xr = "@xtime/rate"
			xl := map[string]string{"last": "last", "tokens": "tokens", "burst": "burst", "n": "n", "lim.burst": "burst", "waitDuration": "wait",
				"maxFutureReserve": "maxwait", "limit": "rate", "delay": "delay"}
			xc := map[string]string{"t.Before": "Z.ltb t", "t.After": "Z.gtb t", "t.Add": "Z.add t", "float64": ""}
			o.condOf(funcSpec{dir: xr, recv: "Limiter", name: "advance", coqName: "rate_clamp", params: "(t last : Z)", retType: "bool", leaves: xl, calls: xc}, "last")
			o.condOf(funcSpec{dir: xr, recv: "Limiter", name: "advance", coqName: "rate_over_burst", params: "(tokens burst : Z)", retType: "bool", leaves: xl, calls: xc}, "burst")
			o.condOf(funcSpec{dir: xr, recv: "Limiter", name: "reserveN", coqName: "rate_needs_wait", params: "(tokens : Z)", retType: "bool", leaves: xl, calls: xc}, "tokens")
			o.exprOfAssign(funcSpec{dir: xr, recv: "Limiter", name: "reserveN", coqName: "rate_ok", params: "(n burst wait maxwait : Z)", retType: "bool", leaves: xl, calls: xc}, "ok", 0)
			o.exprOfAssign(funcSpec{dir: xr, recv: "Limiter", name: "reserveN", coqName: "rate_time_to_act", params: "(t wait : Z)", retType: "Z", leaves: xl, calls: xc}, "r.timeToAct", 0)
			o.hasStmt(xr, "Limiter", "reserveN", "tokens -= float64(n)", "rate_deducts_n")
			o.hasStmt(xr, "Limiter", "reserveN", "lim.last = t", "rate_sets_last")
			o.hasStmt(xr, "Limiter", "reserveN", "lim.tokens = tokens", "rate_sets_tokens")
			o.condOf(funcSpec{dir: xr, recv: "Limit", name: "durationFromTokens", coqName: "rate_nonpositive", params: "(rate : Z)", retType: "bool", leaves: xl, calls: xc}, "limit")
			o.condOf(funcSpec{dir: xr, recv: "Limiter", name: "wait", coqName: "rate_no_delay", params: "(delay : Z)", retType: "bool", leaves: xl, calls: xc}, "delay")
			o.c14KeyValueIs(xr, "", "NewLimiter", "tokens", "float64(b)", "rate_starts_full")
			o.constInt(xr, "InfDuration", "rate_inf_duration")
			// Wait = WaitN(ctx, 1)
			o.c14CallArgs(xr, "Limiter", "Wait", "lim.WaitN", []string{"ctx", "1"}, "rate_wait_is_one")
			for _, fn := range [][2]string{{"Limiter", "advance"}, {"Limiter", "reserveN"}, {"Limiter", "wait"}, {"Limit", "durationFromTokens"}, {"Limit", "tokensFromDuration"}} {
				fingerprint(xr, fn[0], fn[1])
			}
		}

		// ---------------- (c) shutdown
		// daemon.Close: [Go WithTimeout Shutdown Close Wait]; Shutdown and server.Close run inside the closure handed to the errgroup
		o.callOrder("server/daemon", "Daemon", "Close", "daemon_close_order", []string{"Go", "WithTimeout", "Shutdown", "Close", "Wait"})
		o.c14InsideClosure("server/daemon", "Daemon", "Close", "d.eg.Go", []string{"Shutdown", "Close"}, "daemon_close_in_group")
		o.c14ConstArg("server/daemon", "Daemon", "Close", "context.WithTimeout", 1, "daemon_shutdown_timeout")
		o.c14StmtPos("server/daemon", "Daemon", "Close", "return d.eg.Wait()", "daemon_close_pos_wait")
		// daemon.Serve: [Go Serve Wait]; Serve runs inside the errgroup and the caller waits for it
		o.callOrder("server/daemon", "Daemon", "Serve", "daemon_serve_calls", []string{"Go", "Serve", "Wait"})
		o.c14InsideClosure("server/daemon", "Daemon", "Serve", "d.eg.Go", []string{"httpServer.Serve"}, "daemon_serve_in_group")
		// ---------------- (c') the PROCESS: serveCmd blocks on Daemon.Serve (errgroup Wait) while watchSignals runs Daemon.Close
		// on another goroutine; statement-level translation of the three bodies into thread programs
		{
			dv := map[string]int{"d.httpServer.Serve": 1, "d.httpServer.Shutdown": 2, "d.server.Close": 3, "d.eg.Wait": 4, "d.httpServer.Close": 11}
			pc, fc := findFunc("server/daemon", "Daemon", "Close")
			o.c14Prog(pc, fc, "server/daemon:Daemon.Close", dv, "daemon_close_prog")
			ps, fsv := findFunc("server/daemon", "Daemon", "Serve")
			o.c14Prog(ps, fsv, "server/daemon:Daemon.Serve", dv, "daemon_serve_prog")
			pm, fm := c14FindFuncInFile("cmdline/servecmd", "servecmd.go", "serveCmd")
			o.c14Prog(pm, fm, "cmdline/servecmd:serveCmd", map[string]int{"watchSignals": 5, "srv.Serve": 6, "listenDebug": 7, "MakeServer": 8}, "servecmd_prog")
			// Shutdown gets the context with the timeout, which is cancelled only when Close returns
			o.c14CallArgs("server/daemon", "Daemon", "Close", "d.httpServer.Shutdown", []string{"ctx"}, "daemon_shutdown_gets_ctx")
			o.c14CallArgIs("server/daemon", "Daemon", "Close", "context.WithTimeout", 0, "context.Background()", "daemon_ctx_from_background")
			o.hasStmt("server/daemon", "Daemon", "Close", "defer cancel()", "daemon_cancel_deferred")
			o.c14CountCalls("server/daemon", "Daemon", "Close", "cancel", "daemon_cancel_calls")
			// how the results travel: a listener's ErrServerClosed becomes nil; serveCmd fails only on another error
			el := map[string]string{"err": "err", "nil": "0", "http.ErrServerClosed": "1"}
			o.condOf(funcSpec{dir: "server/daemon", recv: "Daemon", name: "Serve", coqName: "serve_member_closed_is_nil", params: "(err : Z)", retType: "bool", leaves: el}, "err")
			o.c14CondOfInit(funcSpec{dir: "cmdline/servecmd", recv: "", name: "serveCmd", coqName: "serve_err_fatal", params: "(err : Z)", retType: "bool", leaves: el}, "srv.Serve()")
			o.hasStmt("server/daemon", "Daemon", "Serve", "return d.eg.Wait()", "daemon_serve_returns_wait")
			o.c14ConstArg("cmdline/shared", "", "Fail", "os.Exit", 0, "fail_exit_code")
			o.c14CallArgs("cmdline/servecmd", "", "serveCmd", "shared.Fail", []string{"err"}, "servecmd_fails_with_err")
			o.c14Signals()
			fingerprint("cmdline/servecmd", "", "serveCmd")
		}
		// server.Close: [close Close]: stop the health loop, then close every token
		o.callOrder("server", "Server", "Close", "server_close_calls", []string{"close", "Close"})
		o.selectArmExits("server", "Server", "healthCheckLoop", "s.Closed", "health_loop_exits_on_close")
		// server.Close: close the channel, wait for the health loop to be gone, only then close the tokens
		o.c14StmtPos("server", "Server", "Close", "if s.closeCh != nil { close(s.closeCh)", "server_close_pos_chan")
		o.c14StmtPos("server", "Server", "Close", "if s.healthDone != nil { <-s.healthDone }", "server_close_pos_wait")
		o.c14StmtPos("server", "Server", "Close", "for _, t := range s.tokens { t.Close() }", "server_close_pos_tokens")
		o.hasStmt("server", "Server", "startHealthCheck", "s.healthDone = done", "health_done_registered")
		o.c14GoDefers("server", "Server", "startHealthCheck", "close(done)", "s.healthCheckLoop()", "health_done_closed_on_exit")
		o.c14RangeGuard("server", "Server", "healthCheck", "s.tokens", "s.Closed", "pingOne", "health_check_stops_on_close")
		// serveSign: [GetKey Allowed FlagsFromQuery Init Sign PublishAudit Write]
		o.callOrder("server", "Server", "serveSign", "serve_sign_calls", []string{"GetKey", "Allowed", "FlagsFromQuery", "Init", "Sign", "PublishAudit", "Write"})
		o.callOrder("internal/signinit", "", "InitKey", "initkey_calls", []string{"GetKey", "LoadTokenCertificates"})

		// ---------------- (d) audit file
		o.c14CountCalls("lib/audit", "Info", "AppendTo", "Write", "append_write_calls")
		o.callOrder("lib/audit", "Info", "AppendTo", "append_order", []string{"OpenFile", "Marshal", "append", "Write"})
		o.hasStmt("lib/audit", "Info", "AppendTo", "blob = append(blob, '\\n')", "append_adds_newline")
		o.c14CallArgs("lib/audit", "Info", "AppendTo", "os.OpenFile", []string{"logFile", "os.O_CREATE | os.O_APPEND | os.O_WRONLY", "0600"}, "append_opens_o_append")
		o.c14CallArgs("lib/audit", "Info", "AppendTo", "f.Write", []string{"blob"}, "append_writes_blob")

		// ---------------- (e) timestamper and package-level mutable state
		tl := map[string]string{"ts == nil": "is_nil", `kconf.Timestamper != ""`: "named", "kconf.Timestamp": "enabled", `flags.GetBool("no-timestamp")`: "no_ts"}
		tt := map[string]string{"ts == nil": "bool", `kconf.Timestamper != ""`: "bool", "kconf.Timestamp": "bool", `flags.GetBool("no-timestamp")`: "bool"}
		o.condOf(funcSpec{dir: "internal/signinit", recv: "", name: "GetTimestamper", coqName: "ts_needs_init", params: "(is_nil : bool)", retType: "bool", leaves: tl, types: tt}, "ts")
		o.callOrder("internal/signinit", "", "GetTimestamper", "ts_calls", []string{"Lock", "Unlock", "newTimestamper"})
		o.c14StmtPos("internal/signinit", "", "GetTimestamper", "mu.Lock()", "ts_pos_lock")
		o.c14StmtPos("internal/signinit", "", "GetTimestamper", "defer mu.Unlock()", "ts_pos_defer_unlock")
		o.c14CountCalls("internal/signinit", "", "GetTimestamper", "Unlock", "ts_unlock_calls")
		o.hasStmt("internal/signinit", "", "GetTimestamper", "ts, err = newTimestamper()", "ts_assigns_global")
		o.hasStmt("internal/signinit", "", "GetTimestamper", "return ts, err", "ts_returns_global")
		o.condOf(funcSpec{dir: "internal/signinit", recv: "", name: "Init", coqName: "ts_wanted", params: "(enabled named no_ts : bool)", retType: "bool", leaves: tl, types: tt}, "kconf.Timestamp")
		o.hasStmt("internal/signinit", "namedTimestamper", "Timestamp", "r2 := *req", "ts_request_copied")
		o.c14CallArgs("internal/signinit", "namedTimestamper", "Timestamp", "t.client.Timestamp", []string{"ctx", "&r2"}, "ts_passes_copy")
		sdirs := []string{}
		if ents, err := os.ReadDir(filepath.Join(repo, "signers")); err == nil {
			for _, e := range ents {
				if e.IsDir() {
					sdirs = append(sdirs, "signers/"+e.Name())
				}
			}
		}
		o.c14SharedVars(append(sdirs, "cmdline/shared", "internal/closeonce", "internal/signinit", "lib/audit", "lib/compresshttp", "server", "server/daemon",
			"signers", "token", "token/tokencache", "internal/zhttp", "internal/authmodel", "internal/httperror", "internal/realip"))

		for _, fn := range [][3]string{{"internal/closeonce", "Closed", "Close"}, {"token/tokencache", "Cache", "GetKey"}, {"server", "Server", "healthCheck"},
			{"signers", "Signer", "FlagsFromQuery"}, {"signers", "FlagValues", "mergeSet"}, {"internal/signinit", "", "Init"}, {"server/daemon", "Daemon", "Close"},
			{"server/daemon", "Daemon", "Serve"}, {"internal/signinit", "", "GetTimestamper"},
			{"token/tokencache", "RateLimited", "GetKey"}, {"token/tokencache", "rateLimitedKey", "Sign"}, {"token/tokencache", "rateLimitedKey", "SignContext"},
			{"token/tokencache", "", "NewLimiter"}, {"server", "Server", "Close"}, {"server", "Server", "openTokens"}, {"server", "Server", "healthCheckLoop"},
			{"lib/audit", "Info", "AppendTo"}, {"internal/signinit", "", "newTimestamper"}, {"internal/signinit", "namedTimestamper", "Timestamp"}} {
			fingerprint(fn[0], fn[1], fn[2])
		}
	}
}
