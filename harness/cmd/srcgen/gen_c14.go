package main

func init() {
	generators["C14_gen"] = func(o *out) {
		// closeonce.Close: index into [Lock Closed f StoreUintptr Unlock]
		o.callOrder("internal/closeonce", "Closed", "Close", "closeonce_calls", []string{"Lock", "Closed", "f", "StoreUintptr", "Unlock"})
		o.condOf(funcSpec{dir: "internal/closeonce", recv: "Closed", name: "Close", coqName: "closeonce_skip",
			params: "(already : bool)", retType: "bool", leaves: map[string]string{"o.Closed()": "already"}, types: map[string]string{"o.Closed()": "bool"}}, "o.Closed()")
		// Cache.GetKey: lock taken first, token consulted while holding it; index into [Lock Unlock KeyID GetKey]
		o.callOrder("token/tokencache", "Cache", "GetKey", "cache_calls", []string{"Lock", "Unlock", "KeyID", "GetKey"})
		o.hasStmt("token/tokencache", "Cache", "GetKey", "defer c.mu.Unlock()", "cache_unlock_deferred")
		// healthCheck: index into [Lock Unlock pingOne Now]
		o.callOrder("server", "Server", "healthCheck", "health_calls", []string{"Lock", "Unlock", "pingOne", "Now"})
		// per-request objects: FlagsFromQuery builds a fresh FlagValues; Init builds a fresh audit record and options
		o.hasStmt("signers", "Signer", "FlagsFromQuery", "values := &FlagValues{ Defs: s.flags, Values: make(map[string]string), }", "flags_fresh_per_request")
		o.callOrder("internal/signinit", "", "Init", "init_calls", []string{"InitKey", "New", "SetTimestamp", "WithContext"})
		// daemon.Close: Shutdown (waits for handlers) precedes closing the tokens; index into [Shutdown Close Wait]
		o.callOrder("server/daemon", "Daemon", "Close", "daemon_close_calls", []string{"Shutdown", "Close", "Wait"})
		for _, fn := range [][3]string{{"internal/closeonce", "Closed", "Close"}, {"token/tokencache", "Cache", "GetKey"}, {"server", "Server", "healthCheck"},
			{"signers", "Signer", "FlagsFromQuery"}, {"signers", "FlagValues", "mergeSet"}, {"internal/signinit", "", "Init"}, {"server/daemon", "Daemon", "Close"},
			{"server/daemon", "Daemon", "Serve"}, {"internal/signinit", "", "GetTimestamper"}} {
			fingerprint(fn[0], fn[1], fn[2])
		}
	}
}
