package main

import (
	"fmt"
	"go/ast"
	"go/token"
	"os"
	"os/exec"
	"path/filepath"
	"reflect"
	"regexp"
	"sort"
	"strconv"
	"strings"
)

// FmtCAT — the small signers without a unit of their own:
//
//	cat_*     signers/cat/signer.go (re-signing a security catalog), the builder entry points of lib/pkcs7/builder.go it uses
//	pkcs_*    signers/pkcs/timestamp.go (Verify, the --content path), pkcs7.SignatureBuilder.SetContentData / SetDetachedContent / Sign guards
//	magic_*   lib/magic/magic.go Detect: the clauses up to and including the PKCS#7 one (RPM, DEB, PGP, CAT, PKCS7)
//	cosign_*  signers/cosign/{signer,payload,digest}.go
//	rpm_*     signers/rpm/signer.go; rpmu_*: constants and size expressions of github.com/sassoftware/go-rpmutils (module cache, version of
//	          /repo/go.mod) — third-party code whose behaviour is modelled as observed, its constants tied here
//
// Everything is emitted as a definition the Coq model uses; what cannot be found or translated is a broken tie.
func catgStrip(s string) string { return strings.Join(strings.Fields(s), "") }

func catgGoEnv() (goroot, modcache string) {
	cmd := exec.Command("go", "env", "GOROOT", "GOMODCACHE")
	cmd.Env = append(os.Environ(), "GOFLAGS=-mod=mod", "GOPROXY=off", "GOSUMDB=off", "GOTOOLCHAIN=local")
	outb, err := cmd.Output()
	if err == nil {
		ls := strings.Split(strings.TrimSpace(string(outb)), "\n")
		if len(ls) == 2 {
			return strings.TrimSpace(ls[0]), strings.TrimSpace(ls[1])
		}
	}
	home, _ := os.UserHomeDir()
	return os.Getenv("GOROOT"), filepath.Join(home, "go", "pkg", "mod")
}

// catgModDir: directory of a dependency of /repo in the module cache (version from /repo/go.mod), relative to the repo root
func catgModDir(modcache, module, sub string) string {
	gm, err := os.ReadFile(filepath.Join(repo, "go.mod"))
	if err != nil {
		return ""
	}
	m := regexp.MustCompile(`(?m)^\s*` + regexp.QuoteMeta(module) + `\s+(v[^\s]+)`).FindStringSubmatch(string(gm))
	if m == nil {
		return ""
	}
	var esc strings.Builder
	for _, c := range module {
		if c >= 'A' && c <= 'Z' {
			esc.WriteByte('!')
			esc.WriteRune(c + 32)
		} else {
			esc.WriteRune(c)
		}
	}
	abs := filepath.Join(modcache, esc.String()+"@"+m[1], sub)
	r, err := filepath.Rel(repo, abs)
	if err != nil {
		return abs
	}
	return r
}

func catgOid(o *out, dir, goName, coqName string) {
	ce, _, _, _ := findConstExpr(dir, goName)
	cl, ok := ce.(*ast.CompositeLit)
	if ce == nil || !ok {
		o.brokenDef(coqName, "object identifier "+dir+"."+goName+" not found")
		return
	}
	var arcs []string
	for _, e := range cl.Elts {
		v, err := evalConst(dir, e, 0)
		if err != nil || v.isFloat {
			o.brokenDef(coqName, "object identifier "+goName+" has a non-literal arc")
			return
		}
		arcs = append(arcs, strconv.FormatInt(v.i, 10))
	}
	o.f("Definition %s : list Z := [%s]. (* %s.%s *)\n", coqName, strings.Join(arcs, "; "), dir, goName)
}

// catgStr resolves a string-valued constant expression: literal, package constant, concatenation, pkg.Const through `imports`
// (selector prefix -> directory relative to the repo root).
func catgStr(dir string, e ast.Expr, imports map[string]string, depth int) (string, bool) {
	if depth > 8 || e == nil {
		return "", false
	}
	switch x := e.(type) {
	case *ast.BasicLit:
		if x.Kind == token.STRING {
			s, err := strconv.Unquote(x.Value)
			return s, err == nil
		}
	case *ast.ParenExpr:
		return catgStr(dir, x.X, imports, depth+1)
	case *ast.Ident:
		ce, _, _, _ := findConstExpr(dir, x.Name)
		return catgStr(dir, ce, imports, depth+1)
	case *ast.SelectorExpr:
		if id, ok := x.X.(*ast.Ident); ok {
			if d, ok := imports[id.Name]; ok {
				ce, _, _, _ := findConstExpr(d, x.Sel.Name)
				return catgStr(d, ce, imports, depth+1)
			}
		}
	case *ast.BinaryExpr:
		if x.Op == token.ADD {
			a, ok1 := catgStr(dir, x.X, imports, depth+1)
			b, ok2 := catgStr(dir, x.Y, imports, depth+1)
			return a + b, ok1 && ok2
		}
	case *ast.CallExpr: // conversions such as Algorithm("sha256")
		if len(x.Args) == 1 {
			return catgStr(dir, x.Args[0], imports, depth+1)
		}
	}
	return "", false
}

func (o *out) catgConstStr(dir, goName, coqName string, imports map[string]string) {
	ce, _, _, _ := findConstExpr(dir, goName)
	s, ok := catgStr(dir, ce, imports, 0)
	if ce == nil || !ok {
		o.brokenDef(coqName, "string constant "+dir+"."+goName+" not resolved")
		return
	}
	o.f("Definition %s : list Z := %s. (* %s.%s = %q *)\n", coqName, bytesLit([]byte(s)), dir, goName, s)
}

// catgLocalConst: integer constant declared inside a function body
func (o *out) catgLocalConst(dir, recv, fn, name, coqName string) {
	_, fd := findFunc(dir, recv, fn)
	if fd == nil {
		o.brokenDef(coqName, "function "+dir+":"+recv+"."+fn+" not found")
		return
	}
	var val ast.Expr
	ast.Inspect(fd.Body, func(n ast.Node) bool {
		if gd, ok := n.(*ast.GenDecl); ok && gd.Tok == token.CONST {
			for _, s := range gd.Specs {
				vs := s.(*ast.ValueSpec)
				for i, nm := range vs.Names {
					if nm.Name == name && i < len(vs.Values) {
						val = vs.Values[i]
					}
				}
			}
		}
		return val == nil
	})
	if val == nil {
		o.brokenDef(coqName, "local constant "+name+" not found in "+fn)
		return
	}
	v, err := evalConst(dir, val, 0)
	if err != nil || v.isFloat {
		o.brokenDef(coqName, "local constant "+name+" is not an integer expression")
		return
	}
	o.f("Definition %s : Z := %d. (* %s:%s.%s const %s *)\n", coqName, v.i, dir, recv, fn, name)
}

// catgCalls: all calls of the function whose printed callee equals callee or ends in "."+callee, in source order
func catgCalls(dir, recv, fn, callee string) (*pkgInfo, []*ast.CallExpr) {
	p, fd := findFunc(dir, recv, fn)
	if fd == nil {
		return p, nil
	}
	var res []*ast.CallExpr
	ast.Inspect(fd.Body, func(n ast.Node) bool {
		if ce, ok := n.(*ast.CallExpr); ok {
			c := printNode(p.fset, ce.Fun)
			if c == callee || strings.HasSuffix(c, "."+callee) {
				res = append(res, ce)
			}
		}
		return true
	})
	return p, res
}

// catgArgClasses: the arguments of the nth call to callee, each mapped through classes (printed text, blanks removed) to a small
// integer; an argument not in the table is 99 (the model has no meaning for it: its layout guard fails).
func (o *out) catgArgClasses(dir, recv, fn, callee string, nth int, coqName string, classes map[string]int) {
	p, calls := catgCalls(dir, recv, fn, callee)
	if nth >= len(calls) {
		o.brokenDef(coqName, fmt.Sprintf("no call #%d to %s in %s:%s.%s", nth, callee, dir, recv, fn))
		return
	}
	var codes, texts []string
	for _, a := range calls[nth].Args {
		t := catgStrip(printNode(p.fset, a))
		c, ok := classes[t]
		if !ok {
			c = 99
		}
		codes = append(codes, strconv.Itoa(c))
		texts = append(texts, t)
	}
	o.f("Definition %s : list Z := [%s]. (* %s:%s.%s: %s(%s) *)\n", coqName, strings.Join(codes, "; "), dir, recv, fn, callee, strings.Join(texts, ", "))
}

// catgArgExpr translates argument #arg of the nth call to callee
func (o *out) catgArgExpr(fs funcSpec, callee string, nth, arg int) {
	p, calls := catgCalls(fs.dir, fs.recv, fs.name, callee)
	if nth >= len(calls) || arg >= len(calls[nth].Args) {
		o.brokenDef(fs.coqName, fmt.Sprintf("no argument %d of call #%d to %s in %s", arg, nth, callee, fs.name))
		return
	}
	t := o.newTr(p, fs)
	c := t.expr(calls[nth].Args[arg])
	if t.err != nil {
		o.brokenDef(fs.coqName, t.err.Error())
		return
	}
	o.f("Definition %s %s : %s :=\n  %s.\n(* from %s:%s.%s : argument %d of %s = %s *)\n", fs.coqName, fs.params, fs.retType, c, fs.dir, fs.recv, fs.name, arg, callee,
		strings.ReplaceAll(printNode(p.fset, calls[nth].Args[arg]), "*)", "* )"))
}

// catgCountCalls emits how many calls to callee the function makes
func (o *out) catgCountCalls(dir, recv, fn, callee, coqName string) {
	_, fd := findFunc(dir, recv, fn)
	if fd == nil {
		o.brokenDef(coqName, "function "+dir+":"+recv+"."+fn+" not found")
		return
	}
	_, calls := catgCalls(dir, recv, fn, callee)
	o.f("Definition %s : Z := %d. (* %s:%s.%s: calls to %s *)\n", coqName, len(calls), dir, recv, fn, callee)
}

// catgFindLit: nth composite literal whose printed type is typ (or ends in "."+typ) inside node
func catgFindLit(p *pkgInfo, root ast.Node, typ string, nth int) *ast.CompositeLit {
	var found *ast.CompositeLit
	k := 0
	ast.Inspect(root, func(n ast.Node) bool {
		if found != nil {
			return false
		}
		cl, ok := n.(*ast.CompositeLit)
		if !ok || cl.Type == nil {
			return true
		}
		tn := catgStrip(printNode(p.fset, cl.Type))
		if tn == typ || strings.HasSuffix(tn, "."+typ) {
			if k == nth {
				found = cl
				// []T{{...}}: the single element with the elided type is the literal of interest
				if _, isArr := cl.Type.(*ast.ArrayType); isArr && len(cl.Elts) == 1 {
					if el, ok := cl.Elts[0].(*ast.CompositeLit); ok && el.Type == nil {
						found = el
					}
				}
				return false
			}
			k++
		}
		return true
	})
	return found
}

// catgLitFields: for the nth literal of type typ in fn, emit the keyed fields in source order as (index into `fields`, class of the
// value).  A key outside `fields` or a value outside `classes` is 99.
func (o *out) catgLitFields(dir, recv, fn, typ string, nth int, coqName string, fields []string, classes map[string]int) {
	p, fd := findFunc(dir, recv, fn)
	if fd == nil {
		o.brokenDef(coqName, "function "+dir+":"+recv+"."+fn+" not found")
		return
	}
	cl := catgFindLit(p, fd.Body, typ, nth)
	if cl == nil {
		o.brokenDef(coqName, fmt.Sprintf("no literal #%d of type %s in %s", nth, typ, fn))
		return
	}
	var items, notes []string
	for _, el := range cl.Elts {
		kv, ok := el.(*ast.KeyValueExpr)
		if !ok {
			items = append(items, "(99, 99)")
			continue
		}
		k := catgStrip(printNode(p.fset, kv.Key))
		ki := 99
		for i, f := range fields {
			if f == k {
				ki = i
			}
		}
		vt := catgStrip(printNode(p.fset, kv.Value))
		if _, isLit := kv.Value.(*ast.CompositeLit); isLit {
			vt = "{...}"
		}
		if ue, ok := kv.Value.(*ast.UnaryExpr); ok {
			if _, isLit := ue.X.(*ast.CompositeLit); isLit {
				vt = "{...}"
			}
		}
		vc, ok := classes[vt]
		if !ok {
			vc = 99
		}
		items = append(items, fmt.Sprintf("(%d, %d)", ki, vc))
		notes = append(notes, k+": "+vt)
	}
	o.f("Definition %s : list (Z * Z) := [%s]. (* %s:%s.%s %s{%s} ; keys index [%s] *)\n", coqName, strings.Join(items, "; "), dir, recv, fn, typ,
		strings.Join(notes, ", "), strings.Join(fields, " "))
}

// catgJSONTags: the json names of a struct's fields, in field order
func (o *out) catgJSONTags(dir, goName, coqName string) {
	_, st := findStruct(dir, goName)
	if st == nil {
		o.brokenDef(coqName, "struct "+dir+"."+goName+" not found")
		return
	}
	var items, notes []string
	for _, fl := range st.Fields.List {
		name := ""
		if fl.Tag != nil {
			tv, _ := strconv.Unquote(fl.Tag.Value)
			name = strings.Split(reflect.StructTag(tv).Get("json"), ",")[0]
		}
		for _, n := range fl.Names {
			jn := name
			if jn == "" {
				jn = n.Name
			}
			items = append(items, bytesLit([]byte(jn)))
			notes = append(notes, n.Name+"="+jn)
		}
	}
	o.f("Definition %s : list (list Z) := [%s]. (* %s.%s json names: %s *)\n", coqName, strings.Join(items, "; "), dir, goName, strings.Join(notes, " "))
}

// catgMapVar: package-level `var name = map[K]V{ k: v, ... }` as pairs of expressions
func catgMapVar(dir, name string) (*pkgInfo, [][2]ast.Expr) {
	ce, p, _, _ := findConstExpr(dir, name)
	cl, ok := ce.(*ast.CompositeLit)
	if !ok {
		return p, nil
	}
	var res [][2]ast.Expr
	for _, el := range cl.Elts {
		if kv, ok := el.(*ast.KeyValueExpr); ok {
			res = append(res, [2]ast.Expr{kv.Key, kv.Value})
		}
	}
	return p, res
}

var catgCryptoHash = map[string]int{"crypto.MD5": 2, "crypto.SHA1": 3, "crypto.SHA224": 4, "crypto.SHA256": 5, "crypto.SHA384": 6, "crypto.SHA512": 7}

// catgDetect: the clauses of magic.Detect in order, as far as they are byte tests: (kind, file type, bytes, window); kind 0 =
// hasPrefix, 1 = contains within the first `window` bytes.  Stops after the clause returning stopAt.
func (o *out) catgDetect(dir, coqName, stopAt string) {
	p, fd := findFunc(dir, "", "Detect")
	if fd == nil {
		o.brokenDef(coqName, "function "+dir+".Detect not found")
		return
	}
	var sw *ast.SwitchStmt
	for _, st := range fd.Body.List {
		if s, ok := st.(*ast.SwitchStmt); ok && s.Tag == nil {
			sw = s
		}
	}
	if sw == nil {
		o.brokenDef(coqName, "Detect: no tagless switch")
		return
	}
	bytesOf := func(e ast.Expr) ([]byte, bool) {
		switch x := e.(type) {
		case *ast.CompositeLit:
			var b []byte
			for _, el := range x.Elts {
				v, err := evalConst(dir, el, 0)
				if err != nil {
					return nil, false
				}
				b = append(b, byte(v.i))
			}
			return b, true
		case *ast.CallExpr:
			if len(x.Args) == 1 {
				if bl, ok := x.Args[0].(*ast.BasicLit); ok && bl.Kind == token.STRING {
					s, _ := strconv.Unquote(bl.Value)
					return []byte(s), true
				}
			}
		}
		return nil, false
	}
	var items, notes []string
	done := false
	for _, c := range sw.Body.List {
		cc := c.(*ast.CaseClause)
		if cc.List == nil || done {
			continue
		}
		ret := ""
		if len(cc.Body) == 1 {
			if rs, ok := cc.Body[0].(*ast.ReturnStmt); ok && len(rs.Results) == 1 {
				ret = printNode(p.fset, rs.Results[0])
			}
		}
		if ret == "" {
			o.brokenDef(coqName, "Detect: a clause before "+stopAt+" is not a plain `return FileTypeX`: "+catgStrip(printNode(p.fset, cc.List[0])))
			return
		}
		ce, _, si, _ := findConstExpr(dir, ret)
		tv, err := evalConst(dir, ce, si)
		if ce == nil || err != nil {
			o.brokenDef(coqName, "Detect: file type constant "+ret+" not evaluated")
			return
		}
		for _, cond := range cc.List {
			call, ok := cond.(*ast.CallExpr)
			if !ok {
				o.brokenDef(coqName, "Detect: clause condition is not a call: "+printNode(p.fset, cond))
				return
			}
			fn := printNode(p.fset, call.Fun)
			switch {
			case fn == "hasPrefix" && len(call.Args) == 2:
				b, ok := bytesOf(call.Args[1])
				if !ok {
					o.brokenDef(coqName, "Detect: hasPrefix pattern not a literal")
					return
				}
				items = append(items, fmt.Sprintf("(0, %d, %s, 0)", tv.i, bytesLit(b)))
			case fn == "contains" && len(call.Args) == 3:
				b, ok := bytesOf(call.Args[1])
				w, err := evalConst(dir, call.Args[2], 0)
				if !ok || err != nil {
					o.brokenDef(coqName, "Detect: contains pattern/window not literal")
					return
				}
				items = append(items, fmt.Sprintf("(1, %d, %s, %d)", tv.i, bytesLit(b), w.i))
			default:
				o.brokenDef(coqName, "Detect: unknown test "+fn+" before the "+stopAt+" clause")
				return
			}
			notes = append(notes, fn+"->"+ret)
		}
		if ret == stopAt {
			done = true
		}
	}
	if !done {
		o.brokenDef(coqName, "Detect: no clause returns "+stopAt)
		return
	}
	o.f("Definition %s : list (Z * Z * list Z * Z) := [%s].\n(* %s.Detect: %s *)\n", coqName, strings.Join(items, ";\n  "), dir, strings.Join(notes, " "))
}

// catgHelperShape: the three helpers of Detect, reduced to what the model assumes about them
func (o *out) catgDetectHelpers(dir string) {
	// contains: d, _ := br.Peek(n); if len(d) < len(blob) {false}; bytes.Contains(d, blob)
	o.hasStmt(dir, "", "contains", "return bytes.Contains(d, blob)", "magic_contains_is_bytes_contains")
	o.hasStmt(dir, "", "contains", "d, _ := br.Peek(n)", "magic_contains_peeks_n")
	o.hasStmt(dir, "", "hasPrefix", "return atPosition(br, blob, 0)", "magic_prefix_is_at_0")
	o.hasStmt(dir, "", "atPosition", "return bytes.Equal(d[n:], blob)", "magic_at_compares_equal")
	o.condOf(funcSpec{dir: dir, name: "atPosition", coqName: "magic_at_short", params: "(dlen l : Z)", retType: "bool",
		leaves: map[string]string{"len(d)": "dlen", "l": "l"}}, "if:len(d)")
}

// catgFileType emits one FileType constant
func (o *out) catgFileType(dir, goName, coqName string) { o.constInt(dir, goName, coqName) }

// catgSliceHigh: the high bound of the first slice expression over base
func (o *out) catgSliceHigh(fs funcSpec, base string) {
	p, fd := findFunc(fs.dir, fs.recv, fs.name)
	if fd == nil {
		o.brokenDef(fs.coqName, "function "+fs.dir+":"+fs.recv+"."+fs.name+" not found")
		return
	}
	var found ast.Expr
	ast.Inspect(fd.Body, func(n ast.Node) bool {
		if se, ok := n.(*ast.SliceExpr); ok && found == nil && printNode(p.fset, se.X) == base && se.High != nil && se.Low == nil {
			found = se.High
		}
		return found == nil
	})
	if found == nil {
		o.brokenDef(fs.coqName, "no slice "+base+"[:high] in "+fs.name)
		return
	}
	t := o.newTr(p, fs)
	c := t.expr(found)
	if t.err != nil {
		o.brokenDef(fs.coqName, t.err.Error())
		return
	}
	o.f("Definition %s %s : %s :=\n  %s.\n(* from %s:%s.%s : %s[:%s] *)\n", fs.coqName, fs.params, fs.retType, c, fs.dir, fs.recv, fs.name, base, printNode(p.fset, found))
}

// catgSignerField: the value of a field of the package-level `var X = &signers.Signer{...}` literal, as a class
func (o *out) catgSignerField(dir, varName, field, coqName string, classes map[string]int) {
	ce, p, _, _ := findConstExpr(dir, varName)
	if ue, ok := ce.(*ast.UnaryExpr); ok {
		ce = ue.X
	}
	cl, ok := ce.(*ast.CompositeLit)
	if !ok {
		o.brokenDef(coqName, "signer literal "+dir+"."+varName+" not found")
		return
	}
	txt := "<absent>"
	for _, el := range cl.Elts {
		if kv, ok := el.(*ast.KeyValueExpr); ok && printNode(p.fset, kv.Key) == field {
			txt = catgStrip(printNode(p.fset, kv.Value))
		}
	}
	c, ok := classes[txt]
	if !ok {
		c = 99
	}
	o.f("Definition %s : Z := %d. (* %s.%s.%s = %s *)\n", coqName, c, dir, varName, field, txt)
}

// catgGuards: every `if` of the function in source order (nested ones included), as the class of `init ; cond` (blanks removed)
func (o *out) catgGuards(dir, recv, fn, coqName string, classes map[string]int) {
	p, fd := findFunc(dir, recv, fn)
	if fd == nil {
		o.brokenDef(coqName, "function "+dir+":"+recv+"."+fn+" not found")
		return
	}
	var codes, notes []string
	ast.Inspect(fd.Body, func(n ast.Node) bool {
		if is, ok := n.(*ast.IfStmt); ok {
			t := catgStrip(printNode(p.fset, is.Cond))
			if is.Init != nil {
				t = catgStrip(printNode(p.fset, is.Init)) + ";" + t
			}
			c, ok := classes[t]
			if !ok {
				c = 99
			}
			codes = append(codes, strconv.Itoa(c))
			notes = append(notes, t)
		}
		return true
	})
	o.f("Definition %s : list Z := [%s]. (* %s:%s.%s guards: %s *)\n", coqName, strings.Join(codes, "; "), dir, recv, fn, strings.Join(notes, " | "))
}

func init() {
	generators["FmtCAT_gen"] = func(o *out) {
		_, modcache := catgGoEnv()
		const dCat, dPkcs, dP7, dP9, dAuth, dMagic, dCosign, dRpm, dConfig = "signers/cat", "signers/pkcs", "lib/pkcs7", "lib/pkcs9", "lib/authenticode", "lib/magic", "signers/cosign", "signers/rpm", "config"

		// ================================================================ CAT
		o.f("(* ---- signers/cat *)\n")
		catgOid(o, dAuth, "OidCertTrustList", "cat_oid_ctl")
		o.condOf(funcSpec{dir: dCat, name: "sign", coqName: "cat_refuses", params: "(ctype_is_ctl : bool)", retType: "bool",
			leaves: map[string]string{"oldpsd.Content.ContentInfo.ContentType.Equal(authenticode.OidCertTrustList)": "ctype_is_ctl"},
			types:  map[string]string{"oldpsd.Content.ContentInfo.ContentType.Equal(authenticode.OidCertTrustList)": "bool"}}, "if:ContentType")
		o.callOrder(dCat, "", "sign", "cat_call_order", []string{"ReadAll", "Unmarshal", "NewBuilder", "SetContentInfo", "SetContent", "SetContentData", "SetDetachedContent",
			"AddAuthenticatedAttribute", "Sign", "TimestampAndMarshal", "SetPkcs7", "Detach"})
		o.catgArgClasses(dCat, "", "sign", "Unmarshal", 0, "cat_unmarshal_args", map[string]int{"blob": 1})
		o.catgArgClasses(dCat, "", "sign", "NewBuilder", 0, "cat_builder_args", map[string]int{"cert.Signer()": 1, "cert.Chain()": 2, "opts.Hash": 3})
		o.catgArgClasses(dCat, "", "sign", "SetContentInfo", 0, "cat_setci_args", map[string]int{"oldpsd.Content.ContentInfo": 1})
		o.catgArgClasses(dCat, "", "sign", "TimestampAndMarshal", 0, "cat_ts_args", map[string]int{"opts.Context()": 1, "newpsd": 2, "cert.Timestamper": 3, "true": 4, "false": 5})
		o.catgArgClasses(dCat, "", "sign", "SetPkcs7", 0, "cat_setpkcs7_args", map[string]int{"ts": 1})
		o.catgSignerField(dCat, "CatSigner", "Verify", "cat_verify_fn", map[string]int{"pkcs.Verify": 1})
		o.catgSignerField(dCat, "CatSigner", "Magic", "cat_magic_field", map[string]int{"magic.FileTypeCAT": 1})
		// SignOpts.SetPkcs7 returns the marshalled structure
		o.hasStmt("signers", "SignOpts", "SetPkcs7", "return ts.Raw, nil", "setpkcs7_returns_raw")
		// pkcs9.TimestampAndMarshal: self check, then Marshal into Raw
		o.callOrder(dP9, "", "TimestampAndMarshal", "tsm_call_order", []string{"Timestamp", "AddStampToSignedAuthenticode", "AddStampToSignedData", "Verify", "VerifyOptionalTimestamp", "Marshal"})
		o.catgArgClasses(dP9, "", "TimestampAndMarshal", "psd.Content.Verify", 0, "tsm_selfcheck_args", map[string]int{"nil": 1, "false": 2, "true": 3})
		o.hasStmt(dP9, "", "TimestampAndMarshal", "ts.Raw = blob", "tsm_raw_is_marshal")
		o.condOf(funcSpec{dir: dP9, name: "TimestampAndMarshal", coqName: "tsm_stamps", params: "(has_timestamper : bool)", retType: "bool",
			leaves: map[string]string{"timestamper != nil": "has_timestamper"}, types: map[string]string{"timestamper != nil": "bool"}}, "if:timestamper")

		// ---- lib/pkcs7 builder entry points
		o.f("(* ---- lib/pkcs7/builder.go *)\n")
		o.catgArgClasses(dP7, "SignatureBuilder", "SetContentData", "SetContent", 0, "b_setdata_args", map[string]int{"OidData": 1, "data": 2})
		o.callOrder(dP7, "SignatureBuilder", "SetContent", "b_setcontent_calls", []string{"NewContentInfo", "SetContentInfo"})
		o.catgArgClasses(dP7, "SignatureBuilder", "SetContent", "NewContentInfo", 0, "b_setcontent_nci_args", map[string]int{"ctype": 1, "data": 2})
		o.catgArgClasses(dP7, "SignatureBuilder", "SetContent", "SetContentInfo", 0, "b_setcontent_sci_args", map[string]int{"cinfo": 1})
		// SetContentInfo: blob := cinfo.Bytes(); d.Write(blob); contentInfo = cinfo; digest = d.Sum(nil)
		o.hasStmt(dP7, "SignatureBuilder", "SetContentInfo", "blob, err := cinfo.Bytes()", "b_setci_blob_is_bytes")
		o.hasStmt(dP7, "SignatureBuilder", "SetContentInfo", "d.Write(blob)", "b_setci_hashes_blob")
		o.hasStmt(dP7, "SignatureBuilder", "SetContentInfo", "sb.contentInfo = cinfo", "b_setci_keeps_cinfo")
		o.hasStmt(dP7, "SignatureBuilder", "SetContentInfo", "sb.digest = d.Sum(nil)", "b_setci_digest_is_sum")
		o.hasStmt(dP7, "SignatureBuilder", "SetContentInfo", "d := sb.signerOpts.HashFunc().New()", "b_setci_hash_is_opts")
		o.catgCountCalls(dP7, "SignatureBuilder", "SetContentInfo", "Write", "b_setci_write_count")
		// SetDetachedContent
		o.condOf(funcSpec{dir: dP7, recv: "SignatureBuilder", name: "SetDetachedContent", coqName: "b_detached_size_mismatch", params: "(dlen hsize : Z)", retType: "bool",
			leaves: map[string]string{"len(digest)": "dlen", "sb.signerOpts.HashFunc().Size()": "hsize"}}, "if:len(digest)")
		o.catgArgClasses(dP7, "SignatureBuilder", "SetDetachedContent", "NewContentInfo", 0, "b_detached_nci_args", map[string]int{"ctype": 1, "nil": 2})
		o.hasStmt(dP7, "SignatureBuilder", "SetDetachedContent", "sb.digest = digest", "b_detached_keeps_digest")
		// Sign guards
		o.condOf(funcSpec{dir: dP7, recv: "SignatureBuilder", name: "Sign", coqName: "b_sign_no_content", params: "(digest_unset : bool)", retType: "bool",
			leaves: map[string]string{"sb.digest == nil": "digest_unset"}, types: map[string]string{"sb.digest == nil": "bool"}}, "if:sb.digest")
		o.condOf(funcSpec{dir: dP7, recv: "SignatureBuilder", name: "Sign", coqName: "b_sign_bad_cert", params: "(ncerts : Z) (same_key : bool)", retType: "bool",
			leaves: map[string]string{"len(sb.certs)": "ncerts", "x509tools.SameKey(pubKey, sb.certs[0].PublicKey)": "same_key"},
			types:  map[string]string{"x509tools.SameKey(pubKey, sb.certs[0].PublicKey)": "bool"}}, "if:len(sb.certs)")
		o.catgArgClasses(dP7, "SignatureBuilder", "Sign", "sb.privateKey.Sign", 0, "b_sign_args", map[string]int{"rand.Reader": 1, "digest": 2, "sb.signerOpts": 3, "sb.digest": 4})
		o.catgLitFields(dP7, "SignatureBuilder", "Sign", "SignedData", 0, "b_sd_literal",
			[]string{"Version", "DigestAlgorithmIdentifiers", "ContentInfo", "Certificates", "CRLs", "SignerInfos"},
			map[string]int{"1": 1, "[]pkix.AlgorithmIdentifier{digestAlg}": 2, "{...}": 2, "sb.contentInfo": 3, "marshalCertificates(sb.certs)": 4, "nil": 5})
		// NewContentInfo: nil data -> no content
		o.condOf(funcSpec{dir: dP7, name: "NewContentInfo", coqName: "nci_absent", params: "(data_is_nil : bool)", retType: "bool",
			leaves: map[string]string{"data == nil": "data_is_nil"}, types: map[string]string{"data == nil": "bool"}}, "if:data")

		// ================================================================ PKCS verify
		o.f("(* ---- signers/pkcs *)\n")
		o.condOf(funcSpec{dir: dPkcs, name: "Verify", coqName: "pkcs_reads_content", params: "(nodigests : bool) (content_path : list Z)", retType: "bool",
			leaves: map[string]string{"opts.NoDigests": "nodigests", "opts.Content": "content_path"},
			types:  map[string]string{"opts.NoDigests": "bool", "opts.Content": "str"}}, "if:opts.Content")
		o.callOrder(dPkcs, "", "Verify", "pkcs_call_order", []string{"ReadAll", "Unmarshal", "ReadFile", "Verify", "VerifyOptionalTimestamp", "PkixDigestToHash"})
		o.catgArgClasses(dPkcs, "", "Verify", "psd.Content.Verify", 0, "pkcs_verify_args", map[string]int{"cblob": 1, "opts.NoDigests": 2, "nil": 3, "false": 4, "true": 5})
		o.catgArgClasses(dPkcs, "", "Verify", "ReadFile", 0, "pkcs_readfile_args", map[string]int{"opts.Content": 1})
		o.catgSignerField(dPkcs, "PkcsSigner", "Sign", "pkcs_sign_fn", map[string]int{"nil": 0, "<absent>": 0})
		o.catgSignerField(dPkcs, "PkcsSigner", "Verify", "pkcs_verify_fn", map[string]int{"Verify": 1})
		// pkcs7.Unmarshal: trailing bytes (C16_gen has the predicate; here the trimmed set)
		o.catgArgClasses(dP7, "", "Unmarshal", "bytes.TrimRight", 0, "unmarshal_trim_args", map[string]int{"rest": 1, "\"\\x00\"": 2})

		// ================================================================ magic
		o.f("(* ---- lib/magic *)\n")
		o.catgDetect(dMagic, "magic_table", "FileTypePKCS7")
		o.catgDetectHelpers(dMagic)
		for _, ft := range []string{"FileTypeUnknown", "FileTypeRPM", "FileTypeDEB", "FileTypePGP", "FileTypeCAT", "FileTypePKCS7"} {
			o.catgFileType(dMagic, ft, "magic_"+ft)
		}

		// ================================================================ cosign
		o.f("(* ---- signers/cosign *)\n")
		dDigest := catgModDir(modcache, "github.com/opencontainers/go-digest", "")
		dOci := catgModDir(modcache, "github.com/opencontainers/image-spec", "specs-go/v1")
		imports := map[string]string{"oci": dOci, "digest": dDigest, "config": dConfig}
		o.catgLocalConst(dCosign, "", "sign", "maxSize", "cosign_max_size")
		o.condOf(funcSpec{dir: dCosign, name: "sign", coqName: "cosign_too_big", params: "(mlen : Z)", retType: "bool",
			leaves: map[string]string{"len(manifestBlob)": "mlen", "maxSize": "cosign_max_size"}}, "if:len(manifestBlob)")
		o.catgArgExpr(funcSpec{dir: dCosign, name: "sign", coqName: "cosign_read_limit", params: "", retType: "Z",
			leaves: map[string]string{"maxSize": "cosign_max_size"}}, "io.LimitReader", 0, 1)
		o.callOrder(dCosign, "", "sign", "cosign_call_order", []string{"ReadAll", "digestManifest", "newPayload", "digestPayload", "Sign", "attachTimestamp", "attachCertificates", "Marshal"})
		o.catgArgClasses(dCosign, "", "sign", "digestManifest", 0, "cosign_dm_args", map[string]int{"opts.Hash": 1, "manifestBlob": 2})
		o.catgArgClasses(dCosign, "", "sign", "newPayload", 0, "cosign_np_args", map[string]int{"manifestDigest": 1, "opts": 2})
		o.catgArgClasses(dCosign, "", "sign", "digestPayload", 0, "cosign_dp_args", map[string]int{"opts.Hash": 1, "payloadToSign": 2})
		o.catgArgClasses(dCosign, "", "sign", "cert.Signer().Sign", 0, "cosign_sign_args", map[string]int{"rand.Reader": 1, "rawDigest": 2, "opts.Hash": 3})
		o.catgArgClasses(dCosign, "", "sign", "EncodeToString", 0, "cosign_sig_b64_args", map[string]int{"rawSignature": 1})
		{
			p, calls := catgCalls(dCosign, "", "sign", "EncodeToString")
			enc := "<none>"
			if len(calls) > 0 {
				enc = catgStrip(printNode(p.fset, calls[0].Fun))
			}
			code := map[string]int{"base64.StdEncoding.EncodeToString": 1, "base64.RawStdEncoding.EncodeToString": 2, "base64.URLEncoding.EncodeToString": 3, "base64.RawURLEncoding.EncodeToString": 4}[enc]
			o.f("Definition cosign_sig_encoding : Z := %d. (* %s: 1 = standard alphabet with padding (RFC 4648 section 4) *)\n", code, enc)
		}
		descFields := []string{"MediaType", "Digest", "Size", "URLs", "Annotations", "Data", "Platform", "ArtifactType"}
		o.catgLitFields(dCosign, "", "sign", "Descriptor", 0, "cosign_subject_literal", descFields,
			map[string]int{"manifestType": 1, "manifestDigest": 2, "int64(len(manifestBlob))": 3})
		o.catgLitFields(dCosign, "", "sign", "Descriptor", 1, "cosign_layer_literal", descFields,
			map[string]int{"cosignPayloadMediaType": 4, "layerDigest": 5, "int64(len(payloadToSign))": 6, "payloadToSign": 7, "{...}": 8})
		o.catgLitFields(dCosign, "", "sign", "Manifest", 0, "cosign_manifest_literal",
			[]string{"Versioned", "MediaType", "ArtifactType", "Config", "Layers", "Subject", "Annotations"},
			map[string]int{"{...}": 8, "oci.MediaTypeImageManifest": 9, "cosignArtifactType": 10, "oci.DescriptorEmptyJSON": 11})
		{ // the annotation map literal of the layer: key and value
			p, fd := findFunc(dCosign, "", "sign")
			key, val := "<none>", "<none>"
			if fd != nil {
				if cl := catgFindLit(p, fd.Body, "map[string]string", 0); cl != nil && len(cl.Elts) == 1 {
					if kv, ok := cl.Elts[0].(*ast.KeyValueExpr); ok {
						key, val = catgStrip(printNode(p.fset, kv.Key)), catgStrip(printNode(p.fset, kv.Value))
					}
				}
			}
			ok := key == "signatureAnnotationKey" && val == "base64.StdEncoding.EncodeToString(rawSignature)"
			o.f("Definition cosign_sig_annotation_is_b64_of_signature : bool := %v. (* Annotations{%s: %s} *)\n", ok, key, val)
		}
		for _, c := range [][2]string{{"signatureType", "cosign_signature_type"}, {"cosignPayloadMediaType", "cosign_payload_media_type"}, {"cosignArtifactType", "cosign_artifact_type"},
			{"signatureAnnotationKey", "cosign_sig_annotation_key"}, {"certificateAnnotationKey", "cosign_cert_annotation_key"}, {"chainAnnotationKey", "cosign_chain_annotation_key"},
			{"rfc3161TimestampAnnotationKey", "cosign_ts_annotation_key"}, {"dockerImageType", "cosign_docker_image_type"}, {"dockerListType", "cosign_docker_list_type"}} {
			o.catgConstStr(dCosign, c[0], c[1], imports)
		}
		o.catgConstStr(dConfig, "UserAgent", "relic_user_agent", imports)
		o.catgJSONTags(dCosign, "simpleContainerImage", "cosign_json_top")
		o.catgJSONTags(dCosign, "critical", "cosign_json_critical")
		o.catgJSONTags(dCosign, "image", "cosign_json_image")
		o.catgJSONTags(dCosign, "objectWithMediaType", "cosign_json_mt")
		// newPayload: the composite literal and the optional handling
		o.catgLitFields(dCosign, "", "newPayload", "critical", 0, "cosign_critical_literal", []string{"Image", "Type"}, map[string]int{"{...}": 1, "signatureType": 2})
		o.catgLitFields(dCosign, "", "newPayload", "image", 0, "cosign_image_literal", []string{"DockerManifestDigest"}, map[string]int{"manifestDigest": 1})
		o.catgGuards(dCosign, "", "newPayload", "cosign_np_guards", map[string]int{
			"optional:=opts.Flags.GetString(\"optional\");optional!=\"\"":      1,
			"err:=json.Unmarshal([]byte(optional),&payload.Optional);err!=nil": 2,
			"payload.Optional==nil": 3})
		{
			p, fd := findFunc(dCosign, "", "newPayload")
			key, val := "<none>", "<none>"
			if fd != nil {
				ast.Inspect(fd.Body, func(n ast.Node) bool {
					if as, ok := n.(*ast.AssignStmt); ok && len(as.Lhs) == 1 {
						if ix, ok := as.Lhs[0].(*ast.IndexExpr); ok && catgStrip(printNode(p.fset, ix.X)) == "payload.Optional" {
							key, val = catgStrip(printNode(p.fset, ix.Index)), catgStrip(printNode(p.fset, as.Rhs[0]))
						}
					}
					return true
				})
			}
			ks, _ := strconv.Unquote(key)
			o.f("Definition cosign_creator_key : list Z := %s. (* payload.Optional[%s] = %s *)\n", bytesLit([]byte(ks)), key, val)
			o.f("Definition cosign_creator_is_user_agent : bool := %v.\n", val == "config.UserAgent")
		}
		o.catgArgClasses(dCosign, "", "newPayload", "json.Marshal", 0, "cosign_np_marshal_args", map[string]int{"payload": 1})
		// digestManifest: guards in order, allowed media types, digest of the WHOLE blob
		o.catgGuards(dCosign, "", "digestManifest", "cosign_dm_guards", map[string]int{
			"!alg.Available()": 1, "err:=json.Unmarshal(blob,&mt);err!=nil": 2, "mt.MediaType==\"\"": 3, "!allowedManifestTypes[mt.MediaType]": 4})
		o.condOf(funcSpec{dir: dCosign, name: "digestManifest", coqName: "cosign_dm_no_media_type", params: "(media_type : list Z)", retType: "bool",
			leaves: map[string]string{"mt.MediaType": "media_type"}, types: map[string]string{"mt.MediaType": "str"}}, "if:mt.MediaType ==")
		o.condOf(funcSpec{dir: dCosign, name: "digestManifest", coqName: "cosign_dm_type_refused", params: "(type_allowed : bool)", retType: "bool",
			leaves: map[string]string{"allowedManifestTypes[mt.MediaType]": "type_allowed"}, types: map[string]string{"allowedManifestTypes[mt.MediaType]": "bool"}}, "if:allowedManifestTypes")
		o.condOf(funcSpec{dir: dCosign, name: "digestManifest", coqName: "cosign_dm_alg_refused", params: "(alg_available : bool)", retType: "bool",
			leaves: map[string]string{"alg.Available()": "alg_available"}, types: map[string]string{"alg.Available()": "bool"}}, "if:alg.Available")
		{
			p, fd := findFunc(dCosign, "", "digestManifest")
			ret := "<none>"
			if fd != nil {
				if rs, ok := fd.Body.List[len(fd.Body.List)-1].(*ast.ReturnStmt); ok && len(rs.Results) == 3 {
					ret = catgStrip(printNode(p.fset, rs.Results[0])) + "," + catgStrip(printNode(p.fset, rs.Results[1])) + "," + catgStrip(printNode(p.fset, rs.Results[2]))
				}
			}
			o.f("Definition cosign_dm_digest_is_of_whole_blob : bool := %v. (* return %s *)\n", ret == "alg.FromBytes(blob),mt.MediaType,nil", ret)
		}
		{
			p, kvs := catgMapVar(dCosign, "allowedManifestTypes")
			var items, notes []string
			okAll := len(kvs) > 0
			for _, kv := range kvs {
				s, ok := catgStr(dCosign, kv[0], imports, 0)
				if !ok || printNode(p.fset, kv[1]) != "true" {
					okAll = false
				}
				items = append(items, bytesLit([]byte(s)))
				notes = append(notes, s)
			}
			if !okAll {
				o.brokenDef("cosign_allowed_types", "allowedManifestTypes is not a literal map of resolvable media types to true")
			} else {
				o.f("Definition cosign_allowed_types : list (list Z) := [%s].\n(* %s *)\n", strings.Join(items, ";\n  "), strings.Join(notes, " "))
			}
			p2, kvs2 := catgMapVar(dCosign, "algorithms")
			items, notes = nil, nil
			okAll = len(kvs2) > 0
			for _, kv := range kvs2 {
				h, ok1 := catgCryptoHash[catgStrip(printNode(p2.fset, kv[0]))]
				s, ok2 := catgStr(dCosign, kv[1], imports, 0)
				if !ok1 || !ok2 {
					okAll = false
				}
				items = append(items, fmt.Sprintf("(%d, %s)", h, bytesLit([]byte(s))))
				notes = append(notes, printNode(p2.fset, kv[0])+"="+s)
			}
			if !okAll {
				o.brokenDef("cosign_algorithms", "algorithms is not a literal map crypto.Hash -> digest.Algorithm constant")
			} else {
				o.f("Definition cosign_algorithms : list (Z * list Z) := [%s]. (* crypto.Hash value -> digest algorithm name: %s *)\n", strings.Join(items, "; "), strings.Join(notes, " "))
			}
		}
		// digestPayload: raw digest of the blob, formatted with NewDigestFromBytes
		o.hasStmt(dCosign, "", "digestPayload", "digester.Write(blob)", "cosign_dp_hashes_blob")
		o.hasStmt(dCosign, "", "digestPayload", "rawDigest := digester.Sum(nil)", "cosign_dp_raw_is_sum")
		o.catgArgClasses(dCosign, "", "digestPayload", "digest.NewDigestFromBytes", 0, "cosign_dp_format_args", map[string]int{"alg": 1, "rawDigest": 2})
		// go-digest (module cache): "<alg>:<encoded>", hex encoding
		o.hasStmt(dDigest, "", "NewDigestFromEncoded", "return Digest(fmt.Sprintf(\"%s:%s\", alg, encoded))", "godigest_format_is_alg_colon_encoded")
		o.hasStmt(dDigest, "Algorithm", "Encode", "return fmt.Sprintf(\"%x\", d)", "godigest_encode_is_lower_hex")

		// ================================================================ RPM
		o.f("(* ---- signers/rpm *)\n")
		dRu := catgModDir(modcache, "github.com/sassoftware/go-rpmutils", "")
		o.catgArgExpr(funcSpec{dir: dRpm, name: "sign", coqName: "rpm_patch_offset", params: "", retType: "Z"}, "patch.Add", 0, 0)
		o.catgArgExpr(funcSpec{dir: dRpm, name: "sign", coqName: "rpm_patch_oldsize", params: "(orig_size : Z)", retType: "Z",
			leaves: map[string]string{"header.OriginalSignatureHeaderSize()": "orig_size"}}, "patch.Add", 0, 1)
		o.catgArgClasses(dRpm, "", "sign", "patch.Add", 0, "rpm_patch_args", map[string]int{"0": 1, "int64(header.OriginalSignatureHeaderSize())": 2, "blob": 3})
		o.catgArgClasses(dRpm, "", "sign", "DumpSignatureHeader", 0, "rpm_dump_args", map[string]int{"true": 1, "false": 0})
		o.catgArgClasses(dRpm, "", "sign", "SignRpmStream", 0, "rpm_signstream_args", map[string]int{"r": 1, "cert.PgpKey.PrivateKey": 2, "config": 3})
		o.catgArgClasses(dRpm, "", "sign", "SetBinPatch", 0, "rpm_setpatch_args", map[string]int{"patch": 1})
		o.callOrder(dRpm, "", "sign", "rpm_sign_call_order", []string{"SignRpmStream", "DumpSignatureHeader", "binpatch.New", "patch.Add", "nevra", "SetBinPatch"})
		o.catgLitFields(dRpm, "", "sign", "SignatureOptions", 0, "rpm_sigopts_literal", []string{"Hash", "CreationTime"},
			map[string]int{"opts.Hash": 1, "opts.Time.UTC().Round(time.Second)": 2})
		o.condOf(funcSpec{dir: dRpm, name: "verify", coqName: "rpm_not_signed", params: "(nsigs : Z)", retType: "bool", leaves: map[string]string{"len(sigs)": "nsigs"}}, "if:len(sigs)")
		o.condOf(funcSpec{dir: dRpm, name: "verify", coqName: "rpm_skip_seen", params: "(seen : bool)", retType: "bool",
			leaves: map[string]string{"seen[sig.KeyId]": "seen"}, types: map[string]string{"seen[sig.KeyId]": "bool"}}, "if:seen")
		o.condOf(funcSpec{dir: dRpm, name: "verify", coqName: "rpm_unknown_signer", params: "(signer_nil : bool)", retType: "bool",
			leaves: map[string]string{"sig.Signer == nil": "signer_nil"}, types: map[string]string{"sig.Signer == nil": "bool"}}, "if:sig.Signer")
		o.condOf(funcSpec{dir: dRpm, name: "verify", coqName: "rpm_nokey_is_error", params: "(nochain : bool)", retType: "bool",
			leaves: map[string]string{"opts.NoChain": "nochain"}, types: map[string]string{"opts.NoChain": "bool"}}, "if:opts.NoChain")
		o.catgArgClasses(dRpm, "", "verify", "rpmutils.Verify", 0, "rpm_verify_args", map[string]int{"f": 1, "opts.TrustedPgp": 2})
		o.catgGuards(dRpm, "", "verify", "rpm_verify_guards", map[string]int{"err!=nil": 1, "len(sigs)==0": 2, "seen[sig.KeyId]": 3, "sig.Signer==nil": 4, "!opts.NoChain": 5})
		o.catgSliceHigh(funcSpec{dir: dRpm, name: "nevra", coqName: "rpm_nevra_cut", params: "(n : Z)", retType: "Z", leaves: map[string]string{"len(snevra)": "n"}}, "snevra")
		// nevra(): the error of GetNEVRA is looked at before the result is used (relic fix 1e87259)
		o.hasStmt(dRpm, "", "nevra", "nevra, err := header.GetNEVRA()", "rpm_nevra_keeps_error")
		o.condOf(funcSpec{dir: dRpm, name: "nevra", coqName: "rpm_nevra_gives_up", params: "(getnevra_failed : bool)", retType: "bool",
			leaves: map[string]string{"err != nil": "getnevra_failed"}, types: map[string]string{"err != nil": "bool"}}, "if:err")
		o.hasStmt(dRu, "NEVRA", "String", `return fmt.Sprintf("%s-%s:%s-%s.%s.rpm", nevra.Name, nevra.Epoch, nevra.Version, nevra.Release, nevra.Arch)`, "rpmu_nevra_ends_in_dot_rpm")
		// server/view_sign.go serveSign: which modules the /sign endpoint refuses (relic fix 57ef5f6)
		o.condOf(funcSpec{dir: "server", recv: "Server", name: "serveSign", coqName: "srv_refuses_sigtype", params: "(mod_nil sign_nil : bool)", retType: "bool",
			leaves: map[string]string{"mod == nil": "mod_nil", "mod.Sign == nil": "sign_nil"}, types: map[string]string{"mod == nil": "bool", "mod.Sign == nil": "bool"}}, "if:mod")
		o.catgArgClasses("server", "Server", "serveSign", "mod.Sign", 0, "srv_sign_args", map[string]int{"counter": 1, "cert": 2, "*opts": 3})
		o.catgSignerField(dRpm, "RpmSigner", "Verify", "rpm_verify_fn", map[string]int{"verify": 1})
		o.catgSignerField(dRpm, "RpmSigner", "CertTypes", "rpm_cert_types", map[string]int{"signers.CertTypePgp": 1})
		// ---- go-rpmutils (third party; constants and size arithmetic only)
		o.f("(* ---- go-rpmutils (module cache, third party: constants and size expressions the observed-interface model uses) *)\n")
		for _, c := range [][2]string{{"introMagic", "rpmu_intro_magic"}, {"SIG_PGP", "rpmu_SIG_PGP"}, {"SIG_GPG", "rpmu_SIG_GPG"}, {"SIG_RSA", "rpmu_SIG_RSA"}, {"SIG_DSA", "rpmu_SIG_DSA"},
			{"SIG_SHA1", "rpmu_SIG_SHA1"}, {"SIG_SHA256", "rpmu_SIG_SHA256"}, {"SIG_MD5", "rpmu_SIG_MD5"}, {"SIG_SIZE", "rpmu_SIG_SIZE"}, {"SIG_RESERVEDSPACE", "rpmu_SIG_RESERVEDSPACE"},
			{"_SIGHEADER_TAG_BASE", "rpmu_SIGHEADER_TAG_BASE"}, {"_GENERAL_TAG_BASE", "rpmu_GENERAL_TAG_BASE"}, {"RPMTAG_HEADERSIGNATURES", "rpmu_HEADERSIGNATURES"},
			{"RPMTAG_HEADERIMMUTABLE", "rpmu_HEADERIMMUTABLE"}, {"RPMTAG_HEADERREGIONS", "rpmu_HEADERREGIONS"}, {"RPM_BIN_TYPE", "rpmu_BIN_TYPE"}, {"RPM_STRING_TYPE", "rpmu_STRING_TYPE"},
			{"NAME", "rpmu_NAME"}, {"VERSION", "rpmu_VERSION"}, {"RELEASE", "rpmu_RELEASE"}, {"ARCH", "rpmu_ARCH"}, {"PAYLOADDIGEST", "rpmu_PAYLOADDIGEST"}, {"PAYLOADDIGESTALGO", "rpmu_PAYLOADDIGESTALGO"}} {
			o.constInt(dRu, c[0], c[1])
		}
		o.structLayout(dRu, "headerIntro", "rpmu_intro")
		o.structLayout(dRu, "headerTag", "rpmu_tag")
		o.catgArgExpr(funcSpec{dir: dRu, name: "readSignatureHeader", coqName: "rpmu_lead_size", params: "", retType: "Z"}, "readExact", 0, 1)
		o.condOf(funcSpec{dir: dRu, name: "readSignatureHeader", coqName: "rpmu_bad_lead_magic", params: "(magic : Z)", retType: "bool", leaves: map[string]string{"magic": "magic"}}, "if:magic")
		o.condOf(funcSpec{dir: dRu, name: "readHeader", coqName: "rpmu_bad_intro_magic", params: "(m : Z)", retType: "bool", leaves: map[string]string{"intro.Magic": "m"}}, "if:intro.Magic")
		o.catgArgExpr(funcSpec{dir: dRu, name: "readHeader", coqName: "rpmu_index_bytes", params: "(entries : Z)", retType: "Z", leaves: map[string]string{"intro.Entries": "entries"}}, "readExact", 0, 1)
		o.exprOfAssign(funcSpec{dir: dRu, name: "readHeader", coqName: "rpmu_padded_size", params: "(size : Z)", retType: "Z", leaves: map[string]string{"size": "size"}}, "size", 1)
		o.condOf(funcSpec{dir: dRu, name: "readHeader", coqName: "rpmu_pads_when", params: "(sigBlock : bool)", retType: "bool",
			leaves: map[string]string{"sigBlock": "sigBlock"}, types: map[string]string{"sigBlock": "bool"}}, "if:sigBlock")
		o.catgArgClasses(dRu, "", "readSignatureHeader", "readHeader", 0, "rpmu_sighdr_read_args", map[string]int{"f": 1, "\"\"": 2, "0": 3, "isSource": 4, "true": 5, "false": 6})
		o.catgArgClasses(dRu, "", "SignRpmStream", "readHeader", 0, "rpmu_genhdr_read_args", map[string]int{"stream": 1, "headerDigestValue": 2, "headerDigestType": 3, "sigHeader.isSource": 4, "true": 5, "false": 6})
		o.decisionFunc(funcSpec{dir: dRu, recv: "RpmHeader", name: "OriginalSignatureHeaderSize", coqName: "rpmu_orig_size", params: "(orig_len : Z)", retType: "Z",
			leaves: map[string]string{"len(hdr.sigHeader.orig)": "orig_len"}})
		// what each signature covers: header only (RSA tag) / header + payload (PGP tag)
		o.hasStmt(dRu, "", "digestForSigning", "genHash.Write(genHeader.orig)", "rpmu_genhash_covers_header")
		o.hasStmt(dRu, "", "digestForSigning", "combinedHash.Write(genHeader.orig)", "rpmu_combined_covers_header")
		o.catgArgClasses(dRu, "", "digestForSigning", "digestPayload", 0, "rpmu_payload_writers", map[string]int{"sigHeader": 1, "genHeader": 2, "payloadReader": 3, "[]io.Writer{combinedHash}": 4})
		o.catgCountCalls(dRu, "", "digestForSigning", "Write", "rpmu_dfs_write_count")
		o.catgArgClasses(dRu, "", "SignRpmStream", "makeSignature", 0, "rpmu_sigpgp_args", map[string]int{"combinedHash": 1, "genHash": 2, "key": 3, "opts": 4})
		o.catgArgClasses(dRu, "", "SignRpmStream", "makeSignature", 1, "rpmu_sigrsa_args", map[string]int{"combinedHash": 1, "genHash": 2, "key": 3, "opts": 4})
		o.hasStmt(dRu, "", "SignRpmStream", "sigPgp, err := makeSignature(combinedHash, key, opts)", "rpmu_sigpgp_is_first")
		o.catgArgClasses(dRu, "", "insertSignatures", "insertSignature", 0, "rpmu_insert_pgp_args", map[string]int{"sigHeader": 1, "SIG_PGP-_SIGHEADER_TAG_BASE": 2, "sigPgp": 3, "SIG_RSA": 4, "sigRsa": 5})
		o.catgArgClasses(dRu, "", "insertSignatures", "insertSignature", 1, "rpmu_insert_rsa_args", map[string]int{"sigHeader": 1, "SIG_PGP-_SIGHEADER_TAG_BASE": 2, "sigPgp": 3, "SIG_RSA": 4, "sigRsa": 5})
		o.catgArgClasses(dRu, "", "insertSignatures", "delete", 0, "rpmu_delete_gpg_args", map[string]int{"sigHeader.entries": 1, "SIG_GPG-_SIGHEADER_TAG_BASE": 2, "SIG_DSA": 3})
		o.catgArgClasses(dRu, "", "insertSignatures", "delete", 1, "rpmu_delete_dsa_args", map[string]int{"sigHeader.entries": 1, "SIG_GPG-_SIGHEADER_TAG_BASE": 2, "SIG_DSA": 3})

		var fps [][3]string
		for _, f := range []string{"sign"} {
			fps = append(fps, [3]string{dCat, "", f})
		}
		fps = append(fps, [3]string{dPkcs, "", "Verify"}, [3]string{dP7, "SignatureBuilder", "SetContentInfo"}, [3]string{dP7, "SignatureBuilder", "SetDetachedContent"},
			[3]string{dP7, "SignatureBuilder", "SetContentData"}, [3]string{dP7, "SignatureBuilder", "SetContent"}, [3]string{dP7, "SignatureBuilder", "Sign"},
			[3]string{dP7, "", "NewContentInfo"}, [3]string{dP7, "ContentInfoSignedData", "Detach"}, [3]string{dP9, "", "TimestampAndMarshal"},
			[3]string{dMagic, "", "Detect"}, [3]string{dCosign, "", "sign"}, [3]string{dCosign, "", "newPayload"}, [3]string{dCosign, "", "digestManifest"},
			[3]string{dCosign, "", "digestPayload"}, [3]string{dCosign, "", "attachCertificates"}, [3]string{dCosign, "", "attachTimestamp"},
			[3]string{dRpm, "", "sign"}, [3]string{dRpm, "", "verify"}, [3]string{dRpm, "", "nevra"}, [3]string{"server", "Server", "serveSign"})
		sort.Slice(fps, func(i, j int) bool { return fps[i][0]+fps[i][2] < fps[j][0]+fps[j][2] })
		for _, f := range fps {
			fingerprint(f[0], f[1], f[2])
		}
	}
}
