package main

// FmtAPK — Android APK Signature Scheme v2 layer of signers/apk (signer.go, digest.go, verify.go, serializer.go, structs.go,
// merkle.go Finish), the parts of lib/zipslicer it leans on (FindDirectory / Read / ReadWithDirectory guards, the end record
// WriteDirectory builds, the offset arithmetic of GetOriginalDirectory(trim), NextFileOffset) and the v1/v2 binding in
// lib/signjar/manifest.go DigestManifest.  Every constant, offset, slice bound, comparison and argument the model in
// coq/FmtAPK uses is translated here from the CURRENT source; a changed operator or constant changes the Coq definition.

import (
	"fmt"
	"go/ast"
	"go/token"
	"strconv"
	"strings"
)

// apkNthCall: the nth (0-based, source order) call inside fd whose printed callee equals `callee`.
func apkNthCall(p *pkgInfo, fd *ast.FuncDecl, callee string, nth int) *ast.CallExpr {
	var found *ast.CallExpr
	k := 0
	ast.Inspect(fd.Body, func(n ast.Node) bool {
		if found != nil {
			return false
		}
		if ce, ok := n.(*ast.CallExpr); ok && printNode(p.fset, ce.Fun) == callee {
			if k == nth {
				found = ce
				return false
			}
			k++
		}
		return true
	})
	return found
}

// apkEmitExpr translates e (nil = the literal 0) under fs and emits the definition.
func (o *out) apkEmitExpr(p *pkgInfo, fs funcSpec, e ast.Expr, note string) {
	if e == nil {
		o.f("Definition %s %s : %s :=\n  0.\n(* from %s:%s.%s : %s (absent bound) *)\n", fs.coqName, fs.params, fs.retType, fs.dir, fs.recv, fs.name, note)
		return
	}
	t := o.newTr(p, fs)
	c := t.expr(e)
	if t.err != nil {
		o.brokenDef(fs.coqName, t.err.Error())
		return
	}
	o.f("Definition %s %s : %s :=\n  %s.\n(* from %s:%s.%s : %s = %s *)\n", fs.coqName, fs.params, fs.retType, c, fs.dir, fs.recv, fs.name, note,
		strings.ReplaceAll(printNode(p.fset, e), "*)", "* )"))
}

// apkArg: argument #arg of the nth call to callee.  part: "" = the argument itself, "lo"/"hi" = the bound of a slice expression
// (a plain identifier has lo = 0), "base" checks nothing.  A boolean literal argument is emitted as a bool.
func (o *out) apkArg(fs funcSpec, callee string, nth, arg int, part string) {
	p, fd := findFunc(fs.dir, fs.recv, fs.name)
	if fd == nil {
		o.brokenDef(fs.coqName, "function "+fs.dir+":"+fs.recv+"."+fs.name+" not found")
		return
	}
	ce := apkNthCall(p, fd, callee, nth)
	if ce == nil || len(ce.Args) <= arg {
		o.brokenDef(fs.coqName, fmt.Sprintf("no call #%d to %s with %d arguments in %s", nth, callee, arg+1, fs.name))
		return
	}
	o.apkPart(p, fs, ce.Args[arg], part, fmt.Sprintf("%s #%d arg %d %s", callee, nth, arg, part))
}

func (o *out) apkPart(p *pkgInfo, fs funcSpec, e ast.Expr, part, note string) {
	switch part {
	case "":
		o.apkEmitExpr(p, fs, e, note)
	case "lo", "hi":
		switch x := e.(type) {
		case *ast.SliceExpr:
			if x.Slice3 {
				o.brokenDef(fs.coqName, "three-index slice in "+note)
				return
			}
			if part == "lo" {
				o.apkEmitExpr(p, fs, x.Low, note)
			} else {
				if x.High == nil {
					o.brokenDef(fs.coqName, "slice without upper bound in "+note)
					return
				}
				o.apkEmitExpr(p, fs, x.High, note)
			}
		case *ast.Ident:
			if part == "lo" {
				o.apkEmitExpr(p, fs, nil, note)
			} else {
				o.brokenDef(fs.coqName, "identifier has no upper bound in "+note)
			}
		default:
			o.brokenDef(fs.coqName, "not a slice expression in "+note+": "+printNode(p.fset, e))
		}
	}
}

// apkAssignPart: like exprOfAssign, but for a bound of a slice expression on the right-hand side.
func (o *out) apkAssignPart(fs funcSpec, lhs string, nth int, part string) {
	p, fd := findFunc(fs.dir, fs.recv, fs.name)
	if fd == nil {
		o.brokenDef(fs.coqName, "function "+fs.dir+":"+fs.recv+"."+fs.name+" not found")
		return
	}
	var found ast.Expr
	k := 0
	ast.Inspect(fd.Body, func(n ast.Node) bool {
		if found != nil {
			return false
		}
		if as, ok := n.(*ast.AssignStmt); ok && len(as.Lhs) == 1 && len(as.Rhs) == 1 && printNode(p.fset, as.Lhs[0]) == lhs {
			if k == nth {
				found = as.Rhs[0]
				return false
			}
			k++
		}
		return true
	})
	if found == nil {
		o.brokenDef(fs.coqName, fmt.Sprintf("no assignment #%d to `%s` in %s", nth, lhs, fs.name))
		return
	}
	o.apkPart(p, fs, found, part, lhs+" "+part)
}

// apkReturnPart: result #res of the LAST return statement of the function, or a bound of it.
func (o *out) apkReturnPart(fs funcSpec, res int, part string) {
	p, fd := findFunc(fs.dir, fs.recv, fs.name)
	if fd == nil {
		o.brokenDef(fs.coqName, "function "+fs.dir+":"+fs.recv+"."+fs.name+" not found")
		return
	}
	var last *ast.ReturnStmt
	for _, st := range fd.Body.List {
		if r, ok := st.(*ast.ReturnStmt); ok {
			last = r
		}
	}
	if last == nil || len(last.Results) <= res {
		o.brokenDef(fs.coqName, "no final return with enough results in "+fs.name)
		return
	}
	o.apkPart(p, fs, last.Results[res], part, fmt.Sprintf("return #%d %s", res, part))
}

// apkStringArg: argument #arg of the nth call to callee must be a string literal; emitted as bytes.
func (o *out) apkStringArg(dir, recv, name, callee string, nth, arg int, coqName string) {
	p, fd := findFunc(dir, recv, name)
	if fd == nil {
		o.brokenDef(coqName, "function "+dir+":"+recv+"."+name+" not found")
		return
	}
	ce := apkNthCall(p, fd, callee, nth)
	if ce == nil || len(ce.Args) <= arg {
		o.brokenDef(coqName, fmt.Sprintf("no call #%d to %s in %s", nth, callee, name))
		return
	}
	bl, ok := ce.Args[arg].(*ast.BasicLit)
	if !ok || bl.Kind != token.STRING {
		o.brokenDef(coqName, "argument is not a string literal: "+printNode(p.fset, ce.Args[arg]))
		return
	}
	s, _ := strconv.Unquote(bl.Value)
	o.f("Definition %s : list Z := %s. (* %s:%s.%s %s #%d arg %d = %q *)\n", coqName, bytesLit([]byte(s)), dir, recv, name, callee, nth, arg, s)
}

// apkBoolArg: argument #arg of the nth call to callee must be the literal true or false.
func (o *out) apkBoolArg(dir, recv, name, callee string, nth, arg int, coqName string) {
	p, fd := findFunc(dir, recv, name)
	if fd == nil {
		o.brokenDef(coqName, "function "+dir+":"+recv+"."+name+" not found")
		return
	}
	ce := apkNthCall(p, fd, callee, nth)
	if ce == nil || len(ce.Args) <= arg {
		o.brokenDef(coqName, fmt.Sprintf("no call #%d to %s in %s", nth, callee, name))
		return
	}
	id, ok := ce.Args[arg].(*ast.Ident)
	if !ok || (id.Name != "true" && id.Name != "false") {
		o.brokenDef(coqName, "argument is not a boolean literal: "+printNode(p.fset, ce.Args[arg]))
		return
	}
	o.f("Definition %s : bool := %s. (* %s:%s.%s %s #%d arg %d *)\n", coqName, id.Name, dir, recv, name, callee, nth, arg)
}

// apkStmtIndex: index (in the top-level statement list of the function) of the first statement whose normalised text
// contains `pat`; -1 (and a broken tie) when absent.  Used to state orderings (DirLoc is redirected BEFORE Finish, restored AFTER).
func (o *out) apkStmtIndex(dir, recv, name, pat, coqName string) {
	p, fd := findFunc(dir, recv, name)
	if fd == nil {
		o.brokenDef(coqName, "function "+dir+":"+recv+"."+name+" not found")
		return
	}
	for i, st := range fd.Body.List {
		if strings.Contains(strings.Join(strings.Fields(printNode(p.fset, st)), " "), pat) {
			o.f("Definition %s : Z := %d. (* %s:%s.%s top-level statement containing `%s` *)\n", coqName, i, dir, recv, name, pat)
			return
		}
	}
	o.brokenDef(coqName, "no top-level statement containing `"+pat+"` in "+name)
}

// apkTypeCode: the wire class of a field type of signers/apk/structs.go.
//
//	0 uint32   1 []byte   2 apkRaw   3 []<attribute-like struct {uint32; []byte}>   4 [][]byte   5 []apkSigner   99 anything else
func apkTypeCode(dir string, e ast.Expr, fset *token.FileSet) int {
	resolve := func(name string) string { // follow `type A B` chains between named struct types
		for i := 0; i < 8; i++ {
			p := loadPkg(dir)
			next := ""
			for _, f := range p.files {
				for _, d := range f.Decls {
					gd, ok := d.(*ast.GenDecl)
					if !ok || gd.Tok != token.TYPE {
						continue
					}
					for _, s := range gd.Specs {
						ts := s.(*ast.TypeSpec)
						if ts.Name.Name == name {
							if id, ok := ts.Type.(*ast.Ident); ok {
								next = id.Name
							}
						}
					}
				}
			}
			if next == "" {
				return name
			}
			name = next
		}
		return name
	}
	isAttr := func(name string) bool {
		_, st := findStruct(dir, resolve(name))
		if st == nil || len(st.Fields.List) != 2 {
			return false
		}
		a, b := printNode(fset, st.Fields.List[0].Type), printNode(fset, st.Fields.List[1].Type)
		return a == "uint32" && b == "[]byte" && len(st.Fields.List[0].Names) == 1 && len(st.Fields.List[1].Names) == 1
	}
	s := printNode(fset, e)
	switch {
	case s == "uint32":
		return 0
	case s == "[]byte":
		return 1
	case s == "apkRaw":
		return 2
	case s == "[][]byte":
		return 4
	case s == "[]apkSigner":
		return 5
	case strings.HasPrefix(s, "[]") && isAttr(s[2:]):
		return 3
	}
	return 99
}

// apkSchema emits the field classes of a struct in declaration order.
func (o *out) apkSchema(dir, goName, coqName string) {
	p, st := findStruct(dir, goName)
	if st == nil {
		o.brokenDef(coqName, "struct "+dir+"."+goName+" not found")
		return
	}
	var codes, names []string
	for _, fl := range st.Fields.List {
		c := apkTypeCode(dir, fl.Type, p.fset)
		n := len(fl.Names)
		if n == 0 {
			n = 1
		}
		for i := 0; i < n; i++ {
			codes = append(codes, strconv.Itoa(c))
			if i < len(fl.Names) {
				names = append(names, fl.Names[i].Name+" "+printNode(p.fset, fl.Type))
			}
		}
	}
	o.f("Definition %s : list Z := [%s]. (* %s.%s: %s ; 0 uint32, 1 []byte, 2 apkRaw, 3 []{uint32;[]byte}, 4 [][]byte, 5 []apkSigner *)\n",
		coqName, strings.Join(codes, "; "), dir, goName, strings.Join(names, ", "))
}

var apkHashCodes = map[string]int{"crypto.SHA1": 3, "crypto.SHA224": 4, "crypto.SHA256": 5, "crypto.SHA384": 6, "crypto.SHA512": 7}
var apkAlgCodes = map[string]int{"x509.RSA": 1, "x509.DSA": 2, "x509.ECDSA": 3, "x509.Ed25519": 4}

// apkSigTypes emits the sigTypes table as (id, hash, key algorithm, pss) with crypto.Hash / x509.PublicKeyAlgorithm numbers.
func (o *out) apkSigTypes(dir, coqName string) {
	ce, p, _, _ := findConstExpr(dir, "sigTypes")
	cl, ok := ce.(*ast.CompositeLit)
	if !ok {
		o.brokenDef(coqName, "var sigTypes is not a composite literal")
		return
	}
	var rows []string
	for _, el := range cl.Elts {
		row, ok := el.(*ast.CompositeLit)
		if !ok || len(row.Elts) != 4 {
			o.brokenDef(coqName, "sigTypes row is not a 4-field positional literal: "+printNode(p.fset, el))
			return
		}
		id, err := evalConst(dir, row.Elts[0], 0)
		h, okh := apkHashCodes[printNode(p.fset, row.Elts[1])]
		a, oka := apkAlgCodes[printNode(p.fset, row.Elts[2])]
		pss := printNode(p.fset, row.Elts[3])
		if err != nil || !okh || !oka || (pss != "true" && pss != "false") {
			o.brokenDef(coqName, "sigTypes row not understood: "+printNode(p.fset, el))
			return
		}
		rows = append(rows, fmt.Sprintf("(%d, %d, %d, %s)", id.i, h, a, pss))
	}
	// positional literals follow the field order of sigType
	_, st := findStruct(dir, "sigType")
	order := ""
	if st != nil {
		for _, fl := range st.Fields.List {
			for _, n := range fl.Names {
				order += n.Name + " "
			}
		}
	}
	if strings.TrimSpace(order) != "id hash alg pss" {
		o.brokenDef(coqName, "struct sigType fields are not id hash alg pss: "+order)
		return
	}
	o.f("Definition %s : list (Z * Z * Z * bool) := [%s]. (* %s.sigTypes: id, crypto.Hash, x509.PublicKeyAlgorithm, pss *)\n", coqName, strings.Join(rows, "; "), dir)
}

// apkSwitchCases: the case labels (mapped through apkAlgCodes) of the first `switch <tag>` of the function.
func (o *out) apkSwitchCases(dir, recv, name, tag, coqName string) {
	p, fd := findFunc(dir, recv, name)
	if fd == nil {
		o.brokenDef(coqName, "function "+dir+":"+recv+"."+name+" not found")
		return
	}
	var sw *ast.SwitchStmt
	ast.Inspect(fd.Body, func(n ast.Node) bool {
		if s, ok := n.(*ast.SwitchStmt); ok && sw == nil && s.Tag != nil && printNode(p.fset, s.Tag) == tag {
			sw = s
		}
		return sw == nil
	})
	if sw == nil {
		o.brokenDef(coqName, "no switch on "+tag+" in "+name)
		return
	}
	var codes []string
	for _, c := range sw.Body.List {
		cc := c.(*ast.CaseClause)
		for _, e := range cc.List {
			v, ok := apkAlgCodes[printNode(p.fset, e)]
			if !ok {
				o.brokenDef(coqName, "case label not understood: "+printNode(p.fset, e))
				return
			}
			// a case that only returns an error does not count as supported
			supported := true
			if len(cc.Body) == 1 {
				if r, ok := cc.Body[0].(*ast.ReturnStmt); ok && len(r.Results) == 2 && strings.Contains(printNode(p.fset, r.Results[1]), "errors.New") {
					supported = false
				}
			}
			if supported {
				codes = append(codes, strconv.Itoa(v))
			}
		}
	}
	o.f("Definition %s : list Z := [%s]. (* %s:%s.%s switch %s: algorithms with a verification branch *)\n", coqName, strings.Join(codes, "; "), dir, recv, name, tag)
}

// apkStructLit: nth composite literal of struct type typ in the function, as field values in DECLARATION order (missing = 0).
func (o *out) apkStructLit(fs funcSpec, typ string, nth int) {
	p, fd := findFunc(fs.dir, fs.recv, fs.name)
	if fd == nil {
		o.brokenDef(fs.coqName, "function "+fs.dir+":"+fs.recv+"."+fs.name+" not found")
		return
	}
	_, st := findStruct(fs.dir, typ)
	if st == nil {
		o.brokenDef(fs.coqName, "struct "+typ+" not found")
		return
	}
	var fields []string
	for _, fl := range st.Fields.List {
		for _, n := range fl.Names {
			fields = append(fields, n.Name)
		}
	}
	var lit *ast.CompositeLit
	k := 0
	ast.Inspect(fd.Body, func(n ast.Node) bool {
		if lit != nil {
			return false
		}
		if cl, ok := n.(*ast.CompositeLit); ok {
			if id, ok := cl.Type.(*ast.Ident); ok && id.Name == typ {
				if k == nth {
					lit = cl
					return false
				}
				k++
			}
		}
		return true
	})
	if lit == nil {
		o.brokenDef(fs.coqName, fmt.Sprintf("no composite literal #%d of %s in %s", nth, typ, fs.name))
		return
	}
	vals := map[string]ast.Expr{}
	for _, el := range lit.Elts {
		kv, ok := el.(*ast.KeyValueExpr)
		if !ok {
			o.brokenDef(fs.coqName, "positional struct literal of "+typ)
			return
		}
		vals[printNode(p.fset, kv.Key)] = kv.Value
	}
	t := o.newTr(p, fs)
	var items []string
	for _, f := range fields {
		if e, ok := vals[f]; ok {
			items = append(items, t.expr(e))
			delete(vals, f)
		} else {
			items = append(items, "0")
		}
	}
	if len(vals) != 0 {
		o.brokenDef(fs.coqName, "struct literal of "+typ+" has keys that are not fields")
		return
	}
	if t.err != nil {
		o.brokenDef(fs.coqName, t.err.Error())
		return
	}
	o.f("Definition %s %s : list Z :=\n  [%s].\n(* from %s:%s.%s : %s literal #%d, fields %s *)\n", fs.coqName, fs.params, strings.Join(items, "; "), fs.dir, fs.recv, fs.name, typ, nth, strings.Join(fields, ","))
}

func init() {
	generators["FmtAPK_gen"] = func(o *out) {
		ap := "signers/apk"
		zs := "lib/zipslicer"
		sj := "lib/signjar"

		// ------------------------------------------------------------ constants
		o.f("(* library semantics the translated conditions refer to: strings.ContainsRune for an ASCII rune on a byte string *)\n")
		o.f("Definition contains_rune (s : list Z) (c : Z) : bool := existsb (Z.eqb c) s.\n\n")
		o.f("(* ---- signers/apk: constants *)\n")
		o.constString(ap, "sigMagic", "apk_sig_magic")
		o.constInt(ap, "sigApkV2", "apk_sig_v2_id")
		o.apkSigTypes(ap, "apk_sig_types")
		o.apkSchema(ap, "apkSigner", "apk_schema_signer")
		o.apkSchema(ap, "apkSignedData", "apk_schema_signed_data")
		o.apkSchema(ap, "apkAttribute", "apk_schema_attribute")
		o.apkAssignPartRaw(ap)

		// ------------------------------------------------------------ makeSigBlock
		o.f("\n(* ---- makeSigBlock: buffer size, the three integer fields, the copies *)\n")
		mbL := map[string]string{"len(sblob)": "n", "sigApkV2": "apk_sig_v2_id"}
		mb := func(coq string) funcSpec {
			return funcSpec{dir: ap, name: "makeSigBlock", coqName: coq, params: "(n : Z)", retType: "Z", leaves: mbL}
		}
		o.apkArg(mb("apk_mb_len"), "make", 0, 1, "")
		o.apkArg(mb("apk_mb_size_off"), "binary.LittleEndian.PutUint64", 0, 0, "lo")
		o.apkArg(mb("apk_mb_size_val"), "binary.LittleEndian.PutUint64", 0, 1, "")
		o.apkArg(mb("apk_mb_pair_off"), "binary.LittleEndian.PutUint64", 1, 0, "lo")
		o.apkArg(mb("apk_mb_pair_val"), "binary.LittleEndian.PutUint64", 1, 1, "")
		o.apkArg(mb("apk_mb_id_off"), "binary.LittleEndian.PutUint32", 0, 0, "lo")
		o.apkArg(mb("apk_mb_id_val"), "binary.LittleEndian.PutUint32", 0, 1, "")
		o.apkArg(mb("apk_mb_blob_off"), "copy", 0, 0, "lo")
		o.apkAssignPart(mb("apk_mb_suffix_off"), "suffix", 0, "lo")
		o.apkArg(mb("apk_mb_again_dst"), "copy", 1, 0, "lo")
		o.apkArg(mb("apk_mb_again_src_lo"), "copy", 1, 1, "lo")
		o.apkArg(mb("apk_mb_again_src_hi"), "copy", 1, 1, "hi")
		o.apkArg(mb("apk_mb_magic_dst"), "copy", 2, 0, "lo")
		o.callOrder(ap, "", "makeSigBlock", "apk_mb_calls", []string{"make", "PutUint64", "PutUint32", "copy"})
		o.hasStmt(ap, "", "makeSigBlock", "copy(block[8+8+4:], sblob)", "apk_mb_copies_blob")
		o.hasStmt(ap, "", "makeSigBlock", "copy(suffix[8:], sigMagic)", "apk_mb_copies_magic")
		o.hasStmt(ap, "", "makeSigBlock", "copy(suffix, block[:8])", "apk_mb_copies_size")
		fingerprint(ap, "", "makeSigBlock")

		// ------------------------------------------------------------ getSigBlock
		o.f("\n(* ---- getSigBlock *)\n")
		sbL := map[string]string{"sigLoc": "sig_loc", "inz.DirLoc": "dir_loc", "len(blob)": "blob_len", "len(sigMagic)": "magic_len",
			"size1": "size1", "size2": "size2", "expected": "expected", "len(inz.File)": "n_files"}
		sb := func(coq, params, ret string) funcSpec {
			return funcSpec{dir: ap, name: "getSigBlock", coqName: coq, params: params, retType: ret, leaves: sbL}
		}
		o.condOf(sb("apk_sb_no_files", "(n_files : Z)", "bool"), "if:len(inz.File)")
		o.condOf(sb("apk_sb_unsigned", "(sig_loc dir_loc : Z)", "bool"), "if:sigLoc == inz.DirLoc")
		o.condOf(sb("apk_sb_out_of_range", "(sig_loc dir_loc : Z)", "bool"), "if:sigLoc < 0")
		o.apkArg(sb("apk_sb_blob_len", "(sig_loc dir_loc : Z)", "Z"), "make", 0, 1, "")
		o.apkArg(sb("apk_sb_read_at", "(sig_loc dir_loc : Z)", "Z"), "f.ReadAt", 0, 1, "")
		o.condOf(sb("apk_sb_too_short", "(blob_len magic_len : Z)", "bool"), "if:len(blob) < 8")
		o.exprOfAssign(sb("apk_sb_expected", "(blob_len : Z)", "Z"), "expected", 0)
		o.apkArg(sb("apk_sb_size1_off", "(blob_len : Z)", "Z"), "binary.LittleEndian.Uint64", 0, 0, "lo")
		o.apkArg(sb("apk_sb_size2_off", "(blob_len : Z)", "Z"), "binary.LittleEndian.Uint64", 1, 0, "lo")
		o.condOf(sb("apk_sb_size_bad", "(size1 size2 expected : Z)", "bool"), "if:size1 != expected")
		o.apkReturnPart(sb("apk_sb_pairs_lo", "(blob_len : Z)", "Z"), 1, "lo")
		o.apkReturnPart(sb("apk_sb_pairs_hi", "(blob_len : Z)", "Z"), 1, "hi")
		o.hasStmt(ap, "", "getSigBlock", "if !bytes.HasSuffix(blob, []byte(sigMagic)) { return nil, nil, errMalformed }", "apk_sb_checks_magic_suffix")
		fingerprint(ap, "", "getSigBlock")

		// ------------------------------------------------------------ verify: the pair loop, v1/v2 binding
		o.f("\n(* ---- verify: ID-value pair loop, v1 / v2 binding *)\n")
		vfL := map[string]string{"len(block)": "block_len", "uint64(len(block))": "block_len", "partSize": "part_size", "partType": "part_type",
			"sigApkV2": "apk_sig_v2_id", "len(signerList)": "n_signers", "len(allSigs)": "n_sigs", "v2present": "v2present", "apk": "hdr"}
		vfT := map[string]string{"v2present": "bool", "strings.ContainsRune()": "bool"}
		vf := func(coq, params, ret string) funcSpec {
			return funcSpec{dir: ap, name: "verify", coqName: coq, params: params, retType: ret, leaves: vfL, types: vfT,
				calls: map[string]string{"strings.ContainsRune": "contains_rune"}}
		}
		o.condOf(vf("apk_pair_more", "(block_len : Z)", "bool"), "for:len(block) > 0")
		o.condOf(vf("apk_pair_short", "(block_len : Z)", "bool"), "if:len(block) < 12")
		o.apkAssignPart(vf("apk_pair_after_size", "(part_size : Z)", "Z"), "block", 0, "lo")
		o.condOf(vf("apk_pair_size_bad", "(part_size block_len : Z)", "bool"), "if:partSize < 4")
		o.apkAssignPart(vf("apk_pair_value_lo", "(part_size : Z)", "Z"), "partBlob", 0, "lo")
		o.apkAssignPart(vf("apk_pair_value_hi", "(part_size : Z)", "Z"), "partBlob", 0, "hi")
		o.apkAssignPart(vf("apk_pair_next", "(part_size : Z)", "Z"), "block", 1, "lo")
		o.condOf(vf("apk_pair_other", "(part_type : Z)", "bool"), "if:partType != sigApkV2")
		o.condOf(vf("apk_signers_empty", "(n_signers : Z)", "bool"), "if:len(signerList) == 0")
		o.exprOfAssign(vf("apk_v2_present", "(n_sigs : Z)", "bool"), "v2present", 0)
		o.apkStringArg(ap, "", "verify", "jarSig.SignatureHeader.Get", 0, 0, "apk_v1_header_name")
		o.condOf(vf("apk_v1_stripped", "(hdr : list Z) (v2present : bool)", "bool"), "if:v2present")
		o.condOf(vf("apk_not_signed", "(n_sigs : Z)", "bool"), "if:len(allSigs) == 0")
		o.callOrder(ap, "", "verify", "apk_verify_calls", []string{"getSigBlock", "unmarshal", "signer.Verify", "zip.NewReader", "signjar.Verify"})
		fingerprint(ap, "", "verify")

		// ------------------------------------------------------------ digestApkStream / Sign
		o.f("\n(* ---- digestApkStream, Digest.Sign *)\n")
		o.apkStmtIndex(ap, "", "digestApkStream", "sigLoc, err := inz.NextFileOffset()", "apk_ds_ix_sigloc")
		o.apkStmtIndex(ap, "", "digestApkStream", "origDirLoc := inz.DirLoc", "apk_ds_ix_save")
		o.apkStmtIndex(ap, "", "digestApkStream", "inz.DirLoc = sigLoc", "apk_ds_ix_redirect")
		o.apkStmtIndex(ap, "", "digestApkStream", "hasher.Finish(", "apk_ds_ix_finish")
		o.apkStmtIndex(ap, "", "digestApkStream", "inz.DirLoc = origDirLoc", "apk_ds_ix_restore")
		o.apkStmtIndex(ap, "", "digestApkStream", "f.Dump(hasher)", "apk_ds_ix_dump")
		o.apkBoolArg(ap, "", "digestApkStream", "hasher.Finish", 0, 1, "apk_ds_finish_modified")
		o.apkBoolArg(ap, "apkSigner", "Verify", "hasher.Finish", 0, 1, "apk_vf_finish_modified")
		sgL := map[string]string{"d.sigLoc": "sig_loc", "origDirLoc": "dir_loc", "len(block)": "block_len", "dirEnts.Len()": "cd_len", "endOfDir.Len()": "eod_len",
			"s.hash": "s_hash", "d.hash": "d_hash", "s.alg": "s_alg", "alg": "alg", "s.pss": "s_pss", "st.id": "st_id"}
		sgT := map[string]string{"s.pss": "bool"}
		sg := func(coq, params, ret string) funcSpec {
			return funcSpec{dir: ap, recv: "Digest", name: "Sign", coqName: coq, params: params, retType: ret, leaves: sgL, types: sgT}
		}
		o.condOf(sg("apk_sign_type_matches", "(s_hash d_hash s_alg alg : Z) (s_pss : bool)", "bool"), "if:s.hash")
		o.condOf(sg("apk_sign_no_type", "(st_id : Z)", "bool"), "if:st.id")
		o.apkArg(sg("apk_p1_off", "(sig_loc dir_loc : Z)", "Z"), "patchset.Add", 0, 0, "")
		o.apkArg(sg("apk_p1_old", "(sig_loc dir_loc : Z)", "Z"), "patchset.Add", 0, 1, "")
		o.exprOfAssign(sg("apk_new_dirloc", "(sig_loc block_len : Z)", "Z"), "d.inz.DirLoc", 0)
		o.apkArg(sg("apk_p2_off", "(dir_loc cd_len : Z)", "Z"), "patchset.Add", 1, 0, "")
		o.apkArg(sg("apk_p2_old", "(eod_len : Z)", "Z"), "patchset.Add", 1, 1, "")
		o.apkBoolArg(ap, "Digest", "Sign", "d.inz.WriteDirectory", 0, 2, "apk_sign_force_zip64")
		o.hasStmt(ap, "Digest", "Sign", "patchset.Add(d.sigLoc, origDirLoc-d.sigLoc, block)", "apk_p1_blob_is_block")
		o.hasStmt(ap, "Digest", "Sign", "patchset.Add(origDirLoc+int64(dirEnts.Len()), int64(endOfDir.Len()), endOfDir.Bytes())", "apk_p2_blob_is_eod")
		o.hasStmt(ap, "Digest", "Sign", "block := makeSigBlock(sblob)", "apk_sign_block_from_sblob")
		o.hasStmt(ap, "Digest", "Sign", "sd := apkSignedData{ Digests: []apkDigest{apkDigest{ID: st.id, Value: d.value}}, }", "apk_sign_one_digest")
		o.hasStmt(ap, "Digest", "Sign", "for _, cert := range cert.Chain() { sd.Certificates = append(sd.Certificates, cert.Raw) }", "apk_sign_chain_certs")
		o.hasStmt(ap, "Digest", "Sign", "digest.Write(signedData.Bytes())", "apk_sign_over_signed_data_body")
		o.hasStmt(ap, "Digest", "Sign", "signerList := []apkSigner{apkSigner{ SignedData: signedData, Signatures: []apkSignature{apkSignature{ID: st.id, Value: sigv}}, PublicKey: cert.Leaf.RawSubjectPublicKeyInfo, }}", "apk_sign_one_signer")
		o.callOrder(ap, "Digest", "Sign", "apk_sign_calls", []string{"marshal", "makeSigBlock", "patchset.Add", "WriteDirectory"})
		fingerprint(ap, "", "digestApkStream")
		fingerprint(ap, "Digest", "Sign")

		// ------------------------------------------------------------ apkSigner.Verify / VerifySignature / sigTypeByID
		o.f("\n(* ---- apkSigner.Verify, VerifySignature, sigTypeByID *)\n")
		avL := map[string]string{"len(s.Signatures)": "n_sigs", "len(signedData.Digests)": "n_digests"}
		av := func(coq, params string) funcSpec {
			return funcSpec{dir: ap, recv: "apkSigner", name: "Verify", coqName: coq, params: params, retType: "bool", leaves: avL}
		}
		o.condOf(av("apk_vf_no_signatures", "(n_sigs : Z)"), "if:len(s.Signatures)")
		o.condOf(av("apk_vf_no_digests", "(n_digests : Z)"), "if:len(signedData.Digests)")
		o.hasStmt(ap, "apkSigner", "Verify", "if !hmac.Equal(digest.Value, digests[i]) { return nil, fmt.Errorf(\"digest mismatch for algorithm 0x%04x\", digest.ID) }", "apk_vf_compares_digests")
		o.hasStmt(ap, "apkSigner", "Verify", "hash, err := sig.VerifySignature(publicKey, s.SignedData.Bytes())", "apk_vf_sig_over_signed_data_body")
		o.hasStmt(ap, "apkSigner", "Verify", "if bytes.Equal(cert.RawSubjectPublicKeyInfo, s.PublicKey) { leaf = cert } else { intermediates = append(intermediates, cert) }", "apk_vf_leaf_by_public_key")
		o.callOrder(ap, "apkSigner", "Verify", "apk_vf_calls", []string{"x509.ParsePKIXPublicKey", "sig.VerifySignature", "unmarshal", "sigTypeByID", "f.Dump", "hasher.Finish", "hmac.Equal", "ParseCertificates"})
		o.apkSwitchCases(ap, "apkSignature", "VerifySignature", "st.alg", "apk_vs_algs")
		stL := map[string]string{"s.id": "s_id", "id": "id", "st.id": "st_id"}
		o.condOf(funcSpec{dir: ap, name: "sigTypeByID", coqName: "apk_st_id_matches", params: "(s_id id : Z)", retType: "bool", leaves: stL}, "if:s.id")
		o.condOf(funcSpec{dir: ap, name: "sigTypeByID", coqName: "apk_st_unknown", params: "(st_id : Z)", retType: "bool", leaves: stL}, "if:st.id")
		fingerprint(ap, "apkSigner", "Verify")
		fingerprint(ap, "apkSignature", "VerifySignature")
		fingerprint(ap, "", "sigTypeByID")

		// ------------------------------------------------------------ serializer
		o.f("\n(* ---- serializer.go marshal *)\n")
		mmL := map[string]string{"end": "end_", "start": "start"}
		o.apkArg(funcSpec{dir: ap, recv: "marshaller", name: "marshal", coqName: "apk_m_prefix_val", params: "(start end_ : Z)", retType: "Z", leaves: mmL}, "binary.LittleEndian.PutUint32", 1, 1, "")
		o.apkArg(funcSpec{dir: ap, recv: "marshaller", name: "marshal", coqName: "apk_m_prefix_width", params: "", retType: "Z"}, "m.grow", 1, 0, "")
		o.apkArg(funcSpec{dir: ap, recv: "marshaller", name: "marshal", coqName: "apk_m_u32_width", params: "", retType: "Z"}, "m.grow", 0, 0, "")
		o.hasStmt(ap, "marshaller", "marshal", "if v.Type() == rawType { m.write(v.Bytes()) return nil }", "apk_m_raw_verbatim")
		o.apkStmtIndex(ap, "marshaller", "marshal", "v.Type() == rawType", "apk_m_ix_raw")
		o.apkStmtIndex(ap, "marshaller", "marshal", "m.grow(4)", "apk_m_ix_prefix")
		fingerprint(ap, "marshaller", "marshal")
		fingerprint(ap, "", "marshal")

		// ------------------------------------------------------------ merkle Finish: which directory bytes are digested
		o.f("\n(* ---- merkleHasher.Finish *)\n")
		o.condOf(funcSpec{dir: ap, recv: "merkleHasher", name: "Finish", coqName: "apk_fin_dirloc_too_big", params: "(dir_loc : Z)", retType: "bool",
			leaves: map[string]string{"inz.DirLoc": "dir_loc"}}, "if:inz.DirLoc")
		o.apkBoolArg(ap, "merkleHasher", "Finish", "inz.WriteDirectory", 0, 2, "apk_fin_force_zip64")
		o.apkBoolArg(ap, "merkleHasher", "Finish", "inz.GetOriginalDirectory", 0, 0, "apk_fin_trim")
		o.hasStmt(ap, "merkleHasher", "Finish", "cdirEntries, endOfDir, err = inz.GetOriginalDirectory(true)", "apk_fin_original_when_unmodified")

		// ------------------------------------------------------------ lib/zipslicer
		o.f("\n(* ---- lib/zipslicer: constants, layouts, guards, end record *)\n")
		for _, c := range [][2]string{{"directoryHeaderSignature", "apk_z_cdh_sig"}, {"directoryEndSignature", "apk_z_end_sig"}, {"directory64EndSignature", "apk_z_end64_sig"},
			{"directoryHeaderLen", "apk_z_cdh_len"}, {"directoryEndLen", "apk_z_end_len"}, {"directory64LocLen", "apk_z_loc64_len"},
			{"uint32Max", "apk_z_u32max"}, {"uint16Max", "apk_z_u16max"}, {"zip20", "apk_z_zip20"}, {"zip45", "apk_z_zip45"}} {
			o.constInt(zs, c[0], c[1])
		}
		o.structLayout(zs, "zipEndRecord", "apk_zend")
		o.structLayout(zs, "zipCentralDir", "apk_zcd")
		fdL := map[string]string{"end.Signature": "sig", "end.TotalCDCount": "total", "end.CDSize": "cdsize", "end.CDOffset": "cdoff", "size": "size", "loc": "loc",
			"directoryEndSignature": "apk_z_end_sig", "uint16Max": "apk_z_u16max", "uint32Max": "apk_z_u32max"}
		o.condOf(funcSpec{dir: zs, name: "FindDirectory", coqName: "apk_z_fd_bad_sig", params: "(sig : Z)", retType: "bool", leaves: fdL}, "if:end.Signature")
		o.condOf(funcSpec{dir: zs, name: "FindDirectory", coqName: "apk_z_fd_zip64", params: "(total cdsize cdoff : Z)", retType: "bool", leaves: fdL}, "if:end.TotalCDCount")
		o.exprOfAssign(funcSpec{dir: zs, name: "FindDirectory", coqName: "apk_z_fd_pos", params: "(size : Z)", retType: "Z", leaves: fdL}, "pos", 0)
		o.condOf(funcSpec{dir: zs, name: "Read", coqName: "apk_z_loc_oob", params: "(loc size : Z)", retType: "bool", leaves: fdL}, "if:loc < 0")
		rwL := map[string]string{"len(cd)": "cd_len", "int(hdr.FilenameLen)": "fn", "int(hdr.ExtraLen)": "ex", "int(hdr.CommentLen)": "cm"}
		rw := func(coq, params string) funcSpec {
			return funcSpec{dir: zs, name: "ReadWithDirectory", coqName: coq, params: params, retType: "bool", leaves: rwL}
		}
		o.condOf(rw("apk_z_rw_short", "(cd_len : Z)"), "if:len(cd) < 4")
		o.condOf(rw("apk_z_rw_hdr_short", "(cd_len : Z)"), "if:len(cd) < directoryHeaderLen", 0)
		o.condOf(rw("apk_z_rw_entry_short", "(cd_len fn ex cm : Z)"), "if:len(cd) < directoryHeaderLen", 1)
		o.hasStmt(zs, "", "ReadWithDirectory", "if binary.LittleEndian.Uint32(cd) != directoryHeaderSignature { break }", "apk_z_rw_stops_at_other_sig")
		o.exprOfAssign(funcSpec{dir: zs, name: "ReadWithDirectory", coqName: "apk_z_rw_dirloc", params: "(size cd_len : Z)", retType: "Z",
			leaves: map[string]string{"size": "size", "int64(len(cd))": "cd_len"}}, "dirLoc", 0)
		wdL := map[string]string{"d.DirLoc": "dir_loc", "count": "count", "size": "size", "cdoff": "cdoff", "forceZip64": "force", "f.ReaderVersion": "rv", "minVersion": "minv",
			"directoryEndSignature": "apk_z_end_sig", "uint16Max": "apk_z_u16max", "uint32Max": "apk_z_u32max", "zip45": "apk_z_zip45"}
		wdT := map[string]string{"forceZip64": "bool"}
		wd := func(coq, params, ret string) funcSpec {
			return funcSpec{dir: zs, recv: "Directory", name: "WriteDirectory", coqName: coq, params: params, retType: ret, leaves: wdL, types: wdT}
		}
		o.condOf(wd("apk_z_wd_raises_min", "(rv minv : Z)", "bool"), "if:f.ReaderVersion")
		o.condOf(wd("apk_z_wd_needs_zip64", "(count size cdoff : Z) (force : bool)", "bool"), "if:count >=")
		o.condOf(wd("apk_z_wd_zip64_branch", "(minv : Z)", "bool"), "if:minVersion ==")
		o.apkStructLit(wd("apk_z_wd_end", "(count size cdoff : Z)", "list Z"), "zipEndRecord", 1)
		o.exprOfAssign(wd("apk_z_wd_cdoff", "(dir_loc : Z)", "Z"), "cdoff", 0)
		o.exprOfAssign(funcSpec{dir: zs, recv: "Directory", name: "WriteDirectory", coqName: "apk_z_wd_min0", params: "", retType: "Z", leaves: map[string]string{"zip20": "apk_z_zip20"}}, "minVersion", 0)
		goL := map[string]string{"d.end.Signature": "end_sig", "d.DirLoc": "dir_loc", "contentEnd": "content_end", "delta": "delta",
			"end.CDOffset": "cdoff", "loc64.Signature": "loc64_sig", "uint32Max": "apk_z_u32max"}
		gd := func(coq, params, ret string) funcSpec {
			return funcSpec{dir: zs, recv: "Directory", name: "GetOriginalDirectory", coqName: coq, params: params, retType: ret, leaves: goL}
		}
		o.condOf(gd("apk_z_go_new_zip", "(end_sig : Z)", "bool"), "if:d.end.Signature")
		o.exprOfAssign(gd("apk_z_go_delta", "(dir_loc content_end : Z)", "Z"), "delta", 0)
		o.condOf(gd("apk_z_go_delta_bad", "(delta : Z)", "bool"), "if:delta < 0")
		o.condOf(gd("apk_z_go_adjust_end", "(cdoff loc64_sig : Z)", "bool"), "if:end.CDOffset")
		o.hasStmt(zs, "Directory", "GetOriginalDirectory", "end.CDOffset -= uint32(delta)", "apk_z_go_subtracts_delta")
		o.apkBoolArg(zs, "Directory", "GetOriginalDirectory", "d.WriteDirectory", 0, 2, "apk_z_go_force_zip64")
		o.condOf(funcSpec{dir: zs, recv: "Directory", name: "NextFileOffset", coqName: "apk_z_nfo_empty", params: "(n_files : Z)", retType: "bool",
			leaves: map[string]string{"len(d.File)": "n_files"}}, "if:len(d.File)")
		o.hasStmt(zs, "Directory", "NextFileOffset", "return int64(lastFile.Offset) + size, nil", "apk_z_nfo_last_end")
		o.hasStmt(zs, "Directory", "NextFileOffset", "lastFile := d.File[len(d.File)-1]", "apk_z_nfo_uses_last")
		o.hasStmt(zs, "File", "GetDirectoryHeader", "if len(f.raw) > 0 { return f.raw, nil }", "apk_z_gdh_returns_raw")
		for _, fn := range [][2]string{{"", "FindDirectory"}, {"", "Read"}, {"", "ReadWithDirectory"}, {"Directory", "WriteDirectory"}, {"Directory", "GetOriginalDirectory"},
			{"Directory", "NextFileOffset"}, {"File", "Dump"}, {"File", "GetTotalSize"}} {
			fingerprint(zs, fn[0], fn[1])
		}

		// ------------------------------------------------------------ lib/signjar DigestManifest: the X-Android-APK-Signed attribute
		o.f("\n(* ---- lib/signjar DigestManifest: v1 signature file carries the v2 marker *)\n")
		apkManifestMarker(o, sj)
		o.constInt(sj, "maxLineLength", "apk_sf_max_line")
		fingerprint(sj, "", "DigestManifest")
		fingerprint(sj, "", "writeAttribute")
	}
}

// apkAssignPartRaw: apkRaw.Bytes returns r[4:] — the signed bytes exclude the length prefix.
func (o *out) apkAssignPartRaw(ap string) {
	p, fd := findFunc(ap, "apkRaw", "Bytes")
	if fd == nil || len(fd.Body.List) != 1 {
		o.brokenDef("apk_raw_body_off", "apkRaw.Bytes not found or not a single statement")
		return
	}
	r, ok := fd.Body.List[0].(*ast.ReturnStmt)
	if !ok || len(r.Results) != 1 {
		o.brokenDef("apk_raw_body_off", "apkRaw.Bytes is not a single return")
		return
	}
	var e ast.Expr = r.Results[0]
	if ce, ok := e.(*ast.CallExpr); ok && len(ce.Args) == 1 { // []byte(r[4:])
		e = ce.Args[0]
	}
	fs := funcSpec{dir: ap, recv: "apkRaw", name: "Bytes", coqName: "apk_raw_body_off", params: "", retType: "Z"}
	se, ok := e.(*ast.SliceExpr)
	if !ok || se.High != nil || printNode(p.fset, se.X) != "r" {
		o.brokenDef("apk_raw_body_off", "apkRaw.Bytes does not return r[k:]")
		return
	}
	o.apkEmitExpr(p, fs, se.Low, "r[k:]")
}

// apkManifestMarker: in DigestManifest, the statement `if apkV2 { writeAttribute(&output, NAME, VALUE) }`: its name and value,
// and its position among the top-level statements relative to the blank line that ends the main section.
func apkManifestMarker(o *out, sj string) {
	p, fd := findFunc(sj, "", "DigestManifest")
	if fd == nil {
		o.brokenDef("apk_sf_marker_name", "DigestManifest not found")
		return
	}
	ixMarker, ixBlank, ixVersion := -1, -1, -1
	var name, value string
	guard := ""
	for i, st := range fd.Body.List {
		txt := strings.Join(strings.Fields(printNode(p.fset, st)), " ")
		if is, ok := st.(*ast.IfStmt); ok && is.Else == nil && is.Init == nil && len(is.Body.List) == 1 {
			if es, ok := is.Body.List[0].(*ast.ExprStmt); ok {
				if ce, ok := es.X.(*ast.CallExpr); ok && printNode(p.fset, ce.Fun) == "writeAttribute" && len(ce.Args) == 3 {
					a, oka := ce.Args[1].(*ast.BasicLit)
					b, okb := ce.Args[2].(*ast.BasicLit)
					if oka && okb && a.Kind == token.STRING && b.Kind == token.STRING {
						n, _ := strconv.Unquote(a.Value)
						if strings.Contains(n, "APK") {
							name = n
							value, _ = strconv.Unquote(b.Value)
							ixMarker = i
							guard = printNode(p.fset, is.Cond)
						}
					}
				}
			}
		}
		if txt == `output.WriteString("\r\n")` && ixBlank < 0 {
			ixBlank = i
		}
		if strings.HasPrefix(txt, `writeAttribute(&output, "Signature-Version"`) {
			ixVersion = i
		}
	}
	if ixMarker < 0 || ixBlank < 0 || ixVersion < 0 {
		o.brokenDef("apk_sf_marker_name", "DigestManifest: marker statement, Signature-Version or the blank line after the main section not found")
		return
	}
	o.f("Definition apk_sf_marker_name : list Z := %s. (* %q *)\n", bytesLit([]byte(name)), name)
	o.f("Definition apk_sf_marker_value : list Z := %s. (* %q *)\n", bytesLit([]byte(value)), value)
	o.f("Definition apk_sf_marker_guard_is_flag : bool := %v. (* guard: %s *)\n", guard == "apkV2", guard)
	o.f("Definition apk_sf_ix_version : Z := %d.\nDefinition apk_sf_ix_marker : Z := %d.\nDefinition apk_sf_ix_blank : Z := %d. (* top-level statement indices in DigestManifest *)\n", ixVersion, ixMarker, ixBlank)
}
