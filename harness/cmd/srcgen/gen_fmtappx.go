package main

import (
	"fmt"
	"go/ast"
	"go/parser"
	"go/token"
	"os"
	"os/exec"
	"path/filepath"
	"sort"
	"strconv"
	"strings"
)

// FmtAPPX — the APPX / MSIX signature layer of lib/signappx (tarappx.go DigestAppxTar / digestFile, blockmap.go, sign.go,
// verify.go, zipmeta.go, contenttypes.go) together with the two zipslicer functions only this layer uses in anger
// (File.OpenAndTeeRaw / Reader.Read: where the AXPC tee sits; Directory.Truncate: the verifier's AXCD).
// Everything the Coq model of coq/FmtAPPX takes from the source is emitted here: names and magic strings, the order in which the
// digest blob is assembled, the bounds of every slice of the blob parser, the loop shape of blockMap.AddFile (does it read to
// EOF or to a known size), what is written to the raw (AXPC) writer and in which order, where the tee sits relative to the
// inflater, the buffer size of the bufio.Reader compress/flate puts in between (read from GOROOT), the member classification of
// DigestAppxTar, the order of Sign, the decisions of addZipEntry, the field updates of Truncate, the tables of ContentTypes.

const faPkg = "lib/signappx"
const faZip = "lib/zipslicer"

func faNorm(s string) string { return strings.Join(strings.Fields(s), " ") }

// faStr resolves a string expression (literal, package constant, or "lit" + const) to its value.
func faStr(dir string, e ast.Expr) (string, bool) {
	switch x := e.(type) {
	case *ast.BasicLit:
		if x.Kind == token.STRING {
			s, err := strconv.Unquote(x.Value)
			return s, err == nil
		}
	case *ast.Ident:
		ce, _, _, _ := findConstExpr(dir, x.Name)
		if ce != nil {
			return faStr(dir, ce)
		}
	case *ast.ParenExpr:
		return faStr(dir, x.X)
	case *ast.BinaryExpr:
		if x.Op == token.ADD {
			a, ok1 := faStr(dir, x.X)
			b, ok2 := faStr(dir, x.Y)
			return a + b, ok1 && ok2
		}
	case *ast.CallExpr: // []byte("...") / string(...)
		if len(x.Args) == 1 {
			return faStr(dir, x.Args[0])
		}
	}
	return "", false
}

func (o *out) faConstStr(dir, goName, coqName string) {
	ce, _, _, _ := findConstExpr(dir, goName)
	if ce == nil {
		o.brokenDef(coqName, "constant "+dir+"."+goName+" not found")
		return
	}
	s, ok := faStr(dir, ce)
	if !ok {
		o.brokenDef(coqName, "constant "+dir+"."+goName+" is not a string constant")
		return
	}
	o.f("Definition %s : list Z := %s. (* %s.%s = %q *)\n", coqName, bytesLit([]byte(s)), dir, goName, s)
}

// faMapLit: a package-level map literal with string keys (and string or `true` values), keys sorted.
func (o *out) faMapLit(dir, goName, coqName string, withValues bool) {
	ce, _, _, _ := findConstExpr(dir, goName)
	cl, ok := ce.(*ast.CompositeLit)
	if ce == nil || !ok {
		o.brokenDef(coqName, "map literal "+dir+"."+goName+" not found")
		return
	}
	type kv struct{ k, v string }
	var items []kv
	for _, el := range cl.Elts {
		p, ok := el.(*ast.KeyValueExpr)
		if !ok {
			o.brokenDef(coqName, "unexpected element in "+goName)
			return
		}
		k, ok1 := faStr(dir, p.Key)
		v, ok2 := "", true
		if withValues {
			v, ok2 = faStr(dir, p.Value)
		} else if id, isId := p.Value.(*ast.Ident); !isId || id.Name != "true" {
			ok2 = false
		}
		if !ok1 || !ok2 {
			o.brokenDef(coqName, "entry of "+goName+" is not constant")
			return
		}
		items = append(items, kv{k, v})
	}
	sort.Slice(items, func(i, j int) bool { return items[i].k < items[j].k })
	var parts, names []string
	for _, it := range items {
		if withValues {
			parts = append(parts, "("+bytesLit([]byte(it.k))+", "+bytesLit([]byte(it.v))+")")
		} else {
			parts = append(parts, bytesLit([]byte(it.k)))
		}
		names = append(names, it.k)
	}
	ty := "list (list Z)"
	if withValues {
		ty = "list (list Z * list Z)"
	}
	o.f("Definition %s : %s := [%s]. (* %s.%s keys: %s *)\n", coqName, ty, strings.Join(parts, "; "), dir, goName, strings.Join(names, " "))
}

// faSwitch: the nth switch statement (source order) of a function; for every clause the case strings and a class of its body.
func faSwitch(dir, recv, fn string, nth int) (*pkgInfo, []*ast.CaseClause) {
	p, fd := findFunc(dir, recv, fn)
	if fd == nil {
		return p, nil
	}
	var found *ast.SwitchStmt
	k := 0
	ast.Inspect(fd.Body, func(n ast.Node) bool {
		if sw, ok := n.(*ast.SwitchStmt); ok && found == nil {
			if k == nth {
				found = sw
			}
			k++
		}
		return found == nil
	})
	if found == nil {
		return p, nil
	}
	var out []*ast.CaseClause
	for _, c := range found.Body.List {
		out = append(out, c.(*ast.CaseClause))
	}
	return p, out
}

func faNames(dir string, list []ast.Expr) ([]string, bool) {
	var out []string
	for _, e := range list {
		s, ok := faStr(dir, e)
		if !ok {
			return nil, false
		}
		out = append(out, s)
	}
	return out, true
}

func faNameList(names []string) string {
	var parts []string
	for _, n := range names {
		parts = append(parts, bytesLit([]byte(n)))
	}
	return "[" + strings.Join(parts, "; ") + "]"
}

// faCalls: every call in fd whose printed callee equals or ends with "."+name, in source order.
func faCalls(p *pkgInfo, fd *ast.FuncDecl, name string) []*ast.CallExpr {
	var out []*ast.CallExpr
	ast.Inspect(fd.Body, func(n ast.Node) bool {
		if ce, ok := n.(*ast.CallExpr); ok {
			callee := printNode(p.fset, ce.Fun)
			if callee == name || strings.HasSuffix(callee, "."+name) {
				out = append(out, ce)
			}
		}
		return true
	})
	return out
}

// faArgs: bool — the nth call of `callee` in fn has exactly the printed arguments `want`.
func (o *out) faArgs(dir, recv, fn, callee string, nth int, want []string, coqName string) {
	p, fd := findFunc(dir, recv, fn)
	if fd == nil {
		o.brokenDef(coqName, "function "+dir+":"+recv+"."+fn+" not found")
		return
	}
	cs := faCalls(p, fd, callee)
	if nth >= len(cs) {
		o.brokenDef(coqName, fmt.Sprintf("no call #%d of %s in %s", nth, callee, fn))
		return
	}
	var got []string
	for _, a := range cs[nth].Args {
		got = append(got, faNorm(printNode(p.fset, a)))
	}
	o.f("Definition %s : bool := %v. (* %s:%s.%s : %s(%s) ; expected (%s) *)\n", coqName, strings.Join(got, ", ") == strings.Join(want, ", "),
		dir, recv, fn, callee, strings.Join(got, ", "), strings.Join(want, ", "))
}

// faArgClasses: the printed argument #arg of every call of `callee` in fn, mapped through classes (unknown = 99).
func (o *out) faArgClasses(dir, recv, fn, callee string, arg int, classes map[string]int, coqName string) {
	p, fd := findFunc(dir, recv, fn)
	if fd == nil {
		o.brokenDef(coqName, "function "+dir+":"+recv+"."+fn+" not found")
		return
	}
	var seq, names []string
	for _, ce := range faCalls(p, fd, callee) {
		if arg >= len(ce.Args) {
			continue
		}
		a := faNorm(printNode(p.fset, ce.Args[arg]))
		c, ok := classes[a]
		if !ok {
			c = 99
		}
		seq = append(seq, strconv.Itoa(c))
		names = append(names, a)
	}
	o.f("Definition %s : list Z := [%s]. (* %s:%s.%s : arg %d of %s calls: %s *)\n", coqName, strings.Join(seq, "; "), dir, recv, fn, arg, callee, strings.Join(names, " | "))
}

// faSlice: the bounds of the nth slice expression over `base` in fn, translated: emits <coq>_lo and <coq>_hi (hi = -1: open).
func (o *out) faSlice(fs funcSpec, base string, nth int) {
	p, fd := findFunc(fs.dir, fs.recv, fs.name)
	if fd == nil {
		o.brokenDef(fs.coqName, "function "+fs.dir+":"+fs.recv+"."+fs.name+" not found")
		return
	}
	var found *ast.SliceExpr
	k := 0
	ast.Inspect(fd.Body, func(n ast.Node) bool {
		if se, ok := n.(*ast.SliceExpr); ok && found == nil && printNode(p.fset, se.X) == base {
			if k == nth {
				found = se
			}
			k++
		}
		return found == nil
	})
	if found == nil {
		o.brokenDef(fs.coqName, fmt.Sprintf("no slice expression #%d over %s in %s", nth, base, fs.name))
		return
	}
	t := o.newTr(p, fs)
	lo, hi := "0", "(-1)"
	if found.Low != nil {
		lo = t.expr(found.Low)
	}
	if found.High != nil {
		hi = t.expr(found.High)
	}
	if t.err != nil {
		o.brokenDef(fs.coqName, t.err.Error())
		return
	}
	o.f("Definition %s_lo %s : Z := %s.\nDefinition %s_hi %s : Z := %s.\n(* from %s:%s.%s : %s *)\n", fs.coqName, fs.params, lo, fs.coqName, fs.params, hi,
		fs.dir, fs.recv, fs.name, printNode(p.fset, found))
}

// faBlobProgram: the statements of writeSignature that assemble the digest blob, in order: for every digest.WriteString(lit) /
// digest.Write(src) a triple (guarded, kind, payload): guarded = 1 inside the `if len(i.axci) != 0` block; kind 0 = literal
// (payload = its bytes), kind 1 = a digest (payload = [class]) with class 0 AXPC accumulator, 1 the directory hash just computed,
// 2 i.axct, 3 i.axbm, 4 i.axci.
func (o *out) faBlobProgram(coqName string) {
	p, fd := findFunc(faPkg, "AppxDigest", "writeSignature")
	if fd == nil {
		o.brokenDef(coqName, "function writeSignature not found")
		return
	}
	classes := map[string]int{"i.axpc.Sum(nil)": 0, "axcd.Sum(nil)": 1, "i.axct": 2, "i.axbm": 3, "i.axci": 4}
	var items, desc []string
	bad := ""
	var walk func(list []ast.Stmt, guarded int)
	walk = func(list []ast.Stmt, guarded int) {
		for _, s := range list {
			switch x := s.(type) {
			case *ast.ExprStmt:
				ce, ok := x.X.(*ast.CallExpr)
				if !ok {
					continue
				}
				callee := printNode(p.fset, ce.Fun)
				if callee == "digest.WriteString" && len(ce.Args) == 1 {
					v, ok := faStr(faPkg, ce.Args[0])
					if !ok {
						bad = "non-constant WriteString argument"
					}
					items = append(items, fmt.Sprintf("(%d, 0, %s)", guarded, bytesLit([]byte(v))))
					desc = append(desc, strconv.Quote(v))
				} else if callee == "digest.Write" && len(ce.Args) == 1 {
					a := faNorm(printNode(p.fset, ce.Args[0]))
					c, ok := classes[a]
					if !ok {
						bad = "unknown digest source " + a
					}
					items = append(items, fmt.Sprintf("(%d, 1, [%d])", guarded, c))
					desc = append(desc, a)
				}
			case *ast.IfStmt:
				if strings.Contains(printNode(p.fset, x.Cond), "i.axci") {
					walk(x.Body.List, 1)
				}
			}
		}
	}
	walk(fd.Body.List, 0)
	if bad != "" || len(items) == 0 {
		o.brokenDef(coqName, "digest blob assembly not recognised: "+bad)
		return
	}
	o.f("Definition %s : list (Z * Z * list Z) := [%s].\n(* from %s:AppxDigest.writeSignature : %s *)\n", coqName, strings.Join(items, "; "), faPkg, strings.Join(desc, " "))
}

// faLoopShape: the for statement of fn that contains a call of `callee`: has it a condition; the printed argument #arg of the call
func faLoopOf(p *pkgInfo, fd *ast.FuncDecl, callee string) *ast.ForStmt {
	var found *ast.ForStmt
	ast.Inspect(fd.Body, func(n ast.Node) bool {
		if fs, ok := n.(*ast.ForStmt); ok && found == nil {
			has := false
			ast.Inspect(fs.Body, func(m ast.Node) bool {
				if ce, ok := m.(*ast.CallExpr); ok && printNode(p.fset, ce.Fun) == callee {
					has = true
				}
				return !has
			})
			if has {
				found = fs
			}
		}
		return found == nil
	})
	return found
}

// faGoroot: GOROOT of the toolchain that builds the harness (the same library code runs under relic)
func faGoroot() string {
	cmd := exec.Command("go", "env", "GOROOT")
	cmd.Env = append(os.Environ(), "GOFLAGS=-mod=mod", "GOPROXY=off", "GOSUMDB=off", "GOTOOLCHAIN=local")
	outb, err := cmd.Output()
	if err == nil && strings.TrimSpace(string(outb)) != "" {
		return strings.TrimSpace(string(outb))
	}
	return os.Getenv("GOROOT")
}

// faLibFile parses one file of the standard library.
func faLibFile(rel string) (*token.FileSet, *ast.File) {
	fset := token.NewFileSet()
	f, err := parser.ParseFile(fset, filepath.Join(faGoroot(), "src", rel), nil, 0)
	if err != nil {
		return fset, nil
	}
	return fset, f
}

// faFieldUpdates: assignments `<prefix>.<Field> = expr` in fn, in order: (offset, width, value) with offsets taken from the
// struct layout definitions of Generated/C17_gen.v (layout prefix lp), expr translated with fs' leaves.
func (o *out) faFieldUpdates(fs funcSpec, prefix, lp string) {
	p, fd := findFunc(fs.dir, fs.recv, fs.name)
	if fd == nil {
		o.brokenDef(fs.coqName, "function "+fs.dir+":"+fs.recv+"."+fs.name+" not found")
		return
	}
	t := o.newTr(p, fs)
	var items, desc []string
	ast.Inspect(fd.Body, func(n ast.Node) bool {
		as, ok := n.(*ast.AssignStmt)
		if !ok || as.Tok != token.ASSIGN || len(as.Lhs) != 1 || len(as.Rhs) != 1 {
			return true
		}
		se, ok := as.Lhs[0].(*ast.SelectorExpr)
		if !ok || printNode(p.fset, se.X) != prefix {
			return true
		}
		items = append(items, fmt.Sprintf("(%s_off_%s, %s_w_%s, %s)", lp, se.Sel.Name, lp, se.Sel.Name, t.expr(as.Rhs[0])))
		desc = append(desc, faNorm(printNode(p.fset, as)))
		return true
	})
	if t.err != nil {
		o.brokenDef(fs.coqName, t.err.Error())
		return
	}
	o.f("Definition %s %s : list (Z * Z * Z) := [%s].\n(* from %s:%s.%s : %s *)\n", fs.coqName, fs.params, strings.Join(items, "; "), fs.dir, fs.recv, fs.name, strings.Join(desc, " ; "))
}

// faArgStr: the constant string given as argument #arg of the nth call of callee in fn, as a byte list.
func (o *out) faArgStr(dir, recv, fn, callee string, nth, arg int, coqName string) {
	p, fd := findFunc(dir, recv, fn)
	if fd == nil {
		o.brokenDef(coqName, "function "+dir+":"+recv+"."+fn+" not found")
		return
	}
	cs := faCalls(p, fd, callee)
	if nth >= len(cs) || arg >= len(cs[nth].Args) {
		o.brokenDef(coqName, fmt.Sprintf("no call #%d of %s with %d arguments in %s", nth, callee, arg+1, fn))
		return
	}
	v, ok := faStr(dir, cs[nth].Args[arg])
	if !ok {
		o.brokenDef(coqName, "argument is not a constant string: "+printNode(p.fset, cs[nth].Args[arg]))
		return
	}
	o.f("Definition %s : list Z := %s. (* %s:%s.%s : %s(...) argument %d = %q *)\n", coqName, bytesLit([]byte(v)), dir, recv, fn, callee, arg, v)
}

func init() {
	generators["FmtAPPX_gen"] = func(o *out) {
		o.f("From Relic Require Import Generated.C17_gen.\n\n")
		// ------------------------------------------------------------ names, magic, tables
		o.constInt(faPkg, "blockMapSize", "appx_blockmap_size")
		for _, c := range [][2]string{{"appxSignature", "appx_n_signature"}, {"appxCodeIntegrity", "appx_n_codeintegrity"}, {"appxBlockMap", "appx_n_blockmap"},
			{"appxManifest", "appx_n_manifest"}, {"appxContentTypes", "appx_n_contenttypes"}, {"bundleManifestFile", "appx_n_bundlemanifest"},
			{"octetStreamType", "appx_ct_octet"}, {"bundleManifestType", "appx_ct_bundle"}} {
			o.faConstStr(faPkg, c[0], c[1])
		}
		o.faMapLit(faPkg, "noHashFiles", "appx_nohash_names", false)
		o.faMapLit(faPkg, "defaultExtensions", "appx_ct_default_ext", true)
		o.faMapLit(faPkg, "defaultOverrides", "appx_ct_default_ovr", true)
		nameLeaves := map[string]string{"appxSignature": "appx_n_signature", "appxCodeIntegrity": "appx_n_codeintegrity", "appxBlockMap": "appx_n_blockmap",
			"appxManifest": "appx_n_manifest", "appxContentTypes": "appx_n_contenttypes", "bundleManifestFile": "appx_n_bundlemanifest"}
		with := func(extra map[string]string) map[string]string {
			m := map[string]string{}
			for k, v := range nameLeaves {
				m[k] = v
			}
			for k, v := range extra {
				m[k] = v
			}
			return m
		}

		// ------------------------------------------------------------ the digest blob: writeSignature (marshal) / readSignature (parse)
		o.faBlobProgram("appx_blob_program")
		o.condOf(funcSpec{dir: faPkg, recv: "AppxDigest", name: "writeSignature", coqName: "appx_blob_axci_present", params: "(axci_len : Z)", retType: "bool",
			leaves: map[string]string{"len(i.axci)": "axci_len"}}, "if:i.axci")
		o.faArgs(faPkg, "AppxDigest", "writeSignature", "WriteDirectory", 0, []string{"axcd", "axcd", "true"}, "appx_axcd_is_forced_zip64_single_writer")
		o.faArgStr(faPkg, "AppxDigest", "writeSignature", "copy", 0, 1, "appx_pkcx_magic")
		o.hasStmt(faPkg, "AppxDigest", "writeSignature", "pkcx = append(pkcx, ts.Raw...)", "appx_pkcx_appends_pkcs7")
		o.faArgs(faPkg, "AppxDigest", "writeSignature", "addZipEntry", 0, []string{"appxSignature", "pkcx"}, "appx_sig_entry_args")
		rsL := map[string]string{"len(digests)": "n", "hash.Size()": "hs"}
		rs := func(coq, params, ret string) funcSpec {
			return funcSpec{dir: faPkg, name: "readSignature", coqName: coq, params: params, retType: ret, leaves: rsL}
		}
		o.faArgStr(faPkg, "", "readSignature", "HasPrefix", 0, 1, "appx_parse_pkcx")
		o.faArgStr(faPkg, "", "readSignature", "HasPrefix", 1, 1, "appx_parse_magic")
		o.faSlice(rs("appx_parse_pkcx_skip", "", "Z"), "blob", 0)
		o.faSlice(rs("appx_parse_magic_skip", "", "Z"), "digests", 0)
		o.condOf(rs("appx_parse_more", "(n : Z)", "bool"), "for:len(digests)")
		o.condOf(rs("appx_parse_short", "(n hs : Z)", "bool"), "if:len(digests) <")
		o.faSlice(rs("appx_parse_name", "(hs : Z)", "Z"), "digests", 1)
		o.faSlice(rs("appx_parse_value", "(hs : Z)", "Z"), "digests", 2)
		o.faSlice(rs("appx_parse_next", "(hs : Z)", "Z"), "digests", 3)
		o.hasStmt(faPkg, "", "readSignature", "digestmap[name] = digests[4 : 4+hash.Size()]", "appx_parse_map_last_wins")

		// ------------------------------------------------------------ blockMap.AddFile: what reaches the raw (AXPC) writer, and how far the member is read
		{
			p, fd := findFunc(faPkg, "blockMap", "AddFile")
			if fd == nil {
				o.brokenDef("appx_addfile_loop_has_cond", "function AddFile not found")
			} else if loop := faLoopOf(p, fd, "io.CopyN"); loop == nil {
				o.brokenDef("appx_addfile_loop_has_cond", "no for loop around io.CopyN in AddFile")
			} else {
				o.f("Definition appx_addfile_loop_has_cond : bool := %v. (* %s:blockMap.AddFile : the loop around io.CopyN is `for %s {` *)\n", loop.Cond != nil, faPkg,
					func() string {
						if loop.Cond == nil {
							return ""
						}
						return printNode(p.fset, loop.Cond)
					}())
				brk := false
				ast.Inspect(loop.Body, func(n ast.Node) bool {
					if is, ok := n.(*ast.IfStmt); ok && faNorm(printNode(p.fset, is.Cond)) == "err == io.EOF" && len(is.Body.List) == 1 {
						if b, ok := is.Body.List[0].(*ast.BranchStmt); ok && b.Tok == token.BREAK {
							brk = true
						}
					}
					return true
				})
				o.f("Definition appx_addfile_break_on_eof : bool := %v. (* %s:blockMap.AddFile : `if err == io.EOF { break }` inside that loop *)\n", brk, faPkg)
			}
		}
		o.faArgClasses(faPkg, "blockMap", "AddFile", "io.CopyN", 2, map[string]int{"blockMapSize": 0}, "appx_addfile_copyn_limit")
		o.faArgClasses(faPkg, "blockMap", "AddFile", "raw.Write", 0, map[string]int{"lfh": 0, "dd": 2}, "appx_addfile_raw_writes")
		o.faArgClasses(faPkg, "blockMap", "AddFile", "f.OpenAndTeeRaw", 0, map[string]int{"raw": 1}, "appx_addfile_tee_arg")
		o.callOrder(faPkg, "blockMap", "AddFile", "appx_addfile_calls", []string{"GetLocalHeader", "raw.Write", "OpenAndTeeRaw", "CopyN", "rc.Close", "GetDataDescriptor"})
		afL := map[string]string{"noHashFiles[f.Name]": "nohash", "f.Name": "name", "f.Method": "method", "zip.Store": "0", "n": "n"}
		afT := map[string]string{"noHashFiles[f.Name]": "bool", "strings.HasSuffix()": "bool"}
		af := func(coq, params, ret string) funcSpec {
			return funcSpec{dir: faPkg, recv: "blockMap", name: "AddFile", coqName: coq, params: params, retType: ret, leaves: afL, types: afT, calls: map[string]string{"strings.HasSuffix": "appx_has_suffix"}}
		}
		o.f("Definition appx_has_suffix (s suf : list Z) : bool := list_eqb Z.eqb (skipn (length s - length suf)%%nat s) suf && (length suf <=? length s)%%nat.\n")
		o.condOf(af("appx_addfile_listed", "(nohash : bool) (name : list Z)", "bool"), "if:noHashFiles")
		o.condOf(af("appx_addfile_sizes_unverified", "(method : Z)", "bool"), "if:f.Method")
		o.condOf(af("appx_addfile_block_recorded", "(n : Z)", "bool"), "if:n >")
		o.hasStmt(faPkg, "blockMap", "AddFile", "bmf.LfhSize = len(lfh)", "appx_addfile_lfhsize_is_len")
		o.hasStmt(faPkg, "blockMap", "AddFile", "bmf.Size += uint64(n)", "appx_addfile_size_accumulates")
		o.hasStmt(faPkg, "blockMap", "AddFile", "bmf.Block = append(bmf.Block, block{Hash: hash})", "appx_addfile_block_without_size")
		o.faArgs(faPkg, "", "zipToDos", "ReplaceAll", 0, []string{"name", "\"/\"", "\"\\\\\""}, "appx_ziptodos_slash_to_backslash")
		o.faArgs(faPkg, "", "dosToZip", "ReplaceAll", 0, []string{"name", "\"\\\\\"", "\"/\""}, "appx_dostozip_backslash_to_slash")
		// CopySizes / Marshal
		csL := with(map[string]string{"zipName": "zip_name", "i": "i", "len(b.File)": "nfiles", "len(oldf.Block)": "nold", "len(newf.Block)": "nnew", "newf.Name": "new_name", "oldf.Name": "old_name"})
		csT := map[string]string{"zipName": "str", "newf.Name": "str", "oldf.Name": "str"}
		cs := func(coq, params, ret string) funcSpec {
			return funcSpec{dir: faPkg, recv: "blockMap", name: "CopySizes", coqName: coq, params: params, retType: ret, leaves: csL, types: csT}
		}
		o.condOf(cs("appx_copysizes_skip", "(zip_name : list Z)", "bool"), "if:zipName")
		o.condOf(cs("appx_copysizes_too_many", "(i nfiles : Z)", "bool"), "if:len(b.File)")
		o.condOf(cs("appx_copysizes_name_differs", "(new_name old_name : list Z)", "bool"), "if:newf.Name")
		o.condOf(cs("appx_copysizes_more_blocks", "(nold nnew : Z)", "bool"), "if:len(oldf.Block)")
		o.hasStmt(faPkg, "blockMap", "CopySizes", "newf.Block[j].Size = oldblock.Size", "appx_copysizes_copies_size")
		o.hasStmt(faPkg, "blockMap", "CopySizes", "b.unverifiedSizes = false", "appx_copysizes_clears_flag")
		o.hasStmt(faPkg, "blockMap", "CopySizes", "newf := &b.File[i]", "appx_copysizes_by_index")
		o.condOf(funcSpec{dir: faPkg, recv: "blockMap", name: "Marshal", coqName: "appx_marshal_refuses", params: "(unverified : bool)", retType: "bool",
			leaves: map[string]string{"b.unverifiedSizes": "unverified"}, types: map[string]string{"b.unverifiedSizes": "bool"}}, "if:b.unverifiedSizes")

		// ------------------------------------------------------------ zipslicer: where the tee sits, what the member reader checks at EOF
		o.callOrder(faZip, "File", "OpenAndTeeRaw", "appx_tee_calls", []string{"NewSectionReader", "TeeReader", "NopCloser", "flate.NewReader"})
		o.faArgs(faZip, "File", "OpenAndTeeRaw", "io.NewSectionReader", 0, []string{"f.r", "pos", "int64(f.CompressedSize)"}, "appx_tee_section_is_csize")
		o.faArgs(faZip, "File", "OpenAndTeeRaw", "io.TeeReader", 0, []string{"r", "sink"}, "appx_tee_args")
		o.faArgs(faZip, "File", "OpenAndTeeRaw", "flate.NewReader", 0, []string{"r"}, "appx_inflater_over_tee")
		{
			_, ccs := faSwitch(faZip, "File", "OpenAndTeeRaw", 0)
			var ms []string
			ok := ccs != nil
			for _, cc := range ccs {
				for _, e := range cc.List {
					switch printNode(token.NewFileSet(), e) {
					case "zip.Store":
						ms = append(ms, "0")
					case "zip.Deflate":
						ms = append(ms, "8")
					default:
						ok = false
					}
				}
			}
			if !ok {
				o.brokenDef("appx_methods", "method switch of OpenAndTeeRaw not recognised")
			} else {
				o.f("Definition appx_methods : list Z := [%s]. (* %s:File.OpenAndTeeRaw : switch f.Method *)\n", strings.Join(ms, "; "), faZip)
			}
		}
		rdL := map[string]string{"r.nread": "nread", "r.f.UncompressedSize": "usize", "r.f.CRC32": "crc", "r.crc.Sum32()": "sum", "r.f.lfh.Flags": "flags"}
		rd := func(coq, params, ret string) funcSpec {
			return funcSpec{dir: faZip, recv: "Reader", name: "Read", coqName: coq, params: params, retType: ret, leaves: rdL}
		}
		o.condOf(rd("appx_reader_size_mismatch", "(nread usize : Z)", "bool"), "if:r.nread")
		o.condOf(rd("appx_reader_crc_mismatch", "(crc sum : Z)", "bool"), "if:r.crc.Sum32")
		// what Read does once the decompressor reports EOF, in source order: 0 size check, 1 the rest of the raw stream is pulled
		// through the tee (io.Copy(io.Discard, r.raw)), 2 data descriptor, 3 CRC
		{
			p, fd := findFunc(faZip, "Reader", "Read")
			var steps, desc []string
			if fd != nil {
				ast.Inspect(fd.Body, func(n ast.Node) bool {
					is, ok := n.(*ast.IfStmt)
					if !ok {
						return true
					}
					c := faNorm(printNode(p.fset, is.Cond))
					body := faNorm(printNode(p.fset, is.Body))
					k := -1
					switch {
					case c == "r.nread != r.f.UncompressedSize":
						k = 0
					case c == "r.raw != nil" && strings.Contains(body, "io.Copy(io.Discard, r.raw)"):
						k = 1
					case strings.Contains(c, "r.f.lfh.Flags") && strings.Contains(body, "readDataDesc"):
						k = 2
					case strings.Contains(c, "r.crc.Sum32()"):
						k = 3
					}
					if k >= 0 {
						steps = append(steps, strconv.Itoa(k))
						desc = append(desc, c)
					}
					return true
				})
			}
			if len(steps) == 0 {
				o.brokenDef("appx_reader_eof_steps", "EOF handling of Reader.Read not recognised")
			} else {
				o.f("Definition appx_reader_eof_steps : list Z := [%s]. (* %s:Reader.Read after the decompressor's EOF: %s *)\n", strings.Join(steps, "; "), faZip, strings.Join(desc, " | "))
			}
		}
		o.hasStmt(faZip, "File", "OpenAndTeeRaw", "raw = r", "appx_tee_is_kept_for_draining")
		o.hasStmt(faZip, "File", "OpenAndTeeRaw", "return &Reader{f: f, rc: rc, crc: crc, raw: raw}, nil", "appx_reader_gets_tee")
		// the bufio.Reader compress/flate wraps around a reader that is not an io.ByteReader, and its buffer size
		{
			_, bf := faLibFile("bufio/bufio.go")
			done := false
			if bf != nil {
				for _, d := range bf.Decls {
					gd, ok := d.(*ast.GenDecl)
					if !ok || gd.Tok != token.CONST {
						continue
					}
					for _, s := range gd.Specs {
						vs := s.(*ast.ValueSpec)
						for i, n := range vs.Names {
							if n.Name == "defaultBufSize" && i < len(vs.Values) {
								if bl, ok := vs.Values[i].(*ast.BasicLit); ok && bl.Kind == token.INT {
									o.f("Definition appx_bufio_size : Z := %s. (* GOROOT/src/bufio/bufio.go defaultBufSize *)\n", bl.Value)
									done = true
								}
							}
						}
					}
				}
			}
			if !done {
				o.brokenDef("appx_bufio_size", "bufio.defaultBufSize not found in GOROOT")
			}
			fset, ff := faLibFile("compress/flate/inflate.go")
			wraps := false
			if ff != nil {
				ast.Inspect(ff, func(n ast.Node) bool {
					if fd, ok := n.(*ast.FuncDecl); ok && fd.Name.Name == "makeReader" && fd.Body != nil {
						ast.Inspect(fd.Body, func(m ast.Node) bool {
							if ce, ok := m.(*ast.CallExpr); ok && faNorm(printNode(fset, ce)) == "bufio.NewReader(r)" {
								wraps = true
							}
							return true
						})
					}
					return true
				})
			}
			o.f("Definition appx_inflater_wraps_bufio : bool := %v. (* GOROOT/src/compress/flate/inflate.go makeReader wraps a reader that is no io.ByteReader in bufio.NewReader(r) *)\n", wraps)
		}

		// ------------------------------------------------------------ DigestAppxTar: which members are digested, where the patch starts
		{
			_, ccs := faSwitch(faPkg, "", "DigestAppxTar", 0)
			if len(ccs) < 2 {
				o.brokenDef("appx_footprint_names", "first switch of DigestAppxTar not recognised")
			} else if names, ok := faNames(faPkg, ccs[0].List); !ok || ccs[1].List != nil {
				o.brokenDef("appx_footprint_names", "first switch of DigestAppxTar: non-constant case or missing default")
			} else {
				o.f("Definition appx_footprint_names : list (list Z) := %s. (* %s:.DigestAppxTar first switch: %s *)\n", faNameList(names), faPkg, strings.Join(names, " "))
			}
			p, ccs2 := faSwitch(faPkg, "", "DigestAppxTar", 1)
			if ccs2 == nil {
				o.brokenDef("appx_footprint_actions", "second switch of DigestAppxTar not found")
			} else {
				var items, desc []string
				ok := true
				for _, cc := range ccs2 {
					body := ""
					for _, s := range cc.Body {
						body += faNorm(printNode(p.fset, s)) + ";"
					}
					class := 99
					switch {
					case strings.Contains(body, "parseManifest(blob)") && strings.Contains(body, "info.manifest = manifest"):
						class = 0
					case strings.Contains(body, "parseBundle(blob)") && strings.Contains(body, "info.bundle = manifest"):
						class = 1
					case strings.Contains(body, "info.blockMap.CopySizes(blob)"):
						class = 2
					case strings.Contains(body, "info.contentTypes.Parse(blob)"):
						class = 3
					case len(cc.Body) == 0 && cc.List != nil:
						class = 4
					case cc.List == nil && strings.Contains(body, "return nil, fmt.Errorf"):
						class = 5
					}
					if cc.List == nil {
						items = append(items, fmt.Sprintf("([], %d)", class))
						desc = append(desc, fmt.Sprintf("default->%d", class))
						continue
					}
					names, nok := faNames(faPkg, cc.List)
					ok = ok && nok
					items = append(items, fmt.Sprintf("(%s, %d)", faNameList(names), class))
					desc = append(desc, fmt.Sprintf("%s->%d", strings.Join(names, ","), class))
				}
				if !ok {
					o.brokenDef("appx_footprint_actions", "non-constant case in the second switch of DigestAppxTar")
				} else {
					o.f("Definition appx_footprint_actions : list (list (list Z) * Z) := [%s].\n(* %s:.DigestAppxTar second switch (0 manifest 1 bundle manifest 2 CopySizes 3 content types 4 discard 5 out of order): %s *)\n",
						strings.Join(items, "; "), faPkg, strings.Join(desc, " "))
				}
			}
		}
		dtL := map[string]string{"f.Offset": "offset", "pos": "pos", "inz.Size": "size", "info.patchStart": "patch_start",
			"info.manifest == nil": "manifest_nil", "info.bundle == nil": "bundle_nil"}
		dtT := map[string]string{"info.manifest == nil": "bool", "info.bundle == nil": "bool"}
		dt := func(coq, params, ret string) funcSpec {
			return funcSpec{dir: faPkg, name: "DigestAppxTar", coqName: coq, params: params, retType: ret, leaves: dtL, types: dtT}
		}
		o.condOf(dt("appx_footprint_gap", "(offset pos : Z)", "bool"), "if:f.Offset")
		o.exprOfAssign(dt("appx_patch_start", "(offset : Z)", "Z"), "info.patchStart", 0)
		o.exprOfAssign(dt("appx_patch_len", "(size patch_start : Z)", "Z"), "info.patchLen", 0)
		o.condOf(dt("appx_missing_manifest", "(manifest_nil bundle_nil : bool)", "bool"), "if:info.manifest")
		o.callOrder(faPkg, "", "DigestAppxTar", "appx_digest_calls", []string{"SetHash", "ReadZipTar", "digestFile", "CheckContiguous", "AddFile", "readSlicerFile"})
		o.hasStmt(faPkg, "", "DigestAppxTar", "idx := len(info.outz.File)", "appx_footprint_starts_after_kept")
		o.hasStmt(faPkg, "", "DigestAppxTar", "info.mtime = f.ModTime()", "appx_mtime_from_payload")
		o.faArgs(faPkg, "AppxDigest", "digestFile", "i.blockMap.AddFile", 0, []string{"f", "i.axpc", "sink"}, "appx_digestfile_feeds_axpc")

		// ------------------------------------------------------------ Sign: order of the appended members, the patch
		o.callOrder(faPkg, "AppxDigest", "Sign", "appx_sign_calls", []string{"writeManifest", "writeBlockMap", "writeContentTypes", "writeCodeIntegrity", "writeSignature", "WriteDirectory", "patch.Add"})
		o.faArgs(faPkg, "AppxDigest", "Sign", "WriteDirectory", 0, []string{"w", "w", "true"}, "appx_sign_directory_forced_zip64_single_writer")
		o.faArgs(faPkg, "AppxDigest", "Sign", "patch.Add", 0, []string{"i.patchStart", "i.patchLen", "i.patchBuf.Bytes()"}, "appx_sign_patch_is_tail")
		o.hasStmt(faPkg, "AppxDigest", "Sign", "w := &i.patchBuf", "appx_sign_directory_into_patch")
		azL := with(map[string]string{"name": "name"})
		azT := map[string]string{"name": "str"}
		az := func(coq string) funcSpec {
			return funcSpec{dir: faPkg, recv: "AppxDigest", name: "addZipEntry", coqName: coq, params: "(name : list Z)", retType: "bool", leaves: azL, types: azT}
		}
		o.exprOfAssign(az("appx_entry_deflate"), "deflate", 0)
		o.exprOfAssign(az("appx_entry_use_desc"), "useDesc", 0)
		o.faArgs(faPkg, "AppxDigest", "addZipEntry", "NewFile", 0, []string{"name", "nil", "contents", "&i.patchBuf", "i.mtime", "deflate", "useDesc"}, "appx_entry_newfile_args")
		o.faArgs(faPkg, "AppxDigest", "addZipEntry", "AddFile", 0, []string{"f", "i.axpc", "nil"}, "appx_entry_feeds_axpc")
		for _, w := range [][4]string{{"writeBlockMap", "blockmap", "i.axbm", "appx_axbm_is_plain_blockmap"}, {"writeContentTypes", "ctypes", "i.axct", "appx_axct_is_plain_ctypes"},
			{"writeCodeIntegrity", "catalog", "i.axci", "appx_axci_is_plain_catalog"}} {
			p, fd := findFunc(faPkg, "AppxDigest", w[0])
			ok := false
			if fd != nil {
				wr := faCalls(p, fd, "d.Write")
				sum := false
				ast.Inspect(fd.Body, func(n ast.Node) bool {
					if as, isAs := n.(*ast.AssignStmt); isAs && faNorm(printNode(p.fset, as)) == w[2]+" = d.Sum(nil)" {
						sum = true
					}
					return true
				})
				ok = len(wr) == 1 && len(wr[0].Args) == 1 && printNode(p.fset, wr[0].Args[0]) == w[1] && sum
			}
			o.f("Definition %s : bool := %v. (* %s:AppxDigest.%s : d.Write(%s); %s = d.Sum(nil) *)\n", w[3], ok, faPkg, w[0], w[1], w[2])
		}
		o.faArgs(faPkg, "AppxDigest", "writeBlockMap", "addZipEntry", 0, []string{"appxBlockMap", "blockmap"}, "appx_blockmap_entry_args")
		o.faArgs(faPkg, "AppxDigest", "writeContentTypes", "addZipEntry", 0, []string{"appxContentTypes", "ctypes"}, "appx_ctypes_entry_args")
		o.faArgs(faPkg, "AppxDigest", "writeCodeIntegrity", "addZipEntry", 0, []string{"appxCodeIntegrity", "catalog"}, "appx_catalog_entry_args")
		o.condOf(funcSpec{dir: faPkg, recv: "AppxDigest", name: "writeCodeIntegrity", coqName: "appx_no_catalog", params: "(npe : Z)", retType: "bool",
			leaves: map[string]string{"len(i.peDigests)": "npe"}}, "if:i.peDigests")
		wcL := with(map[string]string{"f.Name": "name", "len(i.peDigests)": "npe"})
		o.condOf(funcSpec{dir: faPkg, recv: "AppxDigest", name: "writeContentTypes", coqName: "appx_ctypes_adds_member", params: "(name : list Z)", retType: "bool",
			leaves: wcL, types: map[string]string{"f.Name": "str"}}, "if:f.Name")
		o.condOf(funcSpec{dir: faPkg, recv: "AppxDigest", name: "writeContentTypes", coqName: "appx_ctypes_adds_catalog", params: "(npe : Z)", retType: "bool", leaves: wcL}, "if:i.peDigests")
		o.faArgClasses(faPkg, "AppxDigest", "writeContentTypes", "i.contentTypes.Add", 0, map[string]int{"f.Name": 0, "appxCodeIntegrity": 1, "appxSignature": 2}, "appx_ctypes_add_order")
		o.condOf(funcSpec{dir: faPkg, recv: "AppxDigest", name: "writeManifest", coqName: "appx_manifest_is_package", params: "(manifest_nil : bool)", retType: "bool",
			leaves: map[string]string{"i.manifest != nil": "(negb manifest_nil)"}, types: map[string]string{"i.manifest != nil": "bool"}}, "if:i.manifest")

		// ------------------------------------------------------------ Verify: order, the three plain-content digests, verifyMeta, Truncate
		o.callOrder(faPkg, "", "Verify", "appx_verify_calls", []string{"readSignature", "verifyFile", "verifyBlockMap", "verifyCatalog", "verifyMeta", "verifyBundle", "checkManifest"})
		{
			p, fd := findFunc(faPkg, "", "Verify")
			var items, desc []string
			ok := fd != nil
			if fd != nil {
				for _, ce := range faCalls(p, fd, "verifyFile") {
					if len(ce.Args) != 4 {
						ok = false
						continue
					}
					tag, ok1 := faStr(faPkg, ce.Args[2])
					name, ok2 := faStr(faPkg, ce.Args[3])
					ok = ok && ok1 && ok2
					items = append(items, "("+bytesLit([]byte(tag))+", "+bytesLit([]byte(name))+")")
					desc = append(desc, tag+"="+name)
				}
			}
			if !ok || len(items) == 0 {
				o.brokenDef("appx_verify_files", "verifyFile calls of Verify not recognised")
			} else {
				o.f("Definition appx_verify_files : list (list Z * list Z) := [%s]. (* %s:.Verify : verifyFile(files, sig, tag, name): %s *)\n", strings.Join(items, "; "), faPkg, strings.Join(desc, " "))
			}
		}
		vfL := map[string]string{"zf == nil": "zf_nil", "expected == nil": "exp_nil"}
		vfT := map[string]string{"zf == nil": "bool", "expected == nil": "bool"}
		vf := func(coq, params string) funcSpec {
			return funcSpec{dir: faPkg, name: "verifyFile", coqName: coq, params: params, retType: "bool", leaves: vfL, types: vfT}
		}
		o.condOf(vf("appx_vfile_absent", "(zf_nil : bool)"), "if:zf", 0)
		o.condOf(vf("appx_vfile_absent_ok", "(exp_nil : bool)"), "if:expected", 0)
		o.condOf(vf("appx_vfile_unsigned", "(exp_nil : bool)"), "if:expected", 1)
		o.faArgs(faPkg, "", "verifyFile", "io.Copy", 0, []string{"d", "r"}, "appx_vfile_hashes_plain_content")
		vmL := with(map[string]string{"f.Name": "name", "sigIdx": "sig_idx"})
		vm := func(coq, params string) funcSpec {
			return funcSpec{dir: faPkg, name: "verifyMeta", coqName: coq, params: params, retType: "bool", leaves: vmL, types: map[string]string{"f.Name": "str"}}
		}
		{
			// verifyCatalog: a package without a catalog member is accepted (verifyFile has compared presence with AXCI)
			p, fd := findFunc(faPkg, "", "verifyCatalog")
			ok := false
			if fd != nil && len(fd.Body.List) > 0 {
				if is, isIf := fd.Body.List[0].(*ast.IfStmt); isIf && faNorm(printNode(p.fset, is.Cond)) == "zf == nil" && len(is.Body.List) == 1 {
					ok = faNorm(printNode(p.fset, is.Body.List[0])) == "return nil"
				}
			}
			o.f("Definition appx_catalog_absent_ok : bool := %v. (* %s:.verifyCatalog begins with `if zf == nil { return nil }` *)\n", ok, faPkg)
		}
		o.condOf(vm("appx_meta_is_sig", "(name : list Z)"), "if:f.Name")
		o.condOf(vm("appx_meta_after_sig", "(sig_idx : Z)"), "if:sigIdx")
		o.faArgs(faPkg, "", "verifyMeta", "dir.Truncate", 0, []string{"sigIdx", "sink", "axcd"}, "appx_meta_truncates_at_sig")
		{
			p, fd := findFunc(faPkg, "", "verifyMeta")
			var tags []string
			if fd != nil {
				ast.Inspect(fd.Body, func(n ast.Node) bool {
					if ie, ok := n.(*ast.IndexExpr); ok && printNode(p.fset, ie.X) == "sig.HashValues" {
						if s, ok := faStr(faPkg, ie.Index); ok {
							tags = append(tags, s)
						}
					}
					return true
				})
			}
			if len(tags) == 0 {
				o.brokenDef("appx_meta_tags", "sig.HashValues[...] lookups of verifyMeta not found")
			} else {
				o.f("Definition appx_meta_tags : list (list Z) := %s. (* %s:.verifyMeta : sig.HashValues[..]: %s *)\n", faNameList(tags), faPkg, strings.Join(tags, " "))
			}
		}
		trL := map[string]string{"n": "n", "size": "size", "cdOffset": "cd_offset", "d.end64.Signature": "end64_sig", "d.File[n].Offset": "sig_offset"}
		trC := map[string]string{"uint16": "u16", "uint32": "u32"}
		trf := func(coq, params, ret string) funcSpec {
			return funcSpec{dir: faZip, recv: "Directory", name: "Truncate", coqName: coq, params: params, retType: ret, leaves: trL, calls: trC}
		}
		o.exprOfAssign(trf("appx_trunc_cd_offset", "(sig_offset : Z)", "Z"), "cdOffset", 0)
		o.condOf(trf("appx_trunc_is_zip64", "(end64_sig : Z)", "bool"), "if:d.end64.Signature")
		o.condOf(trf("appx_trunc_too_big", "(cd_offset n : Z)", "bool"), "if:cdOffset >=")
		o.faFieldUpdates(trf("appx_trunc_end64_updates", "(n size cd_offset : Z)", ""), "end64", "e64")
		o.faFieldUpdates(trf("appx_trunc_loc_updates", "(n size cd_offset : Z)", ""), "loc", "l64")
		o.faFieldUpdates(trf("appx_trunc_end_updates", "(n size cd_offset : Z)", ""), "end", "eocd")
		o.faArgClasses(faZip, "Directory", "Truncate", "binary.Write", 2, map[string]int{"end64": 3, "loc": 1, "end": 2}, "appx_trunc_write_order")
		o.hasStmt(faZip, "Directory", "Truncate", "for i := 0; i < n; i++ { f := d.File[i] fs, err := f.GetTotalSize() if err != nil { return err } if _, err := io.Copy(body, io.NewSectionReader(d.r, int64(f.Offset), fs)); err != nil { return err } }", "appx_trunc_body_is_member_extents")
		o.faArgs(faZip, "Directory", "Truncate", "io.NewSectionReader", 0, []string{"d.r", "int64(f.Offset)", "fs"}, "appx_trunc_extent_args")

		// verifyBlockMap: which members must be listed (the 64 KiB walk itself is unit C09's: bm_count_bad, bm_verify_clip)
		vbL := map[string]string{"noHashFiles[zf.Name]": "nohash", "isBundle": "is_bundle", "zf.Name": "name", "len(bmfiles)": "nleft", "bmf.Name": "bm_name", "name": "dos_name",
			"bmf.Size": "bm_size", "zf.UncompressedSize64": "usize", "remaining": "remaining"}
		vbT := map[string]string{"noHashFiles[zf.Name]": "bool", "isBundle": "bool", "strings.HasSuffix()": "bool", "bmf.Name": "str", "name": "str"}
		vb := func(coq, params string) funcSpec {
			return funcSpec{dir: faPkg, name: "verifyBlockMap", coqName: coq, params: params, retType: "bool", leaves: vbL, types: vbT, calls: map[string]string{"strings.HasSuffix": "appx_has_suffix"}}
		}
		o.condOf(vb("appx_vbm_skips", "(nohash is_bundle : bool) (name : list Z)"), "if:noHashFiles")
		o.condOf(vb("appx_vbm_unhashed", "(nleft : Z)"), "if:len(bmfiles)")
		o.condOf(vb("appx_vbm_name_differs", "(bm_name dos_name : list Z)"), "if:bmf.Name")
		o.condOf(vb("appx_vbm_size_differs", "(bm_size usize : Z)"), "if:bmf.Size")
		o.condOf(vb("appx_vbm_data_left", "(remaining : Z)"), "if:remaining >")
		o.hasStmt(faPkg, "", "verifyBlockMap", "isBundle := files[bundleManifestFile] != nil", "appx_vbm_bundle_by_manifest")

		// ------------------------------------------------------------ content types
		ctL := with(map[string]string{"name": "name", "ext": "ext"})
		ct := func(coq, params string) funcSpec {
			return funcSpec{dir: faPkg, recv: "ContentTypes", name: "Add", coqName: coq, params: params, retType: "bool", leaves: ctL, types: map[string]string{"name": "str"}}
		}
		o.condOf(ct("appx_ct_is_bundle_manifest", "(name : list Z)"), "if:name ==")
		o.hasStmt(faPkg, "ContentTypes", "Add", "c.ByExt[\"xml\"] = bundleManifestType", "appx_ct_bundle_sets_xml")
		o.hasStmt(faPkg, "ContentTypes", "Add", "oname := \"/\" + name", "appx_ct_partname_is_slash_name")
		o.hasStmt(faPkg, "ContentTypes", "Add", "ext := path.Ext(path.Base(name))", "appx_ct_ext_of_base")
		o.hasStmt(faPkg, "ContentTypes", "Add", "c.ByExt[ext] = octetStreamType", "appx_ct_unknown_ext_octet")
		o.hasStmt(faPkg, "ContentTypes", "Add", "c.ByOverride[oname] = octetStreamType", "appx_ct_noext_override_octet")
		for _, fp := range [][3]string{{faPkg, "", "DigestAppxTar"}, {faPkg, "AppxDigest", "digestFile"}, {faPkg, "AppxDigest", "Sign"}, {faPkg, "AppxDigest", "addZipEntry"},
			{faPkg, "AppxDigest", "writeManifest"}, {faPkg, "AppxDigest", "writeBlockMap"}, {faPkg, "AppxDigest", "writeContentTypes"}, {faPkg, "AppxDigest", "writeCodeIntegrity"},
			{faPkg, "AppxDigest", "writeSignature"}, {faPkg, "blockMap", "AddFile"}, {faPkg, "blockMap", "CopySizes"}, {faPkg, "blockMap", "Marshal"}, {faPkg, "", "verifyBlockMap"},
			{faPkg, "", "Verify"}, {faPkg, "", "readSignature"}, {faPkg, "", "verifyFile"}, {faPkg, "", "verifyMeta"}, {faPkg, "", "verifyCatalog"}, {faPkg, "", "verifyBundle"},
			{faPkg, "ContentTypes", "Add"}, {faPkg, "ContentTypes", "Parse"}, {faPkg, "ContentTypes", "Marshal"}, {faPkg, "ContentTypes", "Find"},
			{faZip, "File", "OpenAndTeeRaw"}, {faZip, "Reader", "Read"}, {faZip, "Directory", "Truncate"}} {
			fingerprint(fp[0], fp[1], fp[2])
		}
	}
}
