package main

import (
	"fmt"
	"go/ast"
	"go/constant"
	"go/token"
	"math"
	"sort"
	"strconv"
	"strings"
)

func init() {
	generators["C15_gen"] = func(o *out) {
		const w = "token/worker"
		o.constInt(w, "defaultRetries", "default_retries")
		o.constInt(w, "initialDelay", "initial_delay_ns")
		o.constMilli(w, "scaleFactor", "scale_factor_milli")
		o.constInt(w, "maxDelay", "max_delay_ns")
		o.constInt(w, "defaultTimeout", "default_timeout_ns")
		rl := map[string]string{"retries": "retries", "i": "i", "timeout": "timeout", "httperror.Temporary(err)": "temporary", "retry": "retry"}
		rt := map[string]string{"httperror.Temporary(err)": "bool", "retry": "bool"}
		o.condOf(funcSpec{dir: w, recv: "WorkerToken", name: "doRetry", coqName: "retry_use_default",
			params: "(retries : Z)", retType: "bool", leaves: rl, types: rt}, "if:retries", 0)
		o.condOf(funcSpec{dir: w, recv: "WorkerToken", name: "doRetry", coqName: "retry_loop_cond",
			params: "(i retries : Z)", retType: "bool", leaves: rl, types: rt}, "for:retries", 0)
		o.condOf(funcSpec{dir: w, recv: "WorkerToken", name: "doRetry", coqName: "retry_wait_first",
			params: "(i : Z)", retType: "bool", leaves: rl, types: rt}, "i != 0")
		o.condOf(funcSpec{dir: w, recv: "WorkerToken", name: "doRetry", coqName: "retry_is_retryable",
			params: "(temporary : bool)", retType: "bool", leaves: rl, types: rt}, "httperror.Temporary")
		o.condOf(funcSpec{dir: w, recv: "WorkerToken", name: "doRetry", coqName: "retry_give_up",
			params: "(retry : bool)", retType: "bool", leaves: rl, types: rt}, "retry", 0)
		const h = "internal/httperror"
		o.decisionFunc(funcSpec{dir: h, recv: "", name: "statusIsTemporary", coqName: "status_is_temporary",
			params: "(code : Z)", retType: "bool", leaves: map[string]string{"code": "code"}})
		o.callArgClasses(h, "", "Temporary", "temporary_classes", []string{"errors.As", "errors.Is"},
			map[string]int{"new(*os.SyscallError)": 1, "context.Canceled": 2, "context.DeadlineExceeded": 3, "io.ErrUnexpectedEOF": 4})
		const tc = "token/tokencache"
		cl := map[string]string{"cached.key != nil": "has_cached", "cached.expires.After(time.Now())": "fresh",
			"len(wantKeyID)": "want_len", "bytes.Equal(wantKeyID, haveKeyID)": "ids_equal", "c.expiry": "expiry"}
		ct := map[string]string{"cached.key != nil": "bool", "cached.expires.After(time.Now())": "bool", "bytes.Equal(wantKeyID, haveKeyID)": "bool"}
		o.condOf(funcSpec{dir: tc, recv: "Cache", name: "GetKey", coqName: "cache_entry_live",
			params: "(has_cached fresh : bool)", retType: "bool", leaves: cl, types: ct}, "cached.key")
		o.condOf(funcSpec{dir: tc, recv: "Cache", name: "GetKey", coqName: "cache_id_acceptable",
			params: "(want_len : Z) (ids_equal : bool)", retType: "bool", leaves: cl, types: ct}, "haveKeyID")
		o.condOf(funcSpec{dir: tc, recv: "Cache", name: "GetKey", coqName: "cache_may_store",
			params: "(expiry want_len : Z)", retType: "bool", leaves: cl, types: ct}, "c.expiry")
		const wc = "cmdline/workercmd"
		o.condOf(funcSpec{dir: wc, recv: "handler", name: "ServeHTTP", coqName: "handler_cookie_bad",
			params: "(cookie_equal : bool)", retType: "bool",
			leaves: map[string]string{"hmac.Equal([]byte(cookie), []byte(h.cookie))": "cookie_equal"},
			types:  map[string]string{"hmac.Equal([]byte(cookie), []byte(h.cookie))": "bool"}}, "cookie")
		fingerprint(w, "WorkerToken", "doRetry")
		fingerprint(w, "WorkerToken", "doOnce")
		fingerprint(wc, "handler", "ServeHTTP")
		fingerprint(wc, "handler", "handle")
		fingerprint(tc, "Cache", "GetKey")
		fingerprint(h, "", "Temporary")

		// ============================================================ (a) doRetry with time
		o.f("\n(* ---- doRetry with time: per-attempt timeout, float32 backoff arithmetic, statement skeleton ---- *)\n")
		tl := map[string]string{"time.Duration(t.tconf.Timeout)": "conf_timeout_s", "timeout": "timeout", "delay": "delay"}
		fcalls := map[string]string{"float32": "f32"}
		o.exprOfAssign(funcSpec{dir: w, recv: "WorkerToken", name: "doRetry", coqName: "retry_timeout_of_conf",
			params: "(conf_timeout_s : Z)", retType: "Z", leaves: tl}, "timeout", 0)
		o.condOf(funcSpec{dir: w, recv: "WorkerToken", name: "doRetry", coqName: "retry_timeout_use_default",
			params: "(timeout : Z)", retType: "bool", leaves: tl}, "if:timeout", 0)
		o.exprOfAssign(funcSpec{dir: w, recv: "WorkerToken", name: "doRetry", coqName: "retry_timeout_default",
			params: "", retType: "Z", leaves: tl}, "timeout", 1)
		o.exprOfAssign(funcSpec{dir: w, recv: "WorkerToken", name: "doRetry", coqName: "retry_retries_default",
			params: "", retType: "Z", leaves: tl}, "retries", 1)
		o.exprOfAssign(funcSpec{dir: w, recv: "WorkerToken", name: "doRetry", coqName: "retry_delay_init",
			params: "(f32 : Z -> Z)", retType: "Z", leaves: tl, calls: fcalls}, "delay", 0)
		o.c15AssignOp(w, "WorkerToken", "doRetry", "delay", 1, "scaleFactor", "retry_delay_scaled_by_factor")
		o.condOf(funcSpec{dir: w, recv: "WorkerToken", name: "doRetry", coqName: "retry_delay_over_cap",
			params: "(f32 : Z -> Z) (delay : Z)", retType: "bool", leaves: tl, calls: fcalls}, "if:delay", 0)
		o.exprOfAssign(funcSpec{dir: w, recv: "WorkerToken", name: "doRetry", coqName: "retry_delay_cap",
			params: "(f32 : Z -> Z)", retType: "Z", leaves: tl, calls: fcalls}, "delay", 2)
		o.c15Float32Const(w, "scaleFactor", "scale_f32")
		// errors as numbers: 0 = nil
		el := map[string]string{"baseCtx.Err()": "base_err", "err": "err", "nil": "0"}
		o.condOf(funcSpec{dir: w, recv: "WorkerToken", name: "doRetry", coqName: "retry_base_done",
			params: "(base_err : Z)", retType: "bool", leaves: el}, "if:baseCtx", 0)
		o.condOf(funcSpec{dir: w, recv: "WorkerToken", name: "doRetry", coqName: "retry_attempt_ok",
			params: "(err : Z)", retType: "bool", leaves: el}, "if:err ", 0)
		o.c15Skeleton(w, "WorkerToken", "doRetry", "retry_skeleton", []c15Pat{
			{1, "stmt", "retries := t.tconf.Retries"}, {2, "if", "retries"}, {3, "stmt", "retries = defaultRetries"},
			{4, "prefix", "timeout := "}, {5, "if", "timeout"}, {6, "stmt", "timeout = defaultTimeout"},
			{7, "stmt", "baseCtx := req.Context()"}, {8, "prefix", "delay := "}, {9, "stmt", "var last error"},
			{10, "for", "i,retries"}, {11, "if", "i"},
			{12, "stmt", "ctx, cancel := context.WithTimeout(baseCtx, time.Duration(delay))"}, {13, "stmt", "<-ctx.Done()"},
			{14, "stmt", "cancel()"}, {15, "if", "Err,baseCtx,nil"}, {16, "stmt", "return nil, baseCtx.Err()"},
			{17, "prefix", "delay *= "}, {18, "if", "delay,float32,maxDelay"}, {19, "prefix", "delay = "},
			{20, "stmt", "rresp, err := t.doOnce(req, timeout)"}, {21, "if", "err,nil"}, {22, "stmt", "return rresp, nil"},
			{23, "stmt", "var retry bool"}, {24, "if", "Temporary,err,httperror"}, {25, "stmt", "retry = true"},
			{26, "if", "As,KeyUsageError,err,errors,new,token"}, {27, "if", "As,ResponseError,e,err,errors,httperror,new"},
			{28, "if", "DeadlineExceeded,Is,context,err,errors"},
			{29, "if", "retry"}, {30, "stmt", "return nil, err"}, {31, "stmt", "last = err"}, {32, "stmt", "return nil, last"},
		}, []string{"log.Warn()", "t.observe(", "code = ", "code := ", "start := time.Now()"})
		o.c15Skeleton(w, "WorkerToken", "doOnce", "once_skeleton", []c15Pat{
			{1, "stmt", "ctx, cancel := context.WithTimeout(req.Context(), timeout)"}, {2, "stmt", "defer cancel()"},
			{3, "if", "GetBody,nil,req"}, {4, "stmt", "var err error"}, {5, "stmt", "req.Body, err = req.GetBody()"},
			{6, "if", "err,nil"}, {7, "stmt", "return nil, err"},
			{8, "stmt", "resp, err := http.DefaultClient.Do(req.WithContext(ctx))"}, {9, "stmt", "defer resp.Body.Close()"},
			{10, "if", "StatusCode,StatusOK,http,resp"}, {11, "stmt", "return nil, httperror.FromResponse(resp)"},
			{12, "stmt", "blob, err := io.ReadAll(resp.Body)"}, {13, "stmt", "rresp := new(workerrpc.Response)"},
			{14, "if", "Unmarshal,blob,err,json,nil,rresp"}, {15, "if", "Err,rresp"}, {16, "stmt", "return rresp, nil"},
			{17, "if", "Usage,rresp"}, {18, "stmt", "return nil, token.KeyUsageError{ Key: rresp.Key, Err: errors.New(rresp.Err), }"},
			{19, "stmt", "return nil, tokenError{Err: rresp.Err, Retryable: rresp.Retryable}"},
		}, nil)
		o.condOf(funcSpec{dir: w, recv: "WorkerToken", name: "doOnce", coqName: "once_status_bad",
			params: "(status : Z)", retType: "bool", leaves: map[string]string{"resp.StatusCode": "status"}}, "if:resp.StatusCode", 0)
		o.condOf(funcSpec{dir: w, recv: "WorkerToken", name: "doOnce", coqName: "once_reply_is_success",
			params: "(err_text : bytes)", retType: "bool", leaves: map[string]string{"rresp.Err": "err_text"},
			types: map[string]string{"rresp.Err": "str"}}, "if:rresp.Err", 0)
		o.condOf(funcSpec{dir: w, recv: "WorkerToken", name: "doOnce", coqName: "once_reply_is_usage",
			params: "(usage : bool)", retType: "bool", leaves: map[string]string{"rresp.Usage": "usage"},
			types: map[string]string{"rresp.Usage": "bool"}}, "if:rresp.Usage", 0)
		o.decisionFunc(funcSpec{dir: w, recv: "tokenError", name: "Temporary", coqName: "token_error_temporary",
			params: "(retryable : bool)", retType: "bool", leaves: map[string]string{"e.Retryable": "retryable"},
			types: map[string]string{"e.Retryable": "bool"}})
		o.decisionFunc(funcSpec{dir: h, recv: "ResponseError", name: "Temporary", coqName: "response_error_temporary",
			params: "(code : Z)", retType: "bool", leaves: map[string]string{"e.StatusCode": "code"},
			calls: map[string]string{"statusIsTemporary": "status_is_temporary"}, types: map[string]string{"statusIsTemporary()": "bool"}})
		// Temporary() consults the error's own Temporary method by a plain type assertion, before the errors.As/Is chain
		o.c15Skeleton(h, "", "Temporary", "temporary_skeleton", []c15Pat{
			{1, "if", "err,nil"}, {2, "stmt", "return false"}, {3, "if", "Temporary,e,err,ok,temporary"}, {4, "stmt", "return true"},
			{5, "switch", ""}, {6, "case", "As,SyscallError,err,errors,new,os"}, {7, "case", "Canceled,Is,context,err,errors"},
			{8, "case", "DeadlineExceeded,Is,context,err,errors"}, {9, "case", "ErrUnexpectedEOF,Is,err,errors,io"},
		}, nil)

		// ============================================================ (b) the RPC boundary
		o.f("\n(* ---- worker RPC boundary: method table, message fields, request construction, dispatch, classification ---- *)\n")
		const rp = "internal/workerrpc"
		o.c15StringConsts(rp, "rpc")
		o.c15StructFields(rp, "Request", "rpc_request_fields")
		o.c15StructFields(rp, "Response", "rpc_response_fields")
		// client side: every call of t.request in the package, with the method and the request fields it fills
		o.c15ClientCalls(w, rp, "client_calls")
		o.c15ResultFields(w, "WorkerToken", "GetKey", "res", "client_getkey_reads")
		o.c15ResultFields(w, "workerKey", "SignContext", "res", "client_sign_reads")
		o.c15Skeleton(w, "WorkerToken", "request", "request_skeleton", []c15Pat{
			{1, "stmt", "req := &http.Request{ Method: http.MethodPost, URL: &url.URL{Scheme: \"http\", Host: t.addr, Path: path}, Header: http.Header{\"Auth-Cookie\": []string{t.cookie}}, }"},
			{2, "stmt", "blob, err := json.Marshal(rr)"}, {3, "if", "err,nil"}, {4, "stmt", "return nil, err"},
			{5, "stmt", "req.GetBody = func"}, {7, "stmt", "return io.NopCloser(bytes.NewReader(blob)), nil"},
			{6, "stmt", "return t.doRetry(req.WithContext(ctx))"},
		}, nil)
		o.c15HeaderKey(w, "WorkerToken", "request", "http.Header", "client_cookie_header")
		o.c15CallStringArg(wc, "handler", "ServeHTTP", "req.Header.Get", 0, "handler_cookie_header")
		// server side
		o.c15Skeleton(wc, "handler", "ServeHTTP", "serve_skeleton", []c15Pat{
			{1, "stmt", "cookie := req.Header.Get(\"Auth-Cookie\")"}, {2, "if", "Equal,byte,cookie,h,hmac"},
			{3, "stmt", "rw.WriteHeader(http.StatusForbidden)"}, {4, "stmt", "return"},
			{5, "stmt", "resp, err := h.handle(rw, req)"}, {6, "if", "err,nil"},
			{7, "stmt", "resp.Retryable = true"}, {8, "stmt", "resp.Err = err.Error()"},
			{21, "stmt", "var p11err pkcs11Error"}, {22, "stmt", "var notImpl token.NotImplementedError"}, {23, "stmt", "var usage token.KeyUsageError"},
			{9, "switch", ""}, {10, "case", "As,err,errors,p11err"}, {11, "if", "fatalErrors,p11err"}, {12, "stmt", "go h.shutdown()"},
			{13, "stmt", "resp.Retryable = false"}, {14, "case", "As,err,errors,notImpl"}, {15, "case", "As,err,errors,usage"},
			{16, "stmt", "resp.Usage = true"}, {17, "stmt", "resp.Key = usage.Key"}, {18, "stmt", "resp.Err = usage.Err.Error()"},
			{24, "if", "Err,resp"}, {25, "prefix", "resp.Err = \""},
			{19, "stmt", "blob, err := json.Marshal(resp)"}, {20, "stmt", "_, err = rw.Write(blob)"},
		}, []string{"log.Err("})
		// a failure is encoded as a non-empty Err text: the guard that keeps an empty error text from reading as success
		o.condOf(funcSpec{dir: wc, recv: "handler", name: "ServeHTTP", coqName: "serve_err_text_empty",
			params: "(err_text : bytes)", retType: "bool", leaves: map[string]string{"resp.Err": "err_text"},
			types: map[string]string{"resp.Err": "str"}}, "if:resp.Err", 0)
		o.exprOfAssign(funcSpec{dir: wc, recv: "handler", name: "ServeHTTP", coqName: "serve_err_text_default",
			params: "", retType: "bytes", leaves: map[string]string{"err.Error()": "[]", "usage.Err.Error()": "[]"}}, "resp.Err", 2)
		o.condOf(funcSpec{dir: wc, recv: "handler", name: "ServeHTTP", coqName: "serve_has_error",
			params: "(err : Z)", retType: "bool", leaves: map[string]string{"err": "err", "nil": "0"}}, "if:err ", 0)
		o.c15TypeSwitchTable(wc, "handler", "ServeHTTP", "handler_class")
		o.c15Skeleton(wc, "handler", "handle", "handle_skeleton", []c15Pat{
			{1, "stmt", "blob, err := io.ReadAll(req.Body)"}, {2, "if", "err,nil"}, {3, "stmt", "return resp, err"},
			{4, "stmt", "var rr workerrpc.Request"}, {5, "if", "Unmarshal,blob,err,json,nil,rr"},
			{6, "stmt", "ctx := req.Context()"}, {7, "if", "KeyID,nil,rr"}, {8, "stmt", "ctx = token.WithKeyID(ctx, rr.KeyID)"},
			{9, "switch", "Path,URL,req"}, {10, "case", "Ping,workerrpc"}, {11, "stmt", "return resp, h.token.Ping(ctx)"},
			{12, "case", "GetKey,workerrpc"}, {13, "stmt", "key, err := h.token.GetKey(ctx, rr.KeyName)"},
			{14, "stmt", "resp.ID = key.GetID()"}, {15, "stmt", "resp.Cert = key.Certificate()"},
			{16, "stmt", "resp.Value, err = x509.MarshalPKIXPublicKey(key.Public())"},
			{17, "case", "Sign,workerrpc"}, {18, "stmt", "hash := crypto.Hash(rr.Hash)"}, {19, "stmt", "opts := crypto.SignerOpts(hash)"},
			{20, "if", "SaltLength,nil,rr"}, {21, "stmt", "opts = &rsa.PSSOptions{SaltLength: *rr.SaltLength, Hash: hash}"},
			{22, "stmt", "resp.Value, err = key.SignContext(ctx, rr.Digest, opts)"}, {23, "case", "default"},
			{24, "stmt", "return resp, errors.New(\"invalid method: \" + req.URL.Path)"},
		}, nil)
		o.c15DispatchTable(wc, "handler", "handle", "req.URL.Path", rp, "handler_dispatch")
		o.c15MapKeys(wc, "fatalErrors", "fatal_error_names")

		// ============================================================ (c) worker process lifecycle
		o.f("\n(* ---- worker process lifecycle: constants, monitor / spawn / Close skeletons ---- *)\n")
		o.constInt(w, "startTimeout", "start_timeout_ns")
		o.constInt(w, "restartDelay", "restart_delay_ns")
		o.condOf(funcSpec{dir: w, recv: "WorkerToken", name: "monitor", coqName: "monitor_target_configured",
			params: "(has_server : bool) (num_workers : Z)", retType: "bool",
			leaves: map[string]string{"t.config.Server != nil": "has_server", "t.config.Server.NumWorkers": "num_workers"},
			types:  map[string]string{"t.config.Server != nil": "bool"}}, "if:NumWorkers", 0)
		o.condOf(funcSpec{dir: w, recv: "WorkerToken", name: "monitor", coqName: "monitor_needs_worker",
			params: "(count target : Z)", retType: "bool",
			leaves: map[string]string{"t.countWorkers()": "count", "target": "target"}}, "for:countWorkers", 0)
		o.condOf(funcSpec{dir: w, recv: "WorkerToken", name: "monitor", coqName: "monitor_runs",
			params: "(ctx_err_nil : bool)", retType: "bool",
			leaves: map[string]string{"t.ctx.Err() == nil": "ctx_err_nil"}, types: map[string]string{"t.ctx.Err() == nil": "bool"}}, "for:t.ctx.Err", 0)
		o.c15Skeleton(w, "WorkerToken", "monitor", "monitor_skeleton", []c15Pat{
			{1, "stmt", "defer t.wg.Done()"}, {2, "stmt", "target := 1"}, {3, "if", "NumWorkers,Server,config,nil,t"},
			{4, "stmt", "target = t.config.Server.NumWorkers"}, {5, "for", "Err,ctx,nil,t"}, {6, "for", "countWorkers,t,target"},
			{7, "if", "err,nil,spawn,t"}, {8, "select", ""}, {9, "comm", "After,restartDelay,time"}, {10, "comm", "Done,ctx,t"},
			{11, "stmt", "return"}, {12, "comm", "pid,procsExited,t"}, {13, "stmt", "t.removePid(pid)"}, {14, "comm", "Stopping,notify,pid,t"},
		}, []string{"log.Printf("})
		o.c15Skeleton(w, "WorkerToken", "spawn", "spawn_skeleton", []c15Pat{
			{1, "if", "Start,cmd,err,nil"}, {21, "if", "err,nil"}, {22, "if", "Attach,cmd,err,fdset,nil,t"}, {2, "stmt", "return err"}, {3, "stmt", "pid := cmd.Process.Pid"},
			{4, "stmt", "exited := make(chan struct{})"}, {5, "stmt", "go func"}, {23, "stmt", "defer t.wg.Done()"}, {24, "stmt", "_ = cmd.Wait()"},
			{25, "stmt", "t.procsExited <- pid"}, {26, "stmt", "close(exited)"},
			{6, "stmt", "t.mu.Lock()"}, {7, "stmt", "t.procs[pid] = struct{}{}"}, {8, "stmt", "t.mu.Unlock()"},
			{9, "stmt", "ctx, cancel := context.WithTimeout(context.Background(), startTimeout)"}, {10, "select", ""},
			{11, "comm", "Ready,notify,t"}, {12, "comm", "Done,ctx"}, {13, "stmt", "_ = cmd.Process.Kill()"},
			{14, "prefix", "return fmt.Errorf(\"token \\\"%s\\\" worker timed out during startup\""}, {15, "comm", "exited"},
			{16, "prefix", "return fmt.Errorf(\"token \\\"%s\\\" worker exited prematurely\""}, {17, "stmt", "return nil"},
			{18, "stmt", "t.wg.Add(1)"}, {19, "stmt", "detach()"}, {20, "stmt", "defer cancel()"},
		}, []string{"self, err := os.Executable()", "cmd := exec.Command(", "cmd.Path = ", "cmd.Stdin = ", "cmd.Stdout = ", "cmd.Stderr = ", "cmd.SysProcAttr = ",
			"cmd.Env = ", "detach, err := t.notify.Attach(cmd)", "defer detach()"})
		o.c15Skeleton(w, "WorkerToken", "Close", "close_skeleton", []c15Pat{
			{1, "if", "nil,t"}, {2, "stmt", "return nil"}, {3, "stmt", "return t.closed.Close(func"}, {4, "stmt", "t.cancel()"},
			{5, "stmt", "t.mu.Lock()"}, {6, "for", "pid,procs,t"}, {7, "stmt", "_ = syscall.Kill(pid, syscall.SIGTERM)"}, {8, "stmt", "t.mu.Unlock()"},
			{9, "stmt", "t.wg.Wait()"}, {10, "stmt", "t.fdset.Close()"}, {11, "stmt", "t.notify.Close()"},
		}, nil)
		o.c15Skeleton(w, "WorkerToken", "removePid", "removepid_skeleton", []c15Pat{
			{1, "stmt", "t.mu.Lock()"}, {2, "stmt", "delete(t.procs, pid)"}, {3, "stmt", "t.mu.Unlock()"},
		}, nil)
		o.c15ChanCap(w, "", "New", "procsExited", "procs_exited_capacity")
		fingerprint(w, "WorkerToken", "monitor")
		fingerprint(w, "WorkerToken", "spawn")
		fingerprint(w, "WorkerToken", "Close")
		fingerprint(w, "WorkerToken", "request")
		fingerprint(w, "workerKey", "SignContext")
	}
}

// ---------------------------------------------------------------- C15 helpers

func c15norm(s string) string { return strings.Join(strings.Fields(s), " ") }

// cf: like o.f, but double quotes inside Coq comments are replaced (Coq lexes string literals inside comments)
func (o *out) cf(format string, a ...interface{}) {
	s := fmt.Sprintf(format, a...)
	var b strings.Builder
	depth := 0
	for i := 0; i < len(s); i++ {
		if strings.HasPrefix(s[i:], "(*") {
			depth++
		} else if strings.HasPrefix(s[i:], "*)") && depth > 0 {
			depth--
		}
		if s[i] == '"' && depth > 0 {
			b.WriteByte('\'')
			continue
		}
		b.WriteByte(s[i])
	}
	o.f("%s", b.String())
}

// c15Idents: sorted, de-duplicated identifier names occurring in the nodes (selectors contribute both sides)
func c15Idents(nodes ...ast.Node) string {
	set := map[string]bool{}
	for _, n := range nodes {
		if n == nil {
			continue
		}
		ast.Inspect(n, func(x ast.Node) bool {
			if id, ok := x.(*ast.Ident); ok {
				set[id.Name] = true
			}
			return true
		})
	}
	var l []string
	for k := range set {
		l = append(l, k)
	}
	sort.Strings(l)
	return strings.Join(l, ",")
}

// c15Pat: one recognised statement.  kind "stmt": exact normalised text; "prefix": the text starts with it; "if" / "for" /
// "switch" / "case" / "select" / "comm": the header, recognised by the SET of identifiers it mentions (so that a changed
// operator or literal changes the translated condition, not the skeleton).
type c15Pat struct {
	code int
	kind string
	text string
}

type c15Sk struct {
	p      *pkgInfo
	pats   []c15Pat
	ignore []string
	items  []string
	notes  []string
}

func (s *c15Sk) emit(depth int, kind, key, shown string) {
	code := 99
	for _, p := range s.pats {
		if p.kind == kind && p.text == key {
			code = p.code
			break
		}
		if kind == "stmt" && p.kind == "prefix" && strings.HasPrefix(key, p.text) {
			code = p.code
			break
		}
	}
	s.items = append(s.items, fmt.Sprintf("(%d, %d)", depth, code))
	if len(shown) > 70 {
		shown = shown[:70] + "..."
	}
	s.notes = append(s.notes, fmt.Sprintf("%d:%d `%s`", depth, code, strings.ReplaceAll(strings.ReplaceAll(shown, "*)", "* )"), "(*", "( *")))
}

func (s *c15Sk) block(list []ast.Stmt, depth int) {
	for _, st := range list {
		s.stmt(st, depth)
	}
}

func (s *c15Sk) stmt(st ast.Stmt, depth int) {
	switch x := st.(type) {
	case *ast.BlockStmt:
		s.block(x.List, depth)
	case *ast.IfStmt:
		s.emit(depth, "if", c15Idents(x.Init, x.Cond), "if "+c15norm(printNode(s.p.fset, x.Cond)))
		s.block(x.Body.List, depth+1)
		if x.Else != nil {
			s.items = append(s.items, fmt.Sprintf("(%d, 98)", depth))
			s.notes = append(s.notes, fmt.Sprintf("%d:98 else", depth))
			s.stmt(x.Else, depth+1)
		}
	case *ast.ForStmt:
		s.emit(depth, "for", c15Idents(x.Init, x.Cond, x.Post), "for "+c15norm(printNode(s.p.fset, x.Cond)))
		s.block(x.Body.List, depth+1)
	case *ast.RangeStmt:
		s.emit(depth, "for", c15Idents(x.Key, x.Value, x.X), "for range "+c15norm(printNode(s.p.fset, x.X)))
		s.block(x.Body.List, depth+1)
	case *ast.SwitchStmt:
		s.emit(depth, "switch", c15Idents(x.Init, x.Tag), "switch")
		for _, c := range x.Body.List {
			cc := c.(*ast.CaseClause)
			key := "default"
			if cc.List != nil {
				var ns []ast.Node
				for _, e := range cc.List {
					ns = append(ns, e)
				}
				key = c15Idents(ns...)
			}
			s.emit(depth+1, "case", key, "case "+key)
			s.block(cc.Body, depth+2)
		}
	case *ast.TypeSwitchStmt:
		s.emit(depth, "switch", c15Idents(x.Init, x.Assign), "switch "+c15norm(printNode(s.p.fset, x.Assign)))
		for _, c := range x.Body.List {
			cc := c.(*ast.CaseClause)
			key := "default"
			if cc.List != nil {
				var ns []ast.Node
				for _, e := range cc.List {
					ns = append(ns, e)
				}
				key = c15Idents(ns...)
			}
			s.emit(depth+1, "case", key, "case "+key)
			s.block(cc.Body, depth+2)
		}
	case *ast.SelectStmt:
		s.emit(depth, "select", "", "select")
		for _, c := range x.Body.List {
			cc := c.(*ast.CommClause)
			key := "default"
			if cc.Comm != nil {
				key = c15Idents(cc.Comm)
			}
			s.emit(depth+1, "comm", key, "case "+key)
			s.block(cc.Body, depth+2)
		}
	case *ast.LabeledStmt:
		s.stmt(x.Stmt, depth)
	default:
		txt := c15norm(printNode(s.p.fset, st))
		for _, ig := range s.ignore {
			if strings.Contains(txt, ig) {
				return
			}
		}
		var lits []*ast.FuncLit
		ast.Inspect(st, func(n ast.Node) bool {
			if fl, ok := n.(*ast.FuncLit); ok {
				lits = append(lits, fl)
				return false
			}
			return true
		})
		if len(lits) > 0 { // the statement is recognised by its text up to the first function literal; the literal's body follows
			if k := strings.Index(txt, "func("); k >= 0 {
				txt = txt[:k] + "func"
			}
		}
		s.emit(depth, "stmt", txt, txt)
		for _, fl := range lits {
			s.block(fl.Body.List, depth+1)
		}
	}
}

// c15Skeleton emits the statement skeleton of a function as a list of (nesting depth, statement code); 99 = a statement the
// table does not know (the models compare the list with the skeleton they were written against).
func (o *out) c15Skeleton(dir, recv, name, coqName string, pats []c15Pat, ignore []string) {
	p, fd := findFunc(dir, recv, name)
	if fd == nil {
		o.brokenDef(coqName, "function "+dir+":"+recv+"."+name+" not found")
		return
	}
	s := &c15Sk{p: p, pats: pats, ignore: ignore}
	s.block(fd.Body.List, 0)
	o.cf("Definition %s : list (Z * Z) := [%s].\n(* %s:%s.%s statements (depth:code): %s *)\n", coqName, strings.Join(s.items, "; "), dir, recv, name,
		strings.Join(s.notes, " | "))
}

// c15AssignOp: bool — the nth assignment to lhs is `lhs *= rhs`
func (o *out) c15AssignOp(dir, recv, name, lhs string, nth int, rhs, coqName string) {
	p, fd := findFunc(dir, recv, name)
	if fd == nil {
		o.brokenDef(coqName, "function "+dir+":"+recv+"."+name+" not found")
		return
	}
	k, ok, got := 0, false, ""
	ast.Inspect(fd.Body, func(n ast.Node) bool {
		if as, is := n.(*ast.AssignStmt); is && len(as.Lhs) == 1 && len(as.Rhs) == 1 && printNode(p.fset, as.Lhs[0]) == lhs {
			if k == nth {
				got = c15norm(printNode(p.fset, as))
				ok = as.Tok == token.MUL_ASSIGN && printNode(p.fset, as.Rhs[0]) == rhs
			}
			k++
		}
		return true
	})
	o.cf("Definition %s : bool := %v. (* %s:%s.%s assignment #%d to %s: `%s` *)\n", coqName, ok, dir, recv, name, nth, lhs, got)
}

// c15Float32Const: the float32 value of an untyped constant as mantissa / 2^shift (exact), the way the Go compiler converts it
func (o *out) c15Float32Const(dir, goName, coqName string) {
	ce, _, _, _ := findConstExpr(dir, goName)
	bl, ok := ce.(*ast.BasicLit)
	if ce == nil || !ok || (bl.Kind != token.FLOAT && bl.Kind != token.INT) {
		o.brokenDef(coqName, "constant "+dir+"."+goName+" is not a numeric literal")
		return
	}
	v := constant.MakeFromLiteral(bl.Value, bl.Kind, 0)
	f32, _ := constant.Float32Val(v)
	bits := math.Float32bits(f32)
	exp := int((bits>>23)&0xff) - 127
	mant := int64(bits&0x7fffff) | 1<<23
	if (bits>>23)&0xff == 0 || f32 <= 0 {
		o.brokenDef(coqName, "constant "+dir+"."+goName+" is not a positive normal float32")
		return
	}
	// value = mant * 2^(exp-23)
	o.cf("Definition %s_mant : Z := %d.\nDefinition %s_shift : Z := %d. (* float32(%s.%s) = %s = mant / 2^shift *)\n", coqName, mant, coqName, 23-exp, dir, goName,
		strconv.FormatFloat(float64(f32), 'g', -1, 32))
}

// c15StringConsts: every string constant of the package, in source order, as byte strings; plus the list of all of them
func (o *out) c15StringConsts(dir, prefix string) {
	p := loadPkg(dir)
	var files []string
	for fn := range p.files {
		files = append(files, fn)
	}
	sort.Strings(files)
	var names, vals []string
	for _, fn := range files {
		for _, d := range p.files[fn].Decls {
			gd, ok := d.(*ast.GenDecl)
			if !ok || gd.Tok != token.CONST {
				continue
			}
			for _, s := range gd.Specs {
				vs := s.(*ast.ValueSpec)
				for i, n := range vs.Names {
					if i < len(vs.Values) {
						if bl, ok := vs.Values[i].(*ast.BasicLit); ok && bl.Kind == token.STRING {
							u, _ := strconv.Unquote(bl.Value)
							names = append(names, n.Name)
							vals = append(vals, u)
						}
					}
				}
			}
		}
	}
	if len(names) == 0 {
		o.brokenDef(prefix+"_paths", "no string constants in "+dir)
		return
	}
	var items []string
	for i, n := range names {
		o.cf("Definition %s_path_%s : bytes := %s. (* %s.%s = %q *)\n", prefix, n, bytesLit([]byte(vals[i])), dir, n, vals[i])
		items = append(items, prefix+"_path_"+n)
	}
	o.cf("Definition %s_paths : list bytes := [%s].\n", prefix, strings.Join(items, "; "))
}

var c15TypeCodes = map[string]int{"string": 1, "[]byte": 2, "uint": 3, "*int": 4, "bool": 5, "int": 6}

// c15StructFields: field names (byte strings) and type codes (1 string, 2 []byte, 3 uint, 4 *int, 5 bool, 6 int, 99 other)
func (o *out) c15StructFields(dir, goName, coqName string) {
	p, st := findStruct(dir, goName)
	if st == nil {
		o.brokenDef(coqName, "struct "+dir+"."+goName+" not found")
		return
	}
	var items, notes []string
	for _, fl := range st.Fields.List {
		ty := c15norm(printNode(p.fset, fl.Type))
		code, ok := c15TypeCodes[ty]
		if !ok {
			code = 99
		}
		tag := ""
		if fl.Tag != nil {
			tag = " tag " + fl.Tag.Value
			code = 99 // a renamed / omitted JSON field is outside the model
		}
		for _, n := range fl.Names {
			items = append(items, fmt.Sprintf("(%s, %d)", bytesLit([]byte(n.Name)), code))
			notes = append(notes, n.Name+" "+ty+tag)
		}
		if len(fl.Names) == 0 {
			items = append(items, fmt.Sprintf("(%s, 99)", bytesLit([]byte(ty))))
			notes = append(notes, "embedded "+ty)
		}
	}
	o.cf("Definition %s : list (bytes * Z) := [%s]. (* %s.%s: %s *)\n", coqName, strings.Join(items, "; "), dir, goName, strings.Join(notes, "; "))
}

func c15FieldList(fs []string) string {
	var items []string
	for _, f := range fs {
		items = append(items, bytesLit([]byte(f)))
	}
	return "[" + strings.Join(items, "; ") + "]"
}

// c15ClientCalls: every call `<x>.request(ctx, workerrpc.M, R)` in the package: the function it occurs in, the method path
// and the request fields that function fills in (keys of the composite literal plus later `rr.F = ...` assignments).
func (o *out) c15ClientCalls(dir, rpcDir, coqName string) {
	p := loadPkg(dir)
	var files []string
	for fn := range p.files {
		files = append(files, fn)
	}
	sort.Strings(files)
	var items, notes []string
	for _, fn := range files {
		for _, d := range p.files[fn].Decls {
			fd, ok := d.(*ast.FuncDecl)
			if !ok || fd.Body == nil {
				continue
			}
			ast.Inspect(fd.Body, func(n ast.Node) bool {
				ce, ok := n.(*ast.CallExpr)
				if !ok || len(ce.Args) != 3 {
					return true
				}
				callee := printNode(p.fset, ce.Fun)
				if !strings.HasSuffix(callee, ".request") {
					return true
				}
				sel, ok := ce.Args[1].(*ast.SelectorExpr)
				path := ""
				if ok {
					if cx, _, _, _ := findConstExpr(rpcDir, sel.Sel.Name); cx != nil {
						if bl, ok := cx.(*ast.BasicLit); ok && bl.Kind == token.STRING {
							path, _ = strconv.Unquote(bl.Value)
						}
					}
				}
				fields := map[string]bool{}
				collectLit := func(e ast.Expr) {
					if cl, ok := e.(*ast.CompositeLit); ok {
						for _, el := range cl.Elts {
							if kv, ok := el.(*ast.KeyValueExpr); ok {
								fields[printNode(p.fset, kv.Key)] = true
							}
						}
					}
				}
				switch a := ce.Args[2].(type) {
				case *ast.CompositeLit:
					collectLit(a)
				case *ast.Ident:
					ast.Inspect(fd.Body, func(m ast.Node) bool {
						if as, ok := m.(*ast.AssignStmt); ok {
							for i, l := range as.Lhs {
								if id, ok := l.(*ast.Ident); ok && id.Name == a.Name && i < len(as.Rhs) {
									collectLit(as.Rhs[i])
								}
								if se, ok := l.(*ast.SelectorExpr); ok {
									if id, ok := se.X.(*ast.Ident); ok && id.Name == a.Name {
										fields[se.Sel.Name] = true
									}
								}
							}
						}
						return true
					})
				}
				var fl []string
				for f := range fields {
					fl = append(fl, f)
				}
				sort.Strings(fl)
				items = append(items, fmt.Sprintf("(%s, %s)", bytesLit([]byte(path)), c15FieldList(fl)))
				notes = append(notes, fd.Name.Name+" -> "+path+" {"+strings.Join(fl, ",")+"}")
				return true
			})
		}
	}
	o.cf("Definition %s : list (bytes * list bytes) := [%s]. (* %s: %s *)\n", coqName, strings.Join(items, "; "), dir, strings.Join(notes, " ; "))
}

// c15ResultFields: the fields of variable v (a *workerrpc.Response) the function reads
func (o *out) c15ResultFields(dir, recv, name, v, coqName string) {
	p, fd := findFunc(dir, recv, name)
	if fd == nil {
		o.brokenDef(coqName, "function "+dir+":"+recv+"."+name+" not found")
		return
	}
	set := map[string]bool{}
	ast.Inspect(fd.Body, func(n ast.Node) bool {
		if se, ok := n.(*ast.SelectorExpr); ok {
			if id, ok := se.X.(*ast.Ident); ok && id.Name == v {
				set[se.Sel.Name] = true
			}
		}
		return true
	})
	var fl []string
	for f := range set {
		fl = append(fl, f)
	}
	sort.Strings(fl)
	_ = p
	o.cf("Definition %s : list bytes := %s. (* %s:%s.%s reads %s.{%s} *)\n", coqName, c15FieldList(fl), dir, recv, name, v, strings.Join(fl, ","))
}

// c15HeaderKey: the single key of the composite literal of the given type inside the function (http.Header{"K": ...})
func (o *out) c15HeaderKey(dir, recv, name, typ, coqName string) {
	p, fd := findFunc(dir, recv, name)
	if fd == nil {
		o.brokenDef(coqName, "function "+dir+":"+recv+"."+name+" not found")
		return
	}
	var keys []string
	ast.Inspect(fd.Body, func(n ast.Node) bool {
		if cl, ok := n.(*ast.CompositeLit); ok && cl.Type != nil && printNode(p.fset, cl.Type) == typ {
			for _, el := range cl.Elts {
				if kv, ok := el.(*ast.KeyValueExpr); ok {
					if bl, ok := kv.Key.(*ast.BasicLit); ok && bl.Kind == token.STRING {
						u, _ := strconv.Unquote(bl.Value)
						keys = append(keys, u)
					}
				}
			}
		}
		return true
	})
	if len(keys) != 1 {
		o.brokenDef(coqName, fmt.Sprintf("expected exactly one %s literal key in %s, found %v", typ, name, keys))
		return
	}
	o.cf("Definition %s : bytes := %s. (* %s:%s.%s %s{%q: ...} *)\n", coqName, bytesLit([]byte(keys[0])), dir, recv, name, typ, keys[0])
}

// c15CallStringArg: the string literal passed as argument idx of the first call to callee
func (o *out) c15CallStringArg(dir, recv, name, callee string, idx int, coqName string) {
	p, fd := findFunc(dir, recv, name)
	if fd == nil {
		o.brokenDef(coqName, "function "+dir+":"+recv+"."+name+" not found")
		return
	}
	found, val := false, ""
	ast.Inspect(fd.Body, func(n ast.Node) bool {
		if ce, ok := n.(*ast.CallExpr); ok && !found && printNode(p.fset, ce.Fun) == callee && len(ce.Args) > idx {
			if bl, ok := ce.Args[idx].(*ast.BasicLit); ok && bl.Kind == token.STRING {
				val, _ = strconv.Unquote(bl.Value)
				found = true
			}
		}
		return !found
	})
	if !found {
		o.brokenDef(coqName, "no call "+callee+"(\"...\") in "+name)
		return
	}
	o.cf("Definition %s : bytes := %s. (* %s:%s.%s %s(%q) *)\n", coqName, bytesLit([]byte(val)), dir, recv, name, callee, val)
}

// c15TypeSwitchTable: the error classification of the worker handler.  Emits
//
//	<p>_by_concrete_type : bool   — the switch is `switch e := err.(type)` (no unwrapping)
//	<p>_default_retryable : bool  — the assignment to resp.Retryable in front of the switch
//	<p>_err_text_from_error : bool — resp.Err = err.Error() in front of the switch
//	<p>_table : list (Z * Z * Z * Z * Z) — per case: type code (1 pkcs11Error, 2 token.NotImplementedError, 3 token.KeyUsageError, 99 other),
//	     retryable when fatalErrors[e] (1 true, 0 false, 2 unchanged), retryable otherwise, usage (1 true, 0 false, 2 unchanged),
//	     error text (0 err.Error() kept, 1 replaced by e.Err.Error(), 99 other)
func (o *out) c15TypeSwitchTable(dir, recv, name, prefix string) {
	p, fd := findFunc(dir, recv, name)
	if fd == nil {
		o.brokenDef(prefix+"_table", "function "+dir+":"+recv+"."+name+" not found")
		return
	}
	// either `switch e := err.(type)` (concrete type, no unwrapping) or a tag-less switch whose cases are
	// `errors.As(err, &v)` with `var v T` declared in front of it (looks through wrappers)
	type clause struct {
		typ  string
		v    string
		body []ast.Stmt
	}
	var clauses []clause
	var encl *ast.BlockStmt
	var swStmt ast.Stmt
	concrete, found, hasDefault := false, false, false
	ast.Inspect(fd.Body, func(n ast.Node) bool {
		b, ok := n.(*ast.BlockStmt)
		if !ok || found {
			return !found
		}
		vars := map[string]string{}
		for _, st := range b.List {
			if ds, ok := st.(*ast.DeclStmt); ok {
				if gd, ok := ds.Decl.(*ast.GenDecl); ok && gd.Tok == token.VAR {
					for _, sp := range gd.Specs {
						vs := sp.(*ast.ValueSpec)
						for _, nm := range vs.Names {
							if vs.Type != nil {
								vars[nm.Name] = c15norm(printNode(p.fset, vs.Type))
							}
						}
					}
				}
			}
			if t, ok := st.(*ast.TypeSwitchStmt); ok {
				found, concrete, encl, swStmt = true, c15norm(printNode(p.fset, t.Assign)) == "e := err.(type)", b, st
				for _, c := range t.Body.List {
					cc := c.(*ast.CaseClause)
					if cc.List == nil {
						hasDefault = true
					}
					for _, te := range cc.List {
						clauses = append(clauses, clause{c15norm(printNode(p.fset, te)), "e", cc.Body})
					}
				}
				return false
			}
			if t, ok := st.(*ast.SwitchStmt); ok && t.Tag == nil && t.Init == nil {
				var cl []clause
				good := len(t.Body.List) > 0
				def := false
				for _, c := range t.Body.List {
					cc := c.(*ast.CaseClause)
					if cc.List == nil {
						def = true
						continue
					}
					if len(cc.List) != 1 {
						good = false
						break
					}
					ce, ok := cc.List[0].(*ast.CallExpr)
					if !ok || printNode(p.fset, ce.Fun) != "errors.As" || len(ce.Args) != 2 || printNode(p.fset, ce.Args[0]) != "err" {
						good = false
						break
					}
					ue, ok := ce.Args[1].(*ast.UnaryExpr)
					if !ok || ue.Op != token.AND {
						good = false
						break
					}
					v := printNode(p.fset, ue.X)
					ty, ok := vars[v]
					if !ok {
						good = false
						break
					}
					cl = append(cl, clause{ty, v, cc.Body})
				}
				if good {
					found, concrete, encl, swStmt, clauses, hasDefault = true, false, b, st, cl, def
					return false
				}
			}
		}
		return true
	})
	if !found {
		o.cf("Definition %s_by_concrete_type : bool := false. (* %s:%s.%s has no error classification switch *)\n", prefix, dir, recv, name)
		o.brokenDef(prefix+"_table", "no classification switch (type switch or errors.As chain) in "+name)
		return
	}
	o.cf("Definition %s_by_concrete_type : bool := %v. (* %s:%s.%s : true = `switch e := err.(type)`, false = `switch { case errors.As(err, &v): ... }` *)\n", prefix, concrete, dir, recv, name)
	defRetry, defText := "2", false
	for _, st := range encl.List {
		if st == swStmt {
			break
		}
		txt := c15norm(printNode(p.fset, st))
		switch txt {
		case "resp.Retryable = true":
			defRetry = "1"
		case "resp.Retryable = false":
			defRetry = "0"
		case "resp.Err = err.Error()":
			defText = true
		}
	}
	o.cf("Definition %s_default_retryable : bool := %v.\nDefinition %s_err_text_from_error : bool := %v.\n", prefix, defRetry == "1", prefix, defText)
	typeCodes := map[string]int{"pkcs11Error": 1, "token.NotImplementedError": 2, "token.KeyUsageError": 3}
	scan := func(list []ast.Stmt, v string) (retry, usage string, text int, key int) {
		retry, usage, text, key = "2", "2", 0, 0
		for _, st := range list {
			switch c15norm(printNode(p.fset, st)) {
			case "resp.Retryable = true":
				retry = "1"
			case "resp.Retryable = false":
				retry = "0"
			case "resp.Usage = true":
				usage = "1"
			case "resp.Usage = false":
				usage = "0"
			case "resp.Err = " + v + ".Err.Error()":
				text = 1
			case "resp.Key = " + v + ".Key":
				key = 1
			default:
				t := c15norm(printNode(p.fset, st))
				if strings.HasPrefix(t, "resp.Err =") {
					text = 99
				}
				if strings.HasPrefix(t, "resp.Key =") {
					key = 99
				}
			}
		}
		return
	}
	var rows, notes []string
	for _, cl := range clauses {
		code, ok := typeCodes[cl.typ]
		if !ok {
			code = 99
		}
		rf, re := "2", "2"
		var plain []ast.Stmt
		for _, st := range cl.body {
			if is, ok := st.(*ast.IfStmt); ok && c15norm(printNode(p.fset, is.Cond)) == "fatalErrors["+cl.v+"]" {
				r1, _, _, _ := scan(is.Body.List, cl.v)
				rf = r1
				if eb, ok := is.Else.(*ast.BlockStmt); ok {
					r2, _, _, _ := scan(eb.List, cl.v)
					re = r2
				}
				continue
			}
			plain = append(plain, st)
		}
		r, us, tx, ky := scan(plain, cl.v)
		if r != "2" {
			rf, re = r, r
		}
		rows = append(rows, fmt.Sprintf("(%d, %s, %s, %s, %d, %d)", code, rf, re, us, tx, ky))
		notes = append(notes, cl.typ)
	}
	if hasDefault {
		rows = append(rows, "(0, 99, 99, 99, 99, 99)")
		notes = append(notes, "default")
	}
	o.cf("Definition %s_table : list (Z * Z * Z * Z * Z * Z) := [%s]. (* cases, in order: %s *)\n", prefix, strings.Join(rows, "; "), strings.Join(notes, ", "))
}

// c15DispatchTable: the `switch <tag>` of the handler: for every case the path it matches (resolved through the constants of
// rpcDir), the request fields it reads (rr.F), the response fields it assigns (resp.F) and the token operations it performs
// (1 Ping, 2 GetKey, 3 SignContext, in source order); plus the fields read in front of the switch and whether there is a default.
func (o *out) c15DispatchTable(dir, recv, name, tag, rpcDir, prefix string) {
	p, fd := findFunc(dir, recv, name)
	if fd == nil {
		o.brokenDef(prefix+"_cases", "function "+dir+":"+recv+"."+name+" not found")
		return
	}
	var sw *ast.SwitchStmt
	ast.Inspect(fd.Body, func(n ast.Node) bool {
		if s, ok := n.(*ast.SwitchStmt); ok && sw == nil && s.Tag != nil && printNode(p.fset, s.Tag) == tag {
			sw = s
		}
		return sw == nil
	})
	if sw == nil {
		o.brokenDef(prefix+"_cases", "no `switch "+tag+"` in "+name)
		return
	}
	uses := func(nodes []ast.Stmt, v string) []string {
		set := map[string]bool{}
		for _, n := range nodes {
			ast.Inspect(n, func(x ast.Node) bool {
				if se, ok := x.(*ast.SelectorExpr); ok {
					if id, ok := se.X.(*ast.Ident); ok && id.Name == v {
						set[se.Sel.Name] = true
					}
				}
				return true
			})
		}
		var l []string
		for k := range set {
			l = append(l, k)
		}
		sort.Strings(l)
		return l
	}
	assigned := func(nodes []ast.Stmt, v string) []string {
		set := map[string]bool{}
		for _, n := range nodes {
			ast.Inspect(n, func(x ast.Node) bool {
				if as, ok := x.(*ast.AssignStmt); ok {
					for _, l := range as.Lhs {
						if se, ok := l.(*ast.SelectorExpr); ok {
							if id, ok := se.X.(*ast.Ident); ok && id.Name == v {
								set[se.Sel.Name] = true
							}
						}
					}
				}
				return true
			})
		}
		var l []string
		for k := range set {
			l = append(l, k)
		}
		sort.Strings(l)
		return l
	}
	tokOps := func(nodes []ast.Stmt) string {
		var ops []string
		for _, n := range nodes {
			ast.Inspect(n, func(x ast.Node) bool {
				if ce, ok := x.(*ast.CallExpr); ok {
					switch c := printNode(p.fset, ce.Fun); {
					case c == "h.token.Ping":
						ops = append(ops, "1")
					case c == "h.token.GetKey":
						ops = append(ops, "2")
					case strings.HasSuffix(c, ".SignContext") || strings.HasSuffix(c, ".Sign"):
						ops = append(ops, "3")
					case strings.HasPrefix(c, "h.token."):
						ops = append(ops, "99")
					}
				}
				return true
			})
		}
		return "[" + strings.Join(ops, "; ") + "]"
	}
	// statements in front of the switch
	var before []ast.Stmt
	for _, st := range fd.Body.List {
		if st == ast.Stmt(sw) {
			break
		}
		before = append(before, st)
	}
	o.cf("Definition %s_common_reads : list bytes := %s. (* rr fields read in front of the switch *)\n", prefix, c15FieldList(uses(before, "rr")))
	o.cf("Definition %s_common_token_ops : list Z := %s.\n", prefix, tokOps(before))
	var rows, notes []string
	hasDefault := false
	for _, c := range sw.Body.List {
		cc := c.(*ast.CaseClause)
		if cc.List == nil {
			hasDefault = true
			o.cf("Definition %s_default_token_ops : list Z := %s.\n", prefix, tokOps(cc.Body))
			continue
		}
		for _, e := range cc.List {
			path := ""
			if sel, ok := e.(*ast.SelectorExpr); ok {
				if cx, _, _, _ := findConstExpr(rpcDir, sel.Sel.Name); cx != nil {
					if bl, ok := cx.(*ast.BasicLit); ok && bl.Kind == token.STRING {
						path, _ = strconv.Unquote(bl.Value)
					}
				}
			} else if bl, ok := e.(*ast.BasicLit); ok && bl.Kind == token.STRING {
				path, _ = strconv.Unquote(bl.Value)
			}
			rows = append(rows, fmt.Sprintf("(%s, %s, %s, %s)", bytesLit([]byte(path)), c15FieldList(uses(cc.Body, "rr")), c15FieldList(assigned(cc.Body, "resp")), tokOps(cc.Body)))
			notes = append(notes, fmt.Sprintf("%s reads{%s} sets{%s}", path, strings.Join(uses(cc.Body, "rr"), ","), strings.Join(assigned(cc.Body, "resp"), ",")))
		}
	}
	o.cf("Definition %s_cases : list (bytes * list bytes * list bytes * list Z) := [%s]. (* %s *)\n", prefix, strings.Join(rows, "; "), strings.Join(notes, " ; "))
	o.cf("Definition %s_has_default : bool := %v.\n", prefix, hasDefault)
}

// c15MapKeys: the keys of a package-level map literal, as printed
func (o *out) c15MapKeys(dir, varName, coqName string) {
	ce, p, _, _ := findConstExpr(dir, varName)
	cl, ok := ce.(*ast.CompositeLit)
	if ce == nil || !ok {
		o.brokenDef(coqName, "package variable "+dir+"."+varName+" is not a composite literal")
		return
	}
	var keys []string
	allTrue := true
	for _, el := range cl.Elts {
		if kv, ok := el.(*ast.KeyValueExpr); ok {
			keys = append(keys, printNode(p.fset, kv.Key))
			if printNode(p.fset, kv.Value) != "true" {
				allTrue = false
			}
		}
	}
	o.cf("Definition %s : list bytes := %s. (* %s.%s keys: %s *)\nDefinition %s_all_true : bool := %v.\n", coqName, c15FieldList(keys), dir, varName,
		strings.Join(keys, ", "), coqName, allTrue)
}

// c15ChanCap: capacity of the channel made for the composite-literal field `field: make(chan T, N)` in the function
func (o *out) c15ChanCap(dir, recv, name, field, coqName string) {
	p, fd := findFunc(dir, recv, name)
	if fd == nil {
		o.brokenDef(coqName, "function "+dir+":"+recv+"."+name+" not found")
		return
	}
	capv := int64(-1)
	ast.Inspect(fd.Body, func(n ast.Node) bool {
		if kv, ok := n.(*ast.KeyValueExpr); ok && printNode(p.fset, kv.Key) == field {
			if ce, ok := kv.Value.(*ast.CallExpr); ok && printNode(p.fset, ce.Fun) == "make" {
				capv = 0
				if len(ce.Args) == 2 {
					if v, err := evalConst(dir, ce.Args[1], 0); err == nil {
						capv = v.i
					}
				}
			}
		}
		return true
	})
	if capv < 0 {
		o.brokenDef(coqName, "no `"+field+": make(chan ...)` in "+name)
		return
	}
	o.cf("Definition %s : Z := %d. (* %s:%s.%s %s: make(chan ..., %d) *)\n", coqName, capv, dir, recv, name, field, capv)
}
