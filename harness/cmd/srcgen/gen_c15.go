package main

func init() {
	generators["C15_gen"] = func(o *out) {
		const w = "token/worker"
		o.constInt(w, "defaultRetries", "default_retries")
		o.constInt(w, "initialDelay", "initial_delay_ns")
		o.constMilli(w, "scaleFactor", "scale_factor_milli")
		o.constInt(w, "maxDelay", "max_delay_ns")
		o.constInt(w, "defaultTimeout", "default_timeout_ns")
		rl := map[string]string{"retries": "retries", "i": "i", "timeout": "timeout", "httperror.Temporary(err)": "temporary", "retry": "retry"}
		rt := map[string]string{"httperror.Temporary(err)": "bool", "retry": "bool"}
		o.condOf(funcSpec{dir: w, recv: "WorkerToken", name: "doRetry", coqName: "retry_use_default",
			params: "(retries : Z)", retType: "bool", leaves: rl, types: rt}, "if:retries", 0)
		o.condOf(funcSpec{dir: w, recv: "WorkerToken", name: "doRetry", coqName: "retry_loop_cond",
			params: "(i retries : Z)", retType: "bool", leaves: rl, types: rt}, "for:retries", 0)
		o.condOf(funcSpec{dir: w, recv: "WorkerToken", name: "doRetry", coqName: "retry_wait_first",
			params: "(i : Z)", retType: "bool", leaves: rl, types: rt}, "i != 0")
		o.condOf(funcSpec{dir: w, recv: "WorkerToken", name: "doRetry", coqName: "retry_is_retryable",
			params: "(temporary : bool)", retType: "bool", leaves: rl, types: rt}, "httperror.Temporary")
		o.condOf(funcSpec{dir: w, recv: "WorkerToken", name: "doRetry", coqName: "retry_give_up",
			params: "(retry : bool)", retType: "bool", leaves: rl, types: rt}, "retry", 0)
		const h = "internal/httperror"
		o.decisionFunc(funcSpec{dir: h, recv: "", name: "statusIsTemporary", coqName: "status_is_temporary",
			params: "(code : Z)", retType: "bool", leaves: map[string]string{"code": "code"}})
		o.callArgClasses(h, "", "Temporary", "temporary_classes", []string{"errors.As", "errors.Is"},
			map[string]int{"new(*os.SyscallError)": 1, "context.Canceled": 2, "context.DeadlineExceeded": 3, "io.ErrUnexpectedEOF": 4})
		const tc = "token/tokencache"
		cl := map[string]string{"cached.key != nil": "has_cached", "cached.expires.After(time.Now())": "fresh",
			"len(wantKeyID)": "want_len", "bytes.Equal(wantKeyID, haveKeyID)": "ids_equal", "c.expiry": "expiry"}
		ct := map[string]string{"cached.key != nil": "bool", "cached.expires.After(time.Now())": "bool", "bytes.Equal(wantKeyID, haveKeyID)": "bool"}
		o.condOf(funcSpec{dir: tc, recv: "Cache", name: "GetKey", coqName: "cache_entry_live",
			params: "(has_cached fresh : bool)", retType: "bool", leaves: cl, types: ct}, "cached.key")
		o.condOf(funcSpec{dir: tc, recv: "Cache", name: "GetKey", coqName: "cache_id_acceptable",
			params: "(want_len : Z) (ids_equal : bool)", retType: "bool", leaves: cl, types: ct}, "haveKeyID")
		o.condOf(funcSpec{dir: tc, recv: "Cache", name: "GetKey", coqName: "cache_may_store",
			params: "(expiry want_len : Z)", retType: "bool", leaves: cl, types: ct}, "c.expiry")
		const wc = "cmdline/workercmd"
		o.condOf(funcSpec{dir: wc, recv: "handler", name: "ServeHTTP", coqName: "handler_cookie_bad",
			params: "(cookie_equal : bool)", retType: "bool",
			leaves: map[string]string{"hmac.Equal([]byte(cookie), []byte(h.cookie))": "cookie_equal"},
			types:  map[string]string{"hmac.Equal([]byte(cookie), []byte(h.cookie))": "bool"}}, "cookie")
		fingerprint(w, "WorkerToken", "doRetry")
		fingerprint(w, "WorkerToken", "doOnce")
		fingerprint(wc, "handler", "ServeHTTP")
		fingerprint(wc, "handler", "handle")
		fingerprint(tc, "Cache", "GetKey")
		fingerprint(h, "", "Temporary")
	}
}
