package main

import (
	"github.com/sassoftware/relic/v8/verifharness/core"
	_ "github.com/sassoftware/relic/v8/verifharness/p/fmtcat"
)

func main() { core.Main() }
