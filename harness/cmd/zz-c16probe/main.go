package main

import (
	"bytes"
	"encoding/hex"
	"fmt"
	"os"

	"github.com/sassoftware/relic/v8/lib/pkcs7"
)

func main() {
	for _, fn := range os.Args[1:] {
		b, err := os.ReadFile(fn)
		if err != nil {
			panic(err)
		}
		psd, err := pkcs7.Unmarshal(b)
		if err != nil {
			fmt.Println(fn, "unmarshal:", err)
			continue
		}
		out, err := psd.Marshal()
		if err != nil {
			fmt.Println(fn, "marshal:", err)
			continue
		}
		fmt.Println(fn, len(b), len(out), "identical:", bytes.Equal(b, out), "sis", len(psd.Content.SignerInfos), "certs", len(psd.Content.Certificates))
		if !bytes.Equal(b, out) {
			i := 0
			for i < len(b) && i < len(out) && b[i] == out[i] {
				i++
			}
			fmt.Println("  first diff at", i, hex.EncodeToString(b[i:min(i+16, len(b))]), hex.EncodeToString(out[i:min(i+16, len(out))]))
		}
		for _, si := range psd.Content.SignerInfos {
			ab, err := si.AuthenticatedAttributesBytes()
			fmt.Println("  si attrs", len(si.AuthenticatedAttributes), len(ab), err)
		}
		c, err := psd.Content.ContentInfo.Bytes()
		fmt.Printf("  content %q %v\n", c, err)
	}
}
