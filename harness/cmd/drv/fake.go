package main

import (
	"context"
	"crypto"
	"crypto/x509"
	"errors"
	"sync"

	"github.com/sassoftware/relic/v8/config"
	"github.com/sassoftware/relic/v8/token"
)

// fakeToken: scripted token used by several properties; records every call.
type fakeToken struct {
	mu     sync.Mutex
	conf   *config.TokenConfig
	ping   func(ctx context.Context) error
	getKey func(ctx context.Context, name string) (token.Key, error)
	log    []string
	closed int
}

func (t *fakeToken) record(s string) {
	t.mu.Lock()
	t.log = append(t.log, s)
	t.mu.Unlock()
}
func (t *fakeToken) calls() []string {
	t.mu.Lock()
	defer t.mu.Unlock()
	return append([]string{}, t.log...)
}
func (t *fakeToken) Close() error { t.mu.Lock(); t.closed++; t.mu.Unlock(); return nil }
func (t *fakeToken) Ping(ctx context.Context) error {
	if t.ping != nil {
		return t.ping(ctx)
	}
	return nil
}
func (t *fakeToken) Config() *config.TokenConfig { return t.conf }
func (t *fakeToken) GetKey(ctx context.Context, name string) (token.Key, error) {
	t.record("GetKey:" + name)
	if t.getKey != nil {
		return t.getKey(ctx, name)
	}
	return nil, errors.New("fake token has no keys")
}
func (t *fakeToken) Import(string, crypto.PrivateKey) (token.Key, error) {
	return nil, errors.New("not implemented")
}
func (t *fakeToken) ImportCertificate(*x509.Certificate, string) error {
	return errors.New("not implemented")
}
func (t *fakeToken) Generate(string, token.KeyType, uint) (token.Key, error) {
	return nil, errors.New("not implemented")
}
func (t *fakeToken) ListKeys(token.ListOptions) error { return errors.New("not implemented") }
