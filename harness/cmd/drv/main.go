// drv: correspondence driver. Runs the real relic code (built from /repo's working tree,
// tag verif) on generated cases and prints one JSON object per case on stdout.
package main

import (
	"bufio"
	"encoding/json"
	"flag"
	"fmt"
	"os"
	"sort"
)

type rng struct{ s uint64 }

func (r *rng) next() uint64 {
	r.s += 0x9e3779b97f4a7c15
	z := r.s
	z = (z ^ (z >> 30)) * 0xbf58476d1ce4e5b9
	z = (z ^ (z >> 27)) * 0x94d049bb133111eb
	return z ^ (z >> 31)
}
func (r *rng) intn(n int) int {
	if n <= 0 {
		return 0
	}
	return int(r.next() % uint64(n))
}
func (r *rng) bytes(n int) []byte {
	b := make([]byte, n)
	for i := range b {
		b[i] = byte(r.next())
	}
	return b
}
func (r *rng) pick(xs ...int) int { return xs[r.intn(len(xs))] }
func (r *rng) chance(pct int) bool { return r.intn(100) < pct }

type ctx struct {
	seed    uint64
	tier    string
	n       int
	w       *bufio.Writer
	scratch string
	args    []string
}

func (c *ctx) emit(v interface{}) {
	b, err := json.Marshal(v)
	if err != nil {
		panic(err)
	}
	c.w.Write(b)
	c.w.WriteByte('\n')
}

var commands = map[string]func(*ctx) error{}

func main() {
	seed := flag.Uint64("seed", 1, "PRNG seed")
	tier := flag.String("tier", "quick", "quick|thorough")
	n := flag.Int("n", 0, "case count override")
	scratch := flag.String("scratch", "", "scratch directory (required by file-based commands)")
	flag.Parse()
	if flag.NArg() < 1 {
		var names []string
		for k := range commands {
			names = append(names, k)
		}
		sort.Strings(names)
		fmt.Fprintln(os.Stderr, "usage: drv [flags] <command> ; commands:", names)
		os.Exit(2)
	}
	cmd, ok := commands[flag.Arg(0)]
	if !ok {
		fmt.Fprintln(os.Stderr, "unknown command", flag.Arg(0))
		os.Exit(2)
	}
	c := &ctx{seed: *seed, tier: *tier, n: *n, w: bufio.NewWriterSize(os.Stdout, 1<<20), scratch: *scratch, args: flag.Args()[1:]}
	err := cmd(c)
	c.w.Flush()
	if err != nil {
		fmt.Fprintln(os.Stderr, "drv error:", err)
		os.Exit(3)
	}
}
