package main

import (
	"github.com/sassoftware/relic/v8/verifharness/core"
	_ "github.com/sassoftware/relic/v8/verifharness/p/c02"
)

func main() { core.Main() }
