package main

import (
	"os"

	"github.com/sassoftware/relic/v8/verifharness/core"
	"github.com/sassoftware/relic/v8/verifharness/p/c15"
)

func main() {
	// token/worker's spawn() re-executes this binary as `<argv0> worker <config> <token>`: the lifecycle command of the C15
	// harness runs real child processes that way
	if len(os.Args) == 4 && os.Args[1] == "worker" {
		c15.WorkerChild()
		return
	}
	core.Main()
}
