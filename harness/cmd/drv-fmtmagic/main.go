package main

import (
	"github.com/sassoftware/relic/v8/verifharness/core"
	_ "github.com/sassoftware/relic/v8/verifharness/p/fmtmagic"
)

func main() { core.Main() }
