// Independent validator for ENVELOPED XML signatures (C19 histories): the JDK's javax.xml.crypto.dsig implementation applies
// the transforms the Reference declares (enveloped-signature, exclusive c14n) to the document as it stands (no relic code).
// stdin : "<hex of document> <hex of DER certificate> <path>" per line; path = "-" or "i/j" child-ELEMENT indices of the element
//         whose LAST child element with local name Signature is the signature to validate.
// stdout: "OK" | "FAIL sv=<bool> ref0=<bool>" | "ERR <message>"
import java.io.*;
import java.security.cert.*;
import java.util.*;
import javax.xml.crypto.*;
import javax.xml.crypto.dsig.*;
import javax.xml.crypto.dsig.dom.DOMValidateContext;
import javax.xml.parsers.*;
import org.w3c.dom.*;

public class XmlEnvVerify {
    static byte[] unhex(String s) {
        byte[] b = new byte[s.length() / 2];
        for (int i = 0; i < b.length; i++) b[i] = (byte) Integer.parseInt(s.substring(2 * i, 2 * i + 2), 16);
        return b;
    }
    public static void main(String[] args) throws Exception {
        XMLSignatureFactory fac = XMLSignatureFactory.getInstance("DOM");
        DocumentBuilderFactory dbf = DocumentBuilderFactory.newInstance();
        dbf.setNamespaceAware(true);
        CertificateFactory cf = CertificateFactory.getInstance("X.509");
        BufferedReader in = new BufferedReader(new InputStreamReader(System.in, "US-ASCII"));
        PrintStream out = new PrintStream(new BufferedOutputStream(System.out, 1 << 16), false, "US-ASCII");
        String line;
        while ((line = in.readLine()) != null) {
            line = line.trim();
            if (line.isEmpty()) continue;
            try {
                String[] f = line.split(" ");
                DocumentBuilder db = dbf.newDocumentBuilder();
                db.setErrorHandler(null);
                Document doc = db.parse(new ByteArrayInputStream(unhex(f[0])));
                java.security.cert.Certificate cert = cf.generateCertificate(new ByteArrayInputStream(unhex(f[1])));
                Node cur = doc.getDocumentElement();
                if (f.length > 2 && !f[2].equals("-")) {
                    for (String ix : f[2].split("/")) {
                        int want = Integer.parseInt(ix), k = 0;
                        Node found = null;
                        for (Node c = cur.getFirstChild(); c != null; c = c.getNextSibling())
                            if (c.getNodeType() == Node.ELEMENT_NODE) { if (k == want) { found = c; break; } k++; }
                        if (found == null) throw new RuntimeException("path");
                        cur = found;
                    }
                }
                Element sigEl = null;
                for (Node c = cur.getFirstChild(); c != null; c = c.getNextSibling())
                    if (c.getNodeType() == Node.ELEMENT_NODE && "Signature".equals(c.getLocalName())) sigEl = (Element) c;
                if (sigEl == null) throw new RuntimeException("no Signature child");
                // relic writes the RFC 4050 ECDSAKeyValue, which the JDK does not know: the key comes from the certificate
                DOMValidateContext vc = new DOMValidateContext(KeySelector.singletonKeySelector(cert.getPublicKey()), sigEl);
                vc.setProperty("org.jcp.xml.dsig.secureValidation", Boolean.FALSE);
                XMLSignature sig = fac.unmarshalXMLSignature(vc);
                boolean ok = sig.validate(vc);
                if (ok) { out.println("OK"); continue; }
                StringBuilder sb = new StringBuilder("FAIL sv=" + sig.getSignatureValue().validate(vc));
                int k = 0;
                for (Object r : sig.getSignedInfo().getReferences()) sb.append(" ref" + (k++) + "=" + ((Reference) r).validate(vc));
                out.println(sb);
            } catch (Throwable e) {
                String m = String.valueOf(e.getMessage());
                Throwable c = e.getCause();
                if (c != null) m += " / " + c.getMessage();
                out.println("ERR " + e.getClass().getSimpleName() + " " + m.replace('\n', ' ').replace('\r', ' '));
            }
        }
        out.flush();
    }
}
