// Reference XML-Signature validator for C05, built only on public JDK APIs (javax.xml.crypto.dsig, java.security) - no relic code.
// For every ds:Signature element of the given files it reports
//   full_*  : the verdict of the JDK's XMLSignature.validate (core validation) as is;
//   comp_*  : the same core validation carried out step by step with the JDK's canonicaliser (exclusive / inclusive c14n through
//             CanonicalizationMethod.transform), java.security.MessageDigest and java.security.Signature.  This second route exists because
//             ClickOnce manifests name SHA-2 algorithms with the Microsoft-specific URIs http://www.w3.org/2000/09/xmldsig#sha256 and
//             ...#rsa-sha256 (what .NET's SignedCmiManifest2 writes and expects), which the JDK validator does not know by name.
// A signature nested inside a ClickOnce r:license element is validated with the license as a document of its own, as .NET does
// (its Reference URI="" means the license).
// usage: java XmlDsigVerify file...      stdout: one JSON object per signature
import java.io.*;
import java.math.BigInteger;
import java.security.*;
import java.security.cert.*;
import java.security.spec.*;
import java.util.*;
import javax.xml.crypto.*;
import javax.xml.crypto.dsig.*;
import javax.xml.crypto.dsig.dom.DOMValidateContext;
import javax.xml.crypto.dsig.keyinfo.*;
import javax.xml.crypto.dsig.spec.C14NMethodParameterSpec;
import javax.xml.parsers.*;
import org.w3c.dom.*;

public class XmlDsigVerify {
    static final String DS = "http://www.w3.org/2000/09/xmldsig#";

    static String q(String s) {
        if (s == null) return "null";
        StringBuilder sb = new StringBuilder("\"");
        for (char c : s.toCharArray()) {
            if (c == '"' || c == '\\') sb.append('\\').append(c);
            else if (c < 0x20) sb.append(String.format("\\u%04x", (int) c));
            else sb.append(c);
        }
        return sb.append('"').toString();
    }

    static class Sel extends KeySelector {
        PublicKey keyValue, certKey;
        String keyValueError;
        public KeySelectorResult select(KeyInfo ki, Purpose p, AlgorithmMethod m, XMLCryptoContext c) throws KeySelectorException {
            if (ki == null) throw new KeySelectorException("no KeyInfo");
            for (Object o : ki.getContent()) {
                if (o instanceof KeyValue) {
                    try {
                        keyValue = ((KeyValue) o).getPublicKey();
                    } catch (Exception e) {
                        keyValueError = e.toString();
                    }
                }
                if (o instanceof X509Data)
                    for (Object x : ((X509Data) o).getContent())
                        if (x instanceof X509Certificate && certKey == null) certKey = ((X509Certificate) x).getPublicKey();
            }
            final PublicKey k = keyValue != null ? keyValue : certKey;
            if (k == null) throw new KeySelectorException("no key the JDK can read in KeyInfo" + (keyValueError != null ? " (KeyValue: " + keyValueError + ")" : ""));
            return () -> k;
        }
    }

    static Element licenseAncestor(Element e) {
        for (Node n = e.getParentNode(); n != null; n = n.getParentNode())
            if (n instanceof Element && "license".equals(n.getLocalName())) return (Element) n;
        return null;
    }

    static void collect(Node n, Node skip, List<Node> out) {
        if (n == skip) return;
        out.add(n);
        NamedNodeMap a = n.getAttributes();
        if (a != null) for (int i = 0; i < a.getLength(); i++) out.add(a.item(i));
        for (Node c = n.getFirstChild(); c != null; c = c.getNextSibling()) collect(c, skip, out);
    }

    static byte[] c14n(XMLSignatureFactory fac, String alg, Node root, Node skip) throws Exception {
        CanonicalizationMethod cm = fac.newCanonicalizationMethod(alg, (C14NMethodParameterSpec) null);
        final List<Node> nodes = new ArrayList<>();
        collect(root, skip, nodes);
        NodeSetData<Node> nsd = () -> nodes.iterator();
        OctetStreamData od = (OctetStreamData) cm.transform(nsd, null);
        return od.getOctetStream().readAllBytes();
    }

    static Element child(Element e, String local) {
        for (Node c = e.getFirstChild(); c != null; c = c.getNextSibling())
            if (c instanceof Element && local.equals(c.getLocalName())) return (Element) c;
        return null;
    }

    static Element desc(Element e, String local) {
        NodeList nl = e.getElementsByTagNameNS("*", local);
        return nl.getLength() > 0 ? (Element) nl.item(0) : null;
    }

    static String frag(String uri) {
        int i = uri.lastIndexOf('#');
        return i < 0 ? uri : uri.substring(i + 1);
    }

    static String mdName(String f) {
        switch (f) {
            case "sha1": return "SHA-1";
            case "sha224": return "SHA-224";
            case "sha256": return "SHA-256";
            case "sha384": return "SHA-384";
            case "sha512": return "SHA-512";
        }
        return null;
    }

    static PublicKey handKey(Element keyInfo, StringBuilder note) throws Exception {
        Element cert = desc(keyInfo, "X509Certificate");
        if (cert != null) {
            byte[] der = Base64.getMimeDecoder().decode(cert.getTextContent());
            note.append("x509");
            return CertificateFactory.getInstance("X.509").generateCertificate(new ByteArrayInputStream(der)).getPublicKey();
        }
        Element rsa = desc(keyInfo, "RSAKeyValue");
        if (rsa != null) {
            BigInteger n = new BigInteger(1, Base64.getMimeDecoder().decode(child(rsa, "Modulus").getTextContent()));
            BigInteger e = new BigInteger(1, Base64.getMimeDecoder().decode(child(rsa, "Exponent").getTextContent()));
            note.append("RSAKeyValue");
            return KeyFactory.getInstance("RSA").generatePublic(new RSAPublicKeySpec(n, e));
        }
        Element ec = desc(keyInfo, "ECDSAKeyValue");
        if (ec != null) {
            String urn = desc(ec, "NamedCurve").getAttribute("URN");
            String oid = urn.startsWith("urn:oid:") ? urn.substring(8) : urn;
            AlgorithmParameters ap = AlgorithmParameters.getInstance("EC");
            ap.init(new ECGenParameterSpec(oid));
            ECParameterSpec ps = ap.getParameterSpec(ECParameterSpec.class);
            BigInteger x = new BigInteger(desc(ec, "X").getAttribute("Value"));
            BigInteger y = new BigInteger(desc(ec, "Y").getAttribute("Value"));
            note.append("ECDSAKeyValue{" + ec.getNamespaceURI() + "}");
            return KeyFactory.getInstance("EC").generatePublic(new ECPublicKeySpec(new ECPoint(x, y), ps));
        }
        return null;
    }

    public static void main(String[] args) throws Exception {
        XMLSignatureFactory fac = XMLSignatureFactory.getInstance("DOM");
        DocumentBuilderFactory dbf = DocumentBuilderFactory.newInstance();
        dbf.setNamespaceAware(true);
        PrintStream out = new PrintStream(new BufferedOutputStream(System.out, 1 << 16), false, "UTF-8");
        for (String path : args) {
            Document doc;
            try {
                doc = dbf.newDocumentBuilder().parse(new File(path));
            } catch (Exception e) {
                out.println("{\"file\":" + q(path) + ",\"error\":" + q("parse: " + e) + "}");
                continue;
            }
            NodeList nl = doc.getElementsByTagNameNS(DS, "Signature");
            if (nl.getLength() == 0) out.println("{\"file\":" + q(path) + ",\"error\":\"no Signature element\"}");
            List<Element> sigs = new ArrayList<>();
            for (int i = 0; i < nl.getLength(); i++) sigs.add((Element) nl.item(i));
            for (Element sigEl : sigs) {
                StringBuilder sb = new StringBuilder("{\"file\":" + q(path) + ",\"id\":" + q(sigEl.getAttribute("Id")));
                Element target = sigEl;
                Document tdoc = doc;
                try {
                    Element lic = licenseAncestor(sigEl);
                    sb.append(",\"standalone_license\":" + (lic != null));
                    if (lic != null) {
                        tdoc = dbf.newDocumentBuilder().newDocument();
                        tdoc.appendChild(tdoc.importNode(lic, true));
                        target = (Element) tdoc.getElementsByTagNameNS(DS, "Signature").item(0);
                    }
                } catch (Exception e) {
                    out.println(sb.append(",\"error\":" + q(e.toString()) + "}"));
                    continue;
                }
                // ---- the JDK validator as is
                try {
                    Sel sel = new Sel();
                    DOMValidateContext ctx = new DOMValidateContext(sel, target);
                    ctx.setProperty("org.jcp.xml.dsig.secureValidation", Boolean.FALSE);
                    XMLSignature s = fac.unmarshalXMLSignature(ctx);
                    boolean core = s.validate(ctx);
                    sb.append(",\"full_ok\":" + core + ",\"full_sigvalue\":" + s.getSignatureValue().validate(ctx));
                    StringBuilder rs = new StringBuilder();
                    for (Object o : s.getSignedInfo().getReferences()) rs.append(((Reference) o).validate(ctx) ? "1" : "0");
                    sb.append(",\"full_refs\":" + q(rs.toString()));
                    if (sel.keyValueError != null) sb.append(",\"full_keyvalue_error\":" + q(sel.keyValueError));
                    if (sel.keyValue != null && sel.certKey != null)
                        sb.append(",\"cert_matches_keyvalue\":" + Arrays.equals(sel.keyValue.getEncoded(), sel.certKey.getEncoded()));
                } catch (Exception e) {
                    Throwable t = e;
                    while (t.getCause() != null && t.getCause() != t && t.getMessage() != null && !t.getMessage().contains("unsupported") && !t.getMessage().contains("no key")) t = t.getCause();
                    sb.append(",\"full_ok\":false,\"full_error\":" + q(e.toString() + (t != e ? " / " + t : "")));
                }
                // ---- step by step
                try {
                    Element si = child(target, "SignedInfo");
                    String c14nAlg = child(si, "CanonicalizationMethod").getAttribute("Algorithm");
                    String sigAlg = child(si, "SignatureMethod").getAttribute("Algorithm");
                    Element ref = child(si, "Reference");
                    String uri = ref.getAttribute("URI");
                    String digAlg = child(ref, "DigestMethod").getAttribute("Algorithm");
                    List<String> tr = new ArrayList<>();
                    Element trs = child(ref, "Transforms");
                    if (trs != null)
                        for (Node c = trs.getFirstChild(); c != null; c = c.getNextSibling())
                            if (c instanceof Element) tr.add(((Element) c).getAttribute("Algorithm"));
                    sb.append(",\"sigmethod\":" + q(sigAlg) + ",\"digestmethod\":" + q(digAlg) + ",\"c14n\":" + q(c14nAlg) + ",\"uri\":" + q(uri));
                    byte[] sv = Base64.getMimeDecoder().decode(child(target, "SignatureValue").getTextContent());
                    sb.append(",\"sigvalue_len\":" + sv.length);
                    String md = mdName(frag(digAlg));
                    boolean shapeOk = uri.isEmpty() && tr.size() == 2 && tr.get(0).equals(Transform.ENVELOPED) && md != null;
                    if (!shapeOk) {
                        sb.append(",\"comp_error\":" + q("reference shape not handled: uri=" + uri + " transforms=" + tr));
                    } else {
                        byte[] canonDoc = c14n(fac, tr.get(1), tdoc, target);
                        byte[] dv = Base64.getMimeDecoder().decode(child(ref, "DigestValue").getTextContent());
                        boolean dOk = Arrays.equals(MessageDigest.getInstance(md).digest(canonDoc), dv);
                        sb.append(",\"comp_digest_ok\":" + dOk);
                        byte[] canonSi = c14n(fac, c14nAlg, si, null);
                        String f = frag(sigAlg);
                        int dash = f.indexOf('-');
                        String kind = f.substring(0, dash), h = f.substring(dash + 1).toUpperCase();
                        String jalg = kind.equals("rsa") ? h + "withRSA" : h + "withECDSAinP1363Format";
                        StringBuilder note = new StringBuilder();
                        Element ki = child(target, "KeyInfo");
                        PublicKey pk = ki == null ? null : handKey(ki, note);
                        sb.append(",\"comp_key\":" + q(note.toString()));
                        if (pk == null) {
                            sb.append(",\"comp_error\":\"no key\"");
                        } else {
                            Signature sg = Signature.getInstance(jalg);
                            sg.initVerify(pk);
                            sg.update(canonSi);
                            boolean ok;
                            try {
                                ok = sg.verify(sv);
                            } catch (SignatureException e) {
                                ok = false;
                                sb.append(",\"comp_sig_error\":" + q(e.toString()));
                            }
                            sb.append(",\"comp_sig_ok\":" + ok + ",\"comp_sigalg\":" + q(jalg));
                            if (pk instanceof java.security.interfaces.ECPublicKey)
                                sb.append(",\"ec_field_bytes\":" + ((((java.security.interfaces.ECPublicKey) pk).getParams().getCurve().getField().getFieldSize() + 7) / 8));
                        }
                    }
                } catch (Exception e) {
                    sb.append(",\"comp_error\":" + q(e.toString()));
                }
                out.println(sb.append("}"));
            }
        }
        out.flush();
    }
}
