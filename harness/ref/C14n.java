// Reference canonicaliser for C19: W3C Exclusive XML Canonicalization 1.0 (without comments) of the subtree rooted
// at an element, through the public javax.xml.crypto API of the JDK (no relic code, no internal classes).
// stdin : one case per line   "<hex of UTF-8 document> <path>"   path = "-" (document element) or "i/j/k" child-element indices
// stdout: one line per case   "<hex of canonical octets>"  or  "ERR <message>"
import java.io.*;
import java.util.*;
import javax.xml.crypto.*;
import javax.xml.crypto.dsig.*;
import javax.xml.crypto.dsig.spec.C14NMethodParameterSpec;
import javax.xml.parsers.*;
import org.w3c.dom.*;

public class C14n {
    static byte[] unhex(String s) {
        byte[] b = new byte[s.length() / 2];
        for (int i = 0; i < b.length; i++) b[i] = (byte) Integer.parseInt(s.substring(2 * i, 2 * i + 2), 16);
        return b;
    }
    static String hex(byte[] b) {
        StringBuilder sb = new StringBuilder();
        for (byte x : b) sb.append(String.format("%02x", x & 0xff));
        return sb.toString();
    }
    static void collect(Node n, List<Node> out) {
        out.add(n);
        NamedNodeMap a = n.getAttributes();
        if (a != null) for (int i = 0; i < a.getLength(); i++) out.add(a.item(i));
        for (Node c = n.getFirstChild(); c != null; c = c.getNextSibling()) collect(c, out);
    }
    public static void main(String[] args) throws Exception {
        String alg = args.length > 0 && args[0].equals("inclusive") ? CanonicalizationMethod.INCLUSIVE : CanonicalizationMethod.EXCLUSIVE;
        XMLSignatureFactory fac = XMLSignatureFactory.getInstance("DOM");
        CanonicalizationMethod cm = fac.newCanonicalizationMethod(alg, (C14NMethodParameterSpec) null);
        DocumentBuilderFactory dbf = DocumentBuilderFactory.newInstance();
        dbf.setNamespaceAware(true);
        dbf.setFeature("http://apache.org/xml/features/disallow-doctype-decl", true);
        BufferedReader in = new BufferedReader(new InputStreamReader(System.in, "US-ASCII"));
        PrintStream out = new PrintStream(new BufferedOutputStream(System.out, 1 << 16), false, "US-ASCII");
        String line;
        while ((line = in.readLine()) != null) {
            line = line.trim();
            if (line.isEmpty()) continue;
            try {
                String[] f = line.split(" ");
                DocumentBuilder db = dbf.newDocumentBuilder();
                db.setErrorHandler(null);
                Document doc = db.parse(new ByteArrayInputStream(unhex(f[0])));
                Node cur = doc.getDocumentElement();
                if (f.length > 1 && !f[1].equals("-")) {
                    for (String ix : f[1].split("/")) {
                        int want = Integer.parseInt(ix), k = 0;
                        Node found = null;
                        for (Node c = cur.getFirstChild(); c != null; c = c.getNextSibling())
                            if (c.getNodeType() == Node.ELEMENT_NODE) { if (k == want) { found = c; break; } k++; }
                        if (found == null) throw new RuntimeException("path");
                        cur = found;
                    }
                }
                final List<Node> nodes = new ArrayList<>();
                collect(cur, nodes);
                NodeSetData<Node> nsd = new NodeSetData<Node>() { public Iterator<Node> iterator() { return nodes.iterator(); } };
                Data res = cm.transform(nsd, null);
                InputStream is = ((OctetStreamData) res).getOctetStream();
                out.println(hex(is.readAllBytes()));
            } catch (Throwable e) {
                String m = String.valueOf(e.getMessage());
                out.println("ERR " + e.getClass().getSimpleName() + " " + m.replace('\n', ' ').replace('\r', ' '));
            }
        }
        out.flush();
    }
}
