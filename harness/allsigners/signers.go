// Package allsigners registers every signer module, as main_client.go does.
package allsigners

// register every signer module, as main_client.go does
import (
	_ "github.com/sassoftware/relic/v8/signers/apk"
	_ "github.com/sassoftware/relic/v8/signers/appmanifest"
	_ "github.com/sassoftware/relic/v8/signers/appx"
	_ "github.com/sassoftware/relic/v8/signers/cab"
	_ "github.com/sassoftware/relic/v8/signers/cat"
	_ "github.com/sassoftware/relic/v8/signers/cosign"
	_ "github.com/sassoftware/relic/v8/signers/deb"
	_ "github.com/sassoftware/relic/v8/signers/dmg"
	_ "github.com/sassoftware/relic/v8/signers/jar"
	_ "github.com/sassoftware/relic/v8/signers/macho"
	_ "github.com/sassoftware/relic/v8/signers/msi"
	_ "github.com/sassoftware/relic/v8/signers/pecoff"
	_ "github.com/sassoftware/relic/v8/signers/pgp"
	_ "github.com/sassoftware/relic/v8/signers/pkcs"
	_ "github.com/sassoftware/relic/v8/signers/ps"
	_ "github.com/sassoftware/relic/v8/signers/rpm"
	_ "github.com/sassoftware/relic/v8/signers/vsix"
	_ "github.com/sassoftware/relic/v8/signers/xap"
	_ "github.com/sassoftware/relic/v8/signers/xar"
)
