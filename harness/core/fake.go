package core

import (
	"context"
	"crypto"
	"crypto/x509"
	"errors"
	"sync"

	"github.com/sassoftware/relic/v8/config"
	"github.com/sassoftware/relic/v8/token"
)

// fakeToken: scripted token used by several properties; records every call.
type FakeToken struct {
	mu       sync.Mutex
	Conf     *config.TokenConfig
	PingFn   func(ctx context.Context) error
	GetKeyFn func(ctx context.Context, name string) (token.Key, error)
	Log      []string
	Closed   int
}

func (t *FakeToken) Record(s string) {
	t.mu.Lock()
	t.Log = append(t.Log, s)
	t.mu.Unlock()
}
func (t *FakeToken) Calls() []string {
	t.mu.Lock()
	defer t.mu.Unlock()
	return append([]string{}, t.Log...)
}
func (t *FakeToken) ResetLog()    { t.mu.Lock(); t.Log = nil; t.mu.Unlock() }
func (t *FakeToken) Close() error { t.mu.Lock(); t.Closed++; t.mu.Unlock(); return nil }
func (t *FakeToken) Ping(ctx context.Context) error {
	if t.PingFn != nil {
		return t.PingFn(ctx)
	}
	return nil
}
func (t *FakeToken) Config() *config.TokenConfig { return t.Conf }
func (t *FakeToken) GetKey(ctx context.Context, name string) (token.Key, error) {
	t.Record("GetKey:" + name)
	if t.GetKeyFn != nil {
		return t.GetKeyFn(ctx, name)
	}
	return nil, errors.New("fake token has no keys")
}
func (t *FakeToken) Import(string, crypto.PrivateKey) (token.Key, error) {
	return nil, errors.New("not implemented")
}
func (t *FakeToken) ImportCertificate(*x509.Certificate, string) error {
	return errors.New("not implemented")
}
func (t *FakeToken) Generate(string, token.KeyType, uint) (token.Key, error) {
	return nil, errors.New("not implemented")
}
func (t *FakeToken) ListKeys(token.ListOptions) error { return errors.New("not implemented") }
