// drv: correspondence driver. Runs the real relic code (built from /repo's working tree,
// tag verif) on generated cases and prints one JSON object per case on stdout.
package core

import (
	"bufio"
	"encoding/json"
	"flag"
	"fmt"
	"os"
	"sort"
)

type Rng struct{ S uint64 }

func (r *Rng) Next() uint64 {
	r.S += 0x9e3779b97f4a7c15
	z := r.S
	z = (z ^ (z >> 30)) * 0xbf58476d1ce4e5b9
	z = (z ^ (z >> 27)) * 0x94d049bb133111eb
	return z ^ (z >> 31)
}
func (r *Rng) Intn(n int) int {
	if n <= 0 {
		return 0
	}
	return int(r.Next() % uint64(n))
}
func (r *Rng) Bytes(n int) []byte {
	b := make([]byte, n)
	for i := range b {
		b[i] = byte(r.Next())
	}
	return b
}
func (r *Rng) Pick(xs ...int) int  { return xs[r.Intn(len(xs))] }
func (r *Rng) Chance(pct int) bool { return r.Intn(100) < pct }

type Ctx struct {
	Seed    uint64
	Tier    string
	N       int
	w       *bufio.Writer
	Scratch string
	Args    []string
}

func (c *Ctx) Emit(v interface{}) {
	b, err := json.Marshal(v)
	if err != nil {
		panic(err)
	}
	c.w.Write(b)
	c.w.WriteByte('\n')
}

var Commands = map[string]func(*Ctx) error{}

// Register adds a driver sub-command.
func Register(name string, f func(*Ctx) error) { Commands[name] = f }

func Main() {
	seed := flag.Uint64("seed", 1, "PRNG seed")
	tier := flag.String("tier", "quick", "quick|thorough")
	n := flag.Int("n", 0, "case count override")
	scratch := flag.String("scratch", "", "scratch directory (required by file-based commands)")
	flag.Parse()
	if flag.NArg() < 1 {
		var names []string
		for k := range Commands {
			names = append(names, k)
		}
		sort.Strings(names)
		fmt.Fprintln(os.Stderr, "usage: drv [flags] <command> ; commands:", names)
		os.Exit(2)
	}
	cmd, ok := Commands[flag.Arg(0)]
	if !ok {
		fmt.Fprintln(os.Stderr, "unknown command", flag.Arg(0))
		os.Exit(2)
	}
	c := &Ctx{Seed: *seed, Tier: *tier, N: *n, w: bufio.NewWriterSize(os.Stdout, 1<<20), Scratch: *scratch, Args: flag.Args()[1:]}
	err := cmd(c)
	c.w.Flush()
	if err != nil {
		fmt.Fprintln(os.Stderr, "drv error:", err)
		os.Exit(3)
	}
}
