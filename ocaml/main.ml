(* Generic line driver for the extracted models: one val per input line, one val per output line.
   Syntax:  val ::= INT | xHEX | [ val* ]    (tokens separated by spaces; 'x' alone is the empty byte string) *)
open Model

let rec pos_of_int (n : int) : positive =
  if n = 1 then XH else if n land 1 = 0 then XO (pos_of_int (n lsr 1)) else XI (pos_of_int (n lsr 1))
let z_of_small (n : int) : z = if n = 0 then Z0 else if n > 0 then Zpos (pos_of_int n) else Zneg (pos_of_int (-n))

(* decimal string -> Z without going through OCaml int (int64 offsets exceed 2^62) *)
let z_of_string (s : string) : z =
  let neg = String.length s > 0 && s.[0] = '-' in
  let acc = ref Z0 in
  String.iteri (fun i c -> if not (i = 0 && neg) then
    acc := z_push_digit !acc (z_of_small (Char.code c - 48))) s;
  if neg then (match !acc with Zpos p -> Zneg p | v -> v) else !acc

let rec int_of_pos = function XH -> 1 | XO p -> 2 * int_of_pos p | XI p -> 2 * int_of_pos p + 1
let rec string_of_z (v : z) : string =
  match v with
  | Z0 -> "0"
  | Zneg p -> "-" ^ string_of_z (Zpos p)
  | Zpos _ ->
    let buf = Buffer.create 20 in
    let rec go v acc =
      match v with
      | Z0 -> acc
      | _ -> let (q, r) = z_divmod10 v in
             let d = (match r with Z0 -> 0 | Zpos p -> int_of_pos p | Zneg _ -> 0) in
             go q (Char.chr (48 + d) :: acc) in
    List.iter (Buffer.add_char buf) (go v []); Buffer.contents buf

let bytetab = Array.init 256 z_of_small
let hexv c = match c with '0'..'9' -> Char.code c - 48 | 'a'..'f' -> Char.code c - 87 | 'A'..'F' -> Char.code c - 55 | _ -> 0
let bytes_of_hex (s : string) (start : int) : z list =
  let n = (String.length s - start) / 2 in
  let rec go i acc = if i < 0 then acc else go (i - 1) (bytetab.(16 * hexv s.[start + 2*i] + hexv s.[start + 2*i + 1]) :: acc) in
  go (n - 1) []

let parse (line : string) : val0 =
  let toks = List.filter (fun t -> t <> "") (String.split_on_char ' ' line) in
  let rec pval toks = match toks with
    | "[" :: rest -> let (items, rest') = plist rest [] in (VL items, rest')
    | t :: rest when t.[0] = 'x' -> (VB (bytes_of_hex t 1), rest)
    | t :: rest -> (VZ (z_of_string t), rest)
    | [] -> failwith "unexpected end"
  and plist toks acc = match toks with
    | "]" :: rest -> (List.rev acc, rest)
    | _ -> let (v, rest) = pval toks in plist rest (v :: acc) in
  fst (pval toks)

let hexdigits = "0123456789abcdef"
let rec print_val buf (v : val0) = match v with
  | VZ z -> Buffer.add_string buf (string_of_z z)
  | VB b -> Buffer.add_char buf 'x';
            List.iter (fun z -> let n = (match z with Z0 -> 0 | Zpos p -> int_of_pos p | Zneg _ -> 0) in
                        Buffer.add_char buf hexdigits.[(n lsr 4) land 15]; Buffer.add_char buf hexdigits.[n land 15]) b
  | VL l -> Buffer.add_string buf "[";
            List.iter (fun x -> Buffer.add_char buf ' '; print_val buf x) l;
            Buffer.add_string buf " ]"

let () =
  try
    while true do
      let line = input_line stdin in
      if String.length line > 0 then begin
        let v = parse line in
        let r = verif_entry v in
        let buf = Buffer.create 256 in
        print_val buf r; print_endline (Buffer.contents buf)
      end
    done
  with End_of_file -> ()
