(* C10/Model.v — executable model of relic's timestamp handling and an independent specification.

   Part A (client): pkcs9.TimeStampReq.ParseResponse / SanityCheckToken, pkcs9.ParseLegacyResponse,
                    tsclient.tsClient.do / Timestamp (ordered failover).
   Part B (attach): pkcs9.TimestampAndMarshal (self-check), appmanifest AddTimestamp (VerifyTimestamp), VSIX (no check).
   Part C (verify): pkcs9.VerifyPkcs7 / Verify / MessageImprint.Verify / finishVerify / VerifyMicrosoftToken and
                    TimestampedSignature.VerifyChain (chains judged at the attested time).
   Every constant, comparison and call order of the Go code comes from Generated/C10_gen.v.

   The digest function is a parameter H : algorithm -> data -> digest of the whole development; nothing is assumed
   about it except, where stated, injectivity.  Signature validity of a token is an attribute of the token (oracle). *)
From Relic Require Import Base.Prelude Generated.C10_gen.

(* ------------------------------------------------------------------ data *)
Record cert := mkCert {
  c_nb : Z; c_na : Z;          (* validity window of the whole chain, inclusive *)
  c_trusted : bool;            (* chains to a configured root *)
  c_ts_eku : bool }.           (* chain permits the timeStamping purpose *)

(* a timestamp: RFC 3161 token (form 0), Microsoft legacy token (form 1) or PKCS#9 counterSignature (form 2) *)
Record stamp := mkStamp {
  st_id : Z;                   (* who issued it (index of the authority), for identification only *)
  st_form : Z;
  st_nsigners : Z;
  st_has_content : bool;       (* TSTInfo / content attached and non-empty *)
  st_info_ok : bool;           (* TSTInfo parses *)
  st_sig_ok : bool;            (* the stamp's own signature verifies under its certificate *)
  st_nonce : option Z;
  st_alg : Z;                  (* algorithm named in the imprint *)
  st_hashed : bytes;           (* imprint bytes; for the legacy form: the signed content *)
  st_time : Z;                 (* attested time; 0 is Go's zero time.Time *)
  st_time_ok : bool;           (* the time field parses *)
  st_cert : cert }.

Record reply := mkReply {
  r_transport : bool;          (* a complete HTTP response arrived before the client's timeout *)
  r_http : Z;
  r_parses : bool;             (* 3161: body is a DER TimeStampResp; legacy: base64 of a DER ContentInfo *)
  r_rest : Z;                  (* trailing bytes after the TimeStampResp *)
  r_status : Z;                (* PKIStatus *)
  r_stamp : stamp;
  r_ctx_dead : bool }.         (* the caller's context is done when this attempt returns *)

Record request := mkReq {
  q_sig : bytes;               (* the signature value (EncryptedDigest) *)
  q_alg : Z;
  q_nonce : Z;
  q_legacy : bool }.

(* error classes *)
Definition E_TRANSPORT := 1.
Definition E_HTTP := 2.
Definition E_PARSE := 3.
Definition E_TRAILING := 4.
Definition E_DENIED := 5.
Definition E_SIG := 6.
Definition E_INFO := 7.
Definition E_NONCE := 8.
Definition E_IMPRINT := 9.
Definition E_EMPTY := 10.
Definition E_ALG := 11.
Definition E_NSIGNERS := 12.
Definition E_TIME := 13.
Definition E_CHAIN_TSA := 14.
Definition E_CHAIN := 15.
Definition P_NIL := 1.         (* nil pointer dereference *)
Definition P_INDEX := 2.       (* index out of range *)

(* the hash algorithms relic's x509tools.PkixDigestToHashE knows (md5 sha1 sha224 sha256 sha384 sha512 as 0..5) *)
Definition known_alg (a : Z) : bool := (0 <=? a) && (a <=? 5).

(* what a success without a token looks like (Go: `return nil, nil`) *)
Definition null_stamp : stamp :=
  mkStamp (-1) 0 0 false false false None 0 [] 0 false (mkCert 0 0 false false).

Section Model.
Variable H : Z -> bytes -> bytes.

(* ================================================================== Part A: the client *)

(* the imprint tsClient.Timestamp sends: the digest of the signature value (RFC 3161) or the value itself (legacy) *)
Definition request_imprint (q : request) : bytes :=
  if imprint_is_hashed (q_legacy q) then H (q_alg q) (q_sig q) else q_sig q.

Definition content_len (t : stamp) : Z := if st_has_content t then 1 else 0.
Definition has_nonce (t : stamp) : bool := match st_nonce t with Some _ => true | None => false end.
Definition nonce_val (t : stamp) : Z := match st_nonce t with Some n => n | None => 0 end.

(* SanityCheckToken: the four checks, executed in the order srcgen read from the source *)
Definition sanity_step (q : request) (t : stamp) (k : Z) : result unit :=
  if k =? 0 then       (* psd.Content.Verify(nil, false): content must be present, signature must verify *)
    (if st_has_content t && st_sig_ok t then Ok tt else Err E_SIG)
  else if k =? 1 then  (* unpackTokenInfo: empty content is an error (checked before infobytes[0] is read) *)
    (if info_empty (content_len t) then Err E_INFO else if st_info_ok t then Ok tt else Err E_INFO)
  else if k =? 2 then  (* the request always carries a nonce (NewRequest); a token without one counts as a mismatch *)
    (if nonce_mismatch true (has_nonce t) (q_nonce q) (nonce_val t) then Err E_NONCE else Ok tt)
  else if k =? 3 then
    (if imprint_mismatch (st_hashed t) (request_imprint q) then Err E_IMPRINT else Ok tt)
  else Ok tt.

Fixpoint run_steps (q : request) (t : stamp) (ks : list Z) : result unit :=
  match ks with
  | [] => Ok tt
  | k :: r => _ <- sanity_step q t k ;; run_steps q t r
  end.
Definition sanity_check (q : request) (t : stamp) : result unit := run_steps q t sanity_order.

Definition parse_response (q : request) (r : reply) : result stamp :=
  if negb (r_parses r) then Err E_PARSE
  else if resp_trailing (r_rest r) then Err E_TRAILING
  else if resp_denied (r_status r) then Err E_DENIED
  else _ <- sanity_check q (r_stamp r) ;; Ok (r_stamp r).

(* ParseLegacyResponse: base64 + ASN.1 only *)
Definition parse_legacy (r : reply) : result stamp :=
  if r_parses r then Ok (r_stamp r) else Err E_PARSE.

Definition ts_do (q : request) (r : reply) : result stamp :=
  if negb (r_transport r) then Err E_TRANSPORT
  else if http_bad (r_http r) then Err E_HTTP
  else if do_parse_legacy (q_legacy q) then parse_legacy r
  else parse_response q r.

Definition failed {A} (r : result A) : bool := negb (is_ok r).

(* the loop of tsClient.Timestamp; returns the result and the authorities contacted, in order *)
Fixpoint ts_loop (q : request) (rs : list reply) (i : Z) (last : Z) : result stamp * list Z :=
  match rs with
  | [] => (if final_is_error then Err last else Ok null_stamp, [])
  | r :: rest =>
      match ts_do q r with
      | Panic p => (Panic p, [i])
      | res =>
          if loop_returns_token (failed res) then
            (match res with
             | Ok t => if loop_success_returns_the_token then Ok t else Ok null_stamp
             | _ => Ok null_stamp      (* `return token, nil` with a nil token *)
             end, [i])
          else if loop_stops_on_ctx (r_ctx_dead r) then (res, [i])
          else
            let code := match res with Err e => e | _ => 0 end in
            let '(x, h) := ts_loop q rest (i + 1) code in (x, i :: h)
      end
  end.

Definition ts_client (q : request) (rs : list reply) : result stamp * list Z :=
  match rs with
  | [] => (if empty_urls_is_error && empty_msurls_is_error && empty_named_is_error then Err E_EMPTY else Ok null_stamp, [])
  | _ => ts_loop q rs 0 0
  end.

(* ------------------------------------------------------------------ specification of the client (from the property text) *)
(* "the authority's reply grants the request, echoes the request's nonce, carries an imprint equal to the digest of
    this signature value and is itself correctly signed" *)
Definition delivered (r : reply) : bool :=
  r_transport r && (r_http r =? 200) && r_parses r && (r_rest r =? 0).
Definition granted (r : reply) : bool := (r_status r =? 0) || (r_status r =? 1).
Definition well_signed (t : stamp) : bool := st_has_content t && st_info_ok t && st_sig_ok t.
Definition echoes (q : request) (t : stamp) : bool :=
  match st_nonce t with Some n => n =? q_nonce q | None => false end.
Definition imprint_bytes_match (q : request) (t : stamp) : bool := bytes_eqb (st_hashed t) (H (q_alg q) (q_sig q)).
Definition imprint_alg_match (q : request) (t : stamp) : bool := st_alg t =? q_alg q.

(* everything but the algorithm label of the imprint *)
Definition genuine_bytes (q : request) (r : reply) : bool :=
  delivered r && granted r && well_signed (r_stamp r) && echoes q (r_stamp r) && imprint_bytes_match q (r_stamp r).
Definition genuine (q : request) (r : reply) : bool :=
  genuine_bytes q r && imprint_alg_match q (r_stamp r).
(* legacy style: no nonce, no status; the token must be a valid signature over exactly the signature value *)
Definition delivered_legacy (r : reply) : bool := r_transport r && (r_http r =? 200) && r_parses r.
Definition genuine_legacy (q : request) (r : reply) : bool :=
  delivered_legacy r && st_has_content (r_stamp r) && st_sig_ok (r_stamp r) && bytes_eqb (st_hashed (r_stamp r)) (q_sig q).

(* "otherwise the next configured authority is tried, and if all fail the signing fails" *)
Fixpoint spec_client (good : reply -> bool) (rs : list reply) (i : Z) : option stamp * list Z :=
  match rs with
  | [] => (None, [])
  | r :: rest =>
      if good r then (Some (r_stamp r), [i])
      else let '(x, h) := spec_client good rest (i + 1) in (x, i :: h)
  end.

(* ================================================================== Part C: verification of a stamp *)
(* MessageImprint.Verify *)
Definition imprint_verify (t : stamp) (data : bytes) : result unit :=
  if negb (known_alg (st_alg t)) then Err E_ALG
  else if imprint_verify_bad (H (st_alg t) data) (st_hashed t) then Err E_IMPRINT
  else Ok tt.

(* pkcs9.Verify (form 0), VerifyMicrosoftToken (form 1), counterSignature branch of VerifyPkcs7 (form 2);
   result: the attested time *)
Definition verify_stamp (t : stamp) (data : bytes) : result Z :=
  if st_form t =? 0 then
    if signer_count_bad (st_nsigners t) then Err E_NSIGNERS
    else if info_empty (content_len t) then Err E_INFO         (* unpackTokenInfo runs before any verification *)
    else if negb (st_info_ok t) then Err E_INFO
    else _ <- imprint_verify t data ;;
         if negb (st_sig_ok t) then Err E_SIG
         else if negb (st_time_ok t) then Err E_TIME
         else Ok (st_time t)
  else if st_form t =? 1 then
    if negb (st_has_content t && st_sig_ok t) then Err E_SIG
    else if ms_content_bad (st_hashed t) data then Err E_IMPRINT
    else if negb (st_time_ok t) then Err E_TIME
    else Ok (st_time t)
  else
    (* SignerInfo.Verify(blob = signature value): messageDigest attribute against H(alg, blob), then the signature *)
    if negb (known_alg (st_alg t)) then Err E_ALG
    else if negb (bytes_eqb (st_hashed t) (H (st_alg t) data)) then Err E_IMPRINT
    else if negb (st_sig_ok t) then Err E_SIG
    else if negb (st_time_ok t) then Err E_TIME
    else Ok (st_time t).

(* Go's x509.VerifyOptions: a zero CurrentTime means time.Now() *)
Definition eff_time (t now : Z) : Z := if t =? 0 then now else t.
Definition chain_ok (c : cert) (t : Z) : bool := c_trusted c && (c_nb c <=? t) && (t <=? c_na c).

(* TimestampedSignature.VerifyChain *)
Definition verify_chain (now : Z) (leaf : cert) (cs : option (Z * cert)) : result unit :=
  match cs with
  | Some (t, tsa) =>
      if vc_has_countersig true then
        let tsa_ok := if cs_chain_judged_at_cs_time_with_ts_eku then chain_ok tsa (eff_time t now) && c_ts_eku tsa
                      else chain_ok tsa now in
        if negb tsa_ok then (if vc_bad_tsa_chain_is_error then Err E_CHAIN_TSA else Ok tt)
        else
          let lt := if vc_leaf_judged_at_signing_time then eff_time (vc_signing_time t) now else now in
          if chain_ok leaf lt then Ok tt else Err E_CHAIN
      else if chain_ok leaf now then Ok tt else Err E_CHAIN
  | None =>
      if vc_has_countersig false then Err E_CHAIN   (* not reachable with the code as read *)
      else if chain_ok leaf (eff_time 0 now) then Ok tt else Err E_CHAIN
  end.

Record signature := mkSig {
  s_value : bytes;             (* this signature's value *)
  s_leaf : cert;
  s_stamp : option stamp }.

(* VerifyOptionalTimestamp followed by VerifyChain, as cmdline/verify does *)
Definition verify_all (now : Z) (s : signature) : result unit :=
  match s_stamp s with
  | None => verify_chain now (s_leaf s) None
  | Some st => t <- verify_stamp st (s_value s) ;; verify_chain now (s_leaf s) (Some (t, st_cert st))
  end.
Definition accepted (now : Z) (s : signature) : bool := is_ok (verify_all now s).

(* ------------------------------------------------------------------ specification of verification (from the property text) *)
(* "a countersignature is accepted only if it covers this exact signature value" *)
Definition covers (st : stamp) (data : bytes) : bool :=
  if st_form st =? 1 then bytes_eqb (st_hashed st) data
  else bytes_eqb (st_hashed st) (H (st_alg st) data).
Definition stamp_valid (st : stamp) (data : bytes) : bool :=
  covers st data && st_sig_ok st && st_time_ok st &&
  (if st_form st =? 0 then st_has_content st && st_info_ok st && (st_nsigners st =? 1) && known_alg (st_alg st)
   else if st_form st =? 1 then st_has_content st
   else known_alg (st_alg st)).
Definition in_window (c : cert) (t : Z) : bool := (c_nb c <=? t) && (t <=? c_na c).
(* "certificate chains are then judged at the attested time" *)
Definition spec_accept (now : Z) (s : signature) : bool :=
  match s_stamp s with
  | None => c_trusted (s_leaf s) && in_window (s_leaf s) now
  | Some st =>
      stamp_valid st (s_value s) &&
      c_trusted (st_cert st) && c_ts_eku (st_cert st) && in_window (st_cert st) (st_time st) &&
      c_trusted (s_leaf s) && in_window (s_leaf s) (st_time st)
  end.

(* ================================================================== Part B: attaching *)
(* what the signer does with the client's answer; class 0: TimestampAndMarshal (attach, then Verify +
   VerifyOptionalTimestamp self-check); class 1: appmanifest AddTimestamp (VerifyTimestamp on the token);
   class 2: VSIX (attached as returned); class 3: cosign (pkcs9.Verify on the token).
   Result: Some stamp = output carries that stamp, None = output without a timestamp. *)
Definition self_check (cls : Z) (t : stamp) (sigv : bytes) : result unit :=
  if cls =? 2 then Ok tt
  else match verify_stamp t sigv with Ok _ => Ok tt | Err e => Err e | Panic p => Panic p end.

Definition sign_with_ts (cls : Z) (has_ts : bool) (q : request) (rs : list reply) : result (option stamp) * list Z :=
  if tam_uses_timestamper has_ts then
    let '(res, hits) := ts_client q rs in
    (match res with
     | Ok t => match self_check cls t (q_sig q) with
               | Ok _ => Ok (Some t)
               | Err e => Err e
               | Panic p => Panic p
               end
     | Err e => Err e
     | Panic p => Panic p
     end, hits)
  else (Ok None, []).

End Model.

(* a concrete digest for evaluation and for the witnesses: algorithm tag followed by the data (injective) *)
Definition Hsym (a : Z) (d : bytes) : bytes := a :: d.
