(* C10/ChainProofs.v — history independence of chain verification, and what a fresh verification decides. *)
From Coq Require Import String.
From Relic Require Import Base.Prelude Generated.C10_gen C10.ChainIR C10.Model C10.Proofs C10.Chain.
From Coq Require Import Btauto.

(* ------------------------------------------------------------------ generic: stateless programs ignore the process state *)

Lemma eval_c_stateless e r c : cond_stateless c = true -> forall s s', eval_c e r s c = eval_c e r s' c.
Proof.
  induction c; cbn [cond_stateless eval_c]; intros Hs s s'; try reflexivity; try discriminate.
  - rewrite (IHc Hs s s'). reflexivity.
  - apply andb_true_iff in Hs as [H1 H2]. rewrite (IHc1 H1 s s'), (IHc2 H2 s s'). reflexivity.
  - apply andb_true_iff in Hs as [H1 H2]. rewrite (IHc1 H1 s s'), (IHc2 H2 s s'). reflexivity.
Qed.

(* a function of (call, process state) whose result does not depend on the state and which leaves the state alone *)
Definition sigma_indep (f : env -> store -> result unit * store) : Prop :=
  forall e s, f e s = (fst (f e []), s).

Lemma exec_stateless callf :
  (forall f, sigma_indep (callf f)) ->
  forall p, stateless p = true ->
  forall e r s, exec callf p e r s = (fst (exec callf p e r []), s).
Proof.
  intros Hc. induction p; cbn [stateless]; intros Hs e r s; try discriminate; try reflexivity.
  - (* SSeq *)
    apply andb_true_iff in Hs as [H1 H2]. cbn [exec].
    rewrite (IHp1 H1 e r s). pose proof (IHp1 H1 e r []) as E0.
    destruct (exec callf p1 e r []) as [[o r'] s0]. cbn [fst] in *.
    assert (s0 = []) by (inversion E0; reflexivity). subst s0.
    destruct o as [res|].
    + reflexivity.
    + apply (IHp2 H2 e r' s).
  - (* SIf *)
    apply andb_true_iff in Hs as [H12 H3]. apply andb_true_iff in H12 as [H1 H2]. cbn [exec].
    rewrite (eval_c_stateless e r c H1 s []).
    destruct (eval_c e r [] c) as [[|]|x|x]; try reflexivity.
    + apply IHp1. exact H2.
    + apply IHp2. exact H3.
  - (* SVerify *)
    cbn [exec]. destruct (eval_t e r t); reflexivity.
  - (* SCall *)
    cbn [exec]. destruct (callee_env e r f roots extra u t) as [e'|x|x]; try reflexivity.
    rewrite (Hc f e' s). pose proof (Hc f e' []) as E0.
    destruct (callf f e' []) as [res s0]. cbn [fst] in *.
    assert (s0 = []) by (inversion E0; reflexivity). subst s0.
    destruct res; reflexivity.
  - (* SSetTime *)
    cbn [exec]. destruct (eval_t e r t); reflexivity.
  - (* SRetCall *)
    cbn [exec]. destruct (callee_env e r f roots extra u t) as [e'|x|x]; try reflexivity.
    rewrite (Hc f e' s). pose proof (Hc f e' []) as E0.
    destruct (callf f e' []) as [res s0]. cbn [fst] in *.
    assert (s0 = []) by (inversion E0; reflexivity). subst s0. reflexivity.
Qed.

Lemma run_prog_stateless callf p :
  (forall f, sigma_indep (callf f)) -> stateless p = true -> sigma_indep (run_prog callf p).
Proof.
  intros Hc Hs e s. unfold run_prog.
  rewrite (exec_stateless callf Hc p Hs e (mkRegs false 0) s).
  pose proof (exec_stateless callf Hc p Hs e (mkRegs false 0) []) as E0.
  destruct (exec callf p e (mkRegs false 0) []) as [[o r'] s0]. cbn [fst] in *.
  assert (s0 = []) by (inversion E0; reflexivity). subst s0.
  destruct o; reflexivity.
Qed.

(* ------------------------------------------------------------------ the generated programs are stateless *)

(* re-checked by computation on what srcgen read from the source *)
Lemma programs_stateless : stateless vc7_prog && stateless vc9cs_prog && stateless vc9ts_prog = true.
Proof. vm_compute. reflexivity. Qed.

Lemma no_call_indep f : sigma_indep (no_call f).
Proof. intros e s. reflexivity. Qed.

Lemma run7_indep : sigma_indep run7.
Proof.
  apply run_prog_stateless; [exact no_call_indep|].
  pose proof programs_stateless as P. apply andb_true_iff in P as [P _]. apply andb_true_iff in P as [P _]. exact P.
Qed.
Lemma call9cs_indep f : sigma_indep (call9cs f).
Proof. destruct f; [exact run7_indep | exact (no_call_indep F9cs)]. Qed.
Lemma run9cs_indep : sigma_indep run9cs.
Proof.
  apply run_prog_stateless; [exact call9cs_indep|].
  pose proof programs_stateless as P. apply andb_true_iff in P as [P _]. apply andb_true_iff in P as [_ P]. exact P.
Qed.
Lemma call9ts_indep f : sigma_indep (call9ts f).
Proof. destruct f; [exact run7_indep | exact run9cs_indep]. Qed.
Lemma run9ts_indep : sigma_indep run9ts.
Proof.
  apply run_prog_stateless; [exact call9ts_indep|].
  pose proof programs_stateless as P. apply andb_true_iff in P as [_ P]. exact P.
Qed.

(* one verification: the verdict is the verdict of a fresh process and the process state is left as it was *)
Theorem verify_step_fresh s c : verify_step s c = (fresh c, s).
Proof. unfold verify_step, fresh, verify_step. apply run9ts_indep. Qed.

(* every history: each verdict equals the verdict of the same single verification done first in a fresh process *)
Theorem history_independent h : forall s, verify_seq s h = (map fresh h, s).
Proof.
  induction h as [|c rest IH]; intros s; cbn [verify_seq map]; [reflexivity|].
  rewrite verify_step_fresh, IH. reflexivity.
Qed.

Corollary history_independent_nth h1 c h2 s :
  nth_error (fst (verify_seq s (h1 ++ c :: h2))) (length h1) = Some (fresh c).
Proof.
  rewrite history_independent. cbn [fst]. rewrite map_app. cbn [map].
  rewrite nth_error_app2; rewrite map_length; [|lia]. rewrite Nat.sub_diag. reflexivity.
Qed.

(* ------------------------------------------------------------------ what a fresh verification decides *)

Lemma eff_nz t now : t <> 0 -> eff_time t now = t.
Proof. unfold eff_time. intros Hnz. destruct (t =? 0) eqn:E; [lia | reflexivity]. Qed.

Lemma existsb_app_comm {A} (f : A -> bool) a b : existsb f (a ++ b) = existsb f (b ++ a).
Proof. rewrite !existsb_app. apply orb_comm. Qed.
Lemma path_ok_app_comm leaf a b roots t us : path_ok leaf (a ++ b) roots t us = path_ok leaf (b ++ a) roots t us.
Proof. unfold path_ok. rewrite (existsb_app_comm _ a b). reflexivity. Qed.

(* closed form of the verdict of a fresh process, read off the generated programs *)
Definition fresh_value (c : vcall) : result unit :=
  let roots := p_roots (v_roots c) in
  match v_cs c with
  | None =>
      if path_ok (o_leaf (v_sig c)) (v_extra c ++ o_inter (v_sig c)) roots (eff_time 0 (v_now c)) [v_usage c]
      then Ok tt else Err E_CHAIN
  | Some cs =>
      if path_ok (o_leaf (cs_sig cs)) (v_extra c ++ o_inter (cs_sig cs)) roots (eff_time (cs_time cs) (v_now c)) [8]
      then if path_ok (o_leaf (v_sig c)) (v_extra c ++ o_inter (v_sig c)) roots (eff_time (cs_time cs) (v_now c)) [v_usage c]
           then Ok tt else Err E_CHAIN
      else Err E_CHAIN_TSA
  end.

Ltac opq :=
  repeat match goal with
         | |- context [v_opq ?c ?n] => destruct (v_opq c n)
         end.

Lemma fresh_closed_form c : fresh c = fresh_value c.
Proof.
  unfold fresh, verify_step, run9ts, fresh_value.
  destruct c as [roots extra usage now sig cs opqf]. cbn [v_roots v_extra v_usage v_now v_sig v_cs v_opq env_of].
  unfold run_prog, vc9ts_prog, call9ts, run9cs, run_prog, vc9cs_prog, call9cs, run7, run_prog, vc7_prog, x509_verify.
  Local Opaque path_ok eff_time.
  destruct cs as [cs|]; cbn; rewrite ?app_nil_r;
    repeat (match goal with
            | |- context [path_ok ?a ?b ?c ?d ?e] => destruct (path_ok a b c d e); cbn
            | |- context [opqf ?n] => destruct (opqf n); cbn
            end); reflexivity.
Qed.
Local Transparent path_ok eff_time.

Theorem fresh_never_panics c x : fresh c <> Panic x.
Proof.
  rewrite fresh_closed_form. unfold fresh_value. destruct (v_cs c) as [cs|].
  - destruct (path_ok _ _ _ _ _); [destruct (path_ok _ _ _ _ _)|]; discriminate.
  - destruct (path_ok _ _ _ _ _); discriminate.
Qed.

(* the verdict of a fresh verification is the specification's, whenever the attested time is not Go's zero time *)
Theorem fresh_is_spec c :
  (forall cs, v_cs c = Some cs -> cs_time cs <> 0) ->
  is_ok (fresh c) = spec_chain_accept c.
Proof.
  intros Hnz. rewrite fresh_closed_form. unfold fresh_value, spec_chain_accept.
  destruct (v_cs c) as [cs|].
  - rewrite (eff_nz _ (v_now c) (Hnz cs eq_refl)).
    rewrite (path_ok_app_comm (o_leaf (cs_sig cs)) (v_extra c)), (path_ok_app_comm (o_leaf (v_sig c)) (v_extra c)).
    destruct (path_ok (o_leaf (cs_sig cs)) _ _ _ _); [destruct (path_ok (o_leaf (v_sig c)) _ _ _ _)|]; reflexivity.
  - unfold eff_time. cbn [Z.eqb]. rewrite (path_ok_app_comm (o_leaf (v_sig c)) (v_extra c)).
    destruct (path_ok _ _ _ _ _); reflexivity.
Qed.

(* ------------------------------------------------------------------ the property, for every history *)

Lemma path_ok_win leaf inter roots t us : path_ok leaf inter roots t us = true -> win leaf t = true.
Proof. unfold path_ok. intros H. apply andb_true_iff in H as [H _]. apply andb_true_iff in H as [H _]. exact H. Qed.

(* in any history of verifications in one process, at any position: an expired signer certificate is accepted only
   with a countersignature whose attested time lies within the certificate's lifetime and whose authority chain is
   valid, for the timeStamping purpose, at that time *)
Theorem seq_expired_needs_timestamp h s i c :
  nth_error h i = Some c ->
  nth_error (fst (verify_seq s h)) i = Some (Ok tt) ->
  x_na (o_leaf (v_sig c)) < v_now c ->
  exists cs, v_cs c = Some cs /\ cs_time cs <> 0 /\
    win (o_leaf (v_sig c)) (cs_time cs) = true /\
    path_ok (o_leaf (cs_sig cs)) (v_extra c ++ o_inter (cs_sig cs)) (p_roots (v_roots c)) (cs_time cs) [8] = true /\
    path_ok (o_leaf (v_sig c)) (v_extra c ++ o_inter (v_sig c)) (p_roots (v_roots c)) (cs_time cs) [v_usage c] = true.
Proof.
  intros Hc Hv Hexp. rewrite history_independent in Hv. cbn [fst] in Hv.
  rewrite nth_error_map, Hc in Hv. cbn in Hv. injection Hv as Hv.
  rewrite fresh_closed_form in Hv. unfold fresh_value in Hv.
  destruct (v_cs c) as [cs|].
  - exists cs. split; [reflexivity|].
    destruct (path_ok (o_leaf (cs_sig cs)) _ _ _ _) eqn:P1; [|discriminate].
    destruct (path_ok (o_leaf (v_sig c)) _ _ _ _) eqn:P2; [|discriminate].
    assert (Hnz : cs_time cs <> 0).
    { intros Hz. rewrite Hz in P2. unfold eff_time in P2. cbn [Z.eqb] in P2.
      apply path_ok_win in P2. unfold win in P2. lia. }
    rewrite (eff_nz _ _ Hnz) in P1, P2.
    split; [exact Hnz|]. split; [exact (path_ok_win _ _ _ _ _ P2)|]. split; assumption.
  - destruct (path_ok _ _ _ _ _) eqn:P; [|discriminate].
    unfold eff_time in P. cbn [Z.eqb] in P. apply path_ok_win in P. unfold win in P. lia.
Qed.

(* same for the authority's own certificate: accepted only if the attested time lies within ITS lifetime *)
Theorem seq_tsa_judged_at_attested_time h s i c cs :
  nth_error h i = Some c ->
  nth_error (fst (verify_seq s h)) i = Some (Ok tt) ->
  v_cs c = Some cs -> cs_time cs <> 0 ->
  win (o_leaf (cs_sig cs)) (cs_time cs) = true /\ eku_ok 8 (o_leaf (cs_sig cs)) = true.
Proof.
  intros Hc Hv Hcs Hnz. rewrite history_independent in Hv. cbn [fst] in Hv.
  rewrite nth_error_map, Hc in Hv. cbn in Hv. injection Hv as Hv.
  rewrite fresh_closed_form in Hv. unfold fresh_value in Hv. rewrite Hcs in Hv.
  destruct (path_ok (o_leaf (cs_sig cs)) _ _ _ _) eqn:P1; [|discriminate].
  rewrite (eff_nz _ _ Hnz) in P1. split; [exact (path_ok_win _ _ _ _ _ P1)|].
  unfold path_ok in P1. apply andb_true_iff in P1 as [P1 _]. apply andb_true_iff in P1 as [_ P1].
  unfold usages_ok in P1. cbn [existsb] in P1. rewrite orb_false_r in P1. exact P1.
Qed.

(* ------------------------------------------------------------------ inventory of package-level mutable state *)
Theorem state_inventory_reviewed :
  mutable_state_pkcs7 = reviewed_state_pkcs7 /\ mutable_state_pkcs9 = reviewed_state_pkcs9 /\
  mutable_state_x509tools = reviewed_state_x509tools.
Proof. repeat split; reflexivity. Qed.
Theorem verify_path_touches_no_state : verify_path_state = reviewed_path_state.
Proof. reflexivity. Qed.

(* ------------------------------------------------------------------ agreement with the single-verification model (Model.verify_chain)
   for directly issued certificates (no intermediates): the abstraction that the older theorems of this unit use *)
Definition abs_cert (c : xcert) (roots : list Z) (us : list Z) : cert :=
  mkCert (x_nb c) (x_na c) (memz (x_issuer c) roots && usages_ok us c) (eku_ok 8 c).

Lemma path_ok_direct leaf roots t us :
  path_ok leaf [] roots t us = chain_ok (abs_cert leaf roots us) t.
Proof. unfold path_ok, chain_ok, abs_cert, win. cbn [existsb c_trusted c_nb c_na]. btauto. Qed.

Theorem fresh_refines_verify_chain c :
  v_extra c = [] -> o_inter (v_sig c) = [] -> (forall cs, v_cs c = Some cs -> o_inter (cs_sig cs) = []) ->
  is_ok (fresh c) =
  is_ok (verify_chain (v_now c) (abs_cert (o_leaf (v_sig c)) (p_roots (v_roots c)) [v_usage c])
           (match v_cs c with
            | Some cs => Some (cs_time cs, abs_cert (o_leaf (cs_sig cs)) (p_roots (v_roots c)) [8])
            | None => None
            end)).
Proof.
  intros He Hi Hci. rewrite fresh_closed_form. unfold fresh_value. rewrite He, Hi. cbn [app].
  destruct (v_cs c) as [cs|].
  - rewrite (Hci cs eq_refl). rewrite verify_chain_some, !path_ok_direct.
    set (T := abs_cert (o_leaf (cs_sig cs)) (p_roots (v_roots c)) [8]).
    set (L := abs_cert (o_leaf (v_sig c)) (p_roots (v_roots c)) [v_usage c]).
    set (tm := eff_time (cs_time cs) (v_now c)).
    (* the timeStamping usage of the authority's certificate is already part of its path validation *)
    assert (Hts : chain_ok T tm = true -> c_ts_eku T = true).
    { unfold chain_ok, T, abs_cert. cbn [c_trusted c_nb c_na c_ts_eku]. unfold usages_ok. cbn [existsb].
      destruct (eku_ok 8 (o_leaf (cs_sig cs))); [reflexivity|].
      rewrite orb_false_r, andb_false_r. cbn [andb]. discriminate. }
    destruct (chain_ok T tm) eqn:C1; cbn [andb].
    + rewrite (Hts eq_refl). cbn [andb]. destruct (chain_ok L tm); reflexivity.
    + reflexivity.
  - rewrite verify_chain_none, path_ok_direct. unfold eff_time. cbn [Z.eqb].
    destruct (chain_ok _ _); reflexivity.
Qed.

(* ------------------------------------------------------------------ sensitivity: a time-blind memo is not history independent *)
Definition w_root : Z := 1.
Definition w_pool : pool := mkPool 77 [w_root].
Definition w_leaf : xcert := mkX 10 100 200 w_root [3].                 (* code signing, valid 100..200 *)
Definition w_tsa : xcert := mkX 20 0 1000 w_root [8].
Definition w_call (cs : option Z) : vcall :=
  mkCall w_pool [] 0 300 (mkSobj w_leaf [])
    (match cs with Some t => Some (mkCs (mkSobj w_tsa []) t) | None => None end) (fun _ => false).

(* with the memo of memo7_timeblind: after the in-lifetime timestamp has been accepted, the same expired certificate is
   accepted without any timestamp and with a timestamp from after its expiry — neither is what a fresh process says *)
Theorem timeblind_memo_refuted :
  exists good bad1 bad2,
    let '(v1, s1) := verify_step_memo [] good in
    let '(v2, s2) := verify_step_memo s1 bad1 in
    let '(v3, _) := verify_step_memo s2 bad2 in
    v1 = Ok tt /\ v2 = Ok tt /\ v3 = Ok tt /\
    fst (verify_step_memo [] bad1) = Err E_CHAIN /\ fst (verify_step_memo [] bad2) = Err E_CHAIN /\
    spec_chain_accept bad1 = false /\ spec_chain_accept bad2 = false /\
    x_na (o_leaf (v_sig bad1)) < v_now bad1.
Proof. exists (w_call (Some 150)), (w_call None), (w_call (Some 250)). vm_compute. repeat split; reflexivity. Qed.
