(* C10/Proofs.v — lemmas about the timestamp model. *)
From Relic Require Import Base.Prelude Generated.C10_gen C10.Model.
From Coq Require Import Btauto.

Lemma bytes_eqb_eq a b : bytes_eqb a b = true <-> a = b.
Proof. apply list_eqb_Z_eq. Qed.
Lemma bytes_eqb_refl a : bytes_eqb a a = true.
Proof. apply bytes_eqb_eq. reflexivity. Qed.
Lemma bytes_eqb_sym a b : bytes_eqb a b = bytes_eqb b a.
Proof.
  destruct (bytes_eqb a b) eqn:E1, (bytes_eqb b a) eqn:E2; try reflexivity.
  - apply bytes_eqb_eq in E1. subst. rewrite bytes_eqb_refl in E2. discriminate.
  - apply bytes_eqb_eq in E2. subst. rewrite bytes_eqb_refl in E1. discriminate.
Qed.

Lemma nonce_mismatch_spec hn a b : nonce_mismatch true hn a b = negb hn || negb (b =? a).
Proof.
  unfold nonce_mismatch, cmp3. cbn [andb]. f_equal.
  destruct (Z.compare_spec a b) as [E|E|E]; cbn; destruct (b =? a) eqn:F; try reflexivity; lia.
Qed.

Fixpoint upto (i : Z) (n : nat) : list Z :=
  match n with O => [] | S n' => i :: upto (i + 1) n' end.

Section Proofs.
Variable H : Z -> bytes -> bytes.

(* ------------------------------------------------------------------ one attempt *)

Lemma ts_do_ok_stamp q r t : ts_do H q r = Ok t -> t = r_stamp r.
Proof.
  unfold ts_do, parse_legacy, parse_response.
  destruct (negb (r_transport r)); [discriminate|].
  destruct (http_bad (r_http r)); [discriminate|].
  destruct (do_parse_legacy (q_legacy q)).
  - destruct (r_parses r); [|discriminate]. intros E. inversion E. reflexivity.
  - destruct (negb (r_parses r)); [discriminate|].
    destruct (resp_trailing (r_rest r)); [discriminate|].
    destruct (resp_denied (r_status r)); [discriminate|].
    destruct (sanity_check H q (r_stamp r)); cbn; try discriminate. intros E. inversion E. reflexivity.
Qed.

(* RFC 3161: an attempt succeeds exactly on a reply that is delivered, granted, well signed, echoes the nonce and
   carries the digest of the signature value *)
Lemma ts_do_rfc_ok q r : q_legacy q = false ->
  is_ok (ts_do H q r) = genuine_bytes H q r.
Proof.
  intros Hleg.
  unfold ts_do, parse_response, sanity_check, genuine_bytes, delivered, granted, well_signed, echoes, imprint_bytes_match.
  rewrite Hleg. unfold do_parse_legacy, http_bad, resp_trailing, resp_denied.
  destruct (r_transport r); cbn [negb andb]; [|reflexivity].
  destruct (r_http r =? 200); cbn [negb andb]; [|reflexivity].
  destruct (r_parses r); cbn [negb andb]; [|reflexivity].
  destruct (r_rest r =? 0); cbn [negb andb]; [|reflexivity].
  destruct ((r_status r <? 0) || (r_status r >? 1)) eqn:Es.
  { assert (E : (r_status r =? 0) || (r_status r =? 1) = false) by lia. rewrite E. reflexivity. }
  assert (E : (r_status r =? 0) || (r_status r =? 1) = true) by lia. rewrite E. cbn [andb].
  unfold sanity_order. cbn [run_steps]. unfold sanity_step. cbn [Z.eqb Pos.eqb].
  unfold info_empty, content_len, has_nonce, nonce_val.
  destruct (st_has_content (r_stamp r)); cbn [negb andb bind Z.eqb]; [|reflexivity].
  destruct (st_sig_ok (r_stamp r)); cbn [negb andb bind]; [|destruct (st_info_ok (r_stamp r)); reflexivity].
  destruct (st_info_ok (r_stamp r)); cbn [negb andb bind]; [|reflexivity].
  rewrite nonce_mismatch_spec.
  destruct (st_nonce (r_stamp r)) as [n|]; cbn [negb orb bind]; [|reflexivity].
  destruct (n =? q_nonce q); cbn [negb andb bind]; [|reflexivity].
  unfold imprint_mismatch, request_imprint, imprint_is_hashed. rewrite Hleg. cbn [negb].
  destruct (bytes_eqb (st_hashed (r_stamp r)) (H (q_alg q) (q_sig q))); reflexivity.
Qed.

(* no reply makes an attempt panic, in either style *)
Lemma ts_do_no_panic q r p : ts_do H q r <> Panic p.
Proof.
  unfold ts_do, parse_response, parse_legacy, sanity_check.
  destruct (negb (r_transport r)); [discriminate|]. destruct (http_bad (r_http r)); [discriminate|].
  destruct (do_parse_legacy (q_legacy q)); [destruct (r_parses r); discriminate|].
  destruct (negb (r_parses r)); [discriminate|]. destruct (resp_trailing (r_rest r)); [discriminate|].
  destruct (resp_denied (r_status r)); [discriminate|].
  unfold sanity_order. cbn [run_steps]. unfold sanity_step. cbn [Z.eqb Pos.eqb].
  destruct (st_has_content (r_stamp r) && st_sig_ok (r_stamp r)); cbn [bind]; [|discriminate].
  destruct (info_empty (content_len (r_stamp r))); cbn [bind]; [discriminate|].
  destruct (st_info_ok (r_stamp r)); cbn [bind]; [|discriminate].
  destruct (nonce_mismatch _ _ _ _); cbn [bind]; [discriminate|].
  destruct (imprint_mismatch _ _); discriminate.
Qed.

(* legacy: an attempt succeeds on every delivered reply that parses — nothing about the token is checked *)
Lemma ts_do_legacy_ok q r : q_legacy q = true ->
  is_ok (ts_do H q r) = r_transport r && (r_http r =? 200) && r_parses r.
Proof.
  intros Hleg. unfold ts_do, parse_legacy. rewrite Hleg. unfold do_parse_legacy, http_bad.
  destruct (r_transport r); cbn [negb andb]; [|reflexivity].
  destruct (r_http r =? 200); cbn [negb andb]; [|reflexivity].
  destruct (r_parses r); reflexivity.
Qed.
(* ------------------------------------------------------------------ the failover loop *)

Lemma ts_loop_ok q rs : forall i last t hits,
  ts_loop H q rs i last = (Ok t, hits) ->
  exists k r, nth_error rs k = Some r /\ ts_do H q r = Ok t /\ hits = upto i (S k) /\
    forall j r', (j < k)%nat -> nth_error rs j = Some r' -> is_ok (ts_do H q r') = false.
Proof.
  induction rs as [|r rest IH]; intros i last t hits E.
  - cbn in E. unfold final_is_error in E. discriminate.
  - cbn [ts_loop] in E. destruct (ts_do H q r) as [s|e|p] eqn:D.
    + unfold loop_returns_token, failed, loop_success_returns_the_token in E. cbn in E. inversion E; subst.
      exists 0%nat, r. repeat split; auto. intros j r' Hj. lia.
    + unfold loop_returns_token, failed, loop_stops_on_ctx in E. cbn in E.
      destruct (r_ctx_dead r); [discriminate|].
      destruct (ts_loop H q rest (i + 1) e) as [x h] eqn:L. inversion E; subst.
      destruct (IH _ _ _ _ L) as (k & r0 & Hn & Hd & Hh & Hbefore).
      exists (S k), r0. repeat split; auto.
      * rewrite Hh. reflexivity.
      * intros j r' Hj Hnth. destruct j as [|j]; cbn in Hnth.
        -- inversion Hnth; subst. rewrite D. reflexivity.
        -- apply (Hbefore j r'); [lia | exact Hnth].
    + discriminate.
Qed.

Lemma ts_client_ok q rs t hits :
  ts_client H q rs = (Ok t, hits) ->
  exists k r, nth_error rs k = Some r /\ ts_do H q r = Ok t /\ hits = upto 0 (S k) /\
    forall j r', (j < k)%nat -> nth_error rs j = Some r' -> is_ok (ts_do H q r') = false.
Proof.
  unfold ts_client. destruct rs as [|r rest].
  - unfold empty_urls_is_error, empty_msurls_is_error, empty_named_is_error. cbn. discriminate.
  - apply ts_loop_ok.
Qed.

(* completeness: without panics and without context expiry the loop is "first acceptable authority in order" *)
Definition accepts (q : request) (r : reply) : bool := is_ok (ts_do H q r).
Definition no_panic (q : request) (r : reply) : bool :=
  match ts_do H q r with Panic _ => false | _ => true end.

Lemma ts_loop_complete q rs : forall i last,
  (forall r, In r rs -> no_panic q r = true /\ r_ctx_dead r = false) ->
  match spec_client (accepts q) rs i with
  | (Some t, h) => ts_loop H q rs i last = (Ok t, h)
  | (None, h) => exists e, ts_loop H q rs i last = (Err e, h)
  end.
Proof.
  induction rs as [|r rest IH]; intros i last Hdom.
  - cbn. unfold final_is_error. eexists. reflexivity.
  - cbn [spec_client ts_loop]. unfold accepts at 1.
    destruct (Hdom r (or_introl eq_refl)) as [Hnp Hctx]. unfold no_panic in Hnp.
    destruct (ts_do H q r) as [s|e|p] eqn:D; [| |discriminate].
    + cbn [is_ok]. unfold loop_returns_token, failed, loop_success_returns_the_token. cbn.
      rewrite (ts_do_ok_stamp _ _ _ D). reflexivity.
    + cbn [is_ok]. unfold loop_returns_token, failed, loop_stops_on_ctx. cbn. rewrite Hctx.
      specialize (IH (i + 1) e (fun r0 Hin => Hdom r0 (or_intror Hin))).
      destruct (spec_client (accepts q) rest (i + 1)) as [[t|] h].
      * rewrite IH. reflexivity.
      * destruct IH as [e' IH]. rewrite IH. eexists. reflexivity.
Qed.

Lemma spec_client_ext (g1 g2 : reply -> bool) rs : forall i,
  (forall r, In r rs -> g1 r = g2 r) -> spec_client g1 rs i = spec_client g2 rs i.
Proof.
  induction rs as [|r rest IH]; intros i Hext; [reflexivity|].
  cbn [spec_client]. rewrite (Hext r (or_introl eq_refl)).
  rewrite (IH (i + 1) (fun r0 Hin => Hext r0 (or_intror Hin))). reflexivity.
Qed.

Lemma nth_error_In' {A} (l : list A) k x : nth_error l k = Some x -> In x l.
Proof. apply nth_error_In. Qed.

(* ------------------------------------------------------------------ theorems about the client *)

Theorem attached_only_if_genuine q rs t hits :
  q_legacy q = false ->
  ts_client H q rs = (Ok t, hits) ->
  exists k r, nth_error rs k = Some r /\ t = r_stamp r /\ genuine_bytes H q r = true /\ hits = upto 0 (S k) /\
    forall j r', (j < k)%nat -> nth_error rs j = Some r' -> genuine_bytes H q r' = false.
Proof.
  intros Hleg E. destruct (ts_client_ok _ _ _ _ E) as (k & r & Hn & Hd & Hh & Hb).
  exists k, r. repeat split; auto.
  - apply (ts_do_ok_stamp _ _ _ Hd).
  - rewrite <- (ts_do_rfc_ok q r Hleg). rewrite Hd. reflexivity.
  - intros j r' Hj Hnj. rewrite <- (ts_do_rfc_ok q r' Hleg). apply (Hb j r' Hj Hnj).
Qed.

(* full strength (imprint algorithm label included) on the domain where authorities label the imprint honestly *)
Theorem attached_only_if_genuine_full q rs t hits :
  q_legacy q = false ->
  (forall r, In r rs -> imprint_alg_match q (r_stamp r) = true) ->
  ts_client H q rs = (Ok t, hits) ->
  exists k r, nth_error rs k = Some r /\ t = r_stamp r /\ genuine H q r = true /\ hits = upto 0 (S k) /\
    forall j r', (j < k)%nat -> nth_error rs j = Some r' -> genuine H q r' = false.
Proof.
  intros Hleg Halg E.
  destruct (attached_only_if_genuine q rs t hits Hleg E) as (k & r & Hn & Ht & Hg & Hh & Hb).
  exists k, r. repeat split; auto.
  - unfold genuine. rewrite Hg, (Halg r (nth_error_In _ _ Hn)). reflexivity.
  - intros j r' Hj Hnj. unfold genuine. rewrite (Hb j r' Hj Hnj). reflexivity.
Qed.

Theorem failover_in_order q rs :
  q_legacy q = false ->
  (forall r, In r rs -> r_ctx_dead r = false) ->             (* the caller's context stays alive *)
  rs <> [] ->
  match spec_client (genuine_bytes H q) rs 0 with
  | (Some t, h) => ts_client H q rs = (Ok t, h)
  | (None, h) => exists e, ts_client H q rs = (Err e, h)
  end.
Proof.
  intros Hleg Hctx Hne.
  assert (Hdom : forall r, In r rs -> no_panic q r = true /\ r_ctx_dead r = false).
  { intros r Hin. split; [|apply Hctx; exact Hin]. unfold no_panic.
    destruct (ts_do H q r) as [s|e|p] eqn:D; try reflexivity. exfalso. apply (ts_do_no_panic q r p D). }
  rewrite <- (spec_client_ext (accepts q) (genuine_bytes H q) rs 0).
  - destruct rs as [|r rest]; [congruence|]. unfold ts_client. apply ts_loop_complete. exact Hdom.
  - intros r Hin. unfold accepts. apply ts_do_rfc_ok; auto.
Qed.

(* the client never panics, whatever the authorities send *)
Lemma ts_loop_no_panic q rs : forall i last p, fst (ts_loop H q rs i last) <> Panic p.
Proof.
  induction rs as [|r rest IH]; intros i last p.
  - cbn. unfold final_is_error. discriminate.
  - cbn [ts_loop]. destruct (ts_do H q r) as [s|e|p'] eqn:D.
    + unfold loop_returns_token, failed, loop_success_returns_the_token. cbn. discriminate.
    + unfold loop_returns_token, failed, loop_stops_on_ctx. cbn. destruct (r_ctx_dead r); [cbn; discriminate|].
      specialize (IH (i + 1) e p). destruct (ts_loop H q rest (i + 1) e) as [x h]. exact IH.
    + exfalso. apply (ts_do_no_panic q r p' D).
Qed.
Theorem client_never_panics q rs p : fst (ts_client H q rs) <> Panic p.
Proof.
  unfold ts_client. destruct rs as [|r rest].
  - unfold empty_urls_is_error, empty_msurls_is_error, empty_named_is_error. cbn. discriminate.
  - apply ts_loop_no_panic.
Qed.

(* a token without nonce counts as a nonce mismatch: an ordinary error, so the next authority is tried *)
Theorem missing_nonce_is_mismatch q r :
  q_legacy q = false -> st_nonce (r_stamp r) = None -> exists e, ts_do H q r = Err e.
Proof.
  intros Hleg Hn. destruct (ts_do H q r) as [s|e|p] eqn:D.
  - assert (Hok : is_ok (ts_do H q r) = true) by (rewrite D; reflexivity).
    rewrite (ts_do_rfc_ok q r Hleg) in Hok. unfold genuine_bytes, echoes in Hok. rewrite Hn in Hok.
    rewrite andb_false_r in Hok. discriminate.
  - eauto.
  - exfalso. apply (ts_do_no_panic q r p D).
Qed.

(* a PKIStatus other than granted / grantedWithMods is never accepted *)
Theorem status_outside_rejected q r :
  q_legacy q = false -> r_status r <> 0 -> r_status r <> 1 -> is_ok (ts_do H q r) = false.
Proof.
  intros Hleg H0 H1. rewrite (ts_do_rfc_ok q r Hleg). unfold genuine_bytes, granted.
  assert (E : (r_status r =? 0) || (r_status r =? 1) = false) by lia. rewrite E.
  rewrite andb_false_r. reflexivity.
Qed.

(* all authorities fail => never Ok (in particular never an unstamped success); any style, any faults *)
Theorem all_fail_means_error q rs :
  (forall r, In r rs -> accepts q r = false) -> forall t, fst (ts_client H q rs) <> Ok t.
Proof.
  intros Hall t E. destruct (ts_client H q rs) as [res hits] eqn:C. cbn in E. subst res.
  destruct (ts_client_ok _ _ _ _ C) as (k & r & Hn & Hd & _).
  specialize (Hall r (nth_error_In _ _ Hn)). unfold accepts in Hall. rewrite Hd in Hall. discriminate.
Qed.
Theorem all_fail_means_error_rfc q rs :
  q_legacy q = false ->
  (forall r, In r rs -> genuine_bytes H q r = false) -> forall t, fst (ts_client H q rs) <> Ok t.
Proof.
  intros Hleg Hall. apply all_fail_means_error. intros r Hin. unfold accepts.
  rewrite (ts_do_rfc_ok q r Hleg). apply Hall. exact Hin.
Qed.

(* ------------------------------------------------------------------ verification of a stamp *)

Theorem countersig_binds st data t :
  verify_stamp H st data = Ok t ->
  covers H st data = true /\ st_sig_ok st = true /\ t = st_time st.
Proof.
  unfold verify_stamp, covers, imprint_verify, signer_count_bad, imprint_verify_bad, ms_content_bad.
  destruct (st_form st =? 0) eqn:F0.
  - assert (F1 : (st_form st =? 1) = false) by lia. rewrite F1.
    destruct (negb (st_nsigners st =? 1)); [discriminate|].
    unfold info_empty, content_len.
    destruct (st_has_content st); cbn [negb Z.eqb]; [|discriminate].
    destruct (st_info_ok st); cbn [negb]; [|discriminate].
    destruct (known_alg (st_alg st)); cbn [negb bind]; [|discriminate].
    rewrite (bytes_eqb_sym (H (st_alg st) data)).
    destruct (bytes_eqb (st_hashed st) (H (st_alg st) data)); cbn [negb bind]; [|discriminate].
    destruct (st_sig_ok st); cbn [negb]; [|discriminate].
    destruct (st_time_ok st); cbn [negb]; [|discriminate].
    intros E. inversion E. auto.
  - destruct (st_form st =? 1).
    + destruct (st_has_content st); cbn [negb andb]; [|discriminate].
      destruct (st_sig_ok st); cbn [negb andb]; [|discriminate].
      destruct (bytes_eqb (st_hashed st) data); cbn [negb]; [|discriminate].
      destruct (st_time_ok st); cbn [negb]; [|discriminate].
      intros E. inversion E. auto.
    + destruct (known_alg (st_alg st)); cbn [negb]; [|discriminate].
      destruct (bytes_eqb (st_hashed st) (H (st_alg st) data)); cbn [negb]; [|discriminate].
      destruct (st_sig_ok st); cbn [negb]; [|discriminate].
      destruct (st_time_ok st); cbn [negb]; [|discriminate].
      intros E. inversion E. auto.
Qed.

(* with an injective digest a stamp covers one signature value only *)
Theorem countersig_binds_unique st d1 d2 t1 t2 :
  (forall a x y, H a x = H a y -> x = y) ->
  verify_stamp H st d1 = Ok t1 -> verify_stamp H st d2 = Ok t2 -> d1 = d2.
Proof.
  intros Hinj E1 E2.
  destruct (countersig_binds _ _ _ E1) as [C1 _]. destruct (countersig_binds _ _ _ E2) as [C2 _].
  unfold covers in *. destruct (st_form st =? 1).
  - apply bytes_eqb_eq in C1, C2. congruence.
  - apply bytes_eqb_eq in C1, C2. apply (Hinj (st_alg st)). congruence.
Qed.

Lemma verify_stamp_ok_iff st data :
  is_ok (verify_stamp H st data) = stamp_valid H st data.
Proof.
  unfold verify_stamp, stamp_valid, covers, imprint_verify, signer_count_bad, imprint_verify_bad, ms_content_bad.
  destruct (st_form st =? 0) eqn:F0.
  - assert (F1 : (st_form st =? 1) = false) by lia. rewrite F1.
    destruct (st_nsigners st =? 1); cbn [negb]; [|cbn; btauto].
    unfold info_empty, content_len.
    destruct (st_has_content st); cbn [negb Z.eqb]; [|cbn; btauto].
    destruct (st_info_ok st); cbn [negb]; [|cbn; btauto].
    destruct (known_alg (st_alg st)); cbn [negb bind]; [|cbn; btauto].
    rewrite (bytes_eqb_sym (H (st_alg st) data)).
    destruct (bytes_eqb (st_hashed st) (H (st_alg st) data)); cbn [negb bind]; [|reflexivity].
    destruct (st_sig_ok st); cbn [negb]; [|reflexivity].
    destruct (st_time_ok st); reflexivity.
  - destruct (st_form st =? 1).
    + destruct (st_has_content st); cbn [negb andb]; [|cbn; btauto].
      destruct (st_sig_ok st); cbn [negb andb]; [|cbn; btauto].
      destruct (bytes_eqb (st_hashed st) data); cbn [negb]; [|reflexivity].
      destruct (st_time_ok st); reflexivity.
    + destruct (known_alg (st_alg st)); cbn [negb]; [|cbn; btauto].
      destruct (bytes_eqb (st_hashed st) (H (st_alg st) data)); cbn [negb]; [|reflexivity].
      destruct (st_sig_ok st); cbn [negb]; [|reflexivity].
      destruct (st_time_ok st); reflexivity.
Qed.

Theorem verify_stamp_no_panic st data p : verify_stamp H st data <> Panic p.
Proof.
  unfold verify_stamp, imprint_verify.
  destruct (st_form st =? 0).
  - destruct (signer_count_bad (st_nsigners st)); [discriminate|].
    destruct (info_empty (content_len st)); [discriminate|].
    destruct (negb (st_info_ok st)); [discriminate|].
    destruct (negb (known_alg (st_alg st))); cbn [bind]; [discriminate|].
    destruct (imprint_verify_bad _ _); cbn [bind]; [discriminate|].
    destruct (negb (st_sig_ok st)); [discriminate|]. destruct (negb (st_time_ok st)); discriminate.
  - destruct (st_form st =? 1).
    + destruct (negb (st_has_content st && st_sig_ok st)); [discriminate|].
      destruct (ms_content_bad _ _); [discriminate|]. destruct (negb (st_time_ok st)); discriminate.
    + destruct (negb (known_alg (st_alg st))); [discriminate|].
      destruct (negb (bytes_eqb _ _)); [discriminate|].
      destruct (negb (st_sig_ok st)); [discriminate|]. destruct (negb (st_time_ok st)); discriminate.
Qed.
(* a token without attached content is rejected with an ordinary error *)
Theorem detached_token_is_error st data :
  st_form st = 0 -> st_nsigners st = 1 -> st_has_content st = false -> verify_stamp H st data = Err E_INFO.
Proof.
  intros Hf Hn Hc. unfold verify_stamp, signer_count_bad, info_empty, content_len. rewrite Hf, Hn, Hc. reflexivity.
Qed.

Lemma verify_stamp_time st data t : verify_stamp H st data = Ok t -> t = st_time st.
Proof. intros E. destruct (countersig_binds _ _ _ E) as (_ & _ & E'). exact E'. Qed.

(* ------------------------------------------------------------------ chain time *)

Lemma eff_time_nz t now : t <> 0 -> eff_time t now = t.
Proof. unfold eff_time. intros Hnz. destruct (t =? 0) eqn:E; [lia | reflexivity]. Qed.

Lemma verify_chain_none now leaf :
  is_ok (verify_chain now leaf None) = chain_ok leaf now.
Proof. unfold verify_chain, vc_has_countersig, eff_time. cbn. destruct (chain_ok leaf now); reflexivity. Qed.

Lemma verify_chain_some now leaf t tsa :
  is_ok (verify_chain now leaf (Some (t, tsa))) =
  chain_ok tsa (eff_time t now) && c_ts_eku tsa && chain_ok leaf (eff_time t now).
Proof.
  unfold verify_chain, vc_has_countersig, cs_chain_judged_at_cs_time_with_ts_eku, vc_bad_tsa_chain_is_error,
    vc_leaf_judged_at_signing_time, vc_signing_time.
  destruct (chain_ok tsa (eff_time t now)); cbn [negb andb]; [|reflexivity].
  destruct (c_ts_eku tsa); cbn [negb andb]; [|reflexivity].
  destruct (chain_ok leaf (eff_time t now)); reflexivity.
Qed.

Lemma chain_ok_window c t : chain_ok c t = c_trusted c && in_window c t.
Proof. unfold chain_ok, in_window. btauto. Qed.

Theorem verify_refines_spec now s :
  (forall st, s_stamp s = Some st -> st_time st <> 0) ->
  accepted H now s = spec_accept H now s.
Proof.
  intros Hnz. unfold accepted, verify_all, spec_accept. destruct (s_stamp s) as [st|] eqn:Es.
  - specialize (Hnz st eq_refl). rewrite <- verify_stamp_ok_iff.
    destruct (verify_stamp H st (s_value s)) as [t|e|p] eqn:V; cbn [bind is_ok andb]; try reflexivity.
    rewrite (verify_stamp_time _ _ _ V), verify_chain_some, (eff_time_nz _ now Hnz), !chain_ok_window. btauto.
  - rewrite verify_chain_none, chain_ok_window. reflexivity.
Qed.

Theorem verify_never_panics now s p : verify_all H now s <> Panic p.
Proof.
  unfold verify_all, verify_chain. destruct (s_stamp s) as [st|].
  - destruct (verify_stamp H st (s_value s)) as [t|e|p'] eqn:V; cbn [bind]; try discriminate.
    + destruct (vc_has_countersig true).
      * destruct (negb _); [destruct vc_bad_tsa_chain_is_error; discriminate|]. destruct (chain_ok _ _); discriminate.
      * destruct (chain_ok _ _); discriminate.
    + exfalso. apply (verify_stamp_no_panic st (s_value s) p' V).
  - destruct (vc_has_countersig false); [discriminate|]. destruct (chain_ok _ _); discriminate.
Qed.

Theorem expired_needs_timestamp now s :
  accepted H now s = true -> c_na (s_leaf s) < now ->
  exists st, s_stamp s = Some st /\ stamp_valid H st (s_value s) = true /\ st_time st <> 0 /\
    in_window (s_leaf s) (st_time st) = true /\
    chain_ok (st_cert st) (st_time st) = true /\ c_ts_eku (st_cert st) = true.
Proof.
  unfold accepted, verify_all. intros Hacc Hexp. destruct (s_stamp s) as [st|] eqn:Es.
  - exists st. destruct (verify_stamp H st (s_value s)) as [t|e|p] eqn:V; cbn [bind is_ok] in Hacc; try discriminate.
    pose proof (verify_stamp_time _ _ _ V) as Ht. subst t.
    rewrite verify_chain_some in Hacc.
    assert (Hnz : st_time st <> 0).
    { intros Hz. rewrite Hz in Hacc. unfold eff_time in Hacc. cbn in Hacc.
      unfold chain_ok in Hacc. lia. }
    rewrite (eff_time_nz _ now Hnz) in Hacc.
    assert (Hv : stamp_valid H st (s_value s) = true) by (rewrite <- verify_stamp_ok_iff, V; reflexivity).
    rewrite (chain_ok_window (s_leaf s)) in Hacc.
    split; [reflexivity|]. split; [exact Hv|]. split; [exact Hnz|]. split; [|split].
    + destruct (in_window (s_leaf s) (st_time st)); [reflexivity|]. rewrite !andb_false_r in Hacc. discriminate.
    + destruct (chain_ok (st_cert st) (st_time st)); [reflexivity|]. discriminate.
    + destruct (c_ts_eku (st_cert st)); [reflexivity|]. rewrite andb_false_r in Hacc. discriminate.
  - rewrite verify_chain_none in Hacc. unfold chain_ok in Hacc. lia.
Qed.

(* ------------------------------------------------------------------ attaching *)

Theorem sign_never_unstamped cls q rs o hits :
  sign_with_ts H cls true q rs = (Ok o, hits) -> exists t, o = Some t.
Proof.
  unfold sign_with_ts, tam_uses_timestamper. destruct (ts_client H q rs) as [res h].
  destruct res as [t|e|p]; try (intros E; inversion E; fail).
  destruct (self_check H cls t (q_sig q)); intros E; inversion E. eauto.
Qed.

Theorem sign_all_fail_no_output cls q rs :
  (forall r, In r rs -> accepts q r = false) -> forall o, fst (sign_with_ts H cls true q rs) <> Ok o.
Proof.
  intros Hall o. unfold sign_with_ts, tam_uses_timestamper.
  pose proof (all_fail_means_error q rs Hall) as Hc.
  destruct (ts_client H q rs) as [res h]. cbn [fst] in *.
  destruct res as [t|e|p]; cbn; try discriminate. exfalso. apply (Hc t). reflexivity.
Qed.

(* formats with a self-check (everything except VSIX): whatever is attached verifies for this signature value *)
Theorem self_check_binds cls q rs t hits :
  cls <> 2 -> sign_with_ts H cls true q rs = (Ok (Some t), hits) ->
  stamp_valid H t (q_sig q) = true /\
  exists k r, nth_error rs k = Some r /\ t = r_stamp r /\ hits = upto 0 (S k).
Proof.
  intros Hcls. unfold sign_with_ts, tam_uses_timestamper. destruct (ts_client H q rs) as [res h] eqn:C.
  destruct res as [t0|e|p]; try (intros E; inversion E; fail).
  unfold self_check. destruct (cls =? 2) eqn:Ec; [lia|].
  destruct (verify_stamp H t0 (q_sig q)) as [tm|e|p] eqn:V; intros E; inversion E; subst.
  split.
  - rewrite <- verify_stamp_ok_iff, V. reflexivity.
  - destruct (ts_client_ok _ _ _ _ C) as (k & r & Hn & Hd & Hh & _). exists k, r. repeat split; auto.
    apply (ts_do_ok_stamp _ _ _ Hd).
Qed.

(* legacy style through the application-manifest signer: attached only if genuine, thanks to the self-check *)
Theorem legacy_attached_only_if_genuine q rs t hits :
  q_legacy q = true -> (forall r, In r rs -> st_form (r_stamp r) = 1) ->
  sign_with_ts H 1 true q rs = (Ok (Some t), hits) ->
  exists k r, nth_error rs k = Some r /\ t = r_stamp r /\ genuine_legacy q r = true.
Proof.
  intros Hleg Hform E.
  assert (Hne : 1 <> 2) by lia.
  destruct (self_check_binds 1 q rs t hits Hne E) as [Hv _].
  revert E. unfold sign_with_ts, tam_uses_timestamper. destruct (ts_client H q rs) as [res h] eqn:C.
  destruct res as [t0|e|p]; try (intros E; inversion E; fail).
  destruct (self_check H 1 t0 (q_sig q)); intros E; inversion E; subst.
  destruct (ts_client_ok _ _ _ _ C) as (k & r & Hn & Hd & _ & _).
  pose proof (ts_do_ok_stamp _ _ _ Hd) as Ht. exists k, r. repeat split; auto.
  assert (Hok : is_ok (ts_do H q r) = true) by (rewrite Hd; reflexivity).
  rewrite (ts_do_legacy_ok q r Hleg) in Hok.
  unfold genuine_legacy, delivered_legacy. rewrite <- Ht.
  unfold stamp_valid, covers in Hv. rewrite Ht in Hv. rewrite (Hform r (nth_error_In _ _ Hn)) in Hv. cbn in Hv.
  rewrite Hok. rewrite <- Ht in Hv. cbn [andb]. revert Hv.
  destruct (bytes_eqb (st_hashed t) (q_sig q)), (st_sig_ok t), (st_time_ok t), (st_has_content t); cbn; auto.
Qed.

End Proofs.

(* ------------------------------------------------------------------ witnesses where the faithful model violates the statement *)

Definition w_cert : cert := mkCert 100 200 true true.
Definition w_req : request := mkReq [1; 2; 3] 3 7 false.
Definition w_stamp (id : Z) (nonce : option Z) (alg : Z) : stamp :=
  mkStamp id 0 1 true true true nonce alg (Hsym 3 [1; 2; 3]) 150 true w_cert.
Definition w_reply (t : stamp) (status : Z) : reply := mkReply true 200 true 0 status t false.
Definition w_good : reply := w_reply (w_stamp 1 (Some 7) 3) 0.


(* the imprint's algorithm identifier is not compared: a token labelled with another algorithm is accepted *)
Theorem alg_label_unchecked_refuted :
  exists q rs t hits, q_legacy q = false /\ ts_client Hsym q rs = (Ok t, hits) /\
    (forall r, In r rs -> genuine Hsym q r = false) /\
    is_ok (verify_stamp Hsym t (q_sig q)) = false.
Proof.
  exists w_req, [w_reply (w_stamp 0 (Some 7) 9) 0], (w_stamp 0 (Some 7) 9), [0].
  repeat split; try (vm_compute; reflexivity). intros r [Hr|[]]. subst r. vm_compute. reflexivity.
Qed.
(* ... and because the self-check of the attach step then fails, signing fails although the next authority is genuine *)
Theorem alg_label_no_failover_refuted :
  exists q rs, spec_client (genuine Hsym q) rs 0 = (Some (r_stamp w_good), [0; 1]) /\
    sign_with_ts Hsym 0 true q rs = (Err E_ALG, [0]).
Proof. exists w_req, [w_reply (w_stamp 0 (Some 7) 9) 0; w_good]. vm_compute. auto. Qed.
(* VSIX has no self-check: the unverifiable token is attached and signing reports success *)
Theorem vsix_attaches_unverifiable_refuted :
  exists q rs t hits, sign_with_ts Hsym 2 true q rs = (Ok (Some t), hits) /\
    (forall r, In r rs -> genuine Hsym q r = false) /\ is_ok (verify_stamp Hsym t (q_sig q)) = false.
Proof.
  exists w_req, [w_reply (w_stamp 0 (Some 7) 9) 0], (w_stamp 0 (Some 7) 9), [0].
  repeat split; try (vm_compute; reflexivity). intros r [Hr|[]]. subst r. vm_compute. reflexivity.
Qed.


(* F18b: the legacy reply is not checked by the client, so a bad token stops the failover; the attach step rejects it
   and signing fails although the second authority is genuine *)
Definition w_lreq : request := mkReq [1; 2; 3] 3 7 true.
Definition w_lstamp (id : Z) (content : bytes) : stamp :=
  mkStamp id 1 1 true true true None 3 content 150 true w_cert.
Theorem legacy_no_failover_refuted :
  exists q rs good, q_legacy q = true /\
    spec_client (genuine_legacy q) rs 0 = (Some good, [0; 1]) /\
    ts_client Hsym q rs = (Ok (w_lstamp 0 [9; 9; 9]), [0]) /\
    sign_with_ts Hsym 1 true q rs = (Err E_IMPRINT, [0]).
Proof.
  exists w_lreq, [w_reply (w_lstamp 0 [9; 9; 9]) 0; w_reply (w_lstamp 1 [1; 2; 3]) 0], (w_lstamp 1 [1; 2; 3]).
  vm_compute. auto.
Qed.

(* a token whose attested time is Go's zero time is judged at the present, not at the attested time *)
Theorem zero_time_judged_now_refuted :
  exists now s, accepted Hsym now s = true /\ spec_accept Hsym now s = false.
Proof.
  exists 150, (mkSig [1; 2; 3] w_cert (Some (mkStamp 0 0 1 true true true None 3 (Hsym 3 [1; 2; 3]) 0 true w_cert))).
  vm_compute. auto.
Qed.


(* call orders the hand-written model relies on *)
Lemma orders_as_modelled :
  parse_response_order = [0; 1] /\ do_order = [0; 1; 2; 3; 4; 5] /\ legacy_parse_calls = [0; 1] /\
  tam_order = [0; 1; 2; 3; 4; 5] /\ verify_order = [0; 1; 2] /\ finish_verify_order = [0; 1].
Proof. repeat split; reflexivity. Qed.
