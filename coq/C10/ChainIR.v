(* C10/ChainIR.v — syntax of the small imperative language into which srcgen (harness/cmd/srcgen/gen_c10.go, c10Program)
   translates, statement by statement, the three Go functions through which every certificate chain is judged:

     F7    lib/pkcs7  func (info Signature) VerifyChain(roots, extraCerts, usage, currentTime) error
     F9cs  lib/pkcs9  func (cs CounterSignature) VerifyChain(roots, extraCerts) error
     F9ts  lib/pkcs9  func (sig TimestampedSignature) VerifyChain(roots, extraCerts, usage) error

   The generated programs are Generated/C10_gen.v: vc7_prog, vc9cs_prog, vc9ts_prog.  Semantics: C10/Chain.v.
   This file has no dependency on generated code (the generated file imports it). *)
From Relic Require Import Base.Prelude.

(* a point in time: the currentTime parameter, Go's zero time.Time, the SigningTime of the countersignature in scope,
   the local `signingTime` variable, time.Now(), or an expression the translator does not know *)
Inductive texp := TParam | TZero | TCsTime | TLocal | TNow | TOther (h : Z).
(* a key usage: the usage parameter, an x509.ExtKeyUsage constant, unknown *)
Inductive uexp := UParam | UConst (u : Z) | UOther (h : Z).
(* a trust store: the roots parameter, nil (= system roots), unknown *)
Inductive rexp := RParam | RNil | ROther (h : Z).
(* a source of intermediate certificates: the extraCerts parameter, the certificates bundled with the signature *)
Inductive isrc := IExtra | IInter | IOther (h : Z).
(* one component of a memo key *)
Inductive kcomp := KRoots | KUsage | KLeaf | KTime (t : texp) | KExtra | KInter | KConst (z : Z) | KOther (h : Z).

Inductive callee := F7 | F9cs.

Inductive cond :=
| CFailed | CNotFailed                         (* err != nil / err == nil for the most recent Verify or VerifyChain call *)
| CHasCs | CNoCs                               (* sig.CounterSignature != nil / == nil *)
| CMemoHit (g : Z) (key : list kcomp)          (* _, ok := G.Load(key); ok      v, ok := G[key]; ok      G[key] ; g identifies G *)
| CNeg (c : cond) | CAnd (a b : cond) | COr (a b : cond)
| COpaque (h : Z)                              (* reads no package-level variable: a function of the call alone *)
| CGlobal (h : Z).                             (* reads a package-level variable in a way the translator cannot model *)

Inductive stmt :=
| SSkip
| SSeq (a b : stmt)
| SIf (c : cond) (th el : stmt)
| SVerify (inter : list isrc) (roots : rexp) (t : texp) (usages : list uexp)
    (* _, err := info.Certificate.Verify(x509.VerifyOptions{Intermediates, Roots, CurrentTime, KeyUsages}) *)
| SCall (f : callee) (roots : rexp) (extra : list isrc) (u : uexp) (t : texp)        (* err := X.VerifyChain(...) *)
| SSetTime (t : texp)                                                                (* signingTime = ... *)
| SMemoStore (g : Z) (key : list kcomp)                                              (* G.Store(key, _)   G[key] = _ *)
| SRetOk                                                                             (* return nil *)
| SRetErr (tag : Z)                                                                  (* return fmt.Errorf(...); tag 1: "validating timestamp" *)
| SRetLast                                                                           (* return err *)
| SRetCall (f : callee) (roots : rexp) (extra : list isrc) (u : uexp) (t : texp)     (* return X.VerifyChain(...) *)
| SUnknown (h : Z).                                                                  (* a statement the translator does not understand *)
