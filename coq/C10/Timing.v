(* C10/Timing.v — how the timestamp client handles TIME (executable definitions only).

   Modelled code:  lib/pkcs9/tsclient  New (which timeouts are attached to the HTTP client),
                                       tsClient.do (request, reply headers, io.ReadAll of the body, status check, parse),
                                       tsClient.Timestamp (failover loop over the configured URLs, ctx.Err handling),
                   lib/pkcs9/ratelimit limiter.Timestamp (Wait, then the client).

   An AUTHORITY is a timed script: a list of (delay since the previous event, event).  After the last event of its script
   the authority is silent for ever (it neither sends nor closes).  This covers: refusing the connection, never
   completing it, hanging before the headers, sending the headers and stalling, dripping the body, closing in the middle
   of the body, and answering after d nanoseconds.

   The CLIENT has deadlines.  Which ones exist, and how long they are, is read from the source on every run
   (Generated/C10_gen.v: client_timeout_ns, header_timeout_ns, tls_timeout_ns, dial_timeout_ns, attempt_ctx_timeout_ns
   as functions of timestamp.timeout); what Go's net/http does with them is written here:
     http.Client.Timeout > 0          bounds the whole exchange: connecting, the headers AND reading the body
     context deadline of the request  likewise (caller's context, or one derived per attempt)
     net.Dialer.Timeout <> 0          bounds connecting only
     Transport.TLSHandshakeTimeout    bounds the handshake only
     Transport.ResponseHeaderTimeout  bounds the wait for the headers only; NOTHING of these three covers the body.
   Time is in nanoseconds (Go's time.Duration). *)
From Coq Require Import String.
From Relic Require Import Base.Prelude Generated.C10_gen C10.Model.
Open Scope Z_scope.

(* ------------------------------------------------------------------ authorities *)
Inductive ev : Type :=
| EvRefused             (* the connection attempt fails *)
| EvConnected           (* TCP connection established *)
| EvSecure              (* TLS handshake complete (https URLs only) *)
| EvHeaders             (* status line and all response headers received *)
| EvBytes (n : Z)       (* n more bytes of the body received *)
| EvEnd                 (* body complete *)
| EvAbort.              (* connection closed or reset by the authority before the exchange is complete *)

Definition script := list (Z * ev).

Record authority := mkAuth {
  a_tls : bool;
  a_script : script;
  a_reply : reply }.    (* what the complete body says (Model.reply); r_transport / r_ctx_dead of this record are ignored *)

(* ------------------------------------------------------------------ the client's limits *)
Record limits := mkLimits { l_total : Z; l_dial : Z; l_tls : Z; l_header : Z }.

(* the smaller of two limits of the "positive means active" kind *)
Definition pos_min (a b : Z) : Z := if 0 <? a then (if 0 <? b then Z.min a b else a) else b.

(* tsclient.New + tsClient.do as read from the source; ct = timestamp.timeout (seconds) *)
Definition limits_of (ct : Z) : limits :=
  if do_uses_configured_client then
    mkLimits (pos_min (client_timeout_ns ct) (attempt_ctx_timeout_ns ct)) (dial_timeout_ns ct) (tls_timeout_ns ct) (header_timeout_ns ct)
  else mkLimits (attempt_ctx_timeout_ns ct) 0 0 0.

Inductive phase : Type := PDial | PTls | PHeader | PBody.
(* how an exchange ends *)
Inductive fin : Type := FOk | FRefused | FTimeout | FCtx | FAbort | FProto.
Inductive walked : Type := Done (f : fin) (ph : phase) (t : Z) | Forever.

Definition omin (a b : option Z) : option Z :=
  match a, b with
  | Some x, Some y => Some (Z.min x y)
  | Some x, None => Some x
  | None, _ => b
  end.

Definition total_deadline (l : limits) (start : Z) : option Z :=
  if 0 <? l_total l then Some (start + l_total l) else None.
Definition phase_deadline (l : limits) (ph : phase) (pstart : Z) : option Z :=
  match ph with
  | PDial => if l_dial l =? 0 then None else Some (pstart + l_dial l)
  | PTls => if l_tls l =? 0 then None else Some (pstart + l_tls l)
  | PHeader => if 0 <? l_header l then Some (pstart + l_header l) else None
  | PBody => None
  end.
Definition own_deadline (l : limits) (ph : phase) (start pstart : Z) : option Z :=
  omin (total_deadline l start) (phase_deadline l ph pstart).

(* the earliest deadline and whose it is (the caller's context wins a tie) *)
Definition next_deadline (l : limits) (ctx : option Z) (ph : phase) (start pstart : Z) : option (Z * fin) :=
  match ctx, own_deadline l ph start pstart with
  | Some c, Some d => if c <=? d then Some (c, FCtx) else Some (d, FTimeout)
  | Some c, None => Some (c, FCtx)
  | None, Some d => Some (d, FTimeout)
  | None, None => None
  end.

(* what an event means in a phase: the next phase, or the end of the exchange *)
Definition step_ev (tls : bool) (ph : phase) (e : ev) : phase + fin :=
  match ph, e with
  | PDial, EvRefused => inr FRefused
  | PDial, EvConnected => inl (if tls then PTls else PHeader)
  | PTls, EvSecure => inl PHeader
  | PHeader, EvHeaders => inl PBody
  | PBody, EvBytes _ => inl PBody
  | PBody, EvEnd => inr FOk
  | _, EvAbort => inr FAbort
  | _, _ => inr FProto
  end.

Definition posd (d : Z) : Z := Z.max 0 d.

(* does a deadline pass before the next event (which would happen at t')?  which one, and whose *)
Definition fires (l : limits) (ctx : option Z) (ph : phase) (start pstart t' : Z) : option (Z * fin) :=
  match next_deadline l ctx ph start pstart with
  | Some (dl, f) => if dl <=? t' then Some (dl, f) else None
  | None => None
  end.

(* one exchange with one authority: start = when the attempt began, pstart = when the current phase began *)
Fixpoint walk (l : limits) (ctx : option Z) (tls : bool) (ph : phase) (start pstart now : Z) (s : script) : walked :=
  match s with
  | [] =>
      match next_deadline l ctx ph start pstart with
      | Some (d, f) => Done f ph (Z.max now d)
      | None => Forever
      end
  | (d, e) :: rest =>
      let t' := now + posd d in
      match fires l ctx ph start pstart t' with
      | Some (dl, f) => Done f ph (Z.max now dl)
      | None =>
          match step_ev tls ph e with
          | inr f => Done f ph t'
          | inl ph' => walk l ctx tls ph' start (match e with EvBytes _ => pstart | _ => t' end) t' rest
          end
      end
  end.

Definition attempt (l : limits) (ctx : option Z) (a : authority) (now : Z) : walked :=
  walk l ctx (a_tls a) PDial now now now (a_script a).

Definition fok (w : walked) : bool := match w with Done FOk _ _ => true | _ => false end.

(* ------------------------------------------------------------------ tsClient.do on top of an exchange *)
Definition E_LIMIT := 16.      (* rate limiter: the wait would exceed the caller's deadline *)

Definition deliver (r : reply) : reply := mkReply true (r_http r) (r_parses r) (r_rest r) (r_status r) (r_stamp r) false.
Definition truncated (r : reply) : reply := mkReply true (r_http r) false (r_rest r) (r_status r) (r_stamp r) false.

Section Timed.
Variable H : Z -> bytes -> bytes.

(* c.client.Do failed: `if err != nil { return nil, err }`;  io.ReadAll failed: `if err != nil { return nil, err }`;
   both conditions are generated.  Were the first check missing, resp would be nil (panic); were the second missing, the
   partial body would go to the parser. *)
Definition attempt_outcome (q : request) (a : authority) (f : fin) (ph : phase) : result stamp :=
  match f with
  | FOk => ts_do H q (deliver (a_reply a))
  | _ =>
      match ph with
      | PBody => if do_read_failed true then Err E_TRANSPORT else ts_do H q (truncated (a_reply a))
      | _ => if do_transport_failed true then Err E_TRANSPORT else Panic P_NIL
      end
  end.

Definition ctx_dead_at (ctx : option Z) (t : Z) : bool :=
  match ctx with Some c => c <=? t | None => false end.

Inductive tres : Type := TRet (r : result stamp) (t : Z) | THang.

(* the loop of tsClient.Timestamp over timed authorities; hits = (index, time at which it was asked) *)
Fixpoint tloop (l : limits) (ctx : option Z) (q : request) (al : list authority) (i now last : Z) : tres * list (Z * Z) :=
  match al with
  | [] => (TRet (if final_is_error then Err last else Ok null_stamp) now, [])
  | a :: rest =>
      match attempt l ctx a now with
      | Forever => (THang, [(i, now)])
      | Done f ph t =>
          match attempt_outcome q a f ph with
          | Panic p => (TRet (Panic p) t, [(i, now)])
          | res =>
              if loop_returns_token (failed res) then
                (TRet (match res with
                       | Ok s => if loop_success_returns_the_token then Ok s else Ok null_stamp
                       | _ => Ok null_stamp
                       end) t, [(i, now)])
              else if loop_stops_on_ctx (ctx_dead_at ctx t) then (TRet res t, [(i, now)])
              else
                let code := match res with Err e => e | _ => 0 end in
                let '(x, h) := tloop l ctx q rest (i + 1) t code in (x, (i, now) :: h)
          end
      end
  end.

Definition tclient (l : limits) (ctx : option Z) (q : request) (al : list authority) (t0 : Z) : tres * list (Z * Z) :=
  match al with
  | [] => (TRet (if empty_urls_is_error && empty_msurls_is_error && empty_named_is_error then Err E_EMPTY else Ok null_stamp) t0, [])
  | _ => tloop l ctx q al 0 t0 0
  end.

(* ratelimit.limiter.Timestamp: Limit.Wait(ctx) — fails at once when the wait would end after the caller's deadline —
   then the client.  wait = time until the limiter has a token (0 when no limiter is configured). *)
Definition wait_fails (ctx : option Z) (wait : Z) : bool :=
  match ctx with Some c => c <? posd wait | None => false end.
Definition limited_client (l : limits) (ctx : option Z) (q : request) (al : list authority) (wait : Z) : tres * list (Z * Z) :=
  if limiter_wait_failed (wait_fails ctx wait) then (TRet (Err E_LIMIT) 0, [])
  else tclient l ctx q al (posd wait).

(* ------------------------------------------------------------------ connection with the untimed model (Model.ts_client) *)
(* did the authority answer completely before any deadline of the client (no caller deadline)? *)
Definition answered (l : limits) (a : authority) : bool := fok (attempt l None a 0).
Definition reply_at (l : limits) (a : authority) : reply :=
  let r := a_reply a in mkReply (answered l a) (r_http r) (r_parses r) (r_rest r) (r_status r) (r_stamp r) false.

(* ------------------------------------------------------------------ SPECIFICATION (from the property text)
   "A timestamp is attached only if the authority's reply grants the request, echoes the nonce, carries the imprint and is
    correctly signed; otherwise the next configured authority is tried, and if all fail the signing fails" — over all
    authority behaviours including "hang".  Read with time: an authority counts only if its COMPLETE reply arrives
    within every limit the client is configured with; anything else (never, too late, torn) is a failure of that
    authority and the next one is asked.  Written over durations, without clocks or deadlines. *)
Fixpoint body_time (s : script) : option Z :=
  match s with
  | (d, EvBytes _) :: r => match body_time r with Some t => Some (posd d + t) | None => None end
  | (d, EvEnd) :: _ => Some (posd d)
  | _ => None
  end.
Definition lim_pos (limit x : Z) : bool := if 0 <? limit then x <? limit else true.   (* limit active when positive *)
Definition lim_nz (limit x : Z) : bool := if limit =? 0 then true else x <? limit.    (* limit active when non-zero *)
Definition after_connect (l : limits) (t0 : Z) (s : script) : bool :=
  match s with
  | (d3, EvHeaders) :: s3 =>
      lim_pos (l_header l) (posd d3) &&
      match body_time s3 with Some tb => lim_pos (l_total l) (t0 + posd d3 + tb) | None => false end
  | _ => false
  end.
Definition spec_in_time (l : limits) (tls : bool) (s : script) : bool :=
  match s with
  | (d1, EvConnected) :: s1 =>
      lim_nz (l_dial l) (posd d1) &&
      (if tls then
         match s1 with
         | (d2, EvSecure) :: s2 => lim_nz (l_tls l) (posd d2) && after_connect l (posd d1 + posd d2) s2
         | _ => false
         end
       else after_connect l (posd d1) s1)
  | _ => false
  end.
Definition spec_good (l : limits) (q : request) (a : authority) : bool :=
  spec_in_time l (a_tls a) (a_script a) && genuine_bytes H q (deliver (a_reply a)).
Definition spec_good_full (l : limits) (q : request) (a : authority) : bool :=
  spec_in_time l (a_tls a) (a_script a) && genuine H q (deliver (a_reply a)).

(* the first good authority in configured order wins and nobody after it is asked; none => failure after all were asked *)
Fixpoint spec_timed (good : authority -> bool) (al : list authority) (i : Z) : option stamp * list Z :=
  match al with
  | [] => (None, [])
  | a :: rest =>
      if good a then (Some (r_stamp (a_reply a)), [i])
      else let '(x, h) := spec_timed good rest (i + 1) in (x, i :: h)
  end.

End Timed.

(* ------------------------------------------------------------------ reviewed source facts (see TimingProofs.timing_source_reviewed) *)
Definition known_client_fields : list string := ["Timeout"; "Transport"]%string.
Definition known_transport_fields : list string :=
  ["TLSClientConfig"; "DialContext"; "ResponseHeaderTimeout"; "TLSHandshakeTimeout"; "Proxy"; "MaxIdleConns"; "MaxIdleConnsPerHost";
   "IdleConnTimeout"; "DisableKeepAlives"; "DisableCompression"; "ForceAttemptHTTP2"]%string.
Definition known_dialer_fields : list string := ["Timeout"; "KeepAlive"]%string.
Definition all_known (known fields : list string) : bool :=
  forallb (fun f => existsb (String.eqb f) known) fields.
Definition reviewed_loop_header : string := "_, url := range urls".
Definition reviewed_loop_attempts : list string := ["always => token, err = c.do(ctx, url, req, imprint)"]%string.
Definition reviewed_loop_exits : list string :=
  ["err == nil => return token, nil"; "ctx.Err() != nil => return nil, err"]%string.
