(* C10/TimingProofs.v — lemmas about the timed client (C10/Timing.v). *)
From Coq Require Import String.
From Relic Require Import Base.Prelude Generated.C10_gen C10.Model C10.Proofs C10.Timing.
Open Scope Z_scope.

Lemma posd_nonneg d : 0 <= posd d.
Proof. unfold posd. lia. Qed.

Ltac zb :=
  repeat match goal with
         | H : (_ <? _) = true |- _ => apply Z.ltb_lt in H
         | H : (_ <? _) = false |- _ => apply Z.ltb_ge in H
         | H : (_ <=? _) = true |- _ => apply Z.leb_le in H
         | H : (_ <=? _) = false |- _ => apply Z.leb_gt in H
         | H : (_ =? _) = true |- _ => apply Z.eqb_eq in H
         | H : (_ =? _) = false |- _ => apply Z.eqb_neq in H
         end.
Ltac zsplit :=
  repeat match goal with
         | |- context [?a <? ?b] => let E := fresh "E" in destruct (a <? b) eqn:E
         | |- context [?a <=? ?b] => let E := fresh "E" in destruct (a <=? b) eqn:E
         | |- context [?a =? ?b] => let E := fresh "E" in destruct (a =? b) eqn:E
         end.

(* ------------------------------------------------------------------ deadlines *)
Lemma next_deadline_total l ctx ph start ps :
  0 < l_total l -> exists d f, next_deadline l ctx ph start ps = Some (d, f) /\ d <= start + l_total l.
Proof.
  intros Hpos. unfold next_deadline, own_deadline, total_deadline.
  assert (E : (0 <? l_total l) = true) by (apply Z.ltb_lt; exact Hpos). rewrite E.
  destruct (phase_deadline l ph ps) as [p|]; cbn [omin]; destruct ctx as [c|].
  - destruct (c <=? Z.min (start + l_total l) p) eqn:C; eexists; eexists; (split; [reflexivity|]); zb; lia.
  - eexists; eexists; (split; [reflexivity|]); lia.
  - destruct (c <=? start + l_total l) eqn:C; eexists; eexists; (split; [reflexivity|]); zb; lia.
  - eexists; eexists; (split; [reflexivity|]); lia.
Qed.

Lemma next_deadline_ctx l c ph start ps :
  exists d f, next_deadline l (Some c) ph start ps = Some (d, f) /\ d <= c.
Proof.
  unfold next_deadline. destruct (own_deadline l ph start ps) as [d|].
  - destruct (c <=? d) eqn:C; eexists; eexists; (split; [reflexivity|]); zb; lia.
  - eexists; eexists; (split; [reflexivity|]); lia.
Qed.

(* an exchange under a deadline that never lies beyond B ends, and no later than B *)
Lemma walk_bounded_gen l ctx tls start B :
  (forall ph ps, exists d f, next_deadline l ctx ph start ps = Some (d, f) /\ d <= B) ->
  forall s ph ps now, now <= B ->
  exists f ph' t, walk l ctx tls ph start ps now s = Done f ph' t /\ now <= t <= B.
Proof.
  intros Hdl. induction s as [|[d e] rest IH]; intros ph ps now Hnow.
  - cbn [walk]. destruct (Hdl ph ps) as (d & f & E & Hd). rewrite E.
    exists f, ph, (Z.max now d). split; [reflexivity|lia].
  - cbn [walk]. unfold fires. destruct (Hdl ph ps) as (d0 & f0 & E & Hd). rewrite E.
    destruct (d0 <=? now + posd d) eqn:F.
    + exists f0, ph, (Z.max now d0). split; [reflexivity|lia].
    + zb. pose proof (posd_nonneg d). destruct (step_ev tls ph e) as [ph'|f].
      * destruct (IH ph' (match e with EvBytes _ => ps | _ => now + posd d end) (now + posd d)) as (f1 & ph1 & t1 & W & Ht); [lia|].
        exists f1, ph1, t1. split; [exact W|lia].
      * exists f, ph, (now + posd d). split; [reflexivity|lia].
Qed.

(* every attempt under a positive overall limit ends within that limit — whatever the authority does *)
Lemma attempt_bounded l ctx a now :
  0 < l_total l ->
  exists f ph t, attempt l ctx a now = Done f ph t /\ now <= t <= now + l_total l.
Proof.
  intros Hpos. unfold attempt.
  apply (walk_bounded_gen l ctx (a_tls a) now (now + l_total l)); [|lia].
  intros ph ps. apply next_deadline_total. exact Hpos.
Qed.

(* ... and never later than the caller's own deadline (or at once, if that has already passed) *)
Lemma attempt_bounded_ctx l c a now :
  exists f ph t, attempt l (Some c) a now = Done f ph t /\ now <= t <= Z.max now c.
Proof.
  unfold attempt.
  apply (walk_bounded_gen l (Some c) (a_tls a) now (Z.max now c)); [|lia].
  intros ph ps. destruct (next_deadline_ctx l c ph now ps) as (d & f & E & Hd).
  exists d, f. split; [exact E|lia].
Qed.

(* a caller whose deadline lies beyond the client's own limit does not influence the exchange *)
Lemma next_deadline_patient l c ph start ps :
  0 < l_total l -> start + l_total l < c ->
  next_deadline l (Some c) ph start ps = next_deadline l None ph start ps.
Proof.
  intros Hpos Hc. unfold next_deadline, own_deadline, total_deadline.
  assert (E : (0 <? l_total l) = true) by (apply Z.ltb_lt; exact Hpos). rewrite E.
  destruct (phase_deadline l ph ps) as [p|]; cbn [omin].
  - destruct (c <=? Z.min (start + l_total l) p) eqn:C; [zb; lia|reflexivity].
  - destruct (c <=? start + l_total l) eqn:C; [zb; lia|reflexivity].
Qed.
Lemma walk_patient l c tls start :
  0 < l_total l -> start + l_total l < c ->
  forall s ph ps now, walk l (Some c) tls ph start ps now s = walk l None tls ph start ps now s.
Proof.
  intros Hpos Hc. induction s as [|[d e] rest IH]; intros ph ps now; cbn [walk]; unfold fires;
    rewrite (next_deadline_patient l c ph start ps Hpos Hc); [reflexivity|].
  destruct (match next_deadline l None ph start ps with
            | Some (dl, f) => if dl <=? now + posd d then Some (dl, f) else None
            | None => None end) as [[dl f]|]; [reflexivity|].
  destruct (step_ev tls ph e); [apply IH|reflexivity].
Qed.

(* ------------------------------------------------------------------ which exchanges succeed: walk = specification *)
Lemma body_time_nonneg s : forall t, body_time s = Some t -> 0 <= t.
Proof.
  induction s as [|[d e] r IH]; intros t E; cbn [body_time] in E; [discriminate|].
  destruct e; try discriminate.
  - destruct (body_time r) as [tb|]; [|discriminate]. injection E as <-. pose proof (IH tb eq_refl). pose proof (posd_nonneg d). lia.
  - injection E as <-. apply posd_nonneg.
Qed.

(* the overall limit at an absolute instant, and the limit of a phase after x nanoseconds in that phase *)
Definition tot_ok (l : limits) (start t : Z) : bool := if 0 <? l_total l then t <? start + l_total l else true.
Definition phase_ok (l : limits) (ph : phase) (x : Z) : bool :=
  match ph with
  | PDial => lim_nz (l_dial l) x
  | PTls => lim_nz (l_tls l) x
  | PHeader => lim_pos (l_header l) x
  | PBody => true
  end.
Definition fin_ok (f : fin) : bool := match f with FOk => true | _ => false end.

Lemma tot_ok_mono l start t1 t2 : t1 <= t2 -> tot_ok l start t2 = true -> tot_ok l start t1 = true.
Proof. unfold tot_ok. destruct (0 <? l_total l); [|reflexivity]. intros H1 H2. zb. apply Z.ltb_lt. lia. Qed.
Lemma tot_ok_rel l start x : tot_ok l start (start + x) = lim_pos (l_total l) x.
Proof. unfold tot_ok, lim_pos. destruct (0 <? l_total l); [|reflexivity]. zsplit; zb; try reflexivity; lia. Qed.
Lemma andb_absorb (a c : bool) : (c = true -> a = true) -> a && c = c.
Proof. destruct a, c; intros H; try reflexivity. discriminate (H eq_refl). Qed.
Lemma andb3_absorb (a h c : bool) : (c = true -> a = true) -> a && h && c = h && c.
Proof. destruct a, h, c; intros H; try reflexivity; discriminate (H eq_refl). Qed.

(* without a caller deadline, no deadline passes before instant ps + x  iff  the overall and the phase limit allow it *)
Lemma fires_none l ph start ps x :
  match fires l None ph start ps (ps + x) with
  | None => tot_ok l start (ps + x) && phase_ok l ph x = true
  | Some (_, f) => f = FTimeout /\ tot_ok l start (ps + x) && phase_ok l ph x = false
  end.
Proof.
  unfold fires, next_deadline, own_deadline, total_deadline, tot_ok.
  destruct ph; cbn [phase_deadline phase_ok]; unfold lim_nz, lim_pos;
    destruct (0 <? l_total l) eqn:T; cbn [omin];
    repeat match goal with
           | |- context [if ?a =? ?b then _ else _] => let E := fresh "E" in destruct (a =? b) eqn:E; cbn [omin]
           | |- context [if 0 <? l_header l then _ else _] => let E := fresh "E" in destruct (0 <? l_header l) eqn:E; cbn [omin]
           end;
    repeat match goal with
           | |- context [if ?a <=? ?b then _ else _] => let E := fresh "E" in destruct (a <=? b) eqn:E
           end;
    try split; try reflexivity; zb;
    repeat match goal with
           | |- ?a && ?b = _ => let E := fresh "E" in destruct a eqn:E; cbn [andb]
           | |- (?a <? ?b) = _ => let E := fresh "E" in destruct (a <? b) eqn:E
           end; zb; try reflexivity; try lia.
Qed.

Lemma fok_done_not_ok f ph t : f <> FOk -> fok (Done f ph t) = false.
Proof. destruct f; try reflexivity. congruence. Qed.

Lemma walk_nil_fok l tls ph start ps now : fok (walk l None tls ph start ps now []) = false.
Proof. cbn [walk]. unfold next_deadline. destruct (own_deadline l ph start ps); reflexivity. Qed.

Lemma walk_cons_fok l tls ph start ps now d e r :
  fok (walk l None tls ph start ps now ((d, e) :: r)) =
  tot_ok l start (now + posd d) && phase_ok l ph (now + posd d - ps) &&
  match step_ev tls ph e with
  | inr f => fin_ok f
  | inl ph' => fok (walk l None tls ph' start (match e with EvBytes _ => ps | _ => now + posd d end) (now + posd d) r)
  end.
Proof.
  cbn [walk]. pose proof (fires_none l ph start ps (now + posd d - ps)) as F.
  replace (ps + (now + posd d - ps)) with (now + posd d) in F by lia.
  destruct (fires l None ph start ps (now + posd d)) as [[dl f]|].
  - destruct F as [-> F]. rewrite F. reflexivity.
  - rewrite F. cbn [andb]. destruct (step_ev tls ph e) as [ph'|f]; [reflexivity|]. destruct f; reflexivity.
Qed.

Lemma walk_body l tls : forall s start ps now,
  fok (walk l None tls PBody start ps now s) =
  match body_time s with Some tb => tot_ok l start (now + tb) | None => false end.
Proof.
  induction s as [|[d e] r IH]; intros start ps now.
  - rewrite walk_nil_fok. reflexivity.
  - rewrite walk_cons_fok. cbn [phase_ok]. rewrite andb_true_r. pose proof (posd_nonneg d) as Hd.
    destruct e; cbn [step_ev body_time fin_ok]; try apply andb_false_r.
    + rewrite IH. destruct (body_time r) as [tb|] eqn:B; [|apply andb_false_r].
      pose proof (body_time_nonneg r tb B). replace (now + (posd d + tb)) with (now + posd d + tb) by lia.
      apply andb_absorb. apply tot_ok_mono. lia.
    + apply andb_true_r.
Qed.

(* the header phase as the specification sees it: t0 = time spent since the attempt began *)
Lemma walk_header_spec l tls s start t0 :
  0 <= t0 ->
  fok (walk l None tls PHeader start (start + t0) (start + t0) s) = after_connect l t0 s.
Proof.
  intros H0. unfold after_connect. destruct s as [|[d e] r]; [apply walk_nil_fok|].
  rewrite walk_cons_fok. cbn [phase_ok]. pose proof (posd_nonneg d) as Hd.
  replace (start + t0 + posd d - (start + t0)) with (posd d) by lia.
  destruct e; cbn [step_ev fin_ok]; try apply andb_false_r.
  rewrite walk_body. destruct (body_time r) as [tb|] eqn:B; [|rewrite !andb_false_r; reflexivity].
  pose proof (body_time_nonneg r tb B).
  rewrite <- (tot_ok_rel l start (t0 + posd d + tb)).
  replace (start + (t0 + posd d + tb)) with (start + t0 + posd d + tb) by lia.
  apply andb3_absorb. apply tot_ok_mono. lia.
Qed.

(* success of the rest of the exchange implies that the overall limit had not passed at an earlier instant *)
Lemma after_connect_tot l t0 s x :
  x <= t0 -> after_connect l t0 s = true -> lim_pos (l_total l) x = true.
Proof.
  intros Hx. unfold after_connect. destruct s as [|[d e] r]; [discriminate|]. destruct e; try discriminate.
  intros E. apply andb_true_iff in E as [_ E]. destruct (body_time r) as [tb|] eqn:B; [|discriminate].
  pose proof (body_time_nonneg r tb B). pose proof (posd_nonneg d).
  unfold lim_pos in *. destruct (0 <? l_total l); [|reflexivity]. zb. apply Z.ltb_lt. lia.
Qed.

Lemma walk_tls l s start t0 :
  0 <= t0 ->
  fok (walk l None true PTls start (start + t0) (start + t0) s) =
  match s with
  | (d2, EvSecure) :: s2 => lim_nz (l_tls l) (posd d2) && after_connect l (t0 + posd d2) s2
  | _ => false
  end.
Proof.
  intros H0. destruct s as [|[d e] r]; [apply walk_nil_fok|].
  rewrite walk_cons_fok. cbn [phase_ok]. pose proof (posd_nonneg d) as Hd.
  replace (start + t0 + posd d - (start + t0)) with (posd d) by lia.
  destruct e; cbn [step_ev fin_ok]; try apply andb_false_r.
  replace (start + t0 + posd d) with (start + (t0 + posd d)) by lia.
  rewrite walk_header_spec by lia. rewrite tot_ok_rel.
  apply andb3_absorb. apply after_connect_tot. lia.
Qed.

(* the whole exchange: the client's clock-and-deadline walk succeeds exactly when the specification's durations fit *)
Lemma attempt_spec l a now :
  fok (attempt l None a now) = spec_in_time l (a_tls a) (a_script a).
Proof.
  unfold attempt, spec_in_time. destruct (a_script a) as [|[d e] r]; [apply walk_nil_fok|].
  rewrite walk_cons_fok. cbn [phase_ok]. pose proof (posd_nonneg d) as Hd.
  replace (now + posd d - now) with (posd d) by lia.
  destruct e; cbn [step_ev fin_ok]; try apply andb_false_r.
  rewrite tot_ok_rel. destruct (a_tls a).
  - rewrite walk_tls by lia. apply andb3_absorb.
    destruct r as [|[d2 e2] r2]; [discriminate|]. destruct e2; try discriminate.
    intros E. apply andb_true_iff in E as [_ E]. pose proof (posd_nonneg d2).
    apply (after_connect_tot l (posd d + posd d2) r2); [lia|exact E].
  - rewrite walk_header_spec by lia. apply andb3_absorb. apply after_connect_tot. lia.
Qed.

Lemma answered_spec l a : answered l a = spec_in_time l (a_tls a) (a_script a).
Proof. apply attempt_spec. Qed.

(* ------------------------------------------------------------------ the failover loop *)
Section Loop.
Variable H : Z -> bytes -> bytes.

Lemma ts_do_lost q r :
  r_transport r = false -> ts_do H q r = Err E_TRANSPORT.
Proof. intros E. unfold ts_do. rewrite E. reflexivity. Qed.

(* tsClient.do on a timed authority = the untimed tsClient.do on "did a complete reply arrive in time" *)
Lemma attempt_outcome_untimed l q a now f ph t :
  attempt l None a now = Done f ph t ->
  attempt_outcome H q a f ph = ts_do H q (reply_at l a).
Proof.
  intros W. pose proof (attempt_spec l a now) as S. rewrite W in S.
  unfold reply_at. rewrite answered_spec, <- S. unfold attempt_outcome.
  destruct f; cbn [fok]; try reflexivity;
    (destruct ph; unfold do_read_failed, do_transport_failed; symmetry; apply ts_do_lost; reflexivity).
Qed.

Lemma tloop_refines l q :
  0 < l_total l ->
  forall al i now last,
  exists t hits,
    tloop H l None q al i now last = (TRet (fst (ts_loop H q (map (reply_at l) al) i last)) t, hits) /\
    map fst hits = snd (ts_loop H q (map (reply_at l) al) i last) /\ now <= t.
Proof.
  intros Hpos. induction al as [|a rest IH]; intros i now last.
  - cbn [tloop map ts_loop fst snd]. eexists. eexists. repeat split. lia.
  - cbn [tloop map ts_loop].
    destruct (attempt_bounded l None a now Hpos) as (f & ph & t & W & Ht). rewrite W.
    rewrite (attempt_outcome_untimed l q a now f ph t W).
    destruct (ts_do H q (reply_at l a)) as [s|e|p] eqn:D.
    + destruct (loop_returns_token _); cbn [fst snd].
      * eexists. eexists. repeat split. lia.
      * cbn [ctx_dead_at]. replace (r_ctx_dead (reply_at l a)) with false by reflexivity.
        destruct (loop_stops_on_ctx false).
        -- cbn [fst snd]. eexists. eexists. repeat split. lia.
        -- destruct (IH (i + 1) t 0) as (t1 & h1 & E1 & Hh & Ht1). rewrite E1.
           destruct (ts_loop H q (map (reply_at l) rest) (i + 1) 0) as [x h]. cbn [fst snd] in *.
           eexists. eexists. repeat split; [cbn [map fst]; rewrite Hh; reflexivity|lia].
    + destruct (loop_returns_token _); cbn [fst snd].
      * eexists. eexists. repeat split. lia.
      * cbn [ctx_dead_at]. replace (r_ctx_dead (reply_at l a)) with false by reflexivity.
        destruct (loop_stops_on_ctx false).
        -- cbn [fst snd]. eexists. eexists. repeat split. lia.
        -- destruct (IH (i + 1) t e) as (t1 & h1 & E1 & Hh & Ht1). rewrite E1.
           destruct (ts_loop H q (map (reply_at l) rest) (i + 1) e) as [x h]. cbn [fst snd] in *.
           eexists. eexists. repeat split; [cbn [map fst]; rewrite Hh; reflexivity|lia].
    + cbn [fst snd]. eexists. eexists. repeat split. lia.
Qed.

Theorem timed_refines_untimed l q al t0 :
  0 < l_total l ->
  exists t hits,
    tclient H l None q al t0 = (TRet (fst (ts_client H q (map (reply_at l) al))) t, hits) /\
    map fst hits = snd (ts_client H q (map (reply_at l) al)) /\ t0 <= t.
Proof.
  intros Hpos. unfold tclient, ts_client. destruct al as [|a rest].
  - cbn [map fst snd]. eexists. eexists. repeat split. lia.
  - cbn [map]. change (reply_at l a :: map (reply_at l) rest) with (map (reply_at l) (a :: rest)).
    apply tloop_refines. exact Hpos.
Qed.

(* ---- the shape of every run: the call returns; authorities are asked in order i, i+1, ...; the first at once, each
   next one no later than one limit after the previous one; the call returns no later than one limit after the last *)
Fixpoint timeline (L i t : Z) (hits : list (Z * Z)) (tend : Z) : Prop :=
  match hits with
  | [] => tend = t
  | (j, tj) :: rest =>
      j = i /\ tj = t /\
      match rest with
      | [] => t <= tend <= t + L
      | (_, t') :: _ => t <= t' <= t + L /\ timeline L (i + 1) t' rest tend
      end
  end.

Lemma attempt_outcome_no_panic q a f ph p : attempt_outcome H q a f ph <> Panic p.
Proof.
  unfold attempt_outcome, do_read_failed, do_transport_failed.
  destruct f; try apply ts_do_no_panic; destruct ph; discriminate.
Qed.

Lemma tloop_cons l ctx q a rest i now last :
  tloop H l ctx q (a :: rest) i now last =
  match attempt l ctx a now with
  | Forever => (THang, [(i, now)])
  | Done f ph t =>
      match attempt_outcome H q a f ph with
      | Panic p => (TRet (Panic p) t, [(i, now)])
      | res =>
          if loop_returns_token (failed res) then
            (TRet (match res with
                   | Ok s => if loop_success_returns_the_token then Ok s else Ok null_stamp
                   | _ => Ok null_stamp
                   end) t, [(i, now)])
          else if loop_stops_on_ctx (ctx_dead_at ctx t) then (TRet res t, [(i, now)])
          else
            let code := match res with Err e => e | _ => 0 end in
            let '(x, h) := tloop H l ctx q rest (i + 1) t code in (x, (i, now) :: h)
      end
  end.
Proof. reflexivity. Qed.

Lemma tloop_timeline l ctx q :
  0 < l_total l ->
  forall rest a i now last,
  exists r t h,
    tloop H l ctx q (a :: rest) i now last = (TRet r t, (i, now) :: h) /\
    timeline (l_total l) i now ((i, now) :: h) t /\ (length h <= length rest)%nat.
Proof.
  intros Hpos. induction rest as [|b rest IH]; intros a i now last; rewrite tloop_cons;
    destruct (attempt_bounded l ctx a now Hpos) as (f & ph & t & W & Ht); rewrite W.
  - cbn [tloop]. destruct (attempt_outcome H q a f ph) as [s|e|p] eqn:O.
    + destruct (loop_returns_token _); [|destruct (loop_stops_on_ctx (ctx_dead_at ctx t))];
        eexists; eexists; exists []; (split; [reflexivity|]); cbn [timeline]; repeat split; try lia; auto.
    + destruct (loop_returns_token _); [|destruct (loop_stops_on_ctx (ctx_dead_at ctx t))];
        eexists; eexists; exists []; (split; [reflexivity|]); cbn [timeline]; repeat split; try lia; auto.
    + eexists; eexists; exists []; (split; [reflexivity|]); cbn [timeline]; repeat split; try lia; auto.
  - destruct (attempt_outcome H q a f ph) as [s|e|p] eqn:O; cbv beta iota zeta.
    + destruct (loop_returns_token _); [|destruct (loop_stops_on_ctx (ctx_dead_at ctx t))];
        try (eexists; eexists; exists []; (split; [reflexivity|]); cbn [timeline length]; repeat split; try lia; auto; fail).
      destruct (IH b (i + 1) t 0) as (r1 & t1 & h1 & E1 & T1 & L1). rewrite E1.
      exists r1, t1, ((i + 1, t) :: h1). split; [reflexivity|]. split; [|cbn [length]; lia].
      cbn [timeline] in *. repeat split; try lia; tauto.
    + destruct (loop_returns_token _); [|destruct (loop_stops_on_ctx (ctx_dead_at ctx t))];
        try (eexists; eexists; exists []; (split; [reflexivity|]); cbn [timeline length]; repeat split; try lia; auto; fail).
      destruct (IH b (i + 1) t e) as (r1 & t1 & h1 & E1 & T1 & L1). rewrite E1.
      exists r1, t1, ((i + 1, t) :: h1). split; [reflexivity|]. split; [|cbn [length]; lia].
      cbn [timeline] in *. repeat split; try lia; tauto.
    + eexists; eexists; exists []; (split; [reflexivity|]); cbn [timeline length]; repeat split; try lia; auto.
Qed.

(* with a positive overall limit the client returns — whatever the authorities do, with or without a caller deadline *)
Theorem timed_client_returns l ctx q al t0 :
  0 < l_total l ->
  exists r t hits, tclient H l ctx q al t0 = (TRet r t, hits) /\ timeline (l_total l) 0 t0 hits t /\
                   (length hits <= length al)%nat.
Proof.
  intros Hpos. unfold tclient. destruct al as [|a rest].
  - eexists; eexists; exists []. repeat split. cbn. lia.
  - destruct (tloop_timeline l ctx q Hpos rest a 0 t0 0) as (r & t & h & E & T & L).
    exists r, t, ((0, t0) :: h). split; [exact E|split; [exact T|cbn [length]; lia]].
Qed.

Lemma timeline_end L : 0 <= L -> forall hits i t tend,
  timeline L i t hits tend -> t <= tend <= t + Z.of_nat (length hits) * L.
Proof.
  intros HL. induction hits as [|[j tj] rest IH]; intros i t tend T; cbn [timeline] in T.
  - subst. cbn [length]. lia.
  - destruct T as (_ & _ & T). destruct rest as [|[j' t'] rest'].
    + cbn [length]. lia.
    + destruct T as (Hs & T). specialize (IH _ _ _ T). cbn [length] in *. nia.
Qed.

(* ---- soundness under any caller deadline *)
Lemma next_deadline_fin l ctx ph start ps d f :
  next_deadline l ctx ph start ps = Some (d, f) -> f <> FOk.
Proof.
  unfold next_deadline. destruct ctx as [c|]; destruct (own_deadline l ph start ps) as [o|]; try discriminate.
  - destruct (c <=? o); intros E; injection E as _ <-; discriminate.
  - intros E; injection E as _ <-; discriminate.
  - intros E; injection E as _ <-; discriminate.
Qed.
Lemma fires_fin l ctx ph start ps t' d f : fires l ctx ph start ps t' = Some (d, f) -> f <> FOk.
Proof.
  unfold fires. destruct (next_deadline l ctx ph start ps) as [[dl f0]|] eqn:N; [|discriminate].
  destruct (dl <=? t'); [|discriminate]. intros E. injection E as _ <-. apply (next_deadline_fin _ _ _ _ _ _ _ N).
Qed.
Lemma fires_ctx_none l c ph start ps t' :
  fires l (Some c) ph start ps t' = None -> fires l None ph start ps t' = None.
Proof.
  unfold fires, next_deadline. destruct (own_deadline l ph start ps) as [o|]; [|reflexivity].
  destruct (c <=? o) eqn:C.
  - destruct (c <=? t') eqn:D; [discriminate|]. intros _. destruct (o <=? t') eqn:O; [zb; lia|reflexivity].
  - destruct (o <=? t'); [discriminate|reflexivity].
Qed.
(* an exchange that completes under the caller's deadline completes identically without it *)
Lemma walk_ctx_ok l c tls : forall s ph start ps now,
  fok (walk l (Some c) tls ph start ps now s) = true -> fok (walk l None tls ph start ps now s) = true.
Proof.
  induction s as [|[d e] r IH]; intros ph start ps now; cbn [walk].
  - destruct (next_deadline l (Some c) ph start ps) as [[dl f]|] eqn:N; [|discriminate].
    rewrite (fok_done_not_ok _ _ _ (next_deadline_fin _ _ _ _ _ _ _ N)). discriminate.
  - destruct (fires l (Some c) ph start ps (now + posd d)) as [[dl f]|] eqn:F.
    + rewrite (fok_done_not_ok _ _ _ (fires_fin _ _ _ _ _ _ _ _ F)). discriminate.
    + rewrite (fires_ctx_none _ _ _ _ _ _ F). destruct (step_ev tls ph e); [apply IH|auto].
Qed.
Lemma attempt_ctx_ok l ctx a now : fok (attempt l ctx a now) = true -> spec_in_time l (a_tls a) (a_script a) = true.
Proof.
  intros E. rewrite <- (attempt_spec l a now). destruct ctx as [c|]; [|exact E].
  unfold attempt in *. apply (walk_ctx_ok l c). exact E.
Qed.

Lemma attempt_outcome_ok l ctx q a now f ph t s :
  attempt l ctx a now = Done f ph t -> attempt_outcome H q a f ph = Ok s ->
  spec_in_time l (a_tls a) (a_script a) = true /\ ts_do H q (deliver (a_reply a)) = Ok s.
Proof.
  intros W O. unfold attempt_outcome, do_read_failed, do_transport_failed in O.
  destruct f; try (destruct ph; discriminate).
  split; [|exact O]. apply (attempt_ctx_ok l ctx a now). rewrite W. reflexivity.
Qed.

Lemma tloop_ok_sound l ctx q : forall al i now last s te hits,
  tloop H l ctx q al i now last = (TRet (Ok s) te, hits) ->
  exists k a, nth_error al k = Some a /\ spec_in_time l (a_tls a) (a_script a) = true /\
              ts_do H q (deliver (a_reply a)) = Ok s /\ map fst hits = upto i (S k).
Proof.
  induction al as [|a rest IH]; intros i now last s te hits E; cbn [tloop] in E.
  - unfold final_is_error in E. discriminate.
  - destruct (attempt l ctx a now) as [f ph t|] eqn:W; [|discriminate].
    destruct (attempt_outcome H q a f ph) as [s0|e|p] eqn:O; [| |discriminate].
    + unfold loop_returns_token, failed, loop_success_returns_the_token in E. cbn in E.
      injection E as <- <- <-. destruct (attempt_outcome_ok l ctx q a now f ph t s0 W O) as [Sp D].
      exists 0%nat, a. repeat split; auto.
    + unfold loop_returns_token, failed in E. cbn in E.
      destruct (loop_stops_on_ctx (ctx_dead_at ctx t)); [discriminate|].
      destruct (tloop H l ctx q rest (i + 1) t e) as [x h] eqn:L. injection E as -> <-.
      destruct (IH _ _ _ _ _ _ L) as (k & a0 & Hn & Sp & D & Hh).
      exists (Datatypes.S k), a0. repeat split; auto. cbn [map fst]. rewrite Hh. reflexivity.
Qed.

(* success, under any caller deadline: the token is that of an authority whose complete reply fits the client's limits
   and passes the checks, and exactly the authorities up to it were asked *)
Theorem timed_sound l ctx q al t0 s te hits :
  q_legacy q = false ->
  tclient H l ctx q al t0 = (TRet (Ok s) te, hits) ->
  exists k a, nth_error al k = Some a /\ s = r_stamp (a_reply a) /\ spec_good H l q a = true /\ map fst hits = upto 0 (S k).
Proof.
  intros Hleg E. unfold tclient in E. destruct al as [|a0 rest].
  - unfold empty_urls_is_error, empty_msurls_is_error, empty_named_is_error in E. discriminate.
  - destruct (tloop_ok_sound l ctx q _ _ _ _ _ _ _ E) as (k & a & Hn & Sp & D & Hh).
    exists k, a. repeat split; auto.
    + apply (ts_do_ok_stamp H q _ _) in D. exact D.
    + unfold spec_good. rewrite Sp. cbn [andb]. rewrite <- (ts_do_rfc_ok H q _ Hleg), D. reflexivity.
Qed.

Lemma tloop_no_panic l ctx q : forall al i now last p t hits,
  tloop H l ctx q al i now last <> (TRet (Panic p) t, hits).
Proof.
  induction al as [|a rest IH]; intros i now last p t hits; cbn [tloop].
  - destruct final_is_error; discriminate.
  - destruct (attempt l ctx a now) as [f ph t1|]; [|discriminate].
    destruct (attempt_outcome H q a f ph) as [s0|e|p0] eqn:O.
    + destruct (loop_returns_token _).
      * destruct loop_success_returns_the_token; discriminate.
      * destruct (loop_stops_on_ctx (ctx_dead_at ctx t1)); [discriminate|].
        destruct (tloop H l ctx q rest (i + 1) t1 0) as [x h] eqn:L. intros E. injection E as -> _.
        exact (IH _ _ _ _ _ _ L).
    + destruct (loop_returns_token _); [discriminate|].
      destruct (loop_stops_on_ctx (ctx_dead_at ctx t1)); [discriminate|].
      destruct (tloop H l ctx q rest (i + 1) t1 e) as [x h] eqn:L. intros E. injection E as -> _.
      exact (IH _ _ _ _ _ _ L).
    + exfalso. exact (attempt_outcome_no_panic q a f ph p0 O).
Qed.

(* if no authority gives a good answer in time, the call FAILS (it neither succeeds, nor hangs, nor panics) — under any
   caller deadline, after at most one limit per configured authority *)
Theorem timed_all_fail_is_error l ctx q al t0 :
  0 < l_total l -> q_legacy q = false ->
  (forall a, In a al -> spec_good H l q a = false) ->
  exists e t hits, tclient H l ctx q al t0 = (TRet (Err e) t, hits) /\ t0 <= t <= t0 + zlen al * l_total l.
Proof.
  intros Hpos Hleg Hbad.
  destruct (timed_client_returns l ctx q al t0 Hpos) as (r & t & hits & E & T & L).
  assert (Hb : t0 <= t <= t0 + zlen al * l_total l).
  { pose proof (timeline_end (l_total l) ltac:(lia) hits 0 t0 t T). unfold zlen. nia. }
  destruct r as [s|e|p].
  - destruct (timed_sound l ctx q al t0 s t hits Hleg E) as (k & a & Hn & _ & G & _).
    rewrite (Hbad a (nth_error_In _ _ Hn)) in G. discriminate.
  - exists e, t, hits. split; [exact E|exact Hb].
  - exfalso. unfold tclient in E. destruct al as [|a0 rest].
    + destruct (empty_urls_is_error && empty_msurls_is_error && empty_named_is_error); discriminate.
    + exact (tloop_no_panic l ctx q _ _ _ _ _ _ _ E).
Qed.

(* ---- a caller whose deadline lies beyond one limit per authority sees exactly what a caller without deadline sees *)
Lemma tloop_patient l c q :
  0 < l_total l ->
  forall al i now last, now + zlen al * l_total l < c ->
  tloop H l (Some c) q al i now last = tloop H l None q al i now last.
Proof.
  intros Hpos. induction al as [|a rest IH]; intros i now last Hc; [reflexivity|].
  cbn [tloop]. rewrite zlen_cons in Hc. pose proof (zlen_nonneg rest) as Hn.
  assert (W : attempt l (Some c) a now = attempt l None a now).
  { unfold attempt. apply walk_patient; [exact Hpos|nia]. }
  rewrite W. destruct (attempt_bounded l None a now Hpos) as (f & ph & t & E & Ht). rewrite E.
  assert (D : ctx_dead_at (Some c) t = false). { cbn [ctx_dead_at]. apply Z.leb_gt. nia. }
  rewrite D. cbn [ctx_dead_at].
  destruct (attempt_outcome H q a f ph) as [s|e|p]; [| |reflexivity];
    (destruct (loop_returns_token _); [reflexivity|]; destruct (loop_stops_on_ctx false); [reflexivity|];
     rewrite IH by nia; reflexivity).
Qed.
Theorem patient_caller l c q al t0 :
  0 < l_total l -> t0 + zlen al * l_total l < c ->
  tclient H l (Some c) q al t0 = tclient H l None q al t0.
Proof.
  intros Hpos Hc. unfold tclient. destruct al as [|a rest]; [reflexivity|]. apply tloop_patient; assumption.
Qed.

(* ---- ordered failover = the specification *)
Lemma genuine_reply_at l q a : genuine_bytes H q (reply_at l a) = spec_good H l q a.
Proof.
  unfold spec_good, genuine_bytes, delivered, reply_at, deliver. cbn [r_transport r_http r_parses r_rest r_status r_stamp].
  rewrite answered_spec. destruct (spec_in_time l (a_tls a) (a_script a)); reflexivity.
Qed.
Lemma spec_client_timed l q : forall al i,
  spec_client (genuine_bytes H q) (map (reply_at l) al) i = spec_timed (spec_good H l q) al i.
Proof.
  induction al as [|a rest IH]; intros i; [reflexivity|].
  cbn [map spec_client spec_timed]. rewrite genuine_reply_at, IH. reflexivity.
Qed.

Lemma spec_timed_none_hits (good : authority -> bool) : forall al i h,
  spec_timed good al i = (None, h) -> h = upto i (length al).
Proof.
  induction al as [|a rest IH]; intros i h S; cbn [spec_timed] in S.
  - injection S as <-. reflexivity.
  - destruct (good a); [discriminate|].
    destruct (spec_timed good rest (i + 1)) as [x h'] eqn:S'. injection S as -> <-.
    cbn [length upto]. f_equal. apply (IH _ _ S').
Qed.

Theorem timed_failover_spec l q al t0 :
  0 < l_total l -> q_legacy q = false -> al <> [] ->
  match spec_timed (spec_good H l q) al 0 with
  | (Some s, h) => exists t hits, tclient H l None q al t0 = (TRet (Ok s) t, hits) /\ map fst hits = h
  | (None, h) => exists e t hits, tclient H l None q al t0 = (TRet (Err e) t, hits) /\ map fst hits = h /\ h = upto 0 (length al)
  end.
Proof.
  intros Hpos Hleg Hne.
  destruct (timed_refines_untimed l q al t0 Hpos) as (t & hits & E & Hh & _).
  assert (Hne' : map (reply_at l) al <> []) by (destruct al; [congruence|discriminate]).
  assert (Hctx : forall r, In r (map (reply_at l) al) -> r_ctx_dead r = false).
  { intros r Hin. apply in_map_iff in Hin as (a & <- & _). reflexivity. }
  pose proof (failover_in_order H q (map (reply_at l) al) Hleg Hctx Hne') as F.
  rewrite spec_client_timed in F.
  destruct (spec_timed (spec_good H l q) al 0) as [[s|] h] eqn:S.
  - rewrite F in E, Hh. cbn [fst snd] in *. exists t, hits. split; assumption.
  - destruct F as [e F]. rewrite F in E, Hh. cbn [fst snd] in *. exists e, t, hits. repeat split; try assumption.
    apply (spec_timed_none_hits _ _ _ _ S).
Qed.

Lemma spec_timed_app (good : authority -> bool) bad g rest : forall i,
  (forall a, In a bad -> good a = false) -> good g = true ->
  spec_timed good (bad ++ g :: rest) i = (Some (r_stamp (a_reply g)), upto i (S (length bad))).
Proof.
  induction bad as [|b bad IH]; intros i Hb Hg; cbn [app spec_timed length upto].
  - rewrite Hg. reflexivity.
  - rewrite (Hb b (or_introl eq_refl)). rewrite (IH (i + 1) (fun a Hin => Hb a (or_intror Hin)) Hg). reflexivity.
Qed.

(* no behaviour of earlier authorities can prevent a later good one from being asked and used *)
Theorem no_behaviour_blocks_later l q bad g rest t0 :
  0 < l_total l -> q_legacy q = false ->
  (forall a, In a bad -> spec_good H l q a = false) -> spec_good H l q g = true ->
  exists t hits, tclient H l None q (bad ++ g :: rest) t0 = (TRet (Ok (r_stamp (a_reply g))) t, hits) /\
                 map fst hits = upto 0 (S (length bad)) /\
                 t0 <= t <= t0 + Z.of_nat (S (length bad)) * l_total l.
Proof.
  intros Hpos Hleg Hb Hg.
  pose proof (timed_failover_spec l q (bad ++ g :: rest) t0 Hpos Hleg ltac:(destruct bad; discriminate)) as F.
  rewrite (spec_timed_app _ bad g rest 0 Hb Hg) in F. destruct F as (t & hits & E & Hh).
  exists t, hits. repeat split; auto;
    destruct (timed_client_returns l None q (bad ++ g :: rest) t0 Hpos) as (r' & t' & hits' & E' & T & _);
    rewrite E in E'; injection E' as _ <- <-;
    pose proof (timeline_end (l_total l) ltac:(lia) hits 0 t0 t T) as B;
    assert (Hlen : length hits = S (length bad))
      by (rewrite <- (map_length fst hits), Hh; clear; generalize 0; induction (S (length bad)) as [|n IH]; intros z; cbn; [reflexivity|rewrite IH; reflexivity]);
    rewrite Hlen in B; lia.
Qed.

End Loop.

(* ------------------------------------------------------------------ the tie to the source *)
(* the client is ALWAYS under a positive overall limit that covers the body read: http.Client.Timeout (or a per-attempt
   context deadline) is timestamp.timeout seconds, and a default when that is unset, zero or negative.  Re-proved on every
   run from the generated definitions; a client built with connect / handshake / header timeouts only, or one whose limit
   vanishes for some configured value, does not satisfy it. *)
Ltac split_ifs :=
  repeat match goal with
         | |- context [if ?c then _ else _] =>
             lazymatch c with
             | context [if _ then _ else _] => fail
             | _ => let E := fresh "E" in destruct c eqn:E
             end
         end.
Lemma limit_positive ct : 0 < l_total (limits_of ct).
Proof.
  unfold limits_of, do_uses_configured_client, client_timeout_ns, attempt_ctx_timeout_ns, pos_min, dur.
  cbn [l_total]. rewrite ?Z.gtb_ltb, ?Z.geb_leb. split_ifs; cbn [l_total]; zb; lia.
Qed.
(* ... for a positive configured value it is that number of seconds, neither shorter (a healthy authority is not cut off)
   nor longer; otherwise it is the default of 60 s *)
Lemma limit_is_configured ct : 0 < ct -> l_total (limits_of ct) = 1000000000 * ct.
Proof.
  intros Hct. unfold limits_of, do_uses_configured_client, client_timeout_ns, attempt_ctx_timeout_ns, pos_min, dur.
  cbn [l_total]. rewrite ?Z.gtb_ltb, ?Z.geb_leb. split_ifs; cbn [l_total]; zb; lia.
Qed.
Lemma limit_default ct : ct <= 0 -> l_total (limits_of ct) = 60 * 1000000000.
Proof.
  intros Hct. unfold limits_of, do_uses_configured_client, client_timeout_ns, attempt_ctx_timeout_ns, pos_min, dur.
  cbn [l_total]. rewrite ?Z.gtb_ltb, ?Z.geb_leb. split_ifs; cbn [l_total]; zb; lia.
Qed.
Lemma limiter_spec (H : Z -> bytes -> bytes) l ctx q al wait :
  limited_client H l ctx q al wait =
  if wait_fails ctx wait then (TRet (Err E_LIMIT) 0, []) else tclient H l ctx q al (posd wait).
Proof. reflexivity. Qed.

Lemma timing_source_reviewed :
  ts_loop_header = reviewed_loop_header /\ ts_loop_attempts = reviewed_loop_attempts /\ ts_loop_exits = reviewed_loop_exits /\
  ts_context_derivations = [] /\ do_request_ctx = 0 /\ do_uses_configured_client = true /\
  limiter_order = [0; 1] /\ limiter_passes_ctx_and_request = true /\
  all_known known_client_fields client_fields = true /\ all_known known_transport_fields transport_fields = true /\
  all_known known_dialer_fields dialer_fields = true.
Proof. repeat split; reflexivity. Qed.

(* ------------------------------------------------------------------ witnesses *)
Definition SEC := 1000000000.
Definition w_tgood (id : Z) : reply := w_reply (w_stamp id (Some 7) 3) 0.
Definition w_answer (id d : Z) : authority := mkAuth false [(0, EvConnected); (d, EvHeaders); (0, EvBytes 1500); (0, EvEnd)] (w_tgood id).
Definition w_stall_after_headers (id : Z) : authority := mkAuth false [(0, EvConnected); (5000000, EvHeaders)] (w_tgood id).
Definition w_hang (id : Z) : authority := mkAuth false [(0, EvConnected)] (w_tgood id).
Definition w_drip (id : Z) : authority :=
  mkAuth false ((0, EvConnected) :: (1000000, EvHeaders) :: repeat (300000000, EvBytes 1) 8 ++ [(0, EvEnd)]) (w_tgood id).
Definition w_torn (id : Z) : authority := mkAuth false [(0, EvConnected); (1000000, EvHeaders); (1000000, EvBytes 700); (2000000, EvAbort)] (w_tgood id).

(* timestamp.timeout unset (0) or negative: the default applies; an authority that accepts the connection and says nothing
   is abandoned after 60 s and the good second authority is asked *)
Lemma timeout_unset_fails_over :
  let al := [w_hang 0; w_answer 1 5000000] in
  tclient Hsym (limits_of 0) None w_req al 0 = (TRet (Ok (w_stamp 1 (Some 7) 3)) (60 * SEC + 5000000), [(0, 0); (1, 60 * SEC)]) /\
  tclient Hsym (limits_of (-3)) None w_req al 0 = tclient Hsym (limits_of 0) None w_req al 0 /\
  spec_timed (spec_good Hsym (limits_of 0) w_req) al 0 = (Some (w_stamp 1 (Some 7) 3), [0; 1]).
Proof. vm_compute. repeat split; reflexivity. Qed.

(* sensitivity: a client with connect / handshake / header limits only (no overall limit) hangs on an authority that sends
   its headers and stalls *)
Lemma header_only_limits_refuted :
  exists q al good,
    let l := mkLimits 0 SEC SEC SEC in
    spec_timed (spec_good Hsym l q) al 0 = (Some good, [0; 1]) /\
    tclient Hsym l None q al 0 = (THang, [(0, 0)]) /\
    (* ... and when the caller has a deadline, fails at that deadline without asking the second authority *)
    tclient Hsym l (Some (5 * SEC)) q al 0 = (TRet (Err E_TRANSPORT) (5 * SEC), [(0, 0)]) /\
    (* while a hang BEFORE the headers is still detected by such a client *)
    tclient Hsym l None q [w_hang 0; w_answer 1 5000000] 0 = (TRet (Ok good) (SEC + 5000000), [(0, 0); (1, SEC)]).
Proof. exists w_req, [w_stall_after_headers 0; w_answer 1 5000000], (w_stamp 1 (Some 7) 3). vm_compute. repeat split; reflexivity. Qed.

(* ------------------------------------------------------------------ the theorems for the client AS CONFIGURED BY THE SOURCE *)
Section Source.
Variable H : Z -> bytes -> bytes.
Variable ct : Z.                       (* timestamp.timeout, in seconds: ANY configured value, also 0 (unset) and negative *)
Let L := limits_of ct.
Let HL : 0 < l_total L := limit_positive ct.

Lemma src_attempt_ends_within_timeout ctx a now :
  exists f ph t, attempt L ctx a now = Done f ph t /\ now <= t <= now + l_total L.
Proof. apply attempt_bounded. exact HL. Qed.
Lemma src_timed_client_returns ctx q al t0 :
  exists r t hits, tclient H L ctx q al t0 = (TRet r t, hits) /\ timeline (l_total L) 0 t0 hits t /\ (length hits <= length al)%nat.
Proof. apply timed_client_returns. exact HL. Qed.
Lemma src_timed_failover_spec q al t0 :
  q_legacy q = false -> al <> [] ->
  match spec_timed (spec_good H L q) al 0 with
  | (Some s, h) => exists t hits, tclient H L None q al t0 = (TRet (Ok s) t, hits) /\ map fst hits = h
  | (None, h) => exists e t hits, tclient H L None q al t0 = (TRet (Err e) t, hits) /\ map fst hits = h /\ h = upto 0 (length al)
  end.
Proof. apply timed_failover_spec. exact HL. Qed.
Lemma src_no_behaviour_blocks_later q bad g rest t0 :
  q_legacy q = false ->
  (forall a, In a bad -> spec_good H L q a = false) -> spec_good H L q g = true ->
  exists t hits, tclient H L None q (bad ++ g :: rest) t0 = (TRet (Ok (r_stamp (a_reply g))) t, hits) /\
                 map fst hits = upto 0 (S (length bad)) /\
                 t0 <= t <= t0 + Z.of_nat (S (length bad)) * l_total L.
Proof. apply no_behaviour_blocks_later. exact HL. Qed.
Lemma src_timed_all_fail_is_error ctx q al t0 :
  q_legacy q = false -> (forall a, In a al -> spec_good H L q a = false) ->
  exists e t hits, tclient H L ctx q al t0 = (TRet (Err e) t, hits) /\ t0 <= t <= t0 + zlen al * l_total L.
Proof. apply timed_all_fail_is_error. exact HL. Qed.
Lemma src_patient_caller c q al t0 :
  t0 + zlen al * l_total L < c -> tclient H L (Some c) q al t0 = tclient H L None q al t0.
Proof. apply patient_caller. exact HL. Qed.
Lemma src_timed_refines_untimed q al t0 :
  exists t hits,
    tclient H L None q al t0 = (TRet (fst (ts_client H q (map (reply_at L) al))) t, hits) /\
    map fst hits = snd (ts_client H q (map (reply_at L) al)) /\ t0 <= t.
Proof. apply timed_refines_untimed. exact HL. Qed.
End Source.
