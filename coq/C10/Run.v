(* C10/Run.v — evaluation of the model and of the specification on harness cases. *)
From Coq Require Import String.
From Relic Require Import Base.Prelude Base.Val Generated.C10_gen C10.ChainIR C10.Model C10.Chain C10.Timing.

(* the digest used for evaluation: algorithm tag followed by the data (injective; see Properties.hsym_injective) *)
Definition HR := Hsym.

Definition the_sig : bytes := [1; 2; 3].
Definition other_sig : bytes := [1; 2; 4].
Definition the_alg : Z := 3.          (* SHA-256 in relic's table *)
Definition unknown_alg : Z := 9.      (* an identifier relic's table does not know (sha3-256 in the harness) *)
Definition the_nonce : Z := 7.
Definition a_cert : cert := mkCert 0 0 true true.

(* reply attributes as emitted by the harness:
   [transport http parses rest status has_token sig_ok nonce_kind imprint alg_same ctx_dead] *)
Definition mk_reply (legacy : bool) (id : Z) (v : val) : reply :=
  let b n := vbool (vnth n v) in
  let z n := vz (vnth n v) in
  let nonce := if z 7%nat =? 0 then None else if z 7%nat =? 1 then Some the_nonce else Some (the_nonce + 1) in
  let data := if b 8%nat then the_sig else other_sig in
  let hashed := if legacy then data else HR the_alg data in
  let alg := if b 9%nat then the_alg else unknown_alg in
  mkReply (b 0%nat) (z 1%nat) (b 2%nat) (z 3%nat) (z 4%nat)
    (mkStamp id (if legacy then 1 else 0) 1 (b 5%nat) (b 5%nat) (b 6%nat) nonce alg hashed 1000 true a_cert) (b 10%nat).

Fixpoint mk_replies (legacy : bool) (id : Z) (l : list val) : list reply :=
  match l with [] => [] | v :: r => mk_reply legacy id v :: mk_replies legacy (id + 1) r end.

Definition res_kind {A} (r : result A) : Z := match r with Ok _ => 0 | Err _ => 1 | Panic _ => 2 end.
Definition res_code (r : result stamp) : Z := match r with Ok t => st_id t | Err e => e | Panic p => p end.
Definition opt_kind (o : option stamp) : Z := match o with Some _ => 0 | None => 1 end.
Definition opt_id (o : option stamp) : Z := match o with Some t => st_id t | None => -1 end.

(* [legacy replies] -> [kind code hits  spec_kind spec_id spec_hits  (per reply: genuine flags)] *)
Definition run_client (v : val) : val :=
  let legacy := vbool (vnth 0 v) in
  let rs := mk_replies legacy 0 (vl (vnth 1 v)) in
  let q := mkReq the_sig the_alg the_nonce legacy in
  let '(res, hits) := ts_client HR q rs in
  let good := if legacy then genuine_legacy q else genuine HR q in
  let '(sp, sh) := spec_client good rs 0 in
  VL [VZ (res_kind res); VZ (res_code res); VZs hits; VZ (opt_kind sp); VZ (opt_id sp); VZs sh;
      VL (map (fun r => of_bool (good r)) rs)].

(* [cls has_ts legacy replies] -> [kind code hits stamped] ; code = authority id of the attached stamp *)
Definition run_sign (v : val) : val :=
  let cls := vz (vnth 0 v) in
  let has_ts := vbool (vnth 1 v) in
  let legacy := vbool (vnth 2 v) in
  let rs := mk_replies legacy 0 (vl (vnth 3 v)) in
  let q := mkReq the_sig the_alg the_nonce legacy in
  let '(res, hits) := sign_with_ts HR cls has_ts q rs in
  let code := match res with Ok (Some t) => st_id t | Ok None => -1 | Err e => e | Panic p => p end in
  let stamped := match res with Ok (Some _) => true | _ => false end in
  VL [VZ (res_kind res); VZ code; VZs hits; of_bool stamped].

(* [now [nb na trusted] has_stamp [form nsigners has_content info_ok sig_ok alg covers time time_ok [nb na trusted eku]]]
   -> [kind accepted spec_accept] ; alg: 0 right label, 1 another known algorithm, 2 unknown algorithm *)
Definition mk_cert (v : val) : cert :=
  mkCert (vz (vnth 0 v)) (vz (vnth 1 v)) (vbool (vnth 2 v)) (vbool (vnth 3 v)).
Definition run_verify (v : val) : val :=
  let now := vz (vnth 0 v) in
  let leaf := mk_cert (vnth 1 v) in
  let has_stamp := vbool (vnth 2 v) in
  let sv := vnth 3 v in
  let form := vz (vnth 0 sv) in
  let algk := vz (vnth 5 sv) in
  let alg := if algk =? 0 then the_alg else if algk =? 1 then 4 else unknown_alg in
  let data := if vbool (vnth 6 sv) then the_sig else other_sig in
  let hashed := if form =? 1 then data else HR the_alg data in
  let st := mkStamp 0 form (vz (vnth 1 sv)) (vbool (vnth 2 sv)) (vbool (vnth 3 sv)) (vbool (vnth 4 sv)) None alg hashed
              (vz (vnth 7 sv)) (vbool (vnth 8 sv)) (mk_cert (vnth 9 sv)) in
  let s := mkSig the_sig leaf (if has_stamp then Some st else None) in
  let r := verify_all HR now s in
  VL [VZ (res_kind r); VZ (match r with Ok _ => 0 | Err e => e | Panic p => p end);
      of_bool (accepted HR now s); of_bool (spec_accept HR now s)].

(* ---- verification histories.
   certificate [id nb na issuer [ekus]] ; signature object [leaf [intermediates]] ;
   step [pool_id [root ids] [extra certs] usage now sig has_cs [tsa_sig time]]
   [steps] -> per step [kind code fresh_kind fresh_code spec] : verdict in the history (state threaded through), verdict of
   the same verification done first in a fresh process, the specification's verdict *)
Definition mk_xcert (v : val) : xcert :=
  mkX (vz (vnth 0 v)) (vz (vnth 1 v)) (vz (vnth 2 v)) (vz (vnth 3 v)) (map vz (vl (vnth 4 v))).
Definition mk_sobj (v : val) : sobj := mkSobj (mk_xcert (vnth 0 v)) (map mk_xcert (vl (vnth 1 v))).
Definition mk_vcall (v : val) : vcall :=
  mkCall (mkPool (vz (vnth 0 v)) (map vz (vl (vnth 1 v)))) (map mk_xcert (vl (vnth 2 v))) (vz (vnth 3 v)) (vz (vnth 4 v))
    (mk_sobj (vnth 5 v))
    (if vbool (vnth 6 v) then Some (mkCs (mk_sobj (vnth 0 (vnth 7 v))) (vz (vnth 1 (vnth 7 v)))) else None)
    (fun _ => false).
Definition res_code_u (r : result unit) : Z := match r with Ok _ => 0 | Err e => e | Panic p => p end.
Definition run_seq (v : val) : val :=
  let calls := map mk_vcall (vl v) in
  let '(out, _) := verify_seq [] calls in
  VL (map (fun p : result unit * vcall =>
             let '(r, c) := p in
             VL [VZ (res_kind r); VZ (res_code_u r); VZ (res_kind (fresh c)); VZ (res_code_u (fresh c)); of_bool (spec_chain_accept c)])
          (combine out calls)).

(* ---- the timed client.
   [ct_seconds ctx_ms(-1 = none) wait_ms legacy [authority ...]] ; authority = [tls [[delay_ms code n] ...] reply-attributes]
   event codes: 0 refused, 1 connected, 2 TLS done, 3 headers, 4 n body bytes, 5 body complete, 6 aborted by the authority
   -> [kind code hits t_end_ms spec_kind spec_id spec_hits per-authority limits]
      kind 0 ok / 1 err / 2 panic / 3 never returns ; hits = [[index t_ms] ...] ; per authority [in_time good] ;
      limits = [total dial tls header] in ms as read from the source for this ct *)
Definition MS := 1000000.
Definition mk_ev (v : val) : Z * ev :=
  let c := vz (vnth 1 v) in
  (vz (vnth 0 v) * MS,
   if c =? 0 then EvRefused else if c =? 1 then EvConnected else if c =? 2 then EvSecure else if c =? 3 then EvHeaders
   else if c =? 4 then EvBytes (vz (vnth 2 v)) else if c =? 5 then EvEnd else EvAbort).
Fixpoint mk_auths (legacy : bool) (id : Z) (l : list val) : list authority :=
  match l with
  | [] => []
  | v :: r => mkAuth (vbool (vnth 0 v)) (map mk_ev (vl (vnth 1 v))) (mk_reply legacy id (vnth 2 v)) :: mk_auths legacy (id + 1) r
  end.
Definition to_ms (t : Z) : Z := t / MS.
Definition run_timed (v : val) : val :=
  let ct := vz (vnth 0 v) in
  let ctxms := vz (vnth 1 v) in
  let ctx := if ctxms <? 0 then None else Some (ctxms * MS) in
  let wait := vz (vnth 2 v) * MS in
  let legacy := vbool (vnth 3 v) in
  let al := mk_auths legacy 0 (vl (vnth 4 v)) in
  let q := mkReq the_sig the_alg the_nonce legacy in
  let l := limits_of ct in
  let '(res, hits) := limited_client HR l ctx q al wait in
  let good := if legacy then (fun a => spec_in_time l (a_tls a) (a_script a) && genuine_legacy q (deliver (a_reply a)))
              else spec_good_full HR l q in
  let '(sp, sh) := spec_timed good al 0 in
  let kind := match res with TRet r _ => res_kind r | THang => 3 end in
  let code := match res with TRet r _ => res_code r | THang => 0 end in
  let tend := match res with TRet _ t => to_ms t | THang => -1 end in
  VL [VZ kind; VZ code; VL (map (fun h : Z * Z => VZs [fst h; to_ms (snd h)]) hits); VZ tend;
      VZ (opt_kind sp); VZ (opt_id sp); VZs sh;
      VL (map (fun a => VL [of_bool (spec_in_time l (a_tls a) (a_script a)); of_bool (good a)]) al);
      VZs [to_ms (l_total l); to_ms (l_dial l); to_ms (l_tls l); to_ms (l_header l)]].

(* entry point: [0 client] [1 sign] [2 verify] [3 verification history] [4 timed client] *)
Definition run (v : val) : val :=
  let k := vz (vnth 0 v) in
  if k =? 0 then run_client (vnth 1 v)
  else if k =? 1 then run_sign (vnth 1 v)
  else if k =? 2 then run_verify (vnth 1 v)
  else if k =? 3 then run_seq (vnth 1 v)
  else run_timed (vnth 1 v).
