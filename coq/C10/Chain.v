(* C10/Chain.v — certificate-chain verification as a function of the verification HISTORY of one process.

   The three Go functions through which every chain is judged (pkcs7.Signature.VerifyChain,
   pkcs9.CounterSignature.VerifyChain, pkcs9.TimestampedSignature.VerifyChain) are translated by srcgen into
   programs of the language of C10/ChainIR.v (Generated/C10_gen.v: vc7_prog, vc9cs_prog, vc9ts_prog).  This file
   gives that language its semantics: an interpreter that threads the PROCESS STATE (the contents of package-level
   memo tables) through a sequence of verifications, with Go's crypto/x509 path validation as an oracle
   (path_ok: validity windows judged at one instant, extended key usage, issuer in the trust store directly or
   through one bundled intermediate).

   Also here: the static check `stateless` (the program neither reads nor writes process state), the check
   `modelled` (nothing the translator could not classify), the reviewed inventory of package-level mutable state,
   and the independent specification spec_chain_accept written from the property text. *)
From Coq Require Import String.
From Relic Require Import Base.Prelude Generated.C10_gen C10.ChainIR C10.Model.

(* ------------------------------------------------------------------ data *)
Record xcert := mkX {
  x_id : Z;                    (* identity of the certificate (its DER bytes) *)
  x_nb : Z; x_na : Z;          (* NotBefore / NotAfter, inclusive *)
  x_issuer : Z;                (* identity of the issuing certificate *)
  x_ekus : list Z }.           (* extended key usages; [] = extension absent = unrestricted; 0 = any *)

Record pool := mkPool {
  p_id : Z;                    (* identity of the *x509.CertPool OBJECT (what a pointer comparison sees) *)
  p_roots : list Z }.          (* identities of the root certificates in it *)

Record sobj := mkSobj { o_leaf : xcert; o_inter : list xcert }.     (* pkcs7.Signature: Certificate, Intermediates *)
Record csobj := mkCs { cs_sig : sobj; cs_time : Z }.                 (* pkcs9.CounterSignature: Signature, SigningTime *)

(* one verification = one call of TimestampedSignature.VerifyChain *)
Record vcall := mkCall {
  v_roots : pool;
  v_extra : list xcert;
  v_usage : Z;
  v_now : Z;                   (* wall clock when the call is made *)
  v_sig : sobj;
  v_cs : option csobj;         (* the validated countersignature / timestamp token, if any *)
  v_opq : Z -> bool }.         (* values of the conditions that depend on the call only (error kinds, CertError) *)

Definition P_UNMODELLED := 3.
Definition P_NORETURN := 4.

(* ------------------------------------------------------------------ crypto/x509 oracle *)
Definition memz (z : Z) (l : list Z) : bool := existsb (Z.eqb z) l.
Definition win (c : xcert) (t : Z) : bool := (x_nb c <=? t) && (t <=? x_na c).
Definition eku_ok (u : Z) (c : xcert) : bool :=
  (u =? 0) || match x_ekus c with [] => true | l => memz u l || memz 0 l end.
(* VerifyOptions.KeyUsages: empty means ServerAuth (1); the chain must allow at least one of them *)
Definition usages_ok (us : list Z) (c : xcert) : bool :=
  existsb (fun u => eku_ok u c) (match us with [] => [1] | _ => us end).
Definition path_ok (leaf : xcert) (inter : list xcert) (roots : list Z) (t : Z) (us : list Z) : bool :=
  win leaf t && usages_ok us leaf &&
  (memz (x_issuer leaf) roots ||
   existsb (fun i => (x_id i =? x_issuer leaf) && win i t && usages_ok us i && memz (x_issuer i) roots) inter).
(* Certificate.Verify(opts): a nil Roots means the system pool, to which no certificate of the model chains;
   a zero CurrentTime means time.Now() (Model.eff_time) *)
Definition x509_verify (now : Z) (leaf : xcert) (inter : list xcert) (roots : option pool) (t : Z) (us : list Z) : bool :=
  match roots with
  | None => false
  | Some p => path_ok leaf inter (p_roots p) (eff_time t now) us
  end.

(* ------------------------------------------------------------------ process state *)
Definition mkey := list (list Z).
Definition store := list (Z * mkey).          (* contents of the package-level memo tables *)
Definition mkey_eqb : mkey -> mkey -> bool := list_eqb (list_eqb Z.eqb).
Definition store_mem (g : Z) (k : mkey) (s : store) : bool :=
  existsb (fun e => (fst e =? g) && mkey_eqb (snd e) k) s.
Definition store_add (g : Z) (k : mkey) (s : store) : store := (g, k) :: s.

(* ------------------------------------------------------------------ interpreter *)
Record env := mkEnv {
  e_roots : option pool; e_extra : list xcert; e_usage : Z; e_tparam : Z; e_now : Z;
  e_self : sobj; e_cs : option csobj; e_opq : Z -> bool }.
Record regs := mkRegs { g_failed : bool; g_time : Z }.      (* `err != nil`, the local signingTime *)

Definition eval_t (e : env) (r : regs) (t : texp) : result Z :=
  match t with
  | TParam => Ok (e_tparam e)
  | TZero => Ok 0
  | TCsTime => match e_cs e with Some c => Ok (cs_time c) | None => Panic P_NIL end
  | TLocal => Ok (g_time r)
  | TNow => Ok (e_now e)
  | TOther _ => Panic P_UNMODELLED
  end.
Definition eval_u (e : env) (u : uexp) : Z :=
  match u with UParam => e_usage e | UConst z => z | UOther _ => -1 end.
Definition eval_r (e : env) (x : rexp) : option pool :=
  match x with RParam => e_roots e | RNil => None | ROther _ => None end.
Definition eval_i (e : env) (i : isrc) : list xcert :=
  match i with IExtra => e_extra e | IInter => o_inter (e_self e) | IOther _ => [] end.
Definition eval_k (e : env) (r : regs) (k : kcomp) : list Z :=
  match k with
  | KRoots => match e_roots e with Some p => [1; p_id p] | None => [0] end      (* pointer identity *)
  | KUsage => [e_usage e]
  | KLeaf => [x_id (o_leaf (e_self e))]
  | KTime t => match eval_t e r t with Ok z => [z] | _ => [] end
  | KExtra => map x_id (e_extra e)
  | KInter => map x_id (o_inter (e_self e))
  | KConst z => [z]
  | KOther _ => []
  end.
Definition eval_key (e : env) (r : regs) (k : list kcomp) : mkey := map (eval_k e r) k.

Fixpoint eval_c (e : env) (r : regs) (s : store) (c : cond) : result bool :=
  match c with
  | CFailed => Ok (g_failed r)
  | CNotFailed => Ok (negb (g_failed r))
  | CHasCs => Ok (match e_cs e with Some _ => true | None => false end)
  | CNoCs => Ok (match e_cs e with Some _ => false | None => true end)
  | CMemoHit g k => Ok (store_mem g (eval_key e r k) s)
  | CNeg a => b <- eval_c e r s a ;; Ok (negb b)
  | CAnd a b => x <- eval_c e r s a ;; if x then eval_c e r s b else Ok false
  | COr a b => x <- eval_c e r s a ;; if x then Ok true else eval_c e r s b
  | COpaque h => Ok (e_opq e h)
  | CGlobal _ => Panic P_UNMODELLED
  end.

(* environment of a callee.  X.Signature.VerifyChain runs on the same signature object; X.CounterSignature.VerifyChain
   has a value receiver, so a nil CounterSignature pointer panics *)
Definition callee_env (e : env) (r : regs) (f : callee) (ro : rexp) (ex : list isrc) (u : uexp) (t : texp) : result env :=
  match f with
  | F7 => tv <- eval_t e r t ;;
          Ok (mkEnv (eval_r e ro) (flat_map (eval_i e) ex) (eval_u e u) tv (e_now e) (e_self e) None (e_opq e))
  | F9cs => match e_cs e with
            | None => Panic P_NIL
            | Some c => Ok (mkEnv (eval_r e ro) (flat_map (eval_i e) ex) 0 0 (e_now e) (cs_sig c) (Some c) (e_opq e))
            end
  end.

Definition outcome := option (result unit).            (* None: the function is still running *)

Section Exec.
Variable callf : callee -> env -> store -> result unit * store.

Fixpoint exec (p : stmt) (e : env) (r : regs) (s : store) : outcome * regs * store :=
  match p with
  | SSkip => (None, r, s)
  | SSeq a b =>
      match exec a e r s with
      | (None, r', s') => exec b e r' s'
      | x => x
      end
  | SIf c th el =>
      match eval_c e r s c with
      | Ok true => exec th e r s
      | Ok false => exec el e r s
      | Err x => (Some (Err x), r, s)
      | Panic x => (Some (Panic x), r, s)
      end
  | SVerify inter ro t us =>
      match eval_t e r t with
      | Ok tv =>
          let ok := x509_verify (e_now e) (o_leaf (e_self e)) (flat_map (eval_i e) inter) (eval_r e ro) tv (map (eval_u e) us) in
          (None, mkRegs (negb ok) (g_time r), s)
      | Err x => (Some (Err x), r, s)
      | Panic x => (Some (Panic x), r, s)
      end
  | SCall f ro ex u t =>
      match callee_env e r f ro ex u t with
      | Ok e' =>
          let '(res, s') := callf f e' s in
          match res with
          | Panic x => (Some (Panic x), r, s')
          | _ => (None, mkRegs (negb (is_ok res)) (g_time r), s')
          end
      | Err x => (Some (Err x), r, s)
      | Panic x => (Some (Panic x), r, s)
      end
  | SSetTime t =>
      match eval_t e r t with
      | Ok tv => (None, mkRegs (g_failed r) tv, s)
      | Err x => (Some (Err x), r, s)
      | Panic x => (Some (Panic x), r, s)
      end
  | SMemoStore g k => (None, r, store_add g (eval_key e r k) s)
  | SRetOk => (Some (Ok tt), r, s)
  | SRetErr tag => (Some (Err (if tag =? 1 then E_CHAIN_TSA else E_CHAIN)), r, s)
  | SRetLast => (Some (if g_failed r then Err E_CHAIN else Ok tt), r, s)
  | SRetCall f ro ex u t =>
      match callee_env e r f ro ex u t with
      | Ok e' => let '(res, s') := callf f e' s in (Some res, r, s')
      | Err x => (Some (Err x), r, s)
      | Panic x => (Some (Panic x), r, s)
      end
  | SUnknown _ => (Some (Panic P_UNMODELLED), r, s)
  end.

Definition run_prog (p : stmt) (e : env) (s : store) : result unit * store :=
  match exec p e (mkRegs false 0) s with
  | (Some res, _, s') => (res, s')
  | (None, _, s') => (Panic P_NORETURN, s')
  end.
End Exec.

(* the three functions, with the generated bodies *)
Definition no_call (f : callee) (e : env) (s : store) : result unit * store := (Panic P_UNMODELLED, s).
Definition run7 : env -> store -> result unit * store := run_prog no_call vc7_prog.
Definition call9cs (f : callee) : env -> store -> result unit * store :=
  match f with F7 => run7 | F9cs => no_call F9cs end.
Definition run9cs : env -> store -> result unit * store := run_prog call9cs vc9cs_prog.
Definition call9ts (f : callee) : env -> store -> result unit * store :=
  match f with F7 => run7 | F9cs => run9cs end.
Definition run9ts : env -> store -> result unit * store := run_prog call9ts vc9ts_prog.

Definition env_of (c : vcall) : env :=
  mkEnv (Some (v_roots c)) (v_extra c) (v_usage c) 0 (v_now c) (v_sig c) (v_cs c) (v_opq c).

(* one verification in a process whose state is s; a whole history; the same verification done first in a fresh process *)
Definition verify_step (s : store) (c : vcall) : result unit * store := run9ts (env_of c) s.
Fixpoint verify_seq (s : store) (h : list vcall) : list (result unit) * store :=
  match h with
  | [] => ([], s)
  | c :: rest =>
      let '(res, s') := verify_step s c in
      let '(out, s'') := verify_seq s' rest in (res :: out, s'')
  end.
Definition fresh (c : vcall) : result unit := fst (verify_step [] c).

(* ------------------------------------------------------------------ static checks on generated programs *)
Fixpoint cond_stateless (c : cond) : bool :=
  match c with
  | CMemoHit _ _ | CGlobal _ => false
  | CNeg a => cond_stateless a
  | CAnd a b | COr a b => cond_stateless a && cond_stateless b
  | _ => true
  end.
(* neither reads nor writes process state, and contains nothing the translator did not understand *)
Fixpoint stateless (p : stmt) : bool :=
  match p with
  | SSeq a b => stateless a && stateless b
  | SIf c a b => cond_stateless c && stateless a && stateless b
  | SMemoStore _ _ | SUnknown _ => false
  | _ => true
  end.

(* ------------------------------------------------------------------ reviewed inventory of package-level mutable state
   (2026-09: lib/pkcs7 and lib/pkcs9 have none; lib/x509tools has the command-line flag variables of x509cmd.go, the
   curve table (holds function values) and the lazily built reverse digest-name table with its sync.Once; none of it
   is reachable from the verification entry points) *)
Definition reviewed_state_pkcs7 : list string := [].
Definition reviewed_state_pkcs9 : list string := [].
Definition reviewed_state_x509tools : list string :=
  ["ArgCertAuthority"; "ArgCommonName"; "ArgCountry"; "ArgDNSNames"; "ArgEmailNames"; "ArgExpireDays"; "ArgInteractive";
   "ArgKeyUsage"; "ArgLocality"; "ArgOrganization"; "ArgOrganizationalUnit"; "ArgProvince"; "ArgRSAPSS"; "ArgSerial";
   "DefinedCurves"; "hashesByName"; "once"]%string.
Definition reviewed_path_state : list string := [].

(* ------------------------------------------------------------------ specification (from the property text)
   "certificate chains are then judged at the attested time, so an expired signer certificate is accepted only with a
    valid timestamp from within its lifetime": without a countersignature the signer's chain is judged now; with one,
   the authority's chain (timeStamping purpose = 8) and the signer's chain are both judged at the attested time.
   Certificates offered by the caller and certificates bundled with the signature may complete a path. *)
Definition spec_chain_accept (c : vcall) : bool :=
  let roots := p_roots (v_roots c) in
  match v_cs c with
  | None =>
      path_ok (o_leaf (v_sig c)) (o_inter (v_sig c) ++ v_extra c) roots (v_now c) [v_usage c]
  | Some cs =>
      path_ok (o_leaf (cs_sig cs)) (o_inter (cs_sig cs) ++ v_extra c) roots (cs_time cs) [8] &&
      path_ok (o_leaf (v_sig c)) (o_inter (v_sig c) ++ v_extra c) roots (cs_time cs) [v_usage c]
  end.

(* ------------------------------------------------------------------ what a time-blind memo looks like in this language
   (the program srcgen produces for a VerifyChain that remembers accepted (trust store, usage, leaf) triples) *)
Definition g_memo : Z := 1.
Definition memo7_timeblind : stmt :=
  SSeq (SIf (CMemoHit g_memo [KRoots; KUsage; KLeaf]) SRetOk SSkip)
  (SSeq (SVerify [IExtra; IInter] RParam TParam [UParam])
  (SSeq (SIf CNotFailed (SSeq (SMemoStore g_memo [KRoots; KUsage; KLeaf]) SRetOk) SSkip)
   SRetLast)).
Definition run7_memo : env -> store -> result unit * store := run_prog no_call memo7_timeblind.
Definition call9cs_memo (f : callee) := match f with F7 => run7_memo | F9cs => no_call F9cs end.
Definition call9ts_memo (f : callee) := match f with F7 => run7_memo | F9cs => run_prog call9cs_memo vc9cs_prog end.
Definition verify_step_memo (s : store) (c : vcall) : result unit * store := run_prog call9ts_memo vc9ts_prog (env_of c) s.
