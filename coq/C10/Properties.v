(* C10/Properties.v — property theorems only. Each is closed by a lemma of C10/Proofs.v.
   H is an arbitrary digest function (algorithm -> data -> digest); injectivity is assumed only where stated. *)
From Relic Require Import Base.Prelude Generated.C10_gen C10.Model C10.Proofs.

(* ---------------------------------------------------------------- signing side, RFC 3161 *)

(* 1. A token is returned to the signer only if it came from a reply that was delivered (HTTP 200, one DER
      TimeStampResp), granted (status 0/1), well signed, echoes the request nonce and carries the digest of this
      signature value; it is the FIRST such reply in configured order and exactly the authorities up to it were
      contacted.  Holds for every fault sequence, including panicking replies and context expiry. *)
Theorem attached_only_if_genuine : forall H q rs t hits,
  q_legacy q = false ->
  ts_client H q rs = (Ok t, hits) ->
  exists k r, nth_error rs k = Some r /\ t = r_stamp r /\ genuine_bytes H q r = true /\ hits = upto 0 (S k) /\
    forall j r', (j < k)%nat -> nth_error rs j = Some r' -> genuine_bytes H q r' = false.
Proof. exact C10.Proofs.attached_only_if_genuine. Qed.

(* 1'. full strength (the imprint must also name the requested algorithm) where authorities label it honestly *)
Theorem attached_only_if_genuine_full : forall H q rs t hits,
  q_legacy q = false ->
  (forall r, In r rs -> imprint_alg_match q (r_stamp r) = true) ->
  ts_client H q rs = (Ok t, hits) ->
  exists k r, nth_error rs k = Some r /\ t = r_stamp r /\ genuine H q r = true /\ hits = upto 0 (S k) /\
    forall j r', (j < k)%nat -> nth_error rs j = Some r' -> genuine H q r' = false.
Proof. exact C10.Proofs.attached_only_if_genuine_full. Qed.

(* 2. Ordered failover = the specification "first genuine authority in configured order wins; none => error",
      for every sequence of replies, as long as the caller's context stays alive. *)
Theorem failover_in_order : forall H q rs,
  q_legacy q = false ->
  (forall r, In r rs -> r_ctx_dead r = false) ->
  rs <> [] ->
  match spec_client (genuine_bytes H q) rs 0 with
  | (Some t, h) => ts_client H q rs = (Ok t, h)
  | (None, h) => exists e, ts_client H q rs = (Err e, h)
  end.
Proof. exact C10.Proofs.failover_in_order. Qed.

(* 3. If every authority fails the client never reports success — in particular never success without a token;
      any style, any fault sequence (panics, context expiry, empty URL list included). *)
Theorem all_fail_means_error : forall H q rs,
  (forall r, In r rs -> accepts H q r = false) -> forall t, fst (ts_client H q rs) <> Ok t.
Proof. exact C10.Proofs.all_fail_means_error. Qed.
Theorem all_fail_means_error_rfc : forall H q rs,
  q_legacy q = false ->
  (forall r, In r rs -> genuine_bytes H q r = false) -> forall t, fst (ts_client H q rs) <> Ok t.
Proof. exact C10.Proofs.all_fail_means_error_rfc. Qed.

(* 3'. Robustness of the client: no reply makes it panic; a token without nonce is an ordinary nonce mismatch (so the
       next authority is tried, by failover_in_order); a PKIStatus outside {granted, grantedWithMods} is never accepted. *)
Theorem client_never_panics : forall H q rs p, fst (ts_client H q rs) <> Panic p.
Proof. exact C10.Proofs.client_never_panics. Qed.
Theorem missing_nonce_is_mismatch : forall H q r,
  q_legacy q = false -> st_nonce (r_stamp r) = None -> exists e, ts_do H q r = Err e.
Proof. exact C10.Proofs.missing_nonce_is_mismatch. Qed.
Theorem status_outside_rejected : forall H q r,
  q_legacy q = false -> r_status r <> 0 -> r_status r <> 1 -> is_ok (ts_do H q r) = false.
Proof. exact C10.Proofs.status_outside_rejected. Qed.

(* 4. With a timestamper configured, a successful signing always carries a timestamp ... *)
Theorem sign_never_unstamped : forall H cls q rs o hits,
  sign_with_ts H cls true q rs = (Ok o, hits) -> exists t, o = Some t.
Proof. exact C10.Proofs.sign_never_unstamped. Qed.
(* ... and when all authorities fail, signing fails *)
Theorem sign_all_fail_no_output : forall H cls q rs,
  (forall r, In r rs -> accepts H q r = false) -> forall o, fst (sign_with_ts H cls true q rs) <> Ok o.
Proof. exact C10.Proofs.sign_all_fail_no_output. Qed.

(* 5. Formats with a self-check (all but VSIX): the attached stamp verifies for THIS signature value *)
Theorem self_check_binds : forall H cls q rs t hits,
  cls <> 2 -> sign_with_ts H cls true q rs = (Ok (Some t), hits) ->
  stamp_valid H t (q_sig q) = true /\
  exists k r, nth_error rs k = Some r /\ t = r_stamp r /\ hits = upto 0 (S k).
Proof. exact C10.Proofs.self_check_binds. Qed.

(* 6. Legacy Microsoft style (application manifests): attached only if genuine — through the self-check, because the
      client itself checks nothing (see legacy_no_failover_refuted) *)
Theorem legacy_attached_only_if_genuine : forall H q rs t hits,
  q_legacy q = true -> (forall r, In r rs -> st_form (r_stamp r) = 1) ->
  sign_with_ts H 1 true q rs = (Ok (Some t), hits) ->
  exists k r, nth_error rs k = Some r /\ t = r_stamp r /\ genuine_legacy q r = true.
Proof. exact C10.Proofs.legacy_attached_only_if_genuine. Qed.

(* ---------------------------------------------------------------- verification side *)

(* 7. A countersignature / timestamp token is accepted only if it covers this exact signature value *)
Theorem countersig_binds : forall H st data t,
  verify_stamp H st data = Ok t ->
  covers H st data = true /\ st_sig_ok st = true /\ t = st_time st.
Proof. exact C10.Proofs.countersig_binds. Qed.
Theorem countersig_binds_unique : forall H st d1 d2 t1 t2,
  (forall a x y, H a x = H a y -> x = y) ->
  verify_stamp H st d1 = Ok t1 -> verify_stamp H st d2 = Ok t2 -> d1 = d2.
Proof. exact C10.Proofs.countersig_binds_unique. Qed.

(* 7'. The verifier never panics; a token without attached content is an ordinary error *)
Theorem verify_never_panics : forall H now s p, verify_all H now s <> Panic p.
Proof. exact C10.Proofs.verify_never_panics. Qed.
Theorem detached_token_is_error : forall H st data,
  st_form st = 0 -> st_nsigners st = 1 -> st_has_content st = false -> verify_stamp H st data = Err E_INFO.
Proof. exact C10.Proofs.detached_token_is_error. Qed.

(* 8. Verification = specification (chains judged at the attested time) whenever the attested time is not Go's zero time *)
Theorem verify_refines_spec : forall H now s,
  (forall st, s_stamp s = Some st -> st_time st <> 0) ->
  accepted H now s = spec_accept H now s.
Proof. exact C10.Proofs.verify_refines_spec. Qed.

(* 9. An expired signer certificate is accepted only with a valid timestamp from within its lifetime, issued by an
      authority whose own chain was valid (with the timeStamping purpose) at that time.  No side condition. *)
Theorem expired_needs_timestamp : forall H now s,
  accepted H now s = true -> c_na (s_leaf s) < now ->
  exists st, s_stamp s = Some st /\ stamp_valid H st (s_value s) = true /\ st_time st <> 0 /\
    in_window (s_leaf s) (st_time st) = true /\
    chain_ok (st_cert st) (st_time st) = true /\ c_ts_eku (st_cert st) = true.
Proof. exact C10.Proofs.expired_needs_timestamp. Qed.

(* ---------------------------------------------------------------- where the code as it exists violates the statement *)
Theorem legacy_no_failover_refuted :
  exists q rs good, q_legacy q = true /\
    spec_client (genuine_legacy q) rs 0 = (Some good, [0; 1]) /\
    ts_client Hsym q rs = (Ok (w_lstamp 0 [9; 9; 9]), [0]) /\
    sign_with_ts Hsym 1 true q rs = (Err E_IMPRINT, [0]).
Proof. exact C10.Proofs.legacy_no_failover_refuted. Qed.
Theorem alg_label_unchecked_refuted :
  exists q rs t hits, q_legacy q = false /\ ts_client Hsym q rs = (Ok t, hits) /\
    (forall r, In r rs -> genuine Hsym q r = false) /\
    is_ok (verify_stamp Hsym t (q_sig q)) = false.
Proof. exact C10.Proofs.alg_label_unchecked_refuted. Qed.
Theorem alg_label_no_failover_refuted :
  exists q rs, spec_client (genuine Hsym q) rs 0 = (Some (r_stamp w_good), [0; 1]) /\
    sign_with_ts Hsym 0 true q rs = (Err E_ALG, [0]).
Proof. exact C10.Proofs.alg_label_no_failover_refuted. Qed.
Theorem vsix_attaches_unverifiable_refuted :
  exists q rs t hits, sign_with_ts Hsym 2 true q rs = (Ok (Some t), hits) /\
    (forall r, In r rs -> genuine Hsym q r = false) /\ is_ok (verify_stamp Hsym t (q_sig q)) = false.
Proof. exact C10.Proofs.vsix_attaches_unverifiable_refuted. Qed.
Theorem zero_time_judged_now_refuted :
  exists now s, accepted Hsym now s = true /\ spec_accept Hsym now s = false.
Proof. exact C10.Proofs.zero_time_judged_now_refuted. Qed.

(* ---------------------------------------------------------------- non-vacuity *)
(* failover over three authorities: wrong nonce, rejection, then a genuine one *)
Example failover_example :
  let bad_nonce := w_reply (w_stamp 0 (Some 8) 3) 0 in
  let rejected := w_reply (w_stamp 1 (Some 7) 3) 2 in
  let good := w_reply (w_stamp 2 (Some 7) 3) 0 in
  ts_client Hsym w_req [bad_nonce; rejected; good] = (Ok (w_stamp 2 (Some 7) 3), [0; 1; 2]) /\
  spec_client (genuine Hsym w_req) [bad_nonce; rejected; good] 0 = (Some (w_stamp 2 (Some 7) 3), [0; 1; 2]) /\
  ts_client Hsym w_req [bad_nonce; rejected] = (Err E_DENIED, [0; 1]).
Proof. vm_compute. auto. Qed.
(* an expired leaf with a timestamp from within its lifetime is accepted; without it, or with a stamp for another
   signature value, it is not *)
Example expired_leaf_example :
  let leaf := mkCert 100 200 true false in
  let st := mkStamp 0 0 1 true true true (Some 1) 3 (Hsym 3 [1; 2; 3]) 150 true (mkCert 120 400 true true) in
  accepted Hsym 300 (mkSig [1; 2; 3] leaf (Some st)) = true /\
  accepted Hsym 300 (mkSig [1; 2; 3] leaf None) = false /\
  accepted Hsym 300 (mkSig [1; 2; 4] leaf (Some st)) = false /\
  c_na leaf < 300.
Proof. vm_compute. auto. Qed.
(* a token without nonce and a reply with PKIStatus -1 are skipped; the third authority's token is used *)
Example missing_nonce_fails_over :
  let no_nonce := w_reply (w_stamp 0 None 3) 0 in
  let minus1 := w_reply (w_stamp 1 (Some 7) 3) (-1) in
  ts_client Hsym w_req [no_nonce; minus1; w_good] = (Ok (r_stamp w_good), [0; 1; 2]).
Proof. vm_compute. reflexivity. Qed.
Example hsym_injective : forall a x y, Hsym a x = Hsym a y -> x = y.
Proof. intros a x y E. inversion E. reflexivity. Qed.
