(* C10/Properties.v — property theorems only. Each is closed by a lemma of C10/Proofs.v.
   H is an arbitrary digest function (algorithm -> data -> digest); injectivity is assumed only where stated. *)
From Coq Require Import String.
From Relic Require Import Base.Prelude Generated.C10_gen C10.ChainIR C10.Model C10.Proofs C10.Chain C10.ChainProofs C10.Timing C10.TimingProofs.

(* ---------------------------------------------------------------- signing side, RFC 3161 *)

(* 1. A token is returned to the signer only if it came from a reply that was delivered (HTTP 200, one DER
      TimeStampResp), granted (status 0/1), well signed, echoes the request nonce and carries the digest of this
      signature value; it is the FIRST such reply in configured order and exactly the authorities up to it were
      contacted.  Holds for every fault sequence, including panicking replies and context expiry. *)
Theorem attached_only_if_genuine : forall H q rs t hits,
  q_legacy q = false ->
  ts_client H q rs = (Ok t, hits) ->
  exists k r, nth_error rs k = Some r /\ t = r_stamp r /\ genuine_bytes H q r = true /\ hits = upto 0 (S k) /\
    forall j r', (j < k)%nat -> nth_error rs j = Some r' -> genuine_bytes H q r' = false.
Proof. exact C10.Proofs.attached_only_if_genuine. Qed.

(* 1'. full strength (the imprint must also name the requested algorithm) where authorities label it honestly *)
Theorem attached_only_if_genuine_full : forall H q rs t hits,
  q_legacy q = false ->
  (forall r, In r rs -> imprint_alg_match q (r_stamp r) = true) ->
  ts_client H q rs = (Ok t, hits) ->
  exists k r, nth_error rs k = Some r /\ t = r_stamp r /\ genuine H q r = true /\ hits = upto 0 (S k) /\
    forall j r', (j < k)%nat -> nth_error rs j = Some r' -> genuine H q r' = false.
Proof. exact C10.Proofs.attached_only_if_genuine_full. Qed.

(* 2. Ordered failover = the specification "first genuine authority in configured order wins; none => error",
      for every sequence of replies, as long as the caller's context stays alive. *)
Theorem failover_in_order : forall H q rs,
  q_legacy q = false ->
  (forall r, In r rs -> r_ctx_dead r = false) ->
  rs <> [] ->
  match spec_client (genuine_bytes H q) rs 0 with
  | (Some t, h) => ts_client H q rs = (Ok t, h)
  | (None, h) => exists e, ts_client H q rs = (Err e, h)
  end.
Proof. exact C10.Proofs.failover_in_order. Qed.

(* 3. If every authority fails the client never reports success — in particular never success without a token;
      any style, any fault sequence (panics, context expiry, empty URL list included). *)
Theorem all_fail_means_error : forall H q rs,
  (forall r, In r rs -> accepts H q r = false) -> forall t, fst (ts_client H q rs) <> Ok t.
Proof. exact C10.Proofs.all_fail_means_error. Qed.
Theorem all_fail_means_error_rfc : forall H q rs,
  q_legacy q = false ->
  (forall r, In r rs -> genuine_bytes H q r = false) -> forall t, fst (ts_client H q rs) <> Ok t.
Proof. exact C10.Proofs.all_fail_means_error_rfc. Qed.

(* 3'. Robustness of the client: no reply makes it panic; a token without nonce is an ordinary nonce mismatch (so the
       next authority is tried, by failover_in_order); a PKIStatus outside {granted, grantedWithMods} is never accepted. *)
Theorem client_never_panics : forall H q rs p, fst (ts_client H q rs) <> Panic p.
Proof. exact C10.Proofs.client_never_panics. Qed.
Theorem missing_nonce_is_mismatch : forall H q r,
  q_legacy q = false -> st_nonce (r_stamp r) = None -> exists e, ts_do H q r = Err e.
Proof. exact C10.Proofs.missing_nonce_is_mismatch. Qed.
Theorem status_outside_rejected : forall H q r,
  q_legacy q = false -> r_status r <> 0 -> r_status r <> 1 -> is_ok (ts_do H q r) = false.
Proof. exact C10.Proofs.status_outside_rejected. Qed.

(* 4. With a timestamper configured, a successful signing always carries a timestamp ... *)
Theorem sign_never_unstamped : forall H cls q rs o hits,
  sign_with_ts H cls true q rs = (Ok o, hits) -> exists t, o = Some t.
Proof. exact C10.Proofs.sign_never_unstamped. Qed.
(* ... and when all authorities fail, signing fails *)
Theorem sign_all_fail_no_output : forall H cls q rs,
  (forall r, In r rs -> accepts H q r = false) -> forall o, fst (sign_with_ts H cls true q rs) <> Ok o.
Proof. exact C10.Proofs.sign_all_fail_no_output. Qed.

(* 5. Formats with a self-check (all but VSIX): the attached stamp verifies for THIS signature value *)
Theorem self_check_binds : forall H cls q rs t hits,
  cls <> 2 -> sign_with_ts H cls true q rs = (Ok (Some t), hits) ->
  stamp_valid H t (q_sig q) = true /\
  exists k r, nth_error rs k = Some r /\ t = r_stamp r /\ hits = upto 0 (S k).
Proof. exact C10.Proofs.self_check_binds. Qed.

(* 6. Legacy Microsoft style (application manifests): attached only if genuine — through the self-check, because the
      client itself checks nothing (see legacy_no_failover_refuted) *)
Theorem legacy_attached_only_if_genuine : forall H q rs t hits,
  q_legacy q = true -> (forall r, In r rs -> st_form (r_stamp r) = 1) ->
  sign_with_ts H 1 true q rs = (Ok (Some t), hits) ->
  exists k r, nth_error rs k = Some r /\ t = r_stamp r /\ genuine_legacy q r = true.
Proof. exact C10.Proofs.legacy_attached_only_if_genuine. Qed.

(* ---------------------------------------------------------------- verification side *)

(* 7. A countersignature / timestamp token is accepted only if it covers this exact signature value *)
Theorem countersig_binds : forall H st data t,
  verify_stamp H st data = Ok t ->
  covers H st data = true /\ st_sig_ok st = true /\ t = st_time st.
Proof. exact C10.Proofs.countersig_binds. Qed.
Theorem countersig_binds_unique : forall H st d1 d2 t1 t2,
  (forall a x y, H a x = H a y -> x = y) ->
  verify_stamp H st d1 = Ok t1 -> verify_stamp H st d2 = Ok t2 -> d1 = d2.
Proof. exact C10.Proofs.countersig_binds_unique. Qed.

(* 7'. The verifier never panics; a token without attached content is an ordinary error *)
Theorem verify_never_panics : forall H now s p, verify_all H now s <> Panic p.
Proof. exact C10.Proofs.verify_never_panics. Qed.
Theorem detached_token_is_error : forall H st data,
  st_form st = 0 -> st_nsigners st = 1 -> st_has_content st = false -> verify_stamp H st data = Err E_INFO.
Proof. exact C10.Proofs.detached_token_is_error. Qed.

(* 8. Verification = specification (chains judged at the attested time) whenever the attested time is not Go's zero time *)
Theorem verify_refines_spec : forall H now s,
  (forall st, s_stamp s = Some st -> st_time st <> 0) ->
  accepted H now s = spec_accept H now s.
Proof. exact C10.Proofs.verify_refines_spec. Qed.

(* 9. An expired signer certificate is accepted only with a valid timestamp from within its lifetime, issued by an
      authority whose own chain was valid (with the timeStamping purpose) at that time.  No side condition. *)
Theorem expired_needs_timestamp : forall H now s,
  accepted H now s = true -> c_na (s_leaf s) < now ->
  exists st, s_stamp s = Some st /\ stamp_valid H st (s_value s) = true /\ st_time st <> 0 /\
    in_window (s_leaf s) (st_time st) = true /\
    chain_ok (st_cert st) (st_time st) = true /\ c_ts_eku (st_cert st) = true.
Proof. exact C10.Proofs.expired_needs_timestamp. Qed.

(* ---------------------------------------------------------------- verification histories within one process
   The three VerifyChain functions are the programs vc7_prog / vc9cs_prog / vc9ts_prog that srcgen translated from the
   Go source; verify_seq threads the process state (package-level memo tables) through a list of verifications. *)

(* 10. The generated programs neither read nor write process state and contain nothing the translator did not
       understand (re-computed on every run from the source). *)
Theorem programs_stateless : stateless vc7_prog && stateless vc9cs_prog && stateless vc9ts_prog = true.
Proof. exact C10.ChainProofs.programs_stateless. Qed.

(* 11. Any program of the language that passes that check ignores the process state, whatever its callees are, as long
       as they do too (the generic half of 12; proved by induction on programs). *)
Theorem exec_stateless : forall callf,
  (forall f, sigma_indep (callf f)) ->
  forall p, stateless p = true ->
  forall e r s, exec callf p e r s = (fst (exec callf p e r []), s).
Proof. exact C10.ChainProofs.exec_stateless. Qed.

(* 12. For EVERY sequence of verifications in one process, from every initial process state: each verdict equals the
       verdict of the same single verification done first in a fresh process, and the state is left untouched. *)
Theorem history_independent : forall h s, verify_seq s h = (map fresh h, s).
Proof. exact C10.ChainProofs.history_independent. Qed.
Theorem history_independent_nth : forall h1 c h2 s,
  nth_error (fst (verify_seq s (h1 ++ c :: h2))) (length h1) = Some (fresh c).
Proof. exact C10.ChainProofs.history_independent_nth. Qed.

(* 13. That verdict is the specification's: a function of (signature, countersignature, trust store, usage, attested
       time or wall clock) only — whenever the attested time is not Go's zero time (see zero_time_judged_now_refuted). *)
Theorem fresh_is_spec : forall c,
  (forall cs, v_cs c = Some cs -> cs_time cs <> 0) ->
  is_ok (fresh c) = spec_chain_accept c.
Proof. exact C10.ChainProofs.fresh_is_spec. Qed.
Theorem fresh_never_panics : forall c x, fresh c <> Panic x.
Proof. exact C10.ChainProofs.fresh_never_panics. Qed.

(* 14. The property at every position of every history: an expired signer certificate is accepted only with a
       countersignature attested within its lifetime whose authority chain is valid for timeStamping at that time;
       the authority's own certificate is judged at the attested time as well.  No side condition. *)
Theorem seq_expired_needs_timestamp : forall h s i c,
  nth_error h i = Some c ->
  nth_error (fst (verify_seq s h)) i = Some (Ok tt) ->
  x_na (o_leaf (v_sig c)) < v_now c ->
  exists cs, v_cs c = Some cs /\ cs_time cs <> 0 /\
    win (o_leaf (v_sig c)) (cs_time cs) = true /\
    path_ok (o_leaf (cs_sig cs)) (v_extra c ++ o_inter (cs_sig cs)) (p_roots (v_roots c)) (cs_time cs) [8] = true /\
    path_ok (o_leaf (v_sig c)) (v_extra c ++ o_inter (v_sig c)) (p_roots (v_roots c)) (cs_time cs) [v_usage c] = true.
Proof. exact C10.ChainProofs.seq_expired_needs_timestamp. Qed.
Theorem seq_tsa_judged_at_attested_time : forall h s i c cs,
  nth_error h i = Some c ->
  nth_error (fst (verify_seq s h)) i = Some (Ok tt) ->
  v_cs c = Some cs -> cs_time cs <> 0 ->
  win (o_leaf (cs_sig cs)) (cs_time cs) = true /\ eku_ok 8 (o_leaf (cs_sig cs)) = true.
Proof. exact C10.ChainProofs.seq_tsa_judged_at_attested_time. Qed.

(* 15. The package-level mutable state of lib/pkcs7, lib/pkcs9, lib/x509tools is exactly the reviewed list, and the
       functions reachable from the verification entry points touch none of it. *)
Theorem state_inventory_reviewed :
  mutable_state_pkcs7 = reviewed_state_pkcs7 /\ mutable_state_pkcs9 = reviewed_state_pkcs9 /\
  mutable_state_x509tools = reviewed_state_x509tools.
Proof. exact C10.ChainProofs.state_inventory_reviewed. Qed.
Theorem verify_path_touches_no_state : verify_path_state = reviewed_path_state.
Proof. exact C10.ChainProofs.verify_path_touches_no_state. Qed.

(* 16. The history model agrees with the single-verification model (Model.verify_chain, theorems 8 and 9) on
       directly issued certificates. *)
Theorem fresh_refines_verify_chain : forall c,
  v_extra c = [] -> o_inter (v_sig c) = [] -> (forall cs, v_cs c = Some cs -> o_inter (cs_sig cs) = []) ->
  is_ok (fresh c) =
  is_ok (verify_chain (v_now c) (abs_cert (o_leaf (v_sig c)) (p_roots (v_roots c)) [v_usage c])
           (match v_cs c with
            | Some cs => Some (cs_time cs, abs_cert (o_leaf (cs_sig cs)) (p_roots (v_roots c)) [8])
            | None => None
            end)).
Proof. exact C10.ChainProofs.fresh_refines_verify_chain. Qed.

(* 17. Sensitivity of the analysis: the program of a VerifyChain that memoises accepted (trust store, usage, leaf)
       triples without the judgement time is NOT history independent — after one in-lifetime timestamp the expired
       certificate is accepted with no timestamp and with a timestamp from after its expiry. *)
Theorem timeblind_memo_refuted :
  exists good bad1 bad2,
    let '(v1, s1) := verify_step_memo [] good in
    let '(v2, s2) := verify_step_memo s1 bad1 in
    let '(v3, _) := verify_step_memo s2 bad2 in
    v1 = Ok tt /\ v2 = Ok tt /\ v3 = Ok tt /\
    fst (verify_step_memo [] bad1) = Err E_CHAIN /\ fst (verify_step_memo [] bad2) = Err E_CHAIN /\
    spec_chain_accept bad1 = false /\ spec_chain_accept bad2 = false /\
    x_na (o_leaf (v_sig bad1)) < v_now bad1.
Proof. exact C10.ChainProofs.timeblind_memo_refuted. Qed.
Example timeblind_memo_is_flagged : stateless memo7_timeblind = false.
Proof. reflexivity. Qed.

(* ---------------------------------------------------------------- TIME: hanging, stalling, dripping, torn and slow authorities
   Authorities are timed scripts (C10/Timing.v); the client's limits are what tsclient.New / tsClient.do attach, read from
   the source as functions of timestamp.timeout = ct seconds (limits_of ct).  All times in nanoseconds. *)

(* 18. For EVERY configured timestamp.timeout (also unset = 0, and negative) the client is under a positive OVERALL limit,
       i.e. one that also covers reading the reply body (http.Client.Timeout or a per-attempt context deadline) — not
       merely connect / handshake / header timeouts.  A positive value means that many seconds, anything else 60 s. *)
Theorem timeout_covers_whole_exchange : forall ct, 0 < l_total (limits_of ct).
Proof. exact C10.TimingProofs.limit_positive. Qed.
Theorem timeout_is_the_configured_seconds : forall ct, 0 < ct -> l_total (limits_of ct) = 1000000000 * ct.
Proof. exact C10.TimingProofs.limit_is_configured. Qed.
Theorem default_timeout_when_unset : forall ct, ct <= 0 -> l_total (limits_of ct) = 60 * 1000000000.
Proof. exact C10.TimingProofs.limit_default. Qed.

(* 19. Every attempt ends within the timeout: whatever the authority does (any script), with or without a caller deadline *)
Theorem attempt_ends_within_timeout : forall ct ctx a now,
  exists f ph t, attempt (limits_of ct) ctx a now = Done f ph t /\ now <= t <= now + l_total (limits_of ct).
Proof. exact C10.TimingProofs.src_attempt_ends_within_timeout. Qed.

(* 20. An exchange succeeds exactly when the authority's complete reply fits the configured limits (clock-and-deadline
       walk of the client = the specification over durations); any limits, no caller deadline. *)
Theorem exchange_succeeds_iff_in_time : forall l a now,
  fok (attempt l None a now) = spec_in_time l (a_tls a) (a_script a).
Proof. exact C10.TimingProofs.attempt_spec. Qed.

(* 21. The call always returns; the authorities are asked in configured order, the first at once, each next one no later
       than one timeout after the previous one, and the call returns no later than one timeout after the last. *)
Theorem timed_client_returns : forall H ct ctx q al t0,
  exists r t hits, tclient H (limits_of ct) ctx q al t0 = (TRet r t, hits) /\
                   timeline (l_total (limits_of ct)) 0 t0 hits t /\ (length hits <= length al)%nat.
Proof. exact C10.TimingProofs.src_timed_client_returns. Qed.

(* 22. Ordered failover = specification, for every list of authorities and every behaviour: success iff some authority
       answered in time with a token that passes the checks, and then it is the first such in order and nobody after it
       was asked; failure only after ALL were asked. *)
Theorem timed_failover_spec : forall H ct q al t0,
  q_legacy q = false -> al <> [] ->
  match spec_timed (spec_good H (limits_of ct) q) al 0 with
  | (Some s, h) => exists t hits, tclient H (limits_of ct) None q al t0 = (TRet (Ok s) t, hits) /\ map fst hits = h
  | (None, h) => exists e t hits, tclient H (limits_of ct) None q al t0 = (TRet (Err e) t, hits) /\ map fst hits = h /\
                                  h = upto 0 (length al)
  end.
Proof. exact C10.TimingProofs.src_timed_failover_spec. Qed.

(* 23. No behaviour of earlier authorities can prevent a later good one from being asked and used — and it is reached
       within one timeout per earlier authority. *)
Theorem no_behaviour_blocks_later : forall H ct q bad g rest t0,
  q_legacy q = false ->
  (forall a, In a bad -> spec_good H (limits_of ct) q a = false) -> spec_good H (limits_of ct) q g = true ->
  exists t hits, tclient H (limits_of ct) None q (bad ++ g :: rest) t0 = (TRet (Ok (r_stamp (a_reply g))) t, hits) /\
                 map fst hits = upto 0 (S (length bad)) /\
                 t0 <= t <= t0 + Z.of_nat (S (length bad)) * l_total (limits_of ct).
Proof. exact C10.TimingProofs.src_no_behaviour_blocks_later. Qed.

(* 24. If no authority gives a good answer in time the signing FAILS — it neither succeeds, nor hangs, nor panics — under
       any caller deadline, after at most one timeout per configured authority. *)
Theorem timed_all_fail_is_error : forall H ct ctx q al t0,
  q_legacy q = false -> (forall a, In a al -> spec_good H (limits_of ct) q a = false) ->
  exists e t hits, tclient H (limits_of ct) ctx q al t0 = (TRet (Err e) t, hits) /\
                   t0 <= t <= t0 + zlen al * l_total (limits_of ct).
Proof. exact C10.TimingProofs.src_timed_all_fail_is_error. Qed.

(* 25. Success under ANY caller deadline and any limits: the token comes from an authority whose complete reply fits the
       limits and passes the checks; exactly the authorities up to it were asked. *)
Theorem timed_sound : forall H l ctx q al t0 s te hits,
  q_legacy q = false ->
  tclient H l ctx q al t0 = (TRet (Ok s) te, hits) ->
  exists k a, nth_error al k = Some a /\ s = r_stamp (a_reply a) /\ spec_good H l q a = true /\ map fst hits = upto 0 (S k).
Proof. exact C10.TimingProofs.timed_sound. Qed.

(* 26. A caller whose own deadline lies beyond one timeout per authority observes exactly what a caller without deadline
       observes (so 22-23 hold for the server, whose requests carry a deadline, as well). *)
Theorem patient_caller : forall H ct c q al t0,
  t0 + zlen al * l_total (limits_of ct) < c ->
  tclient H (limits_of ct) (Some c) q al t0 = tclient H (limits_of ct) None q al t0.
Proof. exact C10.TimingProofs.src_patient_caller. Qed.

(* 27. The timed client refines the untimed model of theorems 1-6 with "a complete reply arrived in time" as r_transport *)
Theorem timed_refines_untimed : forall H ct q al t0,
  exists t hits,
    tclient H (limits_of ct) None q al t0 = (TRet (fst (ts_client H q (map (reply_at (limits_of ct)) al))) t, hits) /\
    map fst hits = snd (ts_client H q (map (reply_at (limits_of ct)) al)) /\ t0 <= t.
Proof. exact C10.TimingProofs.src_timed_refines_untimed. Qed.

(* 28. Rate limiter in front of the client: a wait that would end after the caller's deadline fails at once and nobody is
       asked; otherwise the client runs after the wait. *)
Theorem limiter_spec : forall H l ctx q al wait,
  limited_client H l ctx q al wait =
  if wait_fails ctx wait then (TRet (Err E_LIMIT) 0, []) else tclient H l ctx q al (posd wait).
Proof. exact C10.TimingProofs.limiter_spec. Qed.

(* 29. What the model takes from the shape of the source: the loop ranges over all URLs, its only early exits are the two
       translated ones, the request carries the caller's context, no other context is derived in Timestamp, the limiter
       waits before calling, and the HTTP client literal sets no field the model does not know. *)
Theorem timing_source_reviewed :
  ts_loop_header = reviewed_loop_header /\ ts_loop_attempts = reviewed_loop_attempts /\ ts_loop_exits = reviewed_loop_exits /\
  ts_context_derivations = [] /\ do_request_ctx = 0 /\ do_uses_configured_client = true /\
  limiter_order = [0; 1] /\ limiter_passes_ctx_and_request = true /\
  all_known known_client_fields client_fields = true /\ all_known known_transport_fields transport_fields = true /\
  all_known known_dialer_fields dialer_fields = true.
Proof. exact C10.TimingProofs.timing_source_reviewed. Qed.

(* ---------------------------------------------------------------- where the code as it exists violates the statement *)
Theorem legacy_no_failover_refuted :
  exists q rs good, q_legacy q = true /\
    spec_client (genuine_legacy q) rs 0 = (Some good, [0; 1]) /\
    ts_client Hsym q rs = (Ok (w_lstamp 0 [9; 9; 9]), [0]) /\
    sign_with_ts Hsym 1 true q rs = (Err E_IMPRINT, [0]).
Proof. exact C10.Proofs.legacy_no_failover_refuted. Qed.
Theorem alg_label_unchecked_refuted :
  exists q rs t hits, q_legacy q = false /\ ts_client Hsym q rs = (Ok t, hits) /\
    (forall r, In r rs -> genuine Hsym q r = false) /\
    is_ok (verify_stamp Hsym t (q_sig q)) = false.
Proof. exact C10.Proofs.alg_label_unchecked_refuted. Qed.
Theorem alg_label_no_failover_refuted :
  exists q rs, spec_client (genuine Hsym q) rs 0 = (Some (r_stamp w_good), [0; 1]) /\
    sign_with_ts Hsym 0 true q rs = (Err E_ALG, [0]).
Proof. exact C10.Proofs.alg_label_no_failover_refuted. Qed.
Theorem vsix_attaches_unverifiable_refuted :
  exists q rs t hits, sign_with_ts Hsym 2 true q rs = (Ok (Some t), hits) /\
    (forall r, In r rs -> genuine Hsym q r = false) /\ is_ok (verify_stamp Hsym t (q_sig q)) = false.
Proof. exact C10.Proofs.vsix_attaches_unverifiable_refuted. Qed.
Theorem zero_time_judged_now_refuted :
  exists now s, accepted Hsym now s = true /\ spec_accept Hsym now s = false.
Proof. exact C10.Proofs.zero_time_judged_now_refuted. Qed.

(* sensitivity of 18-24: connect / handshake / header limits alone do not bound the body read *)
Theorem header_only_limits_refuted :
  exists q al good,
    let l := mkLimits 0 SEC SEC SEC in
    spec_timed (spec_good Hsym l q) al 0 = (Some good, [0; 1]) /\
    tclient Hsym l None q al 0 = (THang, [(0, 0)]) /\
    tclient Hsym l (Some (5 * SEC)) q al 0 = (TRet (Err E_TRANSPORT) (5 * SEC), [(0, 0)]) /\
    tclient Hsym l None q [w_hang 0; w_answer 1 5000000] 0 = (TRet (Ok good) (SEC + 5000000), [(0, 0); (1, SEC)]).
Proof. exact C10.TimingProofs.header_only_limits_refuted. Qed.

(* ---------------------------------------------------------------- non-vacuity *)
(* failover over three authorities: wrong nonce, rejection, then a genuine one *)
Example failover_example :
  let bad_nonce := w_reply (w_stamp 0 (Some 8) 3) 0 in
  let rejected := w_reply (w_stamp 1 (Some 7) 3) 2 in
  let good := w_reply (w_stamp 2 (Some 7) 3) 0 in
  ts_client Hsym w_req [bad_nonce; rejected; good] = (Ok (w_stamp 2 (Some 7) 3), [0; 1; 2]) /\
  spec_client (genuine Hsym w_req) [bad_nonce; rejected; good] 0 = (Some (w_stamp 2 (Some 7) 3), [0; 1; 2]) /\
  ts_client Hsym w_req [bad_nonce; rejected] = (Err E_DENIED, [0; 1]).
Proof. vm_compute. auto. Qed.
(* an expired leaf with a timestamp from within its lifetime is accepted; without it, or with a stamp for another
   signature value, it is not *)
Example expired_leaf_example :
  let leaf := mkCert 100 200 true false in
  let st := mkStamp 0 0 1 true true true (Some 1) 3 (Hsym 3 [1; 2; 3]) 150 true (mkCert 120 400 true true) in
  accepted Hsym 300 (mkSig [1; 2; 3] leaf (Some st)) = true /\
  accepted Hsym 300 (mkSig [1; 2; 3] leaf None) = false /\
  accepted Hsym 300 (mkSig [1; 2; 4] leaf (Some st)) = false /\
  c_na leaf < 300.
Proof. vm_compute. auto. Qed.
(* a token without nonce and a reply with PKIStatus -1 are skipped; the third authority's token is used *)
Example missing_nonce_fails_over :
  let no_nonce := w_reply (w_stamp 0 None 3) 0 in
  let minus1 := w_reply (w_stamp 1 (Some 7) 3) (-1) in
  ts_client Hsym w_req [no_nonce; minus1; w_good] = (Ok (r_stamp w_good), [0; 1; 2]).
Proof. vm_compute. reflexivity. Qed.
Example hsym_injective : forall a x y, Hsym a x = Hsym a y -> x = y.
Proof. intros a x y E. inversion E. reflexivity. Qed.

(* a history over one leaf certificate, one trust-store object and one usage: accepted with an in-lifetime timestamp,
   then without timestamp, after expiry, before notBefore, at notAfter exactly, one second later — and the reverse *)
Example history_example :
  let h := [w_call (Some 150); w_call None; w_call (Some 250); w_call (Some 50); w_call (Some 200); w_call (Some 201)] in
  fst (verify_seq [] h) = [Ok tt; Err E_CHAIN; Err E_CHAIN; Err E_CHAIN; Ok tt; Err E_CHAIN] /\
  fst (verify_seq [] (rev h)) = rev [Ok tt; Err E_CHAIN; Err E_CHAIN; Err E_CHAIN; Ok tt; Err E_CHAIN] /\
  map spec_chain_accept h = [true; false; false; false; true; false].
Proof. vm_compute. auto. Qed.
(* the authority's certificate outside its own lifetime at the attested time: rejected as a timestamp failure *)
Example tsa_window_example :
  let tsa := mkX 20 120 180 w_root [8] in
  let c t := mkCall w_pool [] 0 300 (mkSobj w_leaf []) (Some (mkCs (mkSobj tsa []) t)) (fun _ => false) in
  fst (verify_seq [] [c 150; c 190; c 110; c 180; c 181]) = [Ok tt; Err E_CHAIN_TSA; Err E_CHAIN_TSA; Ok tt; Err E_CHAIN_TSA].
Proof. vm_compute. reflexivity. Qed.
(* a path through a bundled intermediate, a second trust-store object, and a usage the leaf does not have *)
Example intermediate_and_pool_example :
  let ica := mkX 5 0 1000 w_root [] in
  let leaf := mkX 11 100 200 5 [3] in
  let c (p : pool) (u : Z) (inter : list xcert) := mkCall p [] u 150 (mkSobj leaf inter) None (fun _ => false) in
  fst (verify_seq [] [c w_pool 0 [ica]; c w_pool 0 []; c (mkPool 78 [2]) 0 [ica]; c w_pool 1 [ica]; c w_pool 3 [ica]]) =
  [Ok tt; Err E_CHAIN; Err E_CHAIN; Err E_CHAIN; Ok tt].
Proof. vm_compute. reflexivity. Qed.

(* time: an authority that stalls after its headers, one that drips a byte every 300 ms, one that closes in mid-body and
   one that answers after 400 ms, with timestamp.timeout = 1: asked at 0 s, 1 s, 2 s and 2.004 s; the fourth one's token
   is returned at 2.404 s — and that is what the specification says *)
Example timed_failover_example :
  let al := [w_stall_after_headers 0; w_drip 1; w_torn 2; w_answer 3 400000000] in
  tclient Hsym (limits_of 1) None w_req al 0 =
    (TRet (Ok (w_stamp 3 (Some 7) 3)) 2404000000, [(0, 0); (1, 1000000000); (2, 2000000000); (3, 2004000000)]) /\
  spec_timed (spec_good Hsym (limits_of 1) w_req) al 0 = (Some (w_stamp 3 (Some 7) 3), [0; 1; 2; 3]) /\
  0 < 1.
Proof. vm_compute. repeat split; reflexivity. Qed.
(* all authorities hang in different ways: failure after one timeout each; a caller deadline in the middle of the second
   attempt ends the call there *)
Example timed_all_hang_example :
  tclient Hsym (limits_of 1) None w_req [w_stall_after_headers 0; w_hang 1] 0 = (TRet (Err E_TRANSPORT) 2000000000, [(0, 0); (1, 1000000000)]) /\
  tclient Hsym (limits_of 1) (Some 1500000000) w_req [w_stall_after_headers 0; w_hang 1; w_answer 2 5] 0 =
    (TRet (Err E_TRANSPORT) 1500000000, [(0, 0); (1, 1000000000)]) /\
  spec_good Hsym (limits_of 1) w_req (w_answer 2 5) = true /\ spec_good Hsym (limits_of 1) w_req (w_hang 1) = false.
Proof. vm_compute. repeat split; reflexivity. Qed.
(* an answer that would be complete after 1.2 s is not an answer under a 1 s timeout; after 0.9 s it is *)
Example timed_boundary_example :
  spec_good Hsym (limits_of 1) w_req (w_answer 0 1200000000) = false /\
  spec_good Hsym (limits_of 1) w_req (w_answer 0 900000000) = true /\
  answered (limits_of 1) (w_answer 0 1200000000) = false /\ answered (limits_of 1) (w_answer 0 900000000) = true.
Proof. vm_compute. repeat split; reflexivity. Qed.
(* timestamp.timeout unset or negative: the silent first authority is abandoned after the default 60 s, the second is used *)
Example timeout_unset_fails_over :
  let al := [w_hang 0; w_answer 1 5000000] in
  tclient Hsym (limits_of 0) None w_req al 0 = (TRet (Ok (w_stamp 1 (Some 7) 3)) (60 * SEC + 5000000), [(0, 0); (1, 60 * SEC)]) /\
  tclient Hsym (limits_of (-3)) None w_req al 0 = tclient Hsym (limits_of 0) None w_req al 0 /\
  spec_timed (spec_good Hsym (limits_of 0) w_req) al 0 = (Some (w_stamp 1 (Some 7) 3), [0; 1]).
Proof. exact C10.TimingProofs.timeout_unset_fails_over. Qed.
