(* C19/Run.v — evaluation of the models on harness cases. *)
From Relic Require Import Base.Prelude Base.Enc Base.Val Generated.C19_gen C19.Model C19.Sign.

Definition vattr (v : val) : attr := mkattr (vb (vnth 0 v)) (vb (vnth 1 v)) (vb (vnth 2 v)).
(* node ::= [0 space tag [attr*] [node*]] | [1 data] | [2 data] | [3 target inst] | [4 data] *)
Fixpoint vnode (v : val) : node :=
  match v with
  | VL (VZ 0 :: VB s :: VB t :: VL attrs :: VL ch :: _) => Elem s t (map vattr attrs) (map vnode ch)
  | VL (VZ 1 :: VB d :: _) => CharData d
  | VL (VZ 2 :: VB d :: _) => Comment d
  | VL (VZ 3 :: VB t :: VB i :: _) => ProcInst t i
  | VL (VZ 4 :: VB d :: _) => Directive d
  | _ => CharData []
  end.
Definition vctx (v : val) : list (list attr) := map (fun a => map vattr (vl a)) (vl v).

Definition attr_eqb (a b : attr) : bool :=
  bytes_eqb (a3_space a) (a3_space b) && bytes_eqb (a3_key a) (a3_key b) && bytes_eqb (a3_val a) (a3_val b).
Fixpoint node_eqb (a b : node) : bool :=
  match a, b with
  | Elem s t at1 c1, Elem s' t' at2 c2 =>
      bytes_eqb s s' && bytes_eqb t t' && list_eqb attr_eqb at1 at2 &&
      (fix go (l1 l2 : list node) : bool :=
         match l1, l2 with
         | [], [] => true
         | x :: r1, y :: r2 => node_eqb x y && go r1 r2
         | _, _ => false
         end) c1 c2
  | CharData d, CharData d' => bytes_eqb d d'
  | Comment d, Comment d' => bytes_eqb d d'
  | ProcInst t i, ProcInst t' i' => bytes_eqb t t' && bytes_eqb i i'
  | Directive d, Directive d' => bytes_eqb d d'
  | _, _ => false
  end.

(* mode 0: [ctx node impl_out]  ->  [corr_ok spec_bytes wf K_codes td_ok model_bytes] *)
Definition run_c14n (v : val) : val :=
  let ctx := vctx (vnth 0 v) in
  let n := vnode (vnth 1 v) in
  let impl := vb (vnth 2 v) in
  let m := relic_c14n ctx n in
  VL [of_bool (bytes_eqb m impl); VB (exc_c14n ctx n); of_bool (wf_doc ctx n); VZs (K_codes ctx n);
      of_bool (bytes_eqb m (relic_c14n_td ctx n)); VB m].

(* mode 1: [r s bits impl_packed] -> [corr_ok fixed_ok unpack_ok] *)
Definition run_pack (v : val) : val :=
  let r := vz (vnth 0 v) in let s := vz (vnth 1 v) in let bits := vz (vnth 2 v) in
  let impl := vb (vnth 3 v) in
  VL [of_bool (bytes_eqb (pack r s) impl);
      of_bool (bytes_eqb impl (fixed_pack bits r s));
      of_bool (match unpack impl with Ok (r', s') => (r' =? r) && (s' =? s) | _ => false end);
      of_bool (existsb (Z.eqb bits) defined_curve_bits)].

(* mode 2: documents relic builds.  [0 ref_id hash_alg sig_alg digest c14n tree] or [1 [[uri digest]*] hash_uri ns fmt time tree]
   -> [tree_eq] *)
Definition run_gen (v : val) : val :=
  if vz (vnth 0 v) =? 0 then
    VL [of_bool (node_eqb (signed_info (vb (vnth 1 v)) (vb (vnth 2 v)) (vb (vnth 3 v)) (vb (vnth 4 v)) (vb (vnth 5 v)))
                          (vnode (vnth 6 v)))]
  else
    VL [of_bool (node_eqb (vsix_object (map (fun p => (vb (vnth 0 p), vb (vnth 1 p))) (vl (vnth 1 v)))
                                       (vb (vnth 2 v)) (vb (vnth 3 v)) (vb (vnth 4 v)) (vb (vnth 5 v)))
                          (vnode (vnth 6 v)))].

(* ---- signing / verifying pipelines (C19/Sign.v) *)
Definition attr_val (a : attr) : val := VL [VB (a3_space a); VB (a3_key a); VB (a3_val a)].
Fixpoint node_val (n : node) : val :=
  match n with
  | Elem s t a c => VL [VZ 0; VB s; VB t; VL (map attr_val a); VL (map node_val c)]
  | CharData d => VL [VZ 1; VB d]
  | Comment d => VL [VZ 2; VB d]
  | ProcInst t i => VL [VZ 3; VB t; VB i]
  | Directive d => VL [VZ 4; VB d]
  end.
Definition vframe (v : val) : frame :=
  Frame (vb (vnth 0 v)) (vb (vnth 1 v)) (map vattr (vl (vnth 2 v))) (map vnode (vl (vnth 3 v))) (map vnode (vl (vnth 4 v))).
(* [hash keykind ncerts same_key ms rec include_kv include_x509 [kv*] [x509*] digest_text sig_text]; the two texts are the
   values observed on the implementation (the model never computes a hash or a signature) *)
Definition vparams (v : val) : sigparams :=
  SigParams (vz (vnth 0 v)) (vz (vnth 1 v)) (vz (vnth 2 v)) (vbool (vnth 3 v)) (vbool (vnth 4 v)) (vbool (vnth 5 v))
            (vbool (vnth 6 v)) (vbool (vnth 7 v)) (map vnode (vl (vnth 8 v))) (map vnode (vl (vnth 9 v)))
            (fun _ => vb (vnth 10 v)) (fun _ => vb (vnth 11 v)).
Definition vsteps (v : val) : list (bytes * bytes) := map (fun s => qname_of (vb s)) (vl v).
Definition res_code {A} (r : result A) : Z := match r with Ok _ => 0 | Err e => e | Panic e => 1000 + e end.
Definition vres_val (r : result vresult) : val :=
  match r with
  | Ok x => VL [VZ 0; VZ (vr_hash x); VB (vr_pubtype x); VB (vr_ref_octets x); VB (vr_dv x); VB (vr_si_octets x); VB (vr_sv x);
                VZs (map Z.of_nat (vr_sigpath x))]
  | _ => VL [VZ (res_code r)]
  end.

(* mode 3: xmldsig.Sign.  [params ctx0 [frame*] ps pt pa [child*]]
   -> [code ref_octets si_octets new_root verify_struct(new_root, sig_steps)] *)
Definition run_xsign (v : val) : val :=
  let P := vparams (vnth 0 v) in
  let ctx0 := vctx (vnth 1 v) in
  let fs := map vframe (vl (vnth 2 v)) in
  let ps := vb (vnth 3 v) in let pt := vb (vnth 4 v) in
  let pa := map vattr (vl (vnth 5 v)) in
  let ch := map vnode (vl (vnth 6 v)) in
  match xsign P ctx0 fs ps pt pa ch with
  | Ok st => let root := out_root fs ps pt pa st in
             VL [VZ 0; VB (ref_octets st); VB (s_si_octets st); node_val root; vres_val (verify_struct root (sig_steps fs pt))]
  | r => VL [VZ (res_code r)]
  end.
(* mode 4: xmldsig.Verify up to cryptography.  [root [step*]] -> vres_val *)
Definition run_xverify (v : val) : val := vres_val (verify_struct (vnode (vnth 0 v)) (vsteps (vnth 1 v))).
(* mode 5: appmanifest.Sign.  [[token subject issuer_hash] params1 params2 manifest_hash root]
   -> [code ref1 si1 ref2 si2 new_root] ; mode 6: appmanifest.Verify up to cryptography.  [root] -> [code r1 r2] *)
Definition run_amsign (v : val) : val :=
  let I := Identity (vb (vnth 0 (vnth 0 v))) (vb (vnth 1 (vnth 0 v))) (vb (vnth 2 (vnth 0 v))) in
  let mh := vb (vnth 3 v) in
  match vnode (vnth 4 v) with
  | Elem rs rt ra ch =>
      match am_sign I (vparams (vnth 1 v)) (vparams (vnth 2 v)) (fun _ => mh) rs rt ra ch with
      | Ok o => VL [VZ 0; VB (ref_octets (ao_primary o)); VB (s_si_octets (ao_primary o));
                    VB (ref_octets (ao_secondary o)); VB (s_si_octets (ao_secondary o)); node_val (ao_root o)]
      | r => VL [VZ (res_code r)]
      end
  | _ => VL [VZ 99]
  end.
Definition run_amverify (v : val) : val :=
  match am_verify_struct (vnode (vnth 0 v)) with
  | Ok (r1, r2) => VL [VZ 0; vres_val (Ok r1); vres_val (Ok r2)]
  | r => VL [VZ (res_code r)]
  end.

Definition run (v : val) : val :=
  let mode := vz (vnth 0 v) in
  if mode =? 0 then run_c14n (vnth 1 v)
  else if mode =? 1 then run_pack (vnth 1 v)
  else if mode =? 2 then run_gen (vnth 1 v)
  else if mode =? 3 then run_xsign (vnth 1 v)
  else if mode =? 4 then run_xverify (vnth 1 v)
  else if mode =? 5 then run_amsign (vnth 1 v)
  else run_amverify (vnth 1 v).
