(* C19/Run.v — evaluation of the models on harness cases. *)
From Relic Require Import Base.Prelude Base.Enc Base.Val Generated.C19_gen C19.Model.

Definition vattr (v : val) : attr := mkattr (vb (vnth 0 v)) (vb (vnth 1 v)) (vb (vnth 2 v)).
(* node ::= [0 space tag [attr*] [node*]] | [1 data] | [2 data] | [3 target inst] | [4 data] *)
Fixpoint vnode (v : val) : node :=
  match v with
  | VL (VZ 0 :: VB s :: VB t :: VL attrs :: VL ch :: _) => Elem s t (map vattr attrs) (map vnode ch)
  | VL (VZ 1 :: VB d :: _) => CharData d
  | VL (VZ 2 :: VB d :: _) => Comment d
  | VL (VZ 3 :: VB t :: VB i :: _) => ProcInst t i
  | VL (VZ 4 :: VB d :: _) => Directive d
  | _ => CharData []
  end.
Definition vctx (v : val) : list (list attr) := map (fun a => map vattr (vl a)) (vl v).

Definition attr_eqb (a b : attr) : bool :=
  bytes_eqb (a3_space a) (a3_space b) && bytes_eqb (a3_key a) (a3_key b) && bytes_eqb (a3_val a) (a3_val b).
Fixpoint node_eqb (a b : node) : bool :=
  match a, b with
  | Elem s t at1 c1, Elem s' t' at2 c2 =>
      bytes_eqb s s' && bytes_eqb t t' && list_eqb attr_eqb at1 at2 &&
      (fix go (l1 l2 : list node) : bool :=
         match l1, l2 with
         | [], [] => true
         | x :: r1, y :: r2 => node_eqb x y && go r1 r2
         | _, _ => false
         end) c1 c2
  | CharData d, CharData d' => bytes_eqb d d'
  | Comment d, Comment d' => bytes_eqb d d'
  | ProcInst t i, ProcInst t' i' => bytes_eqb t t' && bytes_eqb i i'
  | Directive d, Directive d' => bytes_eqb d d'
  | _, _ => false
  end.

(* mode 0: [ctx node impl_out]  ->  [corr_ok spec_bytes wf K_codes td_ok model_bytes] *)
Definition run_c14n (v : val) : val :=
  let ctx := vctx (vnth 0 v) in
  let n := vnode (vnth 1 v) in
  let impl := vb (vnth 2 v) in
  let m := relic_c14n ctx n in
  VL [of_bool (bytes_eqb m impl); VB (exc_c14n ctx n); of_bool (wf_doc ctx n); VZs (K_codes ctx n);
      of_bool (bytes_eqb m (relic_c14n_td ctx n)); VB m].

(* mode 1: [r s bits impl_packed] -> [corr_ok fixed_ok unpack_ok] *)
Definition run_pack (v : val) : val :=
  let r := vz (vnth 0 v) in let s := vz (vnth 1 v) in let bits := vz (vnth 2 v) in
  let impl := vb (vnth 3 v) in
  VL [of_bool (bytes_eqb (pack r s) impl);
      of_bool (bytes_eqb impl (fixed_pack bits r s));
      of_bool (match unpack impl with Ok (r', s') => (r' =? r) && (s' =? s) | _ => false end);
      of_bool (existsb (Z.eqb bits) defined_curve_bits)].

(* mode 2: documents relic builds.  [0 ref_id hash_alg sig_alg digest c14n tree] or [1 [[uri digest]*] hash_uri ns fmt time tree]
   -> [tree_eq] *)
Definition run_gen (v : val) : val :=
  if vz (vnth 0 v) =? 0 then
    VL [of_bool (node_eqb (signed_info (vb (vnth 1 v)) (vb (vnth 2 v)) (vb (vnth 3 v)) (vb (vnth 4 v)) (vb (vnth 5 v)))
                          (vnode (vnth 6 v)))]
  else
    VL [of_bool (node_eqb (vsix_object (map (fun p => (vb (vnth 0 p), vb (vnth 1 p))) (vl (vnth 1 v)))
                                       (vb (vnth 2 v)) (vb (vnth 3 v)) (vb (vnth 4 v)) (vb (vnth 5 v)))
                          (vnode (vnth 6 v)))].

Definition run (v : val) : val :=
  let mode := vz (vnth 0 v) in
  if mode =? 0 then run_c14n (vnth 1 v)
  else if mode =? 1 then run_pack (vnth 1 v)
  else run_gen (vnth 1 v).
