(* C19/Properties.v — property theorems only. Each is closed by a lemma of C19/Proofs.v. *)
From Relic Require Import Base.Prelude Base.Enc Generated.C19_gen C19.Model C19.Proofs.
From Coq Require Import Permutation Sorted.

(* ---- ECDSA signature values: r||s *)
(* relic reads back what it writes (sign/verify self-consistency) *)
Theorem unpack_pack : forall r s, 0 <= r -> 0 <= s -> unpack (pack r s) = Ok (r, s).
Proof. exact C19.Proofs.unpack_pack. Qed.
(* Pack is the standard fixed-width encoding exactly when its byte width equals the curve's *)
Theorem pack_fixed_iff : forall bits r s, 0 <= bits ->
  (pack_w r s = curve_bytes bits <-> pack r s = fixed_pack bits r s).
Proof. exact C19.Proofs.pack_fixed_iff. Qed.
Theorem pack_ok_when_top_bits_set : forall bits r s,
  0 <= bits -> 8 * (curve_bytes bits - 1) < maxbits r s <= 8 * curve_bytes bits -> pack r s = fixed_pack bits r s.
Proof. exact C19.Proofs.pack_ok_when_top_bits_set. Qed.
Theorem pack_short_when_small : forall bits r s,
  0 <= bits -> maxbits r s <= 8 * (curve_bytes bits - 1) -> zlen (pack r s) < 2 * curve_bytes bits.
Proof. exact C19.Proofs.pack_short_when_small. Qed.
(* the statement "signature values use the standard fixed-width encodings" is false for the code as written *)
Theorem pack_fixed_width_refuted :
  exists bits r s, In bits defined_curve_bits /\ 0 < r < 2 ^ (bits - 1) /\ 0 < s < 2 ^ (bits - 1) /\
                   pack r s <> fixed_pack bits r s /\ zlen (pack r s) = 130 /\ zlen (fixed_pack bits r s) = 132.
Proof. exact C19.Proofs.pack_fixed_width_refuted. Qed.

(* ---- canonicalisation *)
(* 1. the faithful model of SerializeCanonical (tree rewriting: pullDown, pushDown, walkAttributes) equals its top-down
      form in which the pending declarations travel with the recursion *)
Theorem relic_is_top_down : forall ctx n, relic_c14n ctx n = relic_c14n_td ctx n.
Proof. exact C19.Proofs.relic_is_top_down. Qed.
(* 2. one step of the simulation: whenever the carried declarations D are related to the two namespace environments
      of exc-c14n by Inv, and the subtree satisfies the clauses of K, relic's bytes are the W3C bytes *)
Theorem walkD_is_spec : forall n inscope rendered D,
  kind_of n = 0 -> k_codes inscope rendered n = [] -> Inv D inscope rendered ->
  write_node (walkD D n) = exc_node inscope rendered n.
Proof. exact C19.Proofs.walkD_is_spec. Qed.
(* 3. MAIN: on the decidable class K (no PI child, no xmlns="" on an ancestor, no declaration that repeats what the
      output ancestors rendered, attribute order by prefix = order by namespace URI, no attribute named *:xmlns, distinct
      attribute names) relic's canonical form IS W3C Exclusive XML Canonicalization, for every context and every tree *)
Theorem relic_eq_spec_on_K : forall ctx n, inK ctx n = true -> relic_c14n ctx n = exc_c14n ctx n.
Proof. exact C19.Proofs.relic_eq_spec_on_K. Qed.
(* 4. the documents relic builds are in K for all parameter values: SignedInfo below Signature (with or without the Id
      that appmanifest adds) in any K-context, and the VSIX package Object for any list of parts *)
Theorem signed_info_in_K : forall ref_id hash_alg sig_alg digest c14n id_attr outer,
  ctx_codes outer = [] ->
  inK (sig_ctx (match id_attr with Some v => [mkattr [] s_Id v] | None => [] end) outer)
      (signed_info ref_id hash_alg sig_alg digest c14n) = true.
Proof. exact C19.Proofs.signed_info_in_K. Qed.
Theorem vsix_object_in_K : forall refs hash_uri fmt time,
  inK (sig_ctx [] []) (vsix_object refs hash_uri ns_digsig fmt time) = true.
Proof. exact C19.Proofs.vsix_object_in_K. Qed.
(* 5. re-serialisations that preserve canonical meaning do not change the W3C canonical form: comments anywhere,
      splitting of character data (CDATA sections, entities), replacement of a child by an equivalent child; the
      faithful model ignores comments too *)
Theorem spec_comment_invariant : forall e r s t a l1 d l2,
  exc_node e r (Elem s t a (l1 ++ Comment d :: l2)) = exc_node e r (Elem s t a (l1 ++ l2)).
Proof. exact C19.Proofs.spec_comment_invariant. Qed.
Theorem spec_text_split_invariant : forall e r s t a l1 d1 d2 l2,
  exc_node e r (Elem s t a (l1 ++ CharData (d1 ++ d2) :: l2)) = exc_node e r (Elem s t a (l1 ++ CharData d1 :: CharData d2 :: l2)).
Proof. exact C19.Proofs.spec_text_split_invariant. Qed.
Theorem spec_child_congruence : forall e r s t a l1 c c' l2,
  exc_node (fst (child_env e r s a)) (snd (child_env e r s a)) c = exc_node (fst (child_env e r s a)) (snd (child_env e r s a)) c' ->
  exc_node e r (Elem s t a (l1 ++ c :: l2)) = exc_node e r (Elem s t a (l1 ++ c' :: l2)).
Proof. exact C19.Proofs.spec_child_congruence. Qed.
(* the specification looks at its environments only through lookups *)
Theorem exc_node_ext : forall n e e' r r', env_eq e e' -> env_eq r r' -> exc_node e r n = exc_node e' r' n.
Proof. exact C19.Proofs.exc_node_ext. Qed.
(* attribute order (namespace declarations included) is irrelevant; the side conditions are namespace well-formedness:
   one declaration per prefix, distinct expanded attribute names *)
Theorem spec_attr_order_invariant : forall e r s t a a' ch,
  Permutation a a' ->
  NoDup (map fst (own_decls a)) ->
  NoDup (map (fun x => (attr_uri (env_add e (own_decls a)) x, a3_key x)) (plain_attrs a)) ->
  exc_node e r (Elem s t a ch) = exc_node e r (Elem s t a' ch).
Proof. exact C19.Proofs.spec_attr_order_invariant. Qed.
(* a namespace declaration that nothing below visibly utilises can be added or removed *)
Theorem spec_unused_decl_invariant : forall e r s t a ch q v,
  has_decl q a = false -> usesP s a q = false -> existsb (uses_in_subtree q) ch = false ->
  exc_node e r (Elem s t (decl_attr (q, v) :: a) ch) = exc_node e r (Elem s t a ch).
Proof. exact C19.Proofs.spec_unused_decl_invariant. Qed.
(* hence, inside K, relic's canonical form does not depend on attribute order either *)
Theorem relic_attr_order_invariant_on_K : forall ctx s t a a' ch,
  inK ctx (Elem s t a ch) = true -> inK ctx (Elem s t a' ch) = true -> Permutation a a' ->
  NoDup (map (fun x => (attr_uri (env_add (ctx_env ctx) (own_decls a)) x, a3_key x)) (plain_attrs a)) ->
  relic_c14n ctx (Elem s t a ch) = relic_c14n ctx (Elem s t a' ch).
Proof. exact C19.Proofs.relic_attr_order_invariant_on_K. Qed.
(* 6. sort.Slice is unstable and its algorithm unspecified: with distinct attribute names every outcome it may
      produce is the list the model computes *)
Theorem sort_slice_unique : forall l l',
  NoDup (attr_names l) -> Permutation l' l -> StronglySorted (fun x y => attr_lt y x = false) l' -> l' = isort attr_lt l.
Proof. exact C19.Proofs.sort_slice_unique. Qed.
Theorem relic_comment_invariant : forall ctx s t a l1 d l2,
  relic_c14n ctx (Elem s t a (l1 ++ Comment d :: l2)) = relic_c14n ctx (Elem s t a (l1 ++ l2)).
Proof. exact C19.Proofs.relic_comment_invariant. Qed.

From Coq Require Import String.
Local Open Scope string_scope.
(* non-vacuity: a ClickOnce-like subtree with default and prefixed namespaces declared at ancestors is in K *)
Example inK_example :
  let t := E "" "dependency" [] [E "asmv2" "x" [A "asmv2" "a" "1"; A "" "b" "2"] [CharData (s2b "t"); Comment (s2b "c")]; E "dsig" "T" [A "xmlns" "dsig" "urn:d"] []] in
  let ctx := [[A "xmlns" "asmv2" "urn:v2"; A "" "xmlns" "urn:v1"; A "xmlns" "unused" "urn:u"]] in
  inK ctx t = true /\ wf_doc ctx t = true /\ relic_c14n ctx t = exc_c14n ctx t.
Proof. vm_compute. repeat split. Qed.

(* ---- canonicalisation: outside K the faithful model differs from W3C exc-c14n; one witness per clause *)
Theorem pi_dropped_refuted : diverges [] w_pi 1.
Proof. exact C19.Proofs.pi_dropped_refuted. Qed.
Theorem redundant_redeclaration_refuted : diverges [] w_redundant 3.
Proof. exact C19.Proofs.redundant_redeclaration_refuted. Qed.
Theorem redundant_wrt_rendered_refuted : diverges [] w_redundant_far 3.
Proof. exact C19.Proofs.redundant_wrt_rendered_refuted. Qed.
Theorem attr_order_refuted : diverges [] w_attr_order 4.
Proof. exact C19.Proofs.attr_order_refuted. Qed.
Theorem attr_order_xml_refuted : diverges [] w_attr_order_xml 4.
Proof. exact C19.Proofs.attr_order_xml_refuted. Qed.
Theorem xmlns_empty_refuted : diverges [] w_xmlns_empty 3.
Proof. exact C19.Proofs.xmlns_empty_refuted. Qed.
Theorem ctx_undeclare_refuted : diverges (fst w_ctx_undeclare) (snd w_ctx_undeclare) 2.
Proof. exact C19.Proofs.ctx_undeclare_refuted. Qed.
Theorem attr_named_xmlns_refuted : diverges [] w_attr_named_xmlns 5.
Proof. exact C19.Proofs.attr_named_xmlns_refuted. Qed.
