(* C19/Properties.v — property theorems only. Each is closed by a lemma of C19/Proofs.v. *)
From Relic Require Import Base.Prelude Base.Enc Generated.C19_gen C19.Model C19.Proofs.

(* ---- ECDSA signature values: r||s *)
(* relic reads back what it writes (sign/verify self-consistency) *)
Theorem unpack_pack : forall r s, 0 <= r -> 0 <= s -> unpack (pack r s) = Ok (r, s).
Proof. exact C19.Proofs.unpack_pack. Qed.
(* Pack is the standard fixed-width encoding exactly when its byte width equals the curve's *)
Theorem pack_fixed_iff : forall bits r s, 0 <= bits ->
  (pack_w r s = curve_bytes bits <-> pack r s = fixed_pack bits r s).
Proof. exact C19.Proofs.pack_fixed_iff. Qed.
Theorem pack_ok_when_top_bits_set : forall bits r s,
  0 <= bits -> 8 * (curve_bytes bits - 1) < maxbits r s <= 8 * curve_bytes bits -> pack r s = fixed_pack bits r s.
Proof. exact C19.Proofs.pack_ok_when_top_bits_set. Qed.
Theorem pack_short_when_small : forall bits r s,
  0 <= bits -> maxbits r s <= 8 * (curve_bytes bits - 1) -> zlen (pack r s) < 2 * curve_bytes bits.
Proof. exact C19.Proofs.pack_short_when_small. Qed.
(* the statement "signature values use the standard fixed-width encodings" is false for the code as written *)
Theorem pack_fixed_width_refuted :
  exists bits r s, In bits defined_curve_bits /\ 0 < r < 2 ^ (bits - 1) /\ 0 < s < 2 ^ (bits - 1) /\
                   pack r s <> fixed_pack bits r s /\ zlen (pack r s) = 130 /\ zlen (fixed_pack bits r s) = 132.
Proof. exact C19.Proofs.pack_fixed_width_refuted. Qed.

(* ---- canonicalisation: outside K the faithful model differs from W3C exc-c14n; one witness per clause *)
Theorem pi_dropped_refuted : diverges [] w_pi 1.
Proof. exact C19.Proofs.pi_dropped_refuted. Qed.
Theorem redundant_redeclaration_refuted : diverges [] w_redundant 3.
Proof. exact C19.Proofs.redundant_redeclaration_refuted. Qed.
Theorem redundant_wrt_rendered_refuted : diverges [] w_redundant_far 3.
Proof. exact C19.Proofs.redundant_wrt_rendered_refuted. Qed.
Theorem attr_order_refuted : diverges [] w_attr_order 4.
Proof. exact C19.Proofs.attr_order_refuted. Qed.
Theorem attr_order_xml_refuted : diverges [] w_attr_order_xml 4.
Proof. exact C19.Proofs.attr_order_xml_refuted. Qed.
Theorem xmlns_empty_refuted : diverges [] w_xmlns_empty 3.
Proof. exact C19.Proofs.xmlns_empty_refuted. Qed.
Theorem ctx_undeclare_refuted : diverges (fst w_ctx_undeclare) (snd w_ctx_undeclare) 2.
Proof. exact C19.Proofs.ctx_undeclare_refuted. Qed.
Theorem attr_named_xmlns_refuted : diverges [] w_attr_named_xmlns 5.
Proof. exact C19.Proofs.attr_named_xmlns_refuted. Qed.
