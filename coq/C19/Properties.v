(* C19/Properties.v — property theorems only. Each is closed by a lemma of C19/Proofs.v. *)
From Relic Require Import Base.Prelude Base.Enc Generated.C19_gen C19.Model C19.Proofs C19.Sign C19.SignProofs.
From Coq Require Import Permutation Sorted.

(* ---- ECDSA signature values: r||s *)
(* relic reads back what it writes (sign/verify self-consistency) *)
Theorem unpack_pack : forall r s, 0 <= r -> 0 <= s -> unpack (pack r s) = Ok (r, s).
Proof. exact C19.Proofs.unpack_pack. Qed.
(* Pack is the standard fixed-width encoding exactly when its byte width equals the curve's *)
Theorem pack_fixed_iff : forall bits r s, 0 <= bits ->
  (pack_w r s = curve_bytes bits <-> pack r s = fixed_pack bits r s).
Proof. exact C19.Proofs.pack_fixed_iff. Qed.
Theorem pack_ok_when_top_bits_set : forall bits r s,
  0 <= bits -> 8 * (curve_bytes bits - 1) < maxbits r s <= 8 * curve_bytes bits -> pack r s = fixed_pack bits r s.
Proof. exact C19.Proofs.pack_ok_when_top_bits_set. Qed.
Theorem pack_short_when_small : forall bits r s,
  0 <= bits -> maxbits r s <= 8 * (curve_bytes bits - 1) -> zlen (pack r s) < 2 * curve_bytes bits.
Proof. exact C19.Proofs.pack_short_when_small. Qed.
(* the statement "signature values use the standard fixed-width encodings" is false for the code as written *)
Theorem pack_fixed_width_refuted :
  exists bits r s, In bits defined_curve_bits /\ 0 < r < 2 ^ (bits - 1) /\ 0 < s < 2 ^ (bits - 1) /\
                   pack r s <> fixed_pack bits r s /\ zlen (pack r s) = 130 /\ zlen (fixed_pack bits r s) = 132.
Proof. exact C19.Proofs.pack_fixed_width_refuted. Qed.

(* ---- canonicalisation *)
(* 1. the faithful model of SerializeCanonical (tree rewriting: pullDown, pushDown, walkAttributes) equals its top-down
      form in which the pending declarations travel with the recursion *)
Theorem relic_is_top_down : forall ctx n, relic_c14n ctx n = relic_c14n_td ctx n.
Proof. exact C19.Proofs.relic_is_top_down. Qed.
(* 2. one step of the simulation: whenever the carried declarations D are related to the two namespace environments
      of exc-c14n by Inv, and the subtree satisfies the clauses of K, relic's bytes are the W3C bytes *)
Theorem walkD_is_spec : forall n inscope rendered D,
  kind_of n = 0 -> k_codes inscope rendered n = [] -> Inv D inscope rendered ->
  write_node (walkD D n) = exc_node inscope rendered n.
Proof. exact C19.Proofs.walkD_is_spec. Qed.
(* 3. MAIN: on the decidable class K (no PI child, no xmlns="" on an ancestor, no declaration that repeats what the
      output ancestors rendered, attribute order by prefix = order by namespace URI, no attribute named *:xmlns, distinct
      attribute names) relic's canonical form IS W3C Exclusive XML Canonicalization, for every context and every tree *)
Theorem relic_eq_spec_on_K : forall ctx n, inK ctx n = true -> relic_c14n ctx n = exc_c14n ctx n.
Proof. exact C19.Proofs.relic_eq_spec_on_K. Qed.
(* 4. the documents relic builds are in K for all parameter values: SignedInfo below Signature (with or without the Id
      that appmanifest adds) in any K-context, and the VSIX package Object for any list of parts *)
Theorem signed_info_in_K : forall ref_id hash_alg sig_alg digest c14n id_attr outer,
  ctx_codes outer = [] ->
  inK (sig_ctx (match id_attr with Some v => [mkattr [] s_Id v] | None => [] end) outer)
      (signed_info ref_id hash_alg sig_alg digest c14n) = true.
Proof. exact C19.Proofs.signed_info_in_K. Qed.
Theorem vsix_object_in_K : forall refs hash_uri fmt time,
  inK (sig_ctx [] []) (vsix_object refs hash_uri ns_digsig fmt time) = true.
Proof. exact C19.Proofs.vsix_object_in_K. Qed.
(* 5. re-serialisations that preserve canonical meaning do not change the W3C canonical form: comments anywhere,
      splitting of character data (CDATA sections, entities), replacement of a child by an equivalent child; the
      faithful model ignores comments too *)
Theorem spec_comment_invariant : forall e r s t a l1 d l2,
  exc_node e r (Elem s t a (l1 ++ Comment d :: l2)) = exc_node e r (Elem s t a (l1 ++ l2)).
Proof. exact C19.Proofs.spec_comment_invariant. Qed.
Theorem spec_text_split_invariant : forall e r s t a l1 d1 d2 l2,
  exc_node e r (Elem s t a (l1 ++ CharData (d1 ++ d2) :: l2)) = exc_node e r (Elem s t a (l1 ++ CharData d1 :: CharData d2 :: l2)).
Proof. exact C19.Proofs.spec_text_split_invariant. Qed.
Theorem spec_child_congruence : forall e r s t a l1 c c' l2,
  exc_node (fst (child_env e r s a)) (snd (child_env e r s a)) c = exc_node (fst (child_env e r s a)) (snd (child_env e r s a)) c' ->
  exc_node e r (Elem s t a (l1 ++ c :: l2)) = exc_node e r (Elem s t a (l1 ++ c' :: l2)).
Proof. exact C19.Proofs.spec_child_congruence. Qed.
(* the specification looks at its environments only through lookups *)
Theorem exc_node_ext : forall n e e' r r', env_eq e e' -> env_eq r r' -> exc_node e r n = exc_node e' r' n.
Proof. exact C19.Proofs.exc_node_ext. Qed.
(* attribute order (namespace declarations included) is irrelevant; the side conditions are namespace well-formedness:
   one declaration per prefix, distinct expanded attribute names *)
Theorem spec_attr_order_invariant : forall e r s t a a' ch,
  Permutation a a' ->
  NoDup (map fst (own_decls a)) ->
  NoDup (map (fun x => (attr_uri (env_add e (own_decls a)) x, a3_key x)) (plain_attrs a)) ->
  exc_node e r (Elem s t a ch) = exc_node e r (Elem s t a' ch).
Proof. exact C19.Proofs.spec_attr_order_invariant. Qed.
(* a namespace declaration that nothing below visibly utilises can be added or removed *)
Theorem spec_unused_decl_invariant : forall e r s t a ch q v,
  has_decl q a = false -> usesP s a q = false -> existsb (uses_in_subtree q) ch = false ->
  exc_node e r (Elem s t (decl_attr (q, v) :: a) ch) = exc_node e r (Elem s t a ch).
Proof. exact C19.Proofs.spec_unused_decl_invariant. Qed.
(* hence, inside K, relic's canonical form does not depend on attribute order either *)
Theorem relic_attr_order_invariant_on_K : forall ctx s t a a' ch,
  inK ctx (Elem s t a ch) = true -> inK ctx (Elem s t a' ch) = true -> Permutation a a' ->
  NoDup (map (fun x => (attr_uri (env_add (ctx_env ctx) (own_decls a)) x, a3_key x)) (plain_attrs a)) ->
  relic_c14n ctx (Elem s t a ch) = relic_c14n ctx (Elem s t a' ch).
Proof. exact C19.Proofs.relic_attr_order_invariant_on_K. Qed.
(* 6. sort.Slice is unstable and its algorithm unspecified: with distinct attribute names every outcome it may
      produce is the list the model computes *)
Theorem sort_slice_unique : forall l l',
  NoDup (attr_names l) -> Permutation l' l -> StronglySorted (fun x y => attr_lt y x = false) l' -> l' = isort attr_lt l.
Proof. exact C19.Proofs.sort_slice_unique. Qed.
Theorem relic_comment_invariant : forall ctx s t a l1 d l2,
  relic_c14n ctx (Elem s t a (l1 ++ Comment d :: l2)) = relic_c14n ctx (Elem s t a (l1 ++ l2)).
Proof. exact C19.Proofs.relic_comment_invariant. Qed.

(* ---- signing and verifying pipelines (C19/Sign.v): xmldsig.Sign is the interpreter of the instruction list srcgen reads from
   the source, one instruction per statement, so these statements are about the tree state the code digests *)
(* 0. the builders of the model are the builders of the source; literals *)
Theorem pipeline_literals_tie :
  xs_remove_tag = c_Signature /\ xs_create_tag = c_Signature /\ xs_sigattr_key = c_xmlns /\ xs_sigattr_val = ns_xmldsig /\ xs_ref_id = [].
Proof. exact C19.SignProofs.xs_tags. Qed.
Theorem signed_info_builder_is_model : forall ref_id ha sa dv c, signed_info_g ref_id ha sa dv c = signed_info ref_id ha sa dv c.
Proof. exact C19.SignProofs.signed_info_g_eq. Qed.
(* 1. what the instruction list computes, for every document, every position of the signing parent, every parameter:
      key guard; RemoveElements(parent, "Signature"); digest of canonical(root); algorithm names (error checked);
      Signature / SignedInfo with that digest; signature value over canonical(SignedInfo); KeyInfo *)
Theorem xsign_is_remove_digest_build : forall P ctx0 fs ps pt pa ch,
  xsign P ctx0 fs ps pt pa ch = xsign_ref P ctx0 fs ps pt pa ch.
Proof. exact C19.SignProofs.xsign_is_ref. Qed.
(* 2. the reference digest is taken of the document with EVERY Signature child of the signing parent removed — stale,
      foreign, valid, one or many — and the parent ends up with exactly the remaining children plus the new Signature;
      Signature elements anywhere else stay and are digested *)
Theorem xsign_digest_ignores_existing_signatures : forall P ctx0 fs ps pt pa ch st,
  xsign P ctx0 fs ps pt pa ch = Ok st ->
  ref_octets st = relic_c14n ctx0 (plug fs (Elem ps pt pa (strip_sigs ch)))
  /\ out_parent ps pt pa st = Elem ps pt pa (strip_sigs ch ++ [new_sig st])
  /\ is_sig_child (new_sig st) = true.
Proof. exact C19.SignProofs.xsign_digest_ignores_existing_signatures. Qed.
Theorem xsign_same_digest_when_only_signatures_differ : forall P P' ctx0 fs ps pt pa ch ch' st st',
  strip_sigs ch = strip_sigs ch' ->
  xsign P ctx0 fs ps pt pa ch = Ok st -> xsign P' ctx0 fs ps pt pa ch' = Ok st' -> ref_octets st' = ref_octets st.
Proof. exact C19.SignProofs.xsign_same_digest_when_only_signatures_differ. Qed.
(* 3. signing what Sign returned again (any key, digest algorithm, options) digests the same octets *)
Theorem xsign_resign_same_digest : forall P P' ctx0 fs ps pt pa ch st st',
  xsign P ctx0 fs ps pt pa ch = Ok st ->
  xsign P' ctx0 fs ps pt pa (echildren (out_parent ps pt pa st)) = Ok st' ->
  ref_octets st' = ref_octets st /\ s_ch st' = s_ch st.
Proof. exact C19.SignProofs.xsign_resign_same_digest. Qed.
(* 4. MAIN: Verify accepts what Sign returns, for every document tree (Signature children of any kind included), every
      position of the parent whose route from the root is unambiguous, every supported key type and digest; also after
      the decorations appmanifest applies afterwards (Id attributes, extra children of KeyInfo).  Hypotheses: symbolic
      cryptography (base64 round trip; the signer's value verifies under the key material it writes), root has no
      namespace-declaring ancestors (see sign_below_namespace_context_refuted) *)
Theorem verify_accepts_xsign : forall Hf b64e b64d sig_ok,
  (forall x, b64d (b64e x) = Some x) ->
  forall P ctx0 fs ps pt pa ch st xa ka kx,
  signer_ok Hf b64e sig_ok P -> ctx_nodecl ctx0 = true -> route_ok fs pt = true ->
  xsign P ctx0 fs ps pt pa ch = Ok st ->
  forallb nodecl xa = true -> forallb (fun c => negb (keymat c)) kx = true ->
  exists r,
    verify (C Hf b64d sig_ok) (plug fs (Elem ps pt pa (s_ch st ++ [deco_sig P (the_si st) (s_si_octets st) xa ka kx]))) (sig_steps fs pt) = Ok r
    /\ vr_ref_octets r = ref_octets st
    /\ vr_dv r = sp_digest_text P (ref_octets st)
    /\ vr_sigpath r = frames_path fs ++ [List.length (s_ch st)]
    /\ vr_hash r = sp_hash P.
Proof. exact C19.SignProofs.verify_accepts_xsign. Qed.
Theorem xsign_output_is_undecorated : forall P fs ps pt pa st ctx0 ch,
  xsign P ctx0 fs ps pt pa ch = Ok st ->
  out_root fs ps pt pa st = plug fs (Elem ps pt pa (s_ch st ++ [deco_sig P (the_si st) (s_si_octets st) [] [] []])).
Proof. exact C19.SignProofs.out_root_plain. Qed.
(* 5. the recorded digest is the digest of what the DECLARED transforms define (specification: XMLDSIG enveloped-signature
      transform = the document without the Signature element being verified, then W3C exclusive canonicalisation),
      whenever the document that is left is in the class K on which relic's canonical form is the W3C one *)
Theorem xsign_digest_is_declared : forall P ctx0 fs ps pt pa ch st,
  xsign P ctx0 fs ps pt pa ch = Ok st -> ctx_nodecl ctx0 = true ->
  inK [] (plug fs (Elem ps pt pa (strip_sigs ch))) = true ->
  ref_octets st = spec_enveloped_octets (out_root fs ps pt pa st) (frames_path fs ++ [List.length (s_ch st)]).
Proof. exact C19.SignProofs.xsign_digest_is_declared. Qed.
(* 5'. the Reference URI="" covers the DOCUMENT: the statement holds for documents without processing instructions outside
       the document element, and fails for the others (witness <?lead pi?><doc/>, replayed on the real code by the check) *)
Theorem xsign_digest_is_declared_for_document : forall P ctx0 fs ps pt pa ch st lead trail,
  xsign P ctx0 fs ps pt pa ch = Ok st -> ctx_nodecl ctx0 = true ->
  inK [] (plug fs (Elem ps pt pa (strip_sigs ch))) = true ->
  existsb is_pi lead = false -> existsb is_pi trail = false ->
  ref_octets st = spec_document_octets lead trail (out_root fs ps pt pa st) (frames_path fs ++ [List.length (s_ch st)]).
Proof. exact C19.SignProofs.xsign_digest_is_declared_for_document. Qed.
Theorem pi_outside_document_element_refuted :
  exists lead rt st,
    xsign w_ctx_P [[]] [] [] rt [] [] = Ok st /\ inK [] (Elem [] rt [] (strip_sigs [])) = true /\
    ref_octets st <> spec_document_octets lead [] (out_root [] [] rt [] st) [List.length (s_ch st)].
Proof. exact C19.SignProofs.pi_outside_document_element_refuted. Qed.
(* 6. algorithm identifiers: what hashAlgs writes parseAlgs reads back (all key types x digests x naming schemes);
      anything else is refused, never signed *)
Theorem algs_roundtrip : forall h kk ms ha sa, hash_algs h kk ms = (ha, sa, false) -> parse_algs ha sa = Ok (h, pub_name kk).
Proof. exact C19.SignProofs.algs_roundtrip. Qed.
Theorem xsign_refuses_unsupported : forall P ctx0 fs ps pt pa ch,
  (~ In (sp_hash P) [3; 4; 5; 6; 7] \/ ~ In (sp_keykind P) [0; 1] \/ sp_ncerts P < 1 \/ sp_same_key P = false) ->
  is_ok (xsign P ctx0 fs ps pt pa ch) = false.
Proof. exact C19.SignProofs.xsign_refuses_unsupported. Qed.
(* 7. appmanifest.Sign on top: the primary digest covers the manifest with the signer's identity fields and without any
      Signature child of the root; signing a signed manifest again (same identity) digests the same octets; what Sign
      returns passes both signature checks of appmanifest.Verify *)
Theorem am_primary_digest : forall I P1 P2 mh rs rt ra ch o,
  am_sign I P1 P2 mh rs rt ra ch = Ok o ->
  ref_octets (ao_primary o) = relic_c14n [] (Elem rs rt ra (am_content I ch)).
Proof. exact C19.SignProofs.am_primary_digest. Qed.
Theorem am_resign_same_digest : forall I P1 P2 mh P1' P2' mh' rs rt ra ch o o',
  am_sign I P1 P2 mh rs rt ra ch = Ok o ->
  am_sign I P1' P2' mh' rs rt ra (echildren (ao_root o)) = Ok o' ->
  ref_octets (ao_primary o') = ref_octets (ao_primary o).
Proof. exact C19.SignProofs.am_resign_same_digest. Qed.
Theorem am_verify_accepts_am_sign : forall Hf b64e b64d sig_ok,
  (forall x, b64d (b64e x) = Some x) ->
  forall I P1 P2 mh rs rt ra ch o,
  signer_ok Hf b64e sig_ok P1 -> signer_ok Hf b64e sig_ok P2 ->
  fin_attach_cond (zlen (keyinfo_kids P1)) = true -> forallb keymat (keyinfo_kids P1) = true ->
  am_sign I P1 P2 mh rs rt ra ch = Ok o ->
  exists r1 r2,
    am_verify (C Hf b64d sig_ok) (ao_root o) = Ok (r1, r2)
    /\ vr_ref_octets r1 = ref_octets (ao_primary o) /\ vr_dv r1 = sp_digest_text P1 (ref_octets (ao_primary o))
    /\ vr_ref_octets r2 = ref_octets (ao_secondary o) /\ vr_dv r2 = sp_digest_text P2 (ref_octets (ao_secondary o))
    /\ vr_ref_octets r1 = relic_c14n [] (Elem rs rt ra (am_content I ch)).
Proof. exact C19.SignProofs.am_verify_accepts_am_sign. Qed.
(* 8. the hypothesis on root's ancestors cannot be dropped (API-level: relic's callers sign document elements) *)
Theorem sign_below_namespace_context_refuted :
  exists ctx0 rs rt st r,
    xsign w_ctx_P ctx0 [] rs rt [] [] = Ok st /\ verify_struct (out_root [] rs rt [] st) (sig_steps [] rt) = Ok r /\
    vr_ref_octets r <> ref_octets st.
Proof. exact C19.SignProofs.sign_below_namespace_context_refuted. Qed.

From Coq Require Import String.
Local Open Scope string_scope.
(* non-vacuity: a ClickOnce-like subtree with default and prefixed namespaces declared at ancestors is in K *)
Example inK_example :
  let t := E "" "dependency" [] [E "asmv2" "x" [A "asmv2" "a" "1"; A "" "b" "2"] [CharData (s2b "t"); Comment (s2b "c")]; E "dsig" "T" [A "xmlns" "dsig" "urn:d"] []] in
  let ctx := [[A "xmlns" "asmv2" "urn:v2"; A "" "xmlns" "urn:v1"; A "xmlns" "unused" "urn:u"]] in
  inK ctx t = true /\ wf_doc ctx t = true /\ relic_c14n ctx t = exc_c14n ctx t.
Proof. vm_compute. repeat split. Qed.

(* ---- canonicalisation: outside K the faithful model differs from W3C exc-c14n; one witness per clause *)
Theorem pi_dropped_refuted : diverges [] w_pi 1.
Proof. exact C19.Proofs.pi_dropped_refuted. Qed.
Theorem redundant_redeclaration_refuted : diverges [] w_redundant 3.
Proof. exact C19.Proofs.redundant_redeclaration_refuted. Qed.
Theorem redundant_wrt_rendered_refuted : diverges [] w_redundant_far 3.
Proof. exact C19.Proofs.redundant_wrt_rendered_refuted. Qed.
Theorem attr_order_refuted : diverges [] w_attr_order 4.
Proof. exact C19.Proofs.attr_order_refuted. Qed.
Theorem attr_order_xml_refuted : diverges [] w_attr_order_xml 4.
Proof. exact C19.Proofs.attr_order_xml_refuted. Qed.
Theorem xmlns_empty_refuted : diverges [] w_xmlns_empty 3.
Proof. exact C19.Proofs.xmlns_empty_refuted. Qed.
Theorem ctx_undeclare_refuted : diverges (fst w_ctx_undeclare) (snd w_ctx_undeclare) 2.
Proof. exact C19.Proofs.ctx_undeclare_refuted. Qed.
Theorem attr_named_xmlns_refuted : diverges [] w_attr_named_xmlns 5.
Proof. exact C19.Proofs.attr_named_xmlns_refuted. Qed.

(* ---- non-vacuity of the pipeline theorems *)
(* <doc><a/><Signature>old</Signature><b><Signature/></b><x:Signature xmlns:x="urn:x"/>t</doc>: two Signature children of
   the parent (one prefixed), one nested: Sign succeeds, the nested one is digested, the two others are not; Verify's octets
   are Sign's; signing the result again digests the same octets; the document left is in K *)
Definition ex_P : sigparams :=
  SigParams 5 0 1 true true false true false [E "" "KeyValue" [] []] [] (fun o => o) (fun o => o).
Definition ex_ch : list node :=
  [E "" "a" [] []; E "" "Signature" [] [CharData (s2b "old")]; E "" "b" [] [E "" "Signature" [] []];
   E "x" "Signature" [A "xmlns" "x" "urn:x"] []; CharData (s2b "t")].
Example resign_example :
  match xsign ex_P [[]] [] [] (s2b "doc") [] ex_ch with
  | Ok st =>
      s_ch st = [E "" "a" [] []; E "" "b" [] [E "" "Signature" [] []]; CharData (s2b "t")]
      /\ inK [] (Elem [] (s2b "doc") [] (s_ch st)) = true
      /\ (match verify_struct (out_root [] [] (s2b "doc") [] st) (sig_steps [] (s2b "doc")) with
          | Ok r => vr_ref_octets r = ref_octets st /\ vr_sigpath r = [3%nat]
          | _ => False end)
      /\ (match xsign ex_P [[]] [] [] (s2b "doc") [] (echildren (out_parent [] (s2b "doc") [] st)) with
          | Ok st' => ref_octets st' = ref_octets st
          | _ => False end)
  | _ => False
  end.
Proof. vm_compute. repeat split. Qed.
(* the symbolic-cryptography hypotheses are satisfiable *)
Example signer_ok_example :
  signer_ok (fun _ o => o) (fun x => x) (fun _ _ _ _ _ => true) ex_P /\ (forall x : bytes, Some ((fun y => y) x) = Some x)
  /\ fin_attach_cond (zlen (keyinfo_kids ex_P)) = true /\ forallb keymat (keyinfo_kids ex_P) = true
  /\ route_ok [license_frame (E "" "assemblyIdentity" [] []) [] []] (s2b "issuer") = true /\ ctx_nodecl [[]] = true.
Proof. repeat split. Qed.
(* a manifest that carries a foreign Signature and a publisherIdentity: appmanifest.Sign succeeds, both signatures pass the
   structural half of Verify on the same octets, and signing the result again digests the same octets *)
Definition ex_I : identity := Identity (s2b "0123456789abcdef") (s2b "CN=x") (s2b "ff").
Definition ex_man : list node :=
  [E "" "Signature" [A "" "xmlns" "http://www.w3.org/2000/09/xmldsig#"] [CharData (s2b "stale")];
   E "" "assemblyIdentity" [A "" "name" "App.exe"; A "" "publicKeyToken" "0000000000000000"] [];
   E "" "publisherIdentity" [A "" "name" "CN=old"] []; E "" "dependency" [] [E "" "Signature" [] []]].
Example am_example :
  match am_sign ex_I ex_P ex_P (fun d => d) (s2b "asmv1") (s2b "assembly") [A "xmlns" "asmv1" "urn:schemas-microsoft-com:asm.v1"] ex_man with
  | Ok o =>
      (match am_verify_struct (ao_root o) with
       | Ok (r1, r2) => vr_ref_octets r1 = ref_octets (ao_primary o) /\ vr_ref_octets r2 = ref_octets (ao_secondary o)
       | _ => False end)
      /\ (match am_sign ex_I ex_P ex_P (fun d => d) (s2b "asmv1") (s2b "assembly") [A "xmlns" "asmv1" "urn:schemas-microsoft-com:asm.v1"] (echildren (ao_root o)) with
          | Ok o' => ref_octets (ao_primary o') = ref_octets (ao_primary o)
          | _ => False end)
  | _ => False
  end.
Proof. vm_compute. repeat split. Qed.
