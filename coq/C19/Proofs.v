(* C19/Proofs.v — lemmas behind C19/Properties.v *)
From Relic Require Import Base.Prelude Base.Enc Generated.C19_gen C19.Model.

(* ================================================================== ECDSA r||s *)
Lemma bitlen_nonneg n : 0 <= bitlen n.
Proof. unfold bitlen. destruct (n <=? 0) eqn:E; [lia|]. pose proof (Z.log2_nonneg n). lia. Qed.
Lemma bitlen_bound n : 0 <= n -> n < 2 ^ bitlen n.
Proof.
  intros H. unfold bitlen. destruct (n <=? 0) eqn:E.
  - assert (n = 0) by lia. subst. cbn. lia.
  - assert (0 < n) by lia. pose proof (Z.log2_spec n H0). replace (Z.log2 n + 1) with (Z.succ (Z.log2 n)) by lia. lia.
Qed.
Lemma bitlen_lower n : 0 < n -> 2 ^ (bitlen n - 1) <= n.
Proof.
  intros H. unfold bitlen. destruct (n <=? 0) eqn:E; [lia|].
  replace (Z.log2 n + 1 - 1) with (Z.log2 n) by lia. apply (Z.log2_spec n H).
Qed.

Definition maxbits (r s : Z) : Z := Z.max (bitlen r) (bitlen s).
Definition pack_w (r s : Z) : Z := (maxbits r s + 7) / 8.

Lemma pack_shape r s : pack r s = be_enc (Z.to_nat (pack_w r s)) r ++ be_enc (Z.to_nat (pack_w r s)) s.
Proof.
  unfold pack, pack_w, maxbits, pack_s_wider, pack_nbytes, pack_total_len, pack_r_first_half, pack_s_second_half.
  cbn [andb]. pose proof (bitlen_nonneg r). pose proof (bitlen_nonneg s).
  assert (E : (if bitlen s >? bitlen r then bitlen s else bitlen r) = Z.max (bitlen r) (bitlen s)).
  { destruct (bitlen s >? bitlen r) eqn:G; lia. }
  rewrite E. rewrite Z.quot_div_nonneg by lia.
  replace (2 * ((Z.max (bitlen r) (bitlen s) + 7) / 8) - (Z.max (bitlen r) (bitlen s) + 7) / 8)
    with ((Z.max (bitlen r) (bitlen s) + 7) / 8) by lia.
  reflexivity.
Qed.
Lemma pack_w_nonneg r s : 0 <= pack_w r s.
Proof. unfold pack_w, maxbits. pose proof (bitlen_nonneg r). apply Z.div_pos; lia. Qed.
Lemma pack_len r s : zlen (pack r s) = 2 * pack_w r s.
Proof. rewrite pack_shape, zlen_app, !be_enc_zlen. pose proof (pack_w_nonneg r s). lia. Qed.

Lemma fits r s : 0 <= r -> r < 256 ^ Z.of_nat (Z.to_nat (pack_w r s)).
Proof.
  intros H. pose proof (pack_w_nonneg r s). rewrite Z2Nat.id by lia.
  pose proof (bitlen_bound r H). pose proof (bitlen_nonneg r).
  assert (bitlen r <= 8 * pack_w r s). { unfold pack_w, maxbits. lia. }
  replace 256 with (2 ^ 8) by reflexivity. rewrite <- Z.pow_mul_r by lia.
  eapply Z.lt_le_trans; [eassumption|]. apply Z.pow_le_mono_r; lia.
Qed.
Lemma fits_s r s : 0 <= s -> s < 256 ^ Z.of_nat (Z.to_nat (pack_w r s)).
Proof.
  intros H. pose proof (pack_w_nonneg r s). rewrite Z2Nat.id by lia.
  pose proof (bitlen_bound s H). pose proof (bitlen_nonneg s).
  assert (bitlen s <= 8 * pack_w r s). { unfold pack_w, maxbits. lia. }
  replace 256 with (2 ^ 8) by reflexivity. rewrite <- Z.pow_mul_r by lia.
  eapply Z.lt_le_trans; [eassumption|]. apply Z.pow_le_mono_r; lia.
Qed.

(* relic is self-consistent: what Pack writes, UnpackEcdsaSignature reads back *)
Lemma unpack_pack r s : 0 <= r -> 0 <= s -> unpack (pack r s) = Ok (r, s).
Proof.
  intros Hr Hs. unfold unpack. rewrite pack_len. pose proof (pack_w_nonneg r s).
  unfold unpack_bytelen, unpack_bad_size. rewrite Z.quot_div_nonneg by lia.
  replace (2 * pack_w r s / 2) with (pack_w r s) by lia.
  replace (negb (2 * pack_w r s =? pack_w r s * 2)) with false by lia.
  rewrite pack_shape.
  assert (L : zlen (be_enc (Z.to_nat (pack_w r s)) r) = pack_w r s) by (rewrite be_enc_zlen; lia).
  rewrite ztake_app_l by lia. rewrite ztake_all by lia.
  rewrite zdrop_app_r by lia. rewrite L. replace (pack_w r s - pack_w r s) with 0 by lia. rewrite zdrop_0.
  rewrite !be_dec_enc; [reflexivity| |].
  - split; [assumption|]. now apply fits_s.
  - split; [assumption|]. now apply fits.
Qed.

(* the exact region where Pack produces the fixed-width encoding of a curve of `bits` bits *)
Lemma pack_fixed_iff bits r s :
  0 <= bits ->
  (pack_w r s = curve_bytes bits <-> pack r s = fixed_pack bits r s).
Proof.
  intros Hb. split; intros H.
  - rewrite pack_shape, H. reflexivity.
  - apply (f_equal zlen) in H. rewrite pack_len in H. unfold fixed_pack in H.
    rewrite zlen_app, !be_enc_zlen in H.
    assert (0 <= curve_bytes bits) by (unfold curve_bytes; apply Z.div_pos; lia). lia.
Qed.
Lemma pack_ok_when_top_bits_set bits r s :
  0 <= bits -> 8 * (curve_bytes bits - 1) < maxbits r s <= 8 * curve_bytes bits ->
  pack r s = fixed_pack bits r s.
Proof.
  intros Hb H. apply pack_fixed_iff; [assumption|]. unfold pack_w. lia.
Qed.
Lemma pack_short_when_small bits r s :
  0 <= bits -> maxbits r s <= 8 * (curve_bytes bits - 1) -> zlen (pack r s) < 2 * curve_bytes bits.
Proof.
  intros Hb H. rewrite pack_len. unfold pack_w. lia.
Qed.
(* P-521: r, s < 2^520 are perfectly valid signature values (a quarter of all signatures) *)
Lemma pack_fixed_width_refuted :
  exists bits r s, In bits defined_curve_bits /\ 0 < r < 2 ^ (bits - 1) /\ 0 < s < 2 ^ (bits - 1) /\
                   pack r s <> fixed_pack bits r s /\ zlen (pack r s) = 130 /\ zlen (fixed_pack bits r s) = 132.
Proof.
  exists 521, (2 ^ 519 + 5), (2 ^ 500 + 3). split; [cbn; tauto|].
  split; [split; [reflexivity | reflexivity]|]. split; [split; reflexivity|].
  split; [|split; vm_compute; reflexivity].
  intros E. apply (f_equal zlen) in E. vm_compute in E. discriminate.
Qed.

(* ================================================================== witnesses outside the class K *)
From Coq Require Import String Ascii.
Definition s2b (s : string) : bytes := map (fun a => Z.of_N (N_of_ascii a)) (list_ascii_of_string s).
Definition A (sp k v : string) : attr := (s2b sp, s2b k, s2b v).
Definition E (sp t : string) (attrs : list attr) (ch : list node) : node := Elem (s2b sp) (s2b t) attrs ch.
Local Open Scope string_scope.

(* <a><?pi x?></a> *)
Definition w_pi : node := E "" "a" [] [ProcInst (s2b "pi") (s2b "x")].
(* <a xmlns:p="urn:p" p:x="1"><b xmlns:p="urn:p" p:y="2"/></a> *)
Definition w_redundant : node :=
  E "" "a" [A "xmlns" "p" "urn:p"; A "p" "x" "1"] [E "" "b" [A "xmlns" "p" "urn:p"; A "p" "y" "2"] []].
(* <p:a xmlns:p="urn:p"><b xmlns:p="urn:q"><p:c xmlns:p="urn:p"/></b></p:a> : not redundant with respect to the
   namespace in scope, but redundant with respect to what the output ancestors rendered *)
Definition w_redundant_far : node :=
  E "p" "a" [A "xmlns" "p" "urn:p"] [E "" "b" [A "xmlns" "p" "urn:q"] [E "p" "c" [A "xmlns" "p" "urn:p"] []]].
(* <a xmlns:b="urn:a" xmlns:a="urn:b" b:x="1" a:x="2"/> *)
Definition w_attr_order : node :=
  E "" "a" [A "xmlns" "b" "urn:a"; A "xmlns" "a" "urn:b"; A "b" "x" "1"; A "a" "x" "2"] [].
(* <a xmlns:p="urn:p" xml:lang="en" p:x="1"/> *)
Definition w_attr_order_xml : node := E "" "a" [A "xmlns" "p" "urn:p"; A "xml" "lang" "en"; A "p" "x" "1"] [].
(* <a xmlns=""/> *)
Definition w_xmlns_empty : node := E "" "a" [A "" "xmlns" ""] [].
(* <c/> inside <a xmlns="urn:u"><b xmlns=""> *)
Definition w_ctx_undeclare : list (list attr) * node := ([[A "" "xmlns" ""]; [A "" "xmlns" "urn:u"]], E "" "c" [] []).
(* <p:a xmlns:p="urn:p" xmlns="urn:u"><b p:xmlns="v"/></p:a> *)
Definition w_attr_named_xmlns : node :=
  E "p" "a" [A "xmlns" "p" "urn:p"; A "" "xmlns" "urn:u"] [E "" "b" [A "p" "xmlns" "v"] []].

Definition diverges (ctx : list (list attr)) (t : node) (c : Z) : Prop :=
  wf_doc ctx t = true /\ K_codes ctx t = [c] /\ relic_c14n ctx t <> exc_c14n ctx t.
Ltac diverge := split; [vm_compute; reflexivity | split; [vm_compute; reflexivity | vm_compute; discriminate]].

Lemma pi_dropped_refuted : diverges [] w_pi 1.                              Proof. diverge. Qed.
Lemma redundant_redeclaration_refuted : diverges [] w_redundant 3.          Proof. diverge. Qed.
Lemma redundant_wrt_rendered_refuted : diverges [] w_redundant_far 3.       Proof. diverge. Qed.
Lemma attr_order_refuted : diverges [] w_attr_order 4.                      Proof. diverge. Qed.
Lemma attr_order_xml_refuted : diverges [] w_attr_order_xml 4.              Proof. diverge. Qed.
Lemma xmlns_empty_refuted : diverges [] w_xmlns_empty 3.                    Proof. diverge. Qed.
Lemma ctx_undeclare_refuted : diverges (fst w_ctx_undeclare) (snd w_ctx_undeclare) 2. Proof. diverge. Qed.
Lemma attr_named_xmlns_refuted : diverges [] w_attr_named_xmlns 5.          Proof. diverge. Qed.
