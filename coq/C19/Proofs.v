(* C19/Proofs.v — lemmas behind C19/Properties.v *)
From Relic Require Import Base.Prelude Base.Enc Generated.C19_gen C19.Model.
From Coq Require Import Permutation Sorted.

(* ================================================================== induction on trees *)
Section NodeInd.
  Variable P : node -> Prop.
  Hypothesis HE : forall s t a ch, Forall P ch -> P (Elem s t a ch).
  Hypothesis HC : forall d, P (CharData d).
  Hypothesis HM : forall d, P (Comment d).
  Hypothesis HP : forall t i, P (ProcInst t i).
  Hypothesis HD : forall d, P (Directive d).
  Fixpoint node_ind' (n : node) : P n :=
    match n with
    | Elem s t a ch => HE s t a ch ((fix go (l : list node) : Forall P l :=
                                      match l with [] => Forall_nil P | c :: r => Forall_cons c (node_ind' c) (go r) end) ch)
    | CharData d => HC d
    | Comment d => HM d
    | ProcInst t i => HP t i
    | Directive d => HD d
    end.
End NodeInd.

(* ================================================================== part 1 = part 2 *)
Definition pushes (D : list (bytes * bytes)) (n : node) : node := fold_left push_decl D n.

Lemma pushes_app D1 D2 n : pushes (D1 ++ D2) n = pushes D2 (pushes D1 n).
Proof. unfold pushes. apply fold_left_app. Qed.
Lemma push_decl_nonelem n d : kind_of n <> 0 -> push_decl n d = n.
Proof. destruct n; cbn; intros H; try reflexivity. contradiction. Qed.
Lemma pushes_nonelem D n : kind_of n <> 0 -> pushes D n = n.
Proof.
  intros H. unfold pushes. induction D as [|d D IH]; [reflexivity|]. cbn [fold_left].
  rewrite push_decl_nonelem by assumption. exact IH.
Qed.
Lemma push_decl_kind n d : kind_of (push_decl n d) = kind_of n.
Proof.
  destruct n; try reflexivity. unfold push_decl. cbn [push_down].
  destruct (pd_redeclared _ _); [reflexivity|]. destruct (pd_declare_here _); reflexivity.
Qed.
Lemma pushes_kind D n : kind_of (pushes D n) = kind_of n.
Proof.
  unfold pushes. revert n. induction D as [|d D IH]; intros n; [reflexivity|]. cbn [fold_left].
  rewrite IH. apply push_decl_kind.
Qed.

Lemma pushes_elem_gen s t D : forall a P0 ch,
  fold_left push_decl D (Elem s t a (map (pushes P0) ch)) =
  let '(a1, P1) := fold_left (place_one s) D (a, P0) in Elem s t a1 (map (pushes P1) ch).
Proof.
  induction D as [|d D IH]; intros a P0 ch; [reflexivity|].
  cbn [fold_left]. unfold push_decl at 2. cbn [push_down]. unfold place_one at 2.
  destruct (pd_redeclared true (select_attr (put_decl (fst d)) a)); [apply IH|].
  destruct (pd_declare_here (uses_space s a (fst d))); [apply IH|].
  destruct pd_recurses; [|apply IH].
  rewrite map_map.
  rewrite (map_ext (fun x => push_down true (fst d) (put_decl (fst d)) (snd d) (pushes P0 x)) (pushes (P0 ++ [d]))).
  - apply IH.
  - intros x. rewrite pushes_app. reflexivity.
Qed.
Lemma pushes_elem s t a ch D :
  pushes D (Elem s t a ch) = let '(a1, P1) := place_all s a D in Elem s t a1 (map (pushes P1) ch).
Proof.
  unfold place_all. rewrite <- pushes_elem_gen. unfold pushes at 1. f_equal. f_equal.
  rewrite <- (map_id ch) at 1. apply map_ext. reflexivity.
Qed.

Lemma own_loop_acc s : forall rest done P0,
  own_loop s done rest P0 = let '(a2, dn) := own_loop s done rest [] in (a2, P0 ++ dn).
Proof.
  induction rest as [|a rest IH]; intros done P0.
  - cbn. now rewrite app_nil_r.
  - cbn [own_loop]. destruct (get_decl (a3_space a) (a3_key a)) as [space isd].
    destruct (walk_push_cond isd _).
    + destruct walk_pushes_from_self.
      * destruct (pd_redeclared false _); [destruct walk_removes_pushed; apply IH|].
        destruct (pd_declare_here _); [destruct walk_removes_pushed; apply IH|].
        destruct pd_recurses; [|destruct walk_removes_pushed; apply IH].
        destruct walk_removes_pushed.
        -- rewrite (IH done (P0 ++ [(space, a3_val a)])), (IH done ([] ++ [(space, a3_val a)])).
           destruct (own_loop s done rest []) as [a2 dn]. now rewrite <- app_assoc.
        -- rewrite (IH (a :: done) (P0 ++ [(space, a3_val a)])), (IH (a :: done) ([] ++ [(space, a3_val a)])).
           destruct (own_loop s (a :: done) rest []) as [a2 dn]. now rewrite <- app_assoc.
      * destruct walk_removes_pushed; apply IH.
    + apply IH.
Qed.

Lemma walk_attrs_own s t : forall rest done P0 ch0,
  walk_attrs s t done rest (map (pushes P0) ch0) =
  let '(a2, dn) := own_loop s done rest P0 in (a2, map (pushes dn) ch0).
Proof.
  induction rest as [|a rest IH]; intros done P0 ch0; [reflexivity|].
  cbn [walk_attrs own_loop]. destruct (get_decl (a3_space a) (a3_key a)) as [space isd].
  destruct (walk_push_cond isd _); [|apply IH].
  destruct walk_pushes_from_self.
  - cbn [push_down].
    destruct (pd_redeclared false _); [destruct walk_removes_pushed; apply IH|].
    destruct (pd_declare_here _); [destruct walk_removes_pushed; apply IH|].
    destruct pd_recurses; [|destruct walk_removes_pushed; apply IH].
    rewrite map_map.
    rewrite (map_ext (fun x => push_down true space (put_decl space) (a3_val a) (pushes P0 x)) (pushes (P0 ++ [(space, a3_val a)]))).
    + destruct walk_removes_pushed; apply IH.
    + intros x. rewrite pushes_app. reflexivity.
  - destruct walk_removes_pushed; apply IH.
Qed.

Lemma height_pos n : (1 <= height n)%nat.
Proof. destruct n; cbn; lia. Qed.
Lemma height_child s t a ch c : In c ch -> (S (height c) <= height (Elem s t a ch))%nat.
Proof.
  cbn [height]. induction ch as [|x r IH]; intros H; [contradiction|].
  cbn [fold_right]. destruct H as [->|H]; [lia|]. specialize (IH H). lia.
Qed.

Lemma walk_is_walkD : child_walked 0 = true -> forall n D fuel, (height n <= fuel)%nat -> walk fuel (pushes D n) = walkD D n.
Proof.
  intros HW. induction n as [s t a ch IH| | | |] using node_ind'; intros D fuel Hf;
    try (rewrite pushes_nonelem by (cbn; discriminate); destruct fuel; reflexivity).
  destruct fuel as [|f]; [pose proof (height_pos (Elem s t a ch)); lia|].
  rewrite pushes_elem. cbn [walkD]. destruct (place_all s a D) as [a1 pass].
  cbn [walk]. rewrite (walk_attrs_own s t a1 [] pass ch).
  rewrite (own_loop_acc s a1 [] pass). destruct (own_loop s [] a1 []) as [a2 dn].
  f_equal.
  assert (Hc : forall c, In c ch -> (height c <= f)%nat).
  { intros c Hc. pose proof (height_child s t a ch c Hc). lia. }
  clear Hf. induction ch as [|c r IHr]; [reflexivity|].
  cbn [map walk_children flat_map]. inversion IH as [|? ? Hc1 Hr]; subst.
  rewrite pushes_kind.
  destruct (child_kept (kind_of c)).
  - cbn [app]. f_equal.
    + destruct (child_walked (kind_of c)) eqn:Ew.
      * apply Hc1. apply Hc. now left.
      * apply pushes_nonelem. intros E0. rewrite E0, HW in Ew. discriminate.
    + apply IHr; [assumption|]. intros x Hx. apply Hc. now right.
  - cbn [app]. apply IHr; [assumption|]. intros x Hx. apply Hc. now right.
Qed.

Theorem relic_is_top_down ctx n : relic_c14n ctx n = relic_c14n_td ctx n.
Proof.
  unfold relic_c14n, relic_c14n_td, relic_tree, pull_down.
  change (list_eqb Z.eqb ser_call_order [0; 1; 2; 3]) with true. cbn iota.
  change pull_pushes_with_nil_top with true. cbn iota.
  f_equal. apply (walk_is_walkD eq_refl). lia.
Qed.

(* ================================================================== byte strings: equality and order *)
Lemma beq_iff a b : bytes_eqb a b = true <-> a = b.
Proof. apply list_eqb_Z_eq. Qed.
Lemma beq_refl a : bytes_eqb a a = true.
Proof. now apply beq_iff. Qed.
Lemma beq_false a b : bytes_eqb a b = false <-> a <> b.
Proof.
  split; intros H.
  - intros E. apply beq_iff in E. congruence.
  - destruct (bytes_eqb a b) eqn:E; [|reflexivity]. apply beq_iff in E. contradiction.
Qed.
Lemma beq_sym a b : bytes_eqb a b = bytes_eqb b a.
Proof.
  destruct (bytes_eqb a b) eqn:E.
  - apply beq_iff in E. subst. symmetry. apply beq_refl.
  - symmetry. apply beq_false. apply beq_false in E. congruence.
Qed.
Lemma beqP a b : reflect (a = b) (bytes_eqb a b).
Proof. destruct (bytes_eqb a b) eqn:E; constructor; [now apply beq_iff | now apply beq_false]. Qed.
Lemma bytes_dec (a b : bytes) : {a = b} + {a <> b}.
Proof. destruct (beqP a b); [now left | now right]. Qed.

Lemma str_ltb_irrefl a : str_ltb a a = false.
Proof. induction a as [|x a IH]; [reflexivity|]. cbn. rewrite IH. lia. Qed.
Lemma str_ltb_trans a : forall b c, str_ltb a b = true -> str_ltb b c = true -> str_ltb a c = true.
Proof.
  induction a as [|x a IH]; intros [|y b] [|z c] H1 H2; cbn in *; try discriminate; try reflexivity.
  apply orb_true_iff in H1. apply orb_true_iff in H2. apply orb_true_iff.
  destruct H1 as [H1|H1], H2 as [H2|H2].
  - left. lia.
  - apply andb_true_iff in H2 as [E _]. left. lia.
  - apply andb_true_iff in H1 as [E _]. left. lia.
  - apply andb_true_iff in H1 as [E1 L1]. apply andb_true_iff in H2 as [E2 L2]. right.
    apply andb_true_iff. split; [lia|]. eapply IH; eassumption.
Qed.
Lemma str_ltb_total a : forall b, a <> b -> str_ltb a b = true \/ str_ltb b a = true.
Proof.
  induction a as [|x a IH]; intros [|y b] H; cbn; try tauto.
  destruct (Z.lt_trichotomy x y) as [L|[E|L]].
  - left. apply orb_true_iff. left. lia.
  - subst y. assert (Hab : a <> b) by congruence. destruct (IH b Hab) as [G|G]; [left|right];
      apply orb_true_iff; right; apply andb_true_iff; split; try lia; assumption.
  - right. apply orb_true_iff. left. lia.
Qed.
Lemma str_ltb_asym a b : str_ltb a b = true -> str_ltb b a = false.
Proof.
  intros H. destruct (str_ltb b a) eqn:E; [|reflexivity].
  pose proof (str_ltb_trans _ _ _ H E) as T. rewrite str_ltb_irrefl in T. discriminate.
Qed.

(* ================================================================== insertion sort *)
Section Sort.
  Context {A : Type}.
  Lemma isort_cons (lt : A -> A -> bool) x l : isort lt (x :: l) = insert lt x (isort lt l).
  Proof. reflexivity. Qed.
  Lemma insert_perm (lt : A -> A -> bool) x l : Permutation (insert lt x l) (x :: l).
  Proof.
    induction l as [|y r IH]; cbn; [reflexivity|]. destruct (lt x y); [reflexivity|].
    rewrite IH. apply perm_swap.
  Qed.
  Lemma isort_perm_self (lt : A -> A -> bool) l : Permutation (isort lt l) l.
  Proof.
    induction l as [|x l IH]; [reflexivity|]. rewrite isort_cons, insert_perm. now constructor.
  Qed.
  Lemma isort_in (lt : A -> A -> bool) l x : In x (isort lt l) <-> In x l.
  Proof. split; apply Permutation_in; [apply isort_perm_self | symmetry; apply isort_perm_self]. Qed.

  (* the result depends on the comparator only through the pairs of members *)
  Lemma insert_ext (lt1 lt2 : A -> A -> bool) x l :
    (forall y, In y l -> lt1 x y = lt2 x y) -> insert lt1 x l = insert lt2 x l.
  Proof.
    induction l as [|y r IH]; intros H; cbn; [reflexivity|].
    rewrite (H y (or_introl eq_refl)). destruct (lt2 x y); [reflexivity|]. f_equal. apply IH.
    intros z Hz. apply H. now right.
  Qed.
  Lemma isort_ext (lt1 lt2 : A -> A -> bool) l :
    (forall x y, In x l -> In y l -> lt1 x y = lt2 x y) -> isort lt1 l = isort lt2 l.
  Proof.
    induction l as [|x l IH]; intros H; [reflexivity|]. rewrite !isort_cons.
    rewrite IH by (intros; apply H; now right).
    apply insert_ext. intros y Hy. apply H; [now left|]. right. exact (proj1 (isort_in lt2 l y) Hy).
  Qed.
  (* same, when only distinct positions are compared *)
  Lemma isort_ext_nodup (lt1 lt2 : A -> A -> bool) l :
    NoDup l -> (forall x y, In x l -> In y l -> x <> y -> lt1 x y = lt2 x y) -> isort lt1 l = isort lt2 l.
  Proof.
    induction l as [|x l IH]; intros ND H; [reflexivity|]. rewrite !isort_cons. inversion ND; subst.
    rewrite IH by (try assumption; intros; apply H; try (now right); assumption).
    apply insert_ext. intros y Hy. apply (proj1 (isort_in lt2 l y)) in Hy. apply H; [now left | now right |]. intros ->. contradiction.
  Qed.

  (* two classes, every member of the first below every member of the second *)
  Lemma insert_lo (lt : A -> A -> bool) x l1 l2 :
    (forall y, In y l2 -> lt x y = true) -> insert lt x (l1 ++ l2) = insert lt x l1 ++ l2.
  Proof.
    intros H. induction l1 as [|y r IH]; cbn.
    - destruct l2 as [|z l2]; [reflexivity|]. cbn. now rewrite (H z (or_introl eq_refl)).
    - destruct (lt x y); [reflexivity|]. now rewrite IH.
  Qed.
  Lemma insert_hi (lt : A -> A -> bool) x l1 l2 :
    (forall y, In y l1 -> lt x y = false) -> insert lt x (l1 ++ l2) = l1 ++ insert lt x l2.
  Proof.
    intros H. induction l1 as [|y r IH]; cbn; [reflexivity|].
    rewrite (H y (or_introl eq_refl)). f_equal. apply IH. intros z Hz. apply H. now right.
  Qed.
  Lemma isort_partition (lt : A -> A -> bool) (lo : A -> bool) l :
    (forall x y, In x l -> In y l -> lo x = true -> lo y = false -> lt x y = true /\ lt y x = false) ->
    isort lt l = isort lt (filter lo l) ++ isort lt (filter (fun x => negb (lo x)) l).
  Proof.
    induction l as [|x l IH]; intros H; [reflexivity|]. cbn [filter]. rewrite isort_cons.
    rewrite IH by (intros; apply H; try (now right); assumption).
    destruct (lo x) eqn:E; cbn [negb]; rewrite isort_cons.
    - apply insert_lo. intros y Hy. apply (proj1 (isort_in _ _ _)), filter_In in Hy as [Hy Ly].
      apply (H x y); [now left | now right | assumption |]. now destruct (lo y).
    - apply insert_hi. intros y Hy. apply (proj1 (isort_in _ _ _)), filter_In in Hy as [Hy Ly].
      apply (H y x); [now right | now left | assumption | assumption].
  Qed.

  Lemma insert_map {B} (lt : A -> A -> bool) (lt' : B -> B -> bool) (f : B -> A) x r :
    (forall x y, lt (f x) (f y) = lt' x y) -> insert lt (f x) (map f r) = map f (insert lt' x r).
  Proof.
    intros H. induction r as [|y r IHr]; [reflexivity|]. cbn [map insert].
    rewrite H. destruct (lt' x y); [reflexivity|]. cbn [map]. now rewrite IHr.
  Qed.
  Lemma isort_map {B} (lt : A -> A -> bool) (lt' : B -> B -> bool) (f : B -> A) l :
    (forall x y, lt (f x) (f y) = lt' x y) -> isort lt (map f l) = map f (isort lt' l).
  Proof.
    intros H. induction l as [|x l IH]; [reflexivity|]. cbn [map]. rewrite !isort_cons.
    rewrite IH. now apply insert_map.
  Qed.

  (* a strict total order on the members makes the sorted list unique *)
  Variable lt : A -> A -> bool.
  Definition ltP (x y : A) : Prop := lt x y = true.
  Lemma insert_sorted (S : A -> Prop) x l :
    (forall a b c, S a -> S b -> S c -> lt a b = true -> lt b c = true -> lt a c = true) ->
    (forall a b, S a -> S b -> a <> b -> lt a b = true \/ lt b a = true) ->
    S x -> Forall S l -> ~ In x l -> StronglySorted ltP l -> StronglySorted ltP (insert lt x l).
  Proof.
    intros Tr To Sx Sl Nin Hs. induction l as [|y r IH]; cbn.
    - constructor; [constructor|constructor].
    - inversion Hs as [|? ? Hr Hy]; subst. inversion Sl as [|? ? Sy Sr]; subst.
      destruct (lt x y) eqn:E.
      + constructor; [assumption|]. constructor; [exact E|].
        rewrite Forall_forall in Hy, Sr |- *. intros z Hz. unfold ltP. eapply (Tr x y z); auto. apply Hy. exact Hz.
      + assert (Lyx : lt y x = true).
        { destruct (To x y Sx Sy) as [G|G]; [intros ->; apply Nin; now left | congruence | exact G]. }
        constructor.
        * apply IH; [assumption | intros G; apply Nin; now right | assumption].
        * rewrite Forall_forall in Hy |- *. intros z Hz.
          apply (Permutation_in _ (insert_perm lt x r)) in Hz. destruct Hz as [<-|Hz]; [exact Lyx | now apply Hy].
  Qed.
  Lemma isort_sorted (S : A -> Prop) l :
    (forall a b c, S a -> S b -> S c -> lt a b = true -> lt b c = true -> lt a c = true) ->
    (forall a b, S a -> S b -> a <> b -> lt a b = true \/ lt b a = true) ->
    Forall S l -> NoDup l -> StronglySorted ltP (isort lt l).
  Proof.
    intros Tr To Sl ND. induction l as [|x l IH]; [constructor|]. rewrite isort_cons.
    inversion Sl; subst. inversion ND; subst.
    apply (insert_sorted S); try assumption.
    - rewrite Forall_forall in *. intros z Hz. apply (proj1 (isort_in _ _ _)) in Hz. auto.
    - intros G. apply (proj1 (isort_in _ _ _)) in G. contradiction.
    - now apply IH.
  Qed.
  Lemma sorted_unique (S : A -> Prop) l1 : forall l2,
    (forall a, S a -> lt a a = false) ->
    (forall a b c, S a -> S b -> S c -> lt a b = true -> lt b c = true -> lt a c = true) ->
    Forall S l1 -> Forall S l2 ->
    StronglySorted ltP l1 -> StronglySorted ltP l2 -> (forall x, In x l1 <-> In x l2) -> l1 = l2.
  Proof.
    induction l1 as [|x l1 IH]; intros l2 Ir Tr S1 S2 H1 H2 Hm.
    - destruct l2 as [|y l2]; [reflexivity|]. exfalso. apply (Hm y). now left.
    - destruct l2 as [|y l2]; [exfalso; apply (Hm x); now left|].
      inversion H1 as [|? ? Hs1 Hx]; subst. inversion H2 as [|? ? Hs2 Hy]; subst.
      inversion S1 as [|? ? Sx S1']; subst. inversion S2 as [|? ? Sy S2']; subst.
      rewrite Forall_forall in Hx, Hy.
      assert (E : x = y).
      { destruct (proj1 (Hm x) (or_introl eq_refl)) as [G|G]; [now symmetry|].
        destruct (proj2 (Hm y) (or_introl eq_refl)) as [G'|G']; [assumption|].
        specialize (Hx _ G'). specialize (Hy _ G). unfold ltP in *.
        pose proof (Tr x y x Sx Sy Sx Hx Hy) as T. rewrite (Ir x Sx) in T. discriminate. }
      subst y. f_equal. apply IH; try assumption.
      intros z. split; intros Hz.
      + destruct (proj1 (Hm z) (or_intror Hz)) as [G|G]; [|assumption]. subst z.
        specialize (Hx _ Hz). unfold ltP in Hx. rewrite (Ir x Sx) in Hx. discriminate.
      + destruct (proj2 (Hm z) (or_intror Hz)) as [G|G]; [|assumption]. subst z.
        specialize (Hy _ Hz). unfold ltP in Hy. rewrite (Ir x Sx) in Hy. discriminate.
  Qed.
  Lemma isort_unique (S : A -> Prop) l1 l2 :
    (forall a, S a -> lt a a = false) ->
    (forall a b c, S a -> S b -> S c -> lt a b = true -> lt b c = true -> lt a c = true) ->
    (forall a b, S a -> S b -> a <> b -> lt a b = true \/ lt b a = true) ->
    Forall S l1 -> Forall S l2 -> NoDup l1 -> NoDup l2 -> (forall x, In x l1 <-> In x l2) ->
    isort lt l1 = isort lt l2.
  Proof.
    intros Ir Tr To S1 S2 N1 N2 Hm. apply (sorted_unique S); try assumption.
    - rewrite Forall_forall in *. intros z Hz. apply (proj1 (isort_in _ _ _)) in Hz. auto.
    - rewrite Forall_forall in *. intros z Hz. apply (proj1 (isort_in _ _ _)) in Hz. auto.
    - now apply (isort_sorted S).
    - now apply (isort_sorted S).
    - intros x. rewrite !isort_in. apply Hm.
  Qed.
End Sort.

(* ================================================================== small list facts *)
Lemma existsb_ext_in {A} (f g : A -> bool) l : (forall x, In x l -> f x = g x) -> existsb f l = existsb g l.
Proof.
  induction l as [|x l IH]; intros H; cbn; [reflexivity|].
  rewrite (H x (or_introl eq_refl)), IH; [reflexivity|]. intros y Hy. apply H. now right.
Qed.
Lemma existsb_false_iff {A} (f : A -> bool) l : existsb f l = false <-> forall x, In x l -> f x = false.
Proof.
  split.
  - intros H x Hx. destruct (f x) eqn:E; [|reflexivity].
    assert (existsb f l = true) by (apply existsb_exists; eauto). congruence.
  - intros H. destruct (existsb f l) eqn:E; [|reflexivity]. apply existsb_exists in E as (x & Hx & Fx).
    rewrite (H x Hx) in Fx. discriminate.
Qed.
Lemma filter_ext_in' {A} (f g : A -> bool) l : (forall x, In x l -> f x = g x) -> filter f l = filter g l.
Proof.
  induction l as [|x l IH]; intros H; cbn; [reflexivity|].
  rewrite (H x (or_introl eq_refl)), IH; [reflexivity|]. intros y Hy. apply H. now right.
Qed.

(* ================================================================== environments *)
Lemma env_get_set e p v q : env_get (env_set e p v) q = if bytes_eqb q p then v else env_get e q.
Proof. reflexivity. Qed.
Lemma env_add_notin decls : forall e q, ~ In q (map fst decls) -> env_get (env_add e decls) q = env_get e q.
Proof.
  unfold env_add. induction decls as [|d r IH]; intros e q H; [reflexivity|]. cbn [fold_left].
  rewrite IH by (intros G; apply H; now right). rewrite env_get_set.
  destruct (beqP q (fst d)) as [->|]; [|reflexivity]. exfalso. apply H. now left.
Qed.
Lemma env_add_in decls : forall e q v, NoDup (map fst decls) -> In (q, v) decls -> env_get (env_add e decls) q = v.
Proof.
  unfold env_add. induction decls as [|d r IH]; intros e q v ND H; [contradiction|]. cbn [fold_left].
  cbn [map] in ND. inversion ND as [|? ? Nin ND']; subst. destruct H as [->|H].
  - cbn [fst snd]. fold (env_add (env_set e q v) r). rewrite env_add_notin by assumption.
    rewrite env_get_set, beq_refl. reflexivity.
  - now apply IH.
Qed.

Definition render (g : bytes -> bytes) (out : list bytes) (r : env) : env :=
  fold_left (fun r p => env_set r p (g p)) out r.
Lemma render_notin g out : forall r q, ~ In q out -> env_get (render g out r) q = env_get r q.
Proof.
  unfold render. induction out as [|p out IH]; intros r q H; [reflexivity|]. cbn [fold_left].
  rewrite IH by (intros G; apply H; now right). rewrite env_get_set.
  destruct (beqP q p) as [->|]; [|reflexivity]. exfalso. apply H. now left.
Qed.
Lemma render_in g out : forall r q, In q out -> env_get (render g out r) q = g q.
Proof.
  unfold render. induction out as [|p out IH]; intros r q H; [contradiction|]. cbn [fold_left].
  destruct (in_dec bytes_dec q out) as [I|N].
  - now apply IH.
  - fold (render g out (env_set r p (g p))). rewrite render_notin by assumption. rewrite env_get_set.
    destruct H as [->|H]; [|contradiction]. now rewrite beq_refl.
Qed.

(* nodup_b *)
Lemma nodup_b_NoDup l : nodup_b l = true -> NoDup l.
Proof.
  induction l as [|[a b] l IH]; intros H; [constructor|]. cbn [nodup_b] in H.
  apply andb_true_iff in H as [H1 H2]. constructor; [|now apply IH].
  intros G. apply negb_true_iff in H1. rewrite existsb_false_iff in H1. specialize (H1 _ G). cbn in H1.
  rewrite !beq_refl in H1. discriminate.
Qed.

(* ================================================================== the generated functions, characterised *)
Definition decl_attr (d : bytes * bytes) : attr :=
  match fst d with [] => mkattr [] s_xmlns (snd d) | p => mkattr s_xmlns p (snd d) end.
Definition has_decl (p : bytes) (attrs : list attr) : bool :=
  existsb (fun a => is_nsdecl a && bytes_eqb p (decl_prefix a)) attrs.
(* does the element (name prefix s) visibly utilise prefix p?  only real attributes count *)
Definition usesP (s : bytes) (attrs : list attr) (p : bytes) : bool :=
  bytes_eqb s p || (negb (bytes_eqb p []) && existsb (fun a => bytes_eqb (a3_space a) p) (plain_attrs attrs)).

Lemma get_decl_spec a :
  get_decl (a3_space a) (a3_key a) = ((if is_nsdecl a then decl_prefix a else []), is_nsdecl a).
Proof.
  destruct a as [[sp k] v]. unfold get_decl, is_nsdecl, decl_prefix, a3_space, a3_key. cbn [fst snd].
  destruct sp as [|z r].
  - cbn [bytes_eqb list_eqb andb]. fold s_xmlns. destruct (bytes_eqb k s_xmlns); reflexivity.
  - change (bytes_eqb (z :: r) []) with false. cbn [andb]. fold s_xmlns. destruct (bytes_eqb (z :: r) s_xmlns); reflexivity.
Qed.
Lemma put_decl_decompose p :
  space_decompose (put_decl p) = match p with [] => ([], s_xmlns) | _ => (s_xmlns, p) end.
Proof. destruct p as [|z r]; reflexivity. Qed.
Lemma decl_attr_names d : (a3_space (decl_attr d), a3_key (decl_attr d)) = space_decompose (put_decl (fst d)).
Proof. rewrite put_decl_decompose. destruct d as [[|z r] v]; reflexivity. Qed.
Lemma decl_attr_is_decl d : is_nsdecl (decl_attr d) = true.
Proof. destruct d as [[|z r] v]; reflexivity. Qed.
Lemma decl_attr_prefix d : decl_prefix (decl_attr d) = fst d.
Proof. destruct d as [[|z r] v]; reflexivity. Qed.
Lemma decl_attr_val d : a3_val (decl_attr d) = snd d.
Proof. destruct d as [[|z r] v]; reflexivity. Qed.

(* SelectAttr(putDecl(p)) is "has a declaration of p" provided no attribute is called *:xmlns / xmlns: *)
Lemma select_one p a : name_ok a = true ->
  (let '(sp, sk) := space_decompose (put_decl p) in space_match sp (a3_space a) && bytes_eqb sk (a3_key a))
  = (is_nsdecl a && bytes_eqb p (decl_prefix a)).
Proof.
  intros N. rewrite put_decl_decompose. destruct a as [[sp k] v]. unfold name_ok, is_nsdecl, decl_prefix, a3_space, a3_key in *.
  cbn [fst snd] in *. destruct p as [|z r].
  - cbn [space_match andb]. destruct sp as [|y sp].
    + rewrite (beq_sym s_xmlns k). destruct (bytes_eqb k s_xmlns); reflexivity.
    + rewrite (beq_sym s_xmlns k). destruct (bytes_eqb k s_xmlns) eqn:Ek.
      * cbn in N. discriminate.
      * destruct (bytes_eqb (y :: sp) s_xmlns) eqn:E; [|reflexivity]. cbn [andb].
        destruct k as [|k0 k']; [|reflexivity]. cbn in N. discriminate.
  - destruct sp as [|y sp].
    + cbn. rewrite andb_false_r. reflexivity.
    + unfold space_match. fold s_xmlns. rewrite (beq_sym s_xmlns (y :: sp)). reflexivity.
Qed.
Lemma select_attr_spec p attrs : names_ok attrs = true -> select_attr (put_decl p) attrs = has_decl p attrs.
Proof.
  intros N. unfold select_attr, has_decl. unfold names_ok in N. rewrite forallb_forall in N.
  pose proof (select_one p) as S1. destruct (space_decompose (put_decl p)) as [sp sk].
  apply existsb_ext_in. intros a Ha. apply (S1 a). now apply N.
Qed.
Lemma name_ok_decl_attr d : fst d <> s_xmlns -> fst d <> s_xml -> name_ok (decl_attr d) = true.
Proof.
  destruct d as [[|z r] v]; intros H1 H2; cbn [fst] in *; [reflexivity|].
  unfold name_ok, decl_attr, a3_space, a3_key, mkattr. cbn [fst snd].
  rewrite (proj2 (beq_false (z :: r) s_xmlns)) by assumption. rewrite beq_refl.
  rewrite (proj2 (beq_false (z :: r) s_xml)) by assumption. reflexivity.
Qed.
Lemma has_decl_app p l1 l2 : has_decl p (l1 ++ l2) = has_decl p l1 || has_decl p l2.
Proof. apply existsb_app. Qed.
Lemma has_decl_decl_attrs p X : has_decl p (map decl_attr X) = existsb (fun d => bytes_eqb p (fst d)) X.
Proof.
  unfold has_decl. induction X as [|d X IH]; [reflexivity|]. cbn [map existsb].
  rewrite decl_attr_is_decl, decl_attr_prefix, IH. reflexivity.
Qed.
Lemma has_decl_own p attrs : has_decl p attrs = existsb (fun d => bytes_eqb p (fst d)) (own_decls attrs).
Proof.
  unfold has_decl, own_decls. induction attrs as [|a l IH]; [reflexivity|]. cbn [existsb filter].
  destruct (is_nsdecl a); cbn [map existsb fst andb]; now rewrite IH.
Qed.

Lemma plain_app l1 l2 : plain_attrs (l1 ++ l2) = plain_attrs l1 ++ plain_attrs l2.
Proof. apply filter_app. Qed.
Lemma plain_decl_attrs X : plain_attrs (map decl_attr X) = [].
Proof. induction X as [|d X IH]; [reflexivity|]. cbn [map]. unfold plain_attrs in *. cbn [filter]. now rewrite decl_attr_is_decl. Qed.

Lemma uses_space_spec s attrs p : p <> s_xmlns -> uses_space s attrs p = usesP s attrs p.
Proof.
  intros Hp. unfold uses_space, usesP, uses_elem_cond, uses_default_cond, uses_attr_cond.
  destruct (bytes_eqb s p); [reflexivity|]. cbn [orb]. destruct (beqP p []) as [->|Hn]; [reflexivity|]. cbn [negb andb].
  unfold plain_attrs. induction attrs as [|a l IH]; [reflexivity|]. cbn [existsb filter].
  destruct (beqP (a3_space a) p) as [E|E].
  - assert (D : is_nsdecl a = false).
    { unfold is_nsdecl. rewrite E. destruct p as [|z r]; [congruence|]. now apply beq_false. }
    rewrite D. cbn [negb existsb]. rewrite E, beq_refl. reflexivity.
  - cbn [orb]. rewrite IH. destruct (negb (is_nsdecl a)); [|reflexivity]. cbn [existsb].
    rewrite (proj2 (beq_false _ _) E). reflexivity.
Qed.
Lemma usesP_plain s l1 l2 p : plain_attrs l1 = plain_attrs l2 -> usesP s l1 p = usesP s l2 p.
Proof. intros E. unfold usesP. now rewrite E. Qed.

(* utilised prefixes of the specification *)
Lemma dedup_in l x : In x (dedup l) <-> In x l.
Proof.
  induction l as [|y l IH]; [tauto|]. cbn [dedup]. destruct (existsb (bytes_eqb y) l) eqn:E.
  - rewrite IH. split; [now right|]. intros [<-|H]; [|assumption].
    apply existsb_exists in E as (z & Hz & Ez). apply beq_iff in Ez. now subst.
  - cbn [In]. now rewrite IH.
Qed.
Lemma dedup_nodup l : NoDup (dedup l).
Proof.
  induction l as [|y l IH]; [constructor|]. cbn [dedup]. destruct (existsb (bytes_eqb y) l) eqn:E; [assumption|].
  constructor; [|assumption]. rewrite dedup_in. intros H. rewrite existsb_false_iff in E. specialize (E _ H).
  rewrite beq_refl in E. discriminate.
Qed.
Lemma utilized_nodup s attrs : NoDup (utilized s attrs).
Proof. unfold utilized. apply NoDup_filter, dedup_nodup. Qed.
Lemma utilized_in s attrs p : In p (utilized s attrs) <-> (usesP s attrs p = true /\ p <> s_xml).
Proof.
  unfold utilized, usesP. rewrite filter_In, dedup_in. cbn [In]. rewrite negb_true_iff, beq_false.
  rewrite orb_true_iff, andb_true_iff, negb_true_iff, beq_false, beq_iff, in_map_iff.
  split; intros [H Hx]; (split; [|assumption]).
  - destruct H as [H|(a & Ea & Ha)]; [now left|]. right. apply filter_In in Ha as [Ha Hs]. split.
    + intros ->. rewrite Ea in Hs. discriminate.
    + apply existsb_exists. exists a. split; [assumption|]. rewrite Ea. apply beq_refl.
  - destruct H as [H|[Hn H]]; [now left|]. right. apply existsb_exists in H as (a & Ha & Ea). apply beq_iff in Ea.
    exists a. split; [assumption|]. apply filter_In. split; [assumption|]. rewrite Ea. destruct p; [congruence|reflexivity].
Qed.

(* ================================================================== closed forms of the two attribute loops *)
Definition placedP (s : bytes) (attrs : list attr) (d : bytes * bytes) : bool :=
  negb (has_decl (fst d) attrs) && usesP s attrs (fst d).
Definition passedP (s : bytes) (attrs : list attr) (d : bytes * bytes) : bool :=
  negb (has_decl (fst d) attrs) && negb (usesP s attrs (fst d)).
Definition dropP (s : bytes) (L : list attr) (a : attr) : bool := is_nsdecl a && negb (usesP s L (decl_prefix a)).
Definition keepP (s : bytes) (L : list attr) (a : attr) : bool := negb (dropP s L a).

Lemma replace_val_none sp sk v l :
  existsb (fun a => space_match sp (a3_space a) && bytes_eqb sk (a3_key a)) l = false -> replace_val sp sk v l = None.
Proof.
  induction l as [|a l IH]; intros H; [reflexivity|]. cbn [existsb] in H. apply orb_false_iff in H as [H1 H2].
  cbn [replace_val]. rewrite (IH H2).
  destruct (bytes_eqb sp (a3_space a)) eqn:E; [|reflexivity]. apply beq_iff in E. subst sp.
  assert (space_match (a3_space a) (a3_space a) = true) as M by (unfold space_match; destruct (a3_space a); [reflexivity | apply beq_refl]).
  rewrite M in H1. cbn [andb] in H1. now rewrite H1.
Qed.
Lemma create_attr_fresh p v l : select_attr (put_decl p) l = false -> create_attr (put_decl p) v l = l ++ [decl_attr (p, v)].
Proof.
  unfold select_attr, create_attr. pose proof (decl_attr_names (p, v)) as N. cbn [fst] in N.
  destruct (space_decompose (put_decl p)) as [sp sk]. intros H. rewrite (replace_val_none _ _ _ _ H).
  f_equal. f_equal. unfold mkattr. inversion N. rewrite <- (decl_attr_val (p, v)) at 3.
  destruct (decl_attr (p, v)) as [[x y] z]. reflexivity.
Qed.
Lemma names_ok_app l1 l2 : names_ok (l1 ++ l2) = names_ok l1 && names_ok l2.
Proof. apply forallb_app. Qed.
Lemma names_ok_decl_attrs X : (forall x, In x X -> fst x <> s_xmlns /\ fst x <> s_xml) -> names_ok (map decl_attr X) = true.
Proof.
  intros H. unfold names_ok. apply forallb_forall. intros a Ha. apply in_map_iff in Ha as (d & <- & Hd).
  destruct (H d Hd). now apply name_ok_decl_attr.
Qed.

Lemma place_gen s attrs : names_ok attrs = true -> forall D X0 P0,
  NoDup (map fst D) ->
  (forall d, In d D -> fst d <> s_xmlns /\ fst d <> s_xml) ->
  (forall x, In x X0 -> fst x <> s_xmlns /\ fst x <> s_xml /\ ~ In (fst x) (map fst D)) ->
  fold_left (place_one s) D (attrs ++ map decl_attr X0, P0) =
  (attrs ++ map decl_attr (X0 ++ filter (placedP s attrs) D), P0 ++ filter (passedP s attrs) D).
Proof.
  intros NA. induction D as [|d D IH]; intros X0 P0 ND HD HX.
  - cbn. now rewrite !app_nil_r.
  - cbn [fold_left map] in *. inversion ND as [|? ? Nin ND']; subst.
    destruct (HD d (or_introl eq_refl)) as [Hd1 Hd2].
    assert (NC : names_ok (attrs ++ map decl_attr X0) = true).
    { rewrite names_ok_app, NA, names_ok_decl_attrs; [reflexivity|]. intros x Hx. destruct (HX x Hx) as (? & ? & ?). tauto. }
    assert (HX0 : existsb (fun x => bytes_eqb (fst d) (fst x)) X0 = false).
    { apply existsb_false_iff. intros x Hx. apply beq_false. destruct (HX x Hx) as (_ & _ & N). intros E. apply N. left. now symmetry. }
    assert (HXD : forall x, In x X0 -> fst x <> s_xmlns /\ fst x <> s_xml /\ ~ In (fst x) (map fst D)).
    { intros x Hx. destruct (HX x Hx) as (? & ? & N). repeat split; try assumption. intros G. apply N. now right. }
    unfold place_one at 2.
    rewrite (select_attr_spec _ _ NC), has_decl_app, has_decl_decl_attrs, HX0, orb_false_r.
    rewrite uses_space_spec by assumption.
    rewrite (usesP_plain s (attrs ++ map decl_attr X0) attrs) by (now rewrite plain_app, plain_decl_attrs, app_nil_r).
    unfold pd_redeclared, pd_declare_here. cbn [andb filter].
    destruct (has_decl (fst d) attrs) eqn:Hh.
    + assert (placedP s attrs d = false) as -> by (unfold placedP; now rewrite Hh).
      assert (passedP s attrs d = false) as -> by (unfold passedP; now rewrite Hh).
      apply IH; try assumption. intros; apply HD; now right.
    + destruct (usesP s attrs (fst d)) eqn:Hu.
      * assert (placedP s attrs d = true) as -> by (unfold placedP; now rewrite Hh, Hu).
        assert (passedP s attrs d = false) as -> by (unfold passedP; now rewrite Hh, Hu).
        change pd_creates_attr with true. cbn iota.
        rewrite create_attr_fresh.
        2:{ rewrite (select_attr_spec _ _ NC), has_decl_app, has_decl_decl_attrs, HX0, Hh. reflexivity. }
        replace (fst d, snd d) with d by (now destruct d).
        rewrite <- app_assoc. change (map decl_attr X0 ++ [decl_attr d]) with (map decl_attr X0 ++ map decl_attr [d]).
        rewrite <- map_app. rewrite IH; try assumption.
        -- rewrite <- app_assoc. reflexivity.
        -- intros; apply HD; now right.
        -- intros x Hx. apply in_app_iff in Hx as [Hx|[<-|[]]]; [now apply HXD|]. repeat split; assumption.
      * assert (placedP s attrs d = false) as -> by (unfold placedP; now rewrite Hh, Hu).
        assert (passedP s attrs d = true) as -> by (unfold passedP; now rewrite Hh, Hu).
        change pd_recurses with true. cbn iota. rewrite IH; try assumption.
        -- rewrite <- app_assoc. reflexivity.
        -- intros; apply HD; now right.
Qed.
Lemma place_all_spec s attrs D :
  names_ok attrs = true -> NoDup (map fst D) -> (forall d, In d D -> fst d <> s_xmlns /\ fst d <> s_xml) ->
  place_all s attrs D = (attrs ++ map decl_attr (filter (placedP s attrs) D), filter (passedP s attrs) D).
Proof.
  intros NA ND HD. unfold place_all.
  pose proof (place_gen s attrs NA D [] [] ND HD) as H. cbn [map app] in H. rewrite app_nil_r in H. apply H. intros x [].
Qed.

Lemma plain_cons_decl a l : is_nsdecl a = true -> plain_attrs (a :: l) = plain_attrs l.
Proof. intros H. unfold plain_attrs. cbn [filter]. now rewrite H. Qed.

Lemma own_gen s L : (forall a, In a L -> is_nsdecl a = true -> decl_prefix a <> s_xmlns) -> forall rest done dn,
  plain_attrs (rev done ++ rest) = plain_attrs L -> (forall a, In a rest -> In a L) ->
  own_loop s done rest dn =
  (rev done ++ filter (keepP s L) rest, dn ++ map (fun a => (decl_prefix a, a3_val a)) (filter (dropP s L) rest)).
Proof.
  intros HL. induction rest as [|a rest IH]; intros done dn HP Hin.
  - cbn. now rewrite !app_nil_r.
  - cbn [own_loop filter]. rewrite get_decl_spec.
    assert (C : walk_push_cond (is_nsdecl a) (uses_space s (rev done ++ a :: rest) (if is_nsdecl a then decl_prefix a else [])) = dropP s L a).
    { unfold walk_push_cond, dropP. destruct (is_nsdecl a) eqn:D; [|reflexivity]. cbn [andb].
      rewrite uses_space_spec by (apply HL; [apply Hin; now left | assumption]).
      now rewrite (usesP_plain s _ L _ HP). }
    rewrite C. unfold keepP at 1. destruct (dropP s L a) eqn:Dr; cbn [negb].
    + unfold dropP in Dr. apply andb_true_iff in Dr as [D U]. rewrite D. apply negb_true_iff in U.
      change walk_pushes_from_self with true. change walk_removes_pushed with true. cbn iota.
      unfold pd_redeclared. cbn [andb].
      assert (U' : uses_space s (rev done ++ a :: rest) (decl_prefix a) = false).
      { rewrite uses_space_spec by (apply HL; [apply Hin; now left | assumption]). now rewrite (usesP_plain s _ L _ HP). }
      unfold pd_declare_here. rewrite U'. change pd_recurses with true. cbn iota.
      rewrite IH.
      * cbn [map]. rewrite <- app_assoc. reflexivity.
      * rewrite <- HP. rewrite !plain_app. f_equal. now rewrite plain_cons_decl.
      * intros x Hx. apply Hin. now right.
    + rewrite IH.
      * cbn [rev]. rewrite <- app_assoc. reflexivity.
      * rewrite <- HP. cbn [rev]. rewrite <- app_assoc. reflexivity.
      * intros x Hx. apply Hin. now right.
Qed.
Lemma own_loop_spec s L :
  (forall a, In a L -> is_nsdecl a = true -> decl_prefix a <> s_xmlns) ->
  own_loop s [] L [] = (filter (keepP s L) L, map (fun a => (decl_prefix a, a3_val a)) (filter (dropP s L) L)).
Proof. intros HL. apply (own_gen s L HL L [] []); [reflexivity | auto]. Qed.

(* ================================================================== own declarations of an element *)
Lemma decl_is_decl_attr a : name_ok a = true -> is_nsdecl a = true -> a = decl_attr (decl_prefix a, a3_val a).
Proof.
  destruct a as [[sp k] v]. unfold name_ok, is_nsdecl, decl_prefix, decl_attr, a3_space, a3_key, a3_val, mkattr. cbn [fst snd].
  intros N D. destruct sp as [|y sp].
  - apply beq_iff in D. now subst k.
  - apply beq_iff in D. rewrite D in *. rewrite beq_refl in N. destruct k as [|k0 k'].
    + cbn in N. rewrite ?orb_true_r, ?andb_false_r in N. cbn in N. discriminate.
    + reflexivity.
Qed.
Lemma decls_are_decl_attrs attrs : names_ok attrs = true -> filter is_nsdecl attrs = map decl_attr (own_decls attrs).
Proof.
  unfold names_ok, own_decls. intros N. rewrite forallb_forall in N. rewrite map_map.
  induction attrs as [|a l IH]; [reflexivity|]. cbn [filter]. destruct (is_nsdecl a) eqn:D.
  - cbn [map]. f_equal; [apply decl_is_decl_attr; [apply N; now left | assumption]|]. apply IH. intros x Hx. apply N. now right.
  - apply IH. intros x Hx. apply N. now right.
Qed.
Lemma own_prefix_ok attrs d : names_ok attrs = true -> In d (own_decls attrs) -> fst d <> s_xmlns /\ fst d <> s_xml.
Proof.
  unfold names_ok, own_decls. intros N H. rewrite forallb_forall in N. apply in_map_iff in H as (a & <- & Ha).
  apply filter_In in Ha as [Ha D]. specialize (N a Ha). cbn [fst]. destruct a as [[sp k] v].
  unfold name_ok, is_nsdecl, decl_prefix, a3_space, a3_key in *. cbn [fst snd] in *. destruct sp as [|y sp].
  - split; discriminate.
  - apply beq_iff in D. rewrite D in *. rewrite beq_refl in N. apply andb_true_iff in N as [N1 N2].
    split; intros ->.
    + rewrite beq_refl in N1. discriminate.
    + rewrite beq_refl in N2. discriminate.
Qed.
Lemma nodup_map_filter {A B} (f : A -> B) (p : A -> bool) l : NoDup (map f l) -> NoDup (map f (filter p l)).
Proof.
  induction l as [|x l IH]; intros H; [constructor|]. cbn [map] in H. inversion H as [|? ? Nin ND]; subst.
  cbn [filter]. destruct (p x); [|now apply IH]. cbn [map]. constructor; [|now apply IH].
  intros G. apply Nin. apply in_map_iff in G as (y & Ey & Hy). apply filter_In in Hy as [Hy _]. apply in_map_iff. eauto.
Qed.
Lemma own_decls_nodup attrs : names_ok attrs = true -> NoDup (attr_names attrs) -> NoDup (map fst (own_decls attrs)).
Proof.
  intros N ND. pose proof (nodup_map_filter (fun a : attr => (a3_space a, a3_key a)) is_nsdecl attrs ND) as H.
  rewrite (decls_are_decl_attrs _ N), map_map in H.
  rewrite (map_ext _ (fun d => space_decompose (put_decl (fst d)))) in H by (intros d; apply decl_attr_names).
  rewrite <- (map_map fst (fun p => space_decompose (put_decl p))) in H.
  apply NoDup_map_inv in H. exact H.
Qed.
Lemma nodup_app {A} (l1 l2 : list A) : NoDup l1 -> NoDup l2 -> (forall x, In x l1 -> ~ In x l2) -> NoDup (l1 ++ l2).
Proof.
  induction l1 as [|x l1 IH]; intros N1 N2 H; [assumption|]. inversion N1; subst. cbn. constructor.
  - rewrite in_app_iff. intros [G|G]; [contradiction|]. apply (H x); [now left | assumption].
  - apply IH; try assumption. intros y Hy. apply H. now right.
Qed.

(* ================================================================== the comparator on declarations / attributes *)
Lemma attr_lt_unfold x y :
  attr_lt x y =
  if bytes_eqb (a3_space x) [] && bytes_eqb (a3_key x) s_xmlns then true
  else if bytes_eqb (a3_space y) [] && bytes_eqb (a3_key y) s_xmlns then false
  else if bytes_eqb (a3_space x) s_xmlns && negb (bytes_eqb (a3_space y) s_xmlns) then true
  else if bytes_eqb (a3_space y) s_xmlns && negb (bytes_eqb (a3_space x) s_xmlns) then false
  else if negb (bytes_eqb (a3_space x) (a3_space y)) then str_ltb (a3_space x) (a3_space y)
  else str_ltb (a3_key x) (a3_key y).
Proof. reflexivity. Qed.
Lemma is_nsdecl_cases a :
  is_nsdecl a = (bytes_eqb (a3_space a) [] && bytes_eqb (a3_key a) s_xmlns) || bytes_eqb (a3_space a) s_xmlns.
Proof.
  unfold is_nsdecl. destruct (a3_space a) as [|z r].
  - cbn. now rewrite orb_false_r.
  - change (bytes_eqb (z :: r) []) with false. reflexivity.
Qed.
Lemma attr_lt_decl_plain x y : is_nsdecl x = true -> is_nsdecl y = false -> attr_lt x y = true /\ attr_lt y x = false.
Proof.
  rewrite !is_nsdecl_cases, !attr_lt_unfold. intros Dx Dy.
  apply orb_false_iff in Dy as [Dy1 Dy2]. rewrite Dy1, Dy2. cbn [negb andb].
  destruct (bytes_eqb (a3_space x) [] && bytes_eqb (a3_key x) s_xmlns); [split; reflexivity|].
  cbn [orb] in Dx. rewrite Dx. cbn [andb negb]. split; reflexivity.
Qed.
Lemma attr_lt_plain x y : is_nsdecl x = false -> is_nsdecl y = false -> attr_lt x y = plain_lt x y.
Proof.
  rewrite !is_nsdecl_cases, attr_lt_unfold. intros Dx Dy.
  apply orb_false_iff in Dx as [Dx1 Dx2]. apply orb_false_iff in Dy as [Dy1 Dy2].
  rewrite Dx1, Dx2, Dy1, Dy2. cbn [negb andb]. unfold plain_lt.
  destruct (bytes_eqb (a3_space x) (a3_space y)); reflexivity.
Qed.
Lemma attr_lt_decls p q v w : p <> q -> p <> s_xmlns -> q <> s_xmlns ->
  attr_lt (decl_attr (p, v)) (decl_attr (q, w)) = str_ltb p q.
Proof.
  intros Hpq Hp Hq. rewrite attr_lt_unfold.
  destruct p as [|p0 p'], q as [|q0 q']; unfold decl_attr, mkattr, a3_space, a3_key; cbn [fst snd].
  - congruence.
  - reflexivity.
  - change (bytes_eqb s_xmlns []) with false. cbn [andb]. rewrite !beq_refl. reflexivity.
  - change (bytes_eqb s_xmlns []) with false. cbn [andb]. rewrite !beq_refl. cbn [andb negb]. reflexivity.
Qed.

(* ================================================================== writer = canonical XML output rules *)
Lemma esc_attr_eq c : esc_byte 2 c = x_esc_attr c.
Proof.
  unfold esc_byte, x_esc_attr. change (2 =? 2) with true. change (2 =? 0) with false. change (2 =? 1) with false. cbn iota.
  destruct (c =? 38) eqn:E1; [reflexivity|]. destruct (c =? 60) eqn:E2; [reflexivity|].
  destruct (c =? 62) eqn:E3.
  { assert (c = 62) by lia. subst. reflexivity. }
  destruct (c =? 39) eqn:E4.
  { assert (c = 39) by lia. subst. reflexivity. }
  reflexivity.
Qed.
Lemma esc_text_eq c : esc_byte 1 c = x_esc_text c.
Proof.
  unfold esc_byte, x_esc_text. change (1 =? 2) with false. change (1 =? 0) with false. change (1 =? 1) with true. cbn iota.
  destruct (c =? 38) eqn:E1; [reflexivity|]. destruct (c =? 60) eqn:E2; [reflexivity|].
  destruct (c =? 62) eqn:E3; [reflexivity|].
  destruct (c =? 39) eqn:E4. { assert (c = 39) by lia. subst. reflexivity. }
  destruct (c =? 34) eqn:E5. { assert (c = 34) by lia. subst. reflexivity. }
  destruct (c =? 9) eqn:E6. { assert (c = 9) by lia. subst. reflexivity. }
  destruct (c =? 10) eqn:E7. { assert (c = 10) by lia. subst. reflexivity. }
  reflexivity.
Qed.
Lemma flat_map_ext' {A B} (f g : A -> list B) l : (forall x, f x = g x) -> flat_map f l = flat_map g l.
Proof. intros H. induction l as [|x l IH]; cbn; [reflexivity|]. now rewrite H, IH. Qed.
Lemma write_attr_spec a : write_attr a = x_attr_string (qname (a3_space a) (a3_key a)) (a3_val a).
Proof.
  unfold write_attr, x_attr_string, escape, full_tag, qname.
  change ws_attr_single_quote with false. change ws_canonical_attr_val with true. cbn iota.
  rewrite (flat_map_ext' (esc_byte 2) x_esc_attr) by apply esc_attr_eq.
  cbn [app]. reflexivity.
Qed.
Lemma write_decl_attr p v : write_attr (decl_attr (p, v)) = x_ns_string p v.
Proof. rewrite write_attr_spec. destruct p as [|z r]; reflexivity. Qed.
Lemma write_elem s t attrs ch :
  write_node (Elem s t attrs ch) =
  60 :: qname s t ++ flat_map write_attr attrs ++ 62 :: flat_map write_node ch ++ [60; 47] ++ qname s t ++ [62].
Proof.
  cbn [write_node]. change ws_canonical_end_tags with true. cbn iota. unfold full_tag, qname.
  destruct ch; reflexivity.
Qed.

(* ================================================================== list helpers *)
Lemma filter_all {A} (f : A -> bool) l : (forall x, In x l -> f x = true) -> filter f l = l.
Proof.
  induction l as [|x l IH]; intros H; [reflexivity|]. cbn. rewrite (H x (or_introl eq_refl)). f_equal. apply IH. intros; apply H; now right.
Qed.
Lemma filter_none {A} (f : A -> bool) l : (forall x, In x l -> f x = false) -> filter f l = [].
Proof.
  induction l as [|x l IH]; intros H; [reflexivity|]. cbn. rewrite (H x (or_introl eq_refl)). apply IH. intros; apply H; now right.
Qed.
Lemma filter_andb {A} (f g : A -> bool) l : filter (fun x => f x && g x) l = filter g (filter f l).
Proof.
  induction l as [|x l IH]; [reflexivity|]. cbn. destruct (f x); cbn; [destruct (g x); now rewrite IH | exact IH].
Qed.
Lemma filter_map_comm {A B} (h : A -> B) (g : B -> bool) l : filter g (map h l) = map h (filter (fun x => g (h x)) l).
Proof. induction l as [|x l IH]; [reflexivity|]. cbn. destruct (g (h x)); cbn; now rewrite IH. Qed.
Lemma pairs_from_fst (g : bytes -> bytes) (l : list (bytes * bytes)) :
  (forall d, In d l -> snd d = g (fst d)) -> l = map (fun p => (p, g p)) (map fst l).
Proof.
  induction l as [|[p v] l IH]; intros H; [reflexivity|]. cbn [map fst]. f_equal.
  - specialize (H (p, v) (or_introl eq_refl)). cbn in H. now subst.
  - apply IH. intros; apply H; now right.
Qed.

(* ================================================================== one element of the top-down form *)
Definition kids (D' : list (bytes * bytes)) (ch : list node) : list node :=
  (fix go (l : list node) : list node :=
     match l with
     | [] => []
     | c :: r => if child_kept (kind_of c) then (if child_walked (kind_of c) then walkD D' c else c) :: go r else go r
     end) ch.
Lemma walkD_unfold D s t attrs ch :
  walkD D (Elem s t attrs ch) =
  let '(attrs1, pass) := place_all s attrs D in
  let '(attrs2, down) := own_loop s [] attrs1 [] in
  Elem s t (isort attr_lt attrs2) (kids (pass ++ down) ch).
Proof. reflexivity. Qed.

Definition emitted (s : bytes) (attrs : list attr) (D : list (bytes * bytes)) : list (bytes * bytes) :=
  filter (fun d => usesP s attrs (fst d)) (own_decls attrs) ++ filter (placedP s attrs) D.
Definition pending (s : bytes) (attrs : list attr) (D : list (bytes * bytes)) : list (bytes * bytes) :=
  filter (passedP s attrs) D ++ filter (fun d => negb (usesP s attrs (fst d))) (own_decls attrs).

Lemma decl_prefix_ok attrs a : names_ok attrs = true -> In a attrs -> is_nsdecl a = true ->
  decl_prefix a <> s_xmlns /\ decl_prefix a <> s_xml.
Proof.
  intros N Ha D. apply (own_prefix_ok attrs (decl_prefix a, a3_val a) N).
  unfold own_decls. apply in_map_iff. exists a. split; [reflexivity|]. apply filter_In. now split.
Qed.

Lemma walkD_elem s t attrs ch D :
  names_ok attrs = true -> NoDup (map fst D) -> (forall d, In d D -> fst d <> s_xmlns /\ fst d <> s_xml) ->
  walkD D (Elem s t attrs ch) =
  Elem s t (isort attr_lt (filter (keepP s attrs) attrs ++ map decl_attr (filter (placedP s attrs) D)))
       (kids (pending s attrs D) ch).
Proof.
  intros N ND HD. rewrite walkD_unfold, (place_all_spec s attrs D N ND HD).
  set (X := map decl_attr (filter (placedP s attrs) D)).
  assert (PL : plain_attrs (attrs ++ X) = plain_attrs attrs).
  { unfold X. now rewrite plain_app, plain_decl_attrs, app_nil_r. }
  rewrite own_loop_spec.
  2:{ intros a Ha Da. apply in_app_iff in Ha as [Ha|Ha].
      - now apply (decl_prefix_ok attrs a N Ha Da).
      - unfold X in Ha. apply in_map_iff in Ha as (d & <- & Hd). rewrite decl_attr_prefix.
        apply filter_In in Hd as [Hd _]. now apply HD. }
  assert (KP : forall a, keepP s (attrs ++ X) a = keepP s attrs a).
  { intros a. unfold keepP, dropP. now rewrite (usesP_plain s _ _ _ PL). }
  assert (DP : forall a, dropP s (attrs ++ X) a = dropP s attrs a).
  { intros a. unfold dropP. now rewrite (usesP_plain s _ _ _ PL). }
  rewrite (filter_ext _ _ KP), (filter_ext _ _ DP), !filter_app.
  assert (HX : forall x, In x X -> dropP s attrs x = false).
  { intros x Hx. unfold X in Hx. apply in_map_iff in Hx as (d & <- & Hd). apply filter_In in Hd as [_ Hd].
    unfold placedP in Hd. apply andb_true_iff in Hd as [_ Hu]. unfold dropP. now rewrite decl_attr_is_decl, decl_attr_prefix, Hu. }
  rewrite (filter_all (keepP s attrs) X) by (intros x Hx; unfold keepP; now rewrite (HX x Hx)).
  rewrite (filter_none (dropP s attrs) X) by exact HX.
  rewrite app_nil_r. f_equal. f_equal. unfold pending. f_equal.
  unfold own_decls, dropP. rewrite filter_andb, filter_map_comm. reflexivity.
Qed.

(* the sorted attribute list: declarations first, then the real attributes *)
Lemma sorted_attrs s attrs D :
  names_ok attrs = true ->
  isort attr_lt (filter (keepP s attrs) attrs ++ map decl_attr (filter (placedP s attrs) D)) =
  isort attr_lt (map decl_attr (emitted s attrs D)) ++ isort attr_lt (plain_attrs attrs).
Proof.
  intros N. set (X := map decl_attr (filter (placedP s attrs) D)).
  rewrite (isort_partition attr_lt is_nsdecl).
  2:{ intros x y _ _ Hx Hy. now apply attr_lt_decl_plain. }
  f_equal; f_equal.
  - rewrite filter_app. unfold emitted. rewrite map_app. f_equal.
    + rewrite <- filter_andb.
      rewrite (filter_ext _ (fun a => is_nsdecl a && usesP s attrs (decl_prefix a))).
      2:{ intros a. unfold keepP, dropP. destruct (is_nsdecl a), (usesP s attrs (decl_prefix a)); reflexivity. }
      rewrite filter_andb, (decls_are_decl_attrs _ N), filter_map_comm.
      f_equal. apply filter_ext. intros d. now rewrite decl_attr_prefix.
    + apply filter_all. intros x Hx. unfold X in Hx. apply in_map_iff in Hx as (d & <- & _). apply decl_attr_is_decl.
  - rewrite filter_app. rewrite (filter_none _ X).
    2:{ intros x Hx. unfold X in Hx. apply in_map_iff in Hx as (d & <- & _). now rewrite decl_attr_is_decl. }
    rewrite app_nil_r, <- filter_andb. unfold plain_attrs. apply filter_ext. intros a.
    unfold keepP, dropP. destruct (is_nsdecl a); cbn; rewrite ?andb_false_r; reflexivity.
Qed.

(* ================================================================== the simulation invariant *)
(* D: declarations relic still carries downwards; inscope / rendered: the two environments of exc-c14n.
   A carried declaration is the binding in scope and has not been rendered with that value; every other prefix is
   either rendered with its in-scope value or not bound at all. *)
Definition Inv (D : list (bytes * bytes)) (inscope rendered : env) : Prop :=
  NoDup (map fst D) /\
  (forall p v, In (p, v) D -> env_get inscope p = v /\ env_get rendered p <> v /\ p <> s_xmlns /\ p <> s_xml) /\
  (forall p, ~ In p (map fst D) -> env_get inscope p = env_get rendered p).

Lemma has_decl_in p attrs : has_decl p attrs = true <-> In p (map fst (own_decls attrs)).
Proof.
  rewrite has_decl_own. split.
  - intros H. apply existsb_exists in H as (d & Hd & E). apply beq_iff in E. subst. now apply in_map.
  - intros H. apply in_map_iff in H as (d & <- & Hd). apply existsb_exists. exists d. split; [assumption | apply beq_refl].
Qed.
Lemma in_fst_exists {A B} (l : list (A * B)) p : In p (map fst l) -> exists v, In (p, v) l.
Proof. intros H. apply in_map_iff in H as ([q v] & <- & H). now exists v. Qed.

Section Element.
  Variables (s : bytes) (attrs : list attr) (D : list (bytes * bytes)) (inscope rendered : env).
  Hypothesis N : names_ok attrs = true.
  Hypothesis NDa : NoDup (attr_names attrs).
  Hypothesis NR : not_redundant rendered attrs = true.
  Hypothesis I : Inv D inscope rendered.
  Let inscope' := env_add inscope (own_decls attrs).
  Let g := env_get inscope'.
  Let U' := filter (fun p => negb (bytes_eqb (g p) (env_get rendered p))) (utilized s attrs).
  Let out_ns := isort prefix_lt U'.
  Let rendered' := render g out_ns rendered.

  Lemma g_own p v : In (p, v) (own_decls attrs) -> g p = v.
  Proof. intros H. unfold g, inscope'. apply env_add_in; [now apply own_decls_nodup | assumption]. Qed.
  Lemma g_inherit p : has_decl p attrs = false -> g p = env_get inscope p.
  Proof.
    intros H. unfold g, inscope'. apply env_add_notin. intros G. apply has_decl_in in G. congruence.
  Qed.
  Lemma own_not_rendered p v : In (p, v) (own_decls attrs) -> env_get rendered p <> v.
  Proof.
    intros H. unfold not_redundant in NR. rewrite forallb_forall in NR. specialize (NR _ H). cbn [fst snd] in NR.
    apply negb_true_iff, beq_false in NR. congruence.
  Qed.

  Lemma emitted_value d : In d (emitted s attrs D) -> snd d = g (fst d).
  Proof.
    destruct I as (_ & I2 & _). destruct d as [p v]. cbn [fst snd]. unfold emitted. rewrite in_app_iff, !filter_In.
    intros [[H _]|[H P]].
    - symmetry. now apply g_own.
    - unfold placedP in P. apply andb_true_iff in P as [P _]. apply negb_true_iff in P. cbn [fst] in P.
      rewrite (g_inherit p P). symmetry. now apply I2.
  Qed.
  Lemma emitted_members p : In p (map fst (emitted s attrs D)) <-> In p U'.
  Proof.
    destruct I as (I1 & I2 & I3). unfold U'. rewrite filter_In, utilized_in, negb_true_iff, beq_false. split.
    - intros H. apply in_fst_exists in H as (v & H). unfold emitted in H. rewrite in_app_iff, !filter_In in H. cbn [fst] in H.
      destruct H as [[H U]|[H P]].
      + repeat split; [assumption | now apply (own_prefix_ok attrs (p, v)) |]. rewrite (g_own p v H).
        intros E. now apply (own_not_rendered p v H).
      + unfold placedP in P. apply andb_true_iff in P as [P U]. apply negb_true_iff in P. cbn [fst] in P, U.
        destruct (I2 p v H) as (E1 & E2 & _ & E4). repeat split; try assumption. rewrite (g_inherit p P), E1. congruence.
    - intros [[U X] G]. destruct (has_decl p attrs) eqn:Hd.
      + apply has_decl_in, in_fst_exists in Hd as (v & Hv). apply in_map_iff. exists (p, v). split; [reflexivity|].
        unfold emitted. apply in_app_iff. left. apply filter_In. now split.
      + rewrite (g_inherit p Hd) in G. destruct (in_dec bytes_dec p (map fst D)) as [Hin|Hn].
        * apply in_fst_exists in Hin as (v & Hv). apply in_map_iff. exists (p, v). split; [reflexivity|].
          unfold emitted. apply in_app_iff. right. apply filter_In. split; [assumption|]. unfold placedP. cbn [fst]. now rewrite Hd, U.
        * exfalso. apply G. now apply I3.
  Qed.
  Lemma emitted_nodup : NoDup (map fst (emitted s attrs D)).
  Proof.
    destruct I as (I1 & _ & _). unfold emitted. rewrite map_app. apply nodup_app.
    - apply nodup_map_filter. now apply own_decls_nodup.
    - now apply nodup_map_filter.
    - intros p H1 H2. apply in_map_iff in H1 as (d1 & <- & H1). apply filter_In in H1 as [H1 _].
      apply in_map_iff in H2 as (d2 & E & H2). apply filter_In in H2 as [_ H2]. unfold placedP in H2.
      apply andb_true_iff in H2 as [H2 _]. apply negb_true_iff in H2. rewrite E in H2.
      assert (has_decl (fst d1) attrs = true) by (apply has_decl_in; now apply in_map). congruence.
  Qed.
  Lemma emitted_prefix_ok p : In p (map fst (emitted s attrs D)) -> p <> s_xmlns.
  Proof.
    destruct I as (_ & I2 & _). intros H. apply in_fst_exists in H as (v & H). unfold emitted in H.
    rewrite in_app_iff, !filter_In in H. destruct H as [[H _]|[H _]].
    - now apply (own_prefix_ok attrs (p, v)).
    - now apply (I2 p v).
  Qed.

  Lemma sorted_decls :
    isort attr_lt (map decl_attr (emitted s attrs D)) = map decl_attr (map (fun p => (p, g p)) out_ns).
  Proof.
    rewrite (pairs_from_fst g (emitted s attrs D)) at 1 by (intros d Hd; now apply emitted_value).
    set (PL := map fst (emitted s attrs D)). set (f := fun p => decl_attr (p, g p)).
    assert (MM : forall l, map decl_attr (map (fun p => (p, g p)) l) = map f l) by (intros l; now rewrite map_map).
    rewrite !MM.
    rewrite (isort_map attr_lt (fun p q => attr_lt (f p) (f q)) f) by reflexivity.
    f_equal. unfold out_ns.
    rewrite (isort_ext_nodup _ prefix_lt PL emitted_nodup).
    2:{ intros p q Hp Hq Hpq. unfold prefix_lt. apply attr_lt_decls; [assumption | now apply emitted_prefix_ok | now apply emitted_prefix_ok]. }
    apply (isort_unique prefix_lt (fun _ => True)).
    - intros a _. apply str_ltb_irrefl.
    - intros a b c _ _ _. apply str_ltb_trans.
    - intros a b _ _. apply str_ltb_total.
    - apply Forall_forall. auto.
    - apply Forall_forall. auto.
    - exact emitted_nodup.
    - unfold U'. apply NoDup_filter, utilized_nodup.
    - exact emitted_members.
  Qed.

  Lemma out_ns_in p : In p out_ns <-> In p U'.
  Proof. unfold out_ns. apply isort_in. Qed.

  Lemma child_inv : Inv (pending s attrs D) inscope' rendered'.
  Proof.
    destruct I as (I1 & I2 & I3).
    assert (NU : forall p, usesP s attrs p = false -> ~ In p out_ns).
    { intros p U H. apply out_ns_in in H. unfold U' in H. apply filter_In in H as [H _]. apply utilized_in in H as [H _]. congruence. }
    repeat split.
    - unfold pending. rewrite map_app. apply nodup_app.
      + now apply nodup_map_filter.
      + apply nodup_map_filter. now apply own_decls_nodup.
      + intros p H1 H2. apply in_map_iff in H1 as (d1 & <- & H1). apply filter_In in H1 as [_ H1]. unfold passedP in H1.
        apply andb_true_iff in H1 as [H1 _]. apply negb_true_iff in H1.
        apply in_map_iff in H2 as (d2 & E & H2). apply filter_In in H2 as [H2 _].
        assert (has_decl (fst d1) attrs = true) by (apply has_decl_in; rewrite <- E; now apply in_map). congruence.
    - unfold pending in H. rewrite in_app_iff, !filter_In in H. cbn [fst] in H. destruct H as [[H P]|[H U]].
      + unfold passedP in P. cbn [fst] in P. apply andb_true_iff in P as [P _]. apply negb_true_iff in P.
        fold (g p). rewrite (g_inherit p P). now apply I2.
      + fold (g p). now apply g_own.
    - unfold pending in H. rewrite in_app_iff, !filter_In in H. cbn [fst] in H. unfold rendered'. destruct H as [[H P]|[H U]].
      + unfold passedP in P. cbn [fst] in P. apply andb_true_iff in P as [_ P]. apply negb_true_iff in P.
        rewrite render_notin by now apply NU. now apply I2.
      + apply negb_true_iff in U. rewrite render_notin by now apply NU. now apply own_not_rendered.
    - unfold pending in H. rewrite in_app_iff, !filter_In in H. destruct H as [[H _]|[H _]].
      + now apply (I2 p v).
      + now apply (own_prefix_ok attrs (p, v)).
    - unfold pending in H. rewrite in_app_iff, !filter_In in H. destruct H as [[H _]|[H _]].
      + now apply (I2 p v).
      + now apply (own_prefix_ok attrs (p, v)).
    - intros p Hp. fold (g p). unfold rendered'.
      destruct (in_dec bytes_dec p out_ns) as [Ho|Ho]; [now rewrite render_in|].
      rewrite render_notin by assumption.
      assert (HU : usesP s attrs p = true -> p <> s_xml -> g p = env_get rendered p).
      { intros U X. destruct (beqP (g p) (env_get rendered p)) as [E|E]; [assumption|]. exfalso. apply Ho, out_ns_in.
        unfold U'. apply filter_In. split; [now apply utilized_in|]. now apply negb_true_iff, beq_false. }
      assert (HP : forall v, In (p, v) (pending s attrs D) -> False).
      { intros v Hv. apply Hp. apply in_map_iff. now exists (p, v). }
      destruct (has_decl p attrs) eqn:Hd.
      + pose proof Hd as Hd'. apply has_decl_in, in_fst_exists in Hd' as (v & Hv).
        destruct (usesP s attrs p) eqn:U.
        * apply HU; [reflexivity|]. now apply (own_prefix_ok attrs (p, v)).
        * exfalso. apply (HP v). unfold pending. apply in_app_iff. right. apply filter_In. cbn [fst]. now rewrite U.
      + destruct (in_dec bytes_dec p (map fst D)) as [Hin|Hn].
        * apply in_fst_exists in Hin as (v & Hv). destruct (usesP s attrs p) eqn:U.
          -- apply HU; [reflexivity|]. now apply (I2 p v).
          -- exfalso. apply (HP v). unfold pending. apply in_app_iff. left. apply filter_In. split; [assumption|].
             unfold passedP. cbn [fst]. now rewrite Hd, U.
        * rewrite (g_inherit p Hd). now apply I3.
  Qed.
End Element.

(* ================================================================== reading the class K *)
Lemma code_nil b c : code b c = [] -> b = true.
Proof. destruct b; [reflexivity | discriminate]. Qed.
Lemma flat_map_nil {A B} (f : A -> list B) l : flat_map f l = [] -> Forall (fun x => f x = []) l.
Proof.
  induction l as [|x l IH]; intros H; [constructor|]. cbn in H. apply app_eq_nil in H as [H1 H2]. constructor; auto.
Qed.
Lemma flat_map_map {A B C} (f : B -> list C) (h : A -> B) l : flat_map f (map h l) = flat_map (fun x => f (h x)) l.
Proof. induction l as [|x l IH]; [reflexivity|]. cbn. now rewrite IH. Qed.

Definition child_env (inscope rendered : env) (s : bytes) (attrs : list attr) : env * env :=
  let inscope' := env_add inscope (own_decls attrs) in
  (inscope',
   render (env_get inscope')
     (isort prefix_lt (filter (fun p => negb (bytes_eqb (env_get inscope' p) (env_get rendered p))) (utilized s attrs)))
     rendered).

Lemma k_elem inscope rendered s t attrs ch :
  k_codes inscope rendered (Elem s t attrs ch) = [] ->
  nodup_b (attr_names attrs) = true /\ names_ok attrs = true /\ not_redundant rendered attrs = true /\
  order_ok (fst (child_env inscope rendered s attrs)) attrs = true /\
  Forall (fun c => k_codes (fst (child_env inscope rendered s attrs)) (snd (child_env inscope rendered s attrs)) c = []) ch.
Proof.
  cbn [k_codes]. intros H.
  apply app_eq_nil in H as [H1 H]. apply app_eq_nil in H as [H2 H]. apply app_eq_nil in H as [H3 H].
  apply app_eq_nil in H as [H4 H]. apply code_nil in H1, H2, H3, H4. repeat split; try assumption.
  now apply flat_map_nil in H.
Qed.

(* ================================================================== main simulation *)
Lemma kids_spec D' inscope' rendered' ch :
  Forall (fun c => forall inscope rendered D, kind_of c = 0 -> k_codes inscope rendered c = [] -> Inv D inscope rendered ->
                   write_node (walkD D c) = exc_node inscope rendered c) ch ->
  Forall (fun c => k_codes inscope' rendered' c = []) ch ->
  Inv D' inscope' rendered' ->
  flat_map write_node (kids D' ch) = flat_map (exc_node inscope' rendered') ch.
Proof.
  intros IH HK I. induction ch as [|c r IHr]; [reflexivity|].
  inversion IH as [|? ? IHc IHr']; subst. inversion HK as [|? ? Kc Kr]; subst.
  specialize (IHr IHr' Kr). unfold kids in *. destruct c as [s t a ch'|d|d|t i|d].
  - change (child_kept (kind_of (Elem s t a ch'))) with true. change (child_walked (kind_of (Elem s t a ch'))) with true.
    cbn iota. cbn [flat_map]. rewrite IHr. f_equal. now apply IHc.
  - change (child_kept (kind_of (CharData d))) with true. change (child_walked (kind_of (CharData d))) with false.
    cbn iota. cbn [flat_map]. rewrite IHr. f_equal. cbn [write_node exc_node]. change ws_canonical_text with true. cbn iota.
    unfold escape. apply flat_map_ext'. apply esc_text_eq.
  - change (child_kept (kind_of (Comment d))) with false. cbn iota. cbn [flat_map exc_node app]. exact IHr.
  - discriminate Kc.
  - discriminate Kc.
Qed.

Theorem walkD_is_spec n : forall inscope rendered D,
  kind_of n = 0 -> k_codes inscope rendered n = [] -> Inv D inscope rendered ->
  write_node (walkD D n) = exc_node inscope rendered n.
Proof.
  induction n as [s t attrs ch IH| | | |] using node_ind'; intros inscope rendered D Hk HK I; try discriminate Hk.
  apply k_elem in HK as (K6 & K5 & K3 & K4 & Kch).
  pose proof (nodup_b_NoDup _ K6) as NDa.
  pose proof I as (I1 & I2 & I3).
  rewrite walkD_elem; [|assumption|assumption|intros [p v] Hd; cbn [fst]; destruct (I2 p v Hd) as (_ & _ & ? & ?); now split].
  rewrite write_elem, (sorted_attrs s attrs D K5), (sorted_decls s attrs D inscope rendered K5 NDa K3 I).
  cbn [exc_node]. f_equal. f_equal. rewrite flat_map_app, <- !app_assoc. f_equal; [|f_equal].
  - rewrite flat_map_map, flat_map_map. apply flat_map_ext'. intros p. apply write_decl_attr.
  - rewrite (isort_ext attr_lt (xattr_lt (env_add inscope (own_decls attrs))) (plain_attrs attrs)).
    + apply flat_map_ext'. intros a. apply write_attr_spec.
    + intros x y Hx Hy.
      rewrite attr_lt_plain by (unfold plain_attrs in Hx, Hy; apply filter_In in Hx as [_ Hx]; apply filter_In in Hy as [_ Hy];
                                now apply negb_true_iff).
      unfold order_ok in K4. cbn [child_env fst] in K4. rewrite forallb_forall in K4.
      specialize (K4 x Hx). rewrite forallb_forall in K4. specialize (K4 y Hy). now apply eqb_prop in K4.
  - cbn [app]. f_equal. f_equal.
    apply (kids_spec _ (fst (child_env inscope rendered s attrs)) (snd (child_env inscope rendered s attrs))).
    + exact IH.
    + exact Kch.
    + apply (child_inv s attrs D inscope rendered K5 NDa K3 I).
Qed.

(* ================================================================== the apex: pullDown's map versus the namespaces in scope *)
Lemma sp_get_env m p : sp_get m p = env_get m p.
Proof. induction m as [|[q v] m IH]; [reflexivity|]. cbn. now rewrite IH. Qed.
Lemma sp_set_get m q w p : env_get (sp_set m q w) p = if bytes_eqb p q then w else env_get m p.
Proof.
  induction m as [|[k v] m IH]; cbn.
  - reflexivity.
  - destruct (beqP q k) as [->|Hqk]; cbn.
    + destruct (bytes_eqb p k); reflexivity.
    + rewrite IH. destruct (beqP p k) as [->|Hpk]; [|reflexivity].
      rewrite (proj2 (beq_false k q)) by congruence. reflexivity.
Qed.
Lemma sp_set_keys m q w : env_get m q = [] -> ~ In q (map fst m) -> map fst (sp_set m q w) = map fst m ++ [q].
Proof.
  induction m as [|[k v] m IH]; intros E N; [reflexivity|]. cbn in *.
  destruct (beqP q k) as [->|Hqk]; [exfalso; apply N; now left|]. cbn. f_equal. apply IH; [assumption|]. intros G. apply N. now right.
Qed.
Lemma sp_set_in m q w d : In d (sp_set m q w) -> In d m \/ d = (q, w).
Proof.
  induction m as [|[k v] m IH]; cbn.
  - intros [<-|[]]. now right.
  - destruct (bytes_eqb q k); cbn.
    + intros [<-|H]; [now right | left; now right].
    + intros [<-|H]; [left; now left|]. destruct (IH H) as [G|G]; [left; now right | now right].
Qed.
Lemma env_get_notin m p : ~ In p (map fst m) -> env_get m p = [].
Proof.
  induction m as [|[k v] m IH]; intros N; [reflexivity|]. cbn in *.
  destruct (beqP p k) as [->|]; [exfalso; apply N; now left|]. apply IH. intros G. apply N. now right.
Qed.
Lemma env_get_in m p v : NoDup (map fst m) -> In (p, v) m -> env_get m p = v.
Proof.
  induction m as [|[k w] m IH]; intros ND H; [contradiction|]. cbn in *. inversion ND as [|? ? Nin ND']; subst.
  destruct H as [E|H].
  - inversion E; subst. now rewrite beq_refl.
  - destruct (beqP p k) as [->|]; [|now apply IH]. exfalso. apply Nin. apply in_map_iff. now exists (k, v).
Qed.

(* the state of the map: keys distinct, values non-empty, prefixes neither xml nor xmlns *)
Definition map_ok (m : list (bytes * bytes)) : Prop :=
  NoDup (map fst m) /\ (forall p v, In (p, v) m -> v <> [] /\ p <> s_xmlns /\ p <> s_xml).
Definition anc_ok (attrs : list attr) : Prop :=
  names_ok attrs = true /\ (forall d, In d (own_decls attrs) -> snd d <> []).

Lemma collect_one attrs : forall m, map_ok m -> anc_ok attrs ->
  map_ok (fold_left collect_attr attrs m) /\
  (forall p, env_get (fold_left collect_attr attrs m) p =
             if bytes_eqb (env_get m p) [] then env_get (own_decls attrs) p else env_get m p).
Proof.
  induction attrs as [|a l IH]; intros m M [N V].
  - split; [assumption|]. intros p. cbn. destruct (bytes_eqb (env_get m p) []) eqn:E; [now apply beq_iff in E | reflexivity].
  - cbn [fold_left]. unfold names_ok in N. cbn [forallb] in N. apply andb_true_iff in N as [Na Nl].
    assert (Al : anc_ok l).
    { split; [exact Nl|]. intros d Hd. apply V. unfold own_decls in *. cbn [filter]. destruct (is_nsdecl a); [now right | assumption]. }
    assert (CE : collect_attr m a = if is_nsdecl a then (if bytes_eqb (env_get m (decl_prefix a)) [] then sp_set m (decl_prefix a) (a3_val a) else m) else m).
    { unfold collect_attr. rewrite get_decl_spec. unfold pull_skip_nondecl, pull_skip_seen. rewrite sp_get_env.
      destruct (is_nsdecl a); cbn [negb]; [|reflexivity]. destruct (bytes_eqb (env_get m (decl_prefix a)) []); reflexivity. }
    rewrite CE. clear CE.
    destruct (is_nsdecl a) eqn:Da; cbn [negb].
    + assert (Hd : In (decl_prefix a, a3_val a) (own_decls (a :: l))) by (unfold own_decls; cbn [filter]; rewrite Da; now left).
      assert (OD : own_decls (a :: l) = (decl_prefix a, a3_val a) :: own_decls l) by (unfold own_decls; cbn [filter]; now rewrite Da).
      destruct (bytes_eqb (env_get m (decl_prefix a)) []) eqn:Eq; cbn [negb].
      * (* not seen yet: recorded *)
        apply beq_iff in Eq.
        assert (M' : map_ok (sp_set m (decl_prefix a) (a3_val a))).
        { destruct M as [M1 M2]. split.
          - assert (Nk : ~ In (decl_prefix a) (map fst m)).
            { intros G. apply in_fst_exists in G as (v & Hv). rewrite (env_get_in m _ v M1 Hv) in Eq. destruct (M2 _ _ Hv) as [Q _]. now apply Q. }
            rewrite sp_set_keys by assumption. apply nodup_app; [assumption | repeat constructor; intros [] |].
            intros x Hx [<-|[]]. contradiction.
          - intros p v H. apply sp_set_in in H as [H|H]; [now apply M2|]. inversion H; subst.
            split; [exact (V _ Hd)|]. apply (own_prefix_ok (a :: l) (decl_prefix a, a3_val a)); [|assumption].
            unfold names_ok. cbn [forallb]. now rewrite Na, Nl. }
        destruct (IH _ M' Al) as [R1 R2]. split; [assumption|]. intros p. rewrite R2, sp_set_get, OD. cbn [env_get].
        destruct (beqP p (decl_prefix a)) as [->|Hp].
        -- rewrite Eq. cbn. destruct (bytes_eqb (a3_val a) []) eqn:Ev; [|reflexivity]. apply beq_iff in Ev. exfalso. now apply (V _ Hd).
        -- reflexivity.
      * (* already seen in a nearer ancestor *)
        destruct (IH _ M Al) as [R1 R2]. split; [assumption|]. intros p. rewrite R2, OD. cbn [env_get].
        destruct (beqP p (decl_prefix a)) as [->|Hp]; [now rewrite Eq | reflexivity].
    + destruct (IH _ M Al) as [R1 R2]. split; [assumption|]. intros p. rewrite R2.
      replace (own_decls (a :: l)) with (own_decls l) by (unfold own_decls; cbn [filter]; now rewrite Da). reflexivity.
Qed.

Lemma ctx_env_cons a ctx : ctx_env (a :: ctx) = env_add (ctx_env ctx) (own_decls a).
Proof. unfold ctx_env. cbn [rev]. now rewrite fold_left_app. Qed.
Lemma env_add_get e decls p : NoDup (map fst decls) -> (forall d, In d decls -> snd d <> []) ->
  env_get (env_add e decls) p = if bytes_eqb (env_get decls p) [] then env_get e p else env_get decls p.
Proof.
  intros ND V. destruct (in_dec bytes_dec p (map fst decls)) as [Hin|Hn].
  - apply in_fst_exists in Hin as (v & Hv). rewrite (env_add_in decls e p v ND Hv), (env_get_in decls p v ND Hv).
    destruct (bytes_eqb v []) eqn:E; [|reflexivity]. apply beq_iff in E. exfalso. now apply (V _ Hv).
  - rewrite (env_add_notin decls e p Hn), (env_get_notin decls p Hn). reflexivity.
Qed.

Definition collect_from (m : list (bytes * bytes)) (ctx : list (list attr)) : list (bytes * bytes) :=
  fold_left (fun m attrs => fold_left collect_attr attrs m) ctx m.
Lemma collect_all ctx : forall m, map_ok m -> Forall (fun a => anc_ok a /\ NoDup (attr_names a)) ctx ->
  map_ok (collect_from m ctx) /\
  (forall p, env_get (collect_from m ctx) p = if bytes_eqb (env_get m p) [] then env_get (ctx_env ctx) p else env_get m p).
Proof.
  induction ctx as [|a ctx IH]; intros m M F.
  - split; [assumption|]. intros p. cbn. destruct (bytes_eqb (env_get m p) []) eqn:E; [now apply beq_iff in E | reflexivity].
  - inversion F as [|? ? [Aa Na] F']; subst. unfold collect_from. cbn [fold_left].
    destruct (collect_one a m M Aa) as [M1 G1]. destruct (IH _ M1 F') as [M2 G2]. split; [exact M2|].
    intros p. unfold collect_from in G2. rewrite G2, G1, ctx_env_cons.
    rewrite env_add_get; [| apply own_decls_nodup; [apply Aa | assumption] | apply Aa].
    destruct (bytes_eqb (env_get m p) []) eqn:E1; [|now rewrite E1].
    destruct (bytes_eqb (env_get (own_decls a) p) []); reflexivity.
Qed.

Lemma ctx_ok ctx : ctx_codes ctx = [] -> Forall (fun a => anc_ok a /\ NoDup (attr_names a)) ctx.
Proof.
  unfold ctx_codes. intros H. apply flat_map_nil in H. rewrite Forall_forall in *. intros a Ha. specialize (H a Ha).
  apply app_eq_nil in H as [H1 H]. apply app_eq_nil in H as [H2 H3]. apply code_nil in H1, H2, H3.
  split; [split; [assumption|] | now apply nodup_b_NoDup].
  intros d Hd. rewrite forallb_forall in H3. specialize (H3 d Hd). destruct d as [p v]. cbn [snd] in *. destruct v; [discriminate H3 | discriminate].
Qed.

Lemma root_inv ctx : ctx_codes ctx = [] -> Inv (collect_spaces ctx) (ctx_env ctx) [].
Proof.
  intros H. assert (M0 : map_ok []) by (split; [constructor | intros p v []]).
  destruct (collect_all ctx [] M0 (ctx_ok ctx H)) as [[M1 M2] G]. fold (collect_spaces ctx) in M1, M2, G.
  assert (G' : forall p, env_get (collect_spaces ctx) p = env_get (ctx_env ctx) p) by (intros p; rewrite G; reflexivity).
  clear G. rename G' into G.
  repeat split.
  - exact M1.
  - rewrite <- G. now apply env_get_in.
  - cbn. intros E. symmetry in E. destruct (M2 _ _ H0) as (Q1 & _ & _). now apply Q1.
  - destruct (M2 _ _ H0) as (_ & Q2 & _). exact Q2.
  - destruct (M2 _ _ H0) as (_ & _ & Q3). exact Q3.
  - intros p Hp. rewrite <- G. cbn. now apply env_get_notin.
Qed.

(* ================================================================== the theorem *)
Theorem relic_eq_spec_on_K ctx n : inK ctx n = true -> relic_c14n ctx n = exc_c14n ctx n.
Proof.
  unfold inK, K_codes. destruct n as [s t a ch| | | |]; try discriminate.
  destruct (ctx_codes ctx ++ k_codes (ctx_env ctx) [] (Elem s t a ch)) eqn:E; [|discriminate]. intros _.
  apply app_eq_nil in E as [E1 E2].
  rewrite relic_is_top_down. unfold relic_c14n_td, exc_c14n.
  apply walkD_is_spec; [reflexivity | assumption | now apply root_inv].
Qed.

(* ================================================================== documents relic builds are in K *)
Lemma signed_info_codes e r ref_id hash_alg sig_alg digest c14n :
  k_codes e r (signed_info ref_id hash_alg sig_alg digest c14n) = [].
Proof. destruct ref_id; reflexivity. Qed.

Lemma K_codes_elem ctx s t a ch : K_codes ctx (Elem s t a ch) = ctx_codes ctx ++ k_codes (ctx_env ctx) [] (Elem s t a ch).
Proof. reflexivity. Qed.

(* Signature carries xmlns=NsXMLDsig and, after appmanifest.setSigIds, an Id *)
Theorem signed_info_in_K ref_id hash_alg sig_alg digest c14n id_attr outer :
  ctx_codes outer = [] ->
  inK (sig_ctx (match id_attr with Some v => [mkattr [] s_Id v] | None => [] end) outer)
      (signed_info ref_id hash_alg sig_alg digest c14n) = true.
Proof.
  intros H. unfold inK.
  replace (K_codes _ (signed_info ref_id hash_alg sig_alg digest c14n))
    with (ctx_codes (sig_ctx (match id_attr with Some v => [mkattr [] s_Id v] | None => [] end) outer)
          ++ k_codes (ctx_env (sig_ctx (match id_attr with Some v => [mkattr [] s_Id v] | None => [] end) outer)) []
               (signed_info ref_id hash_alg sig_alg digest c14n)) by reflexivity.
  rewrite signed_info_codes, app_nil_r. unfold sig_ctx, ctx_codes in *. cbn [flat_map]. rewrite H, app_nil_r.
  destruct id_attr; reflexivity.
Qed.

Lemma vsix_refs_codes e r hash_uri refs :
  flat_map (k_codes e r) (map (fun x => vsix_reference (fst x) hash_uri (snd x)) refs) = [].
Proof. induction refs as [|x refs IH]; [reflexivity|]. cbn [map flat_map]. rewrite IH. reflexivity. Qed.

Theorem vsix_object_in_K refs hash_uri fmt time :
  inK (sig_ctx [] []) (vsix_object refs hash_uri ns_digsig fmt time) = true.
Proof.
  unfold inK.
  replace (K_codes (sig_ctx [] []) (vsix_object refs hash_uri ns_digsig fmt time))
    with (ctx_codes (sig_ctx [] []) ++ k_codes (ctx_env (sig_ctx [] [])) [] (vsix_object refs hash_uri ns_digsig fmt time)) by reflexivity.
  unfold vsix_object, el. cbn [k_codes flat_map]. rewrite vsix_refs_codes. reflexivity.
Qed.

(* ================================================================== re-serialisations that keep the canonical form *)
Lemma exc_children e r s t a ch1 ch2 :
  flat_map (exc_node (fst (child_env e r s a)) (snd (child_env e r s a))) ch1 =
  flat_map (exc_node (fst (child_env e r s a)) (snd (child_env e r s a))) ch2 ->
  exc_node e r (Elem s t a ch1) = exc_node e r (Elem s t a ch2).
Proof.
  intros H. cbn [exc_node]. unfold child_env, render in H. cbn [fst snd] in H. now rewrite H.
Qed.
(* comments may be inserted or removed anywhere *)
Lemma spec_comment_invariant e r s t a l1 d l2 :
  exc_node e r (Elem s t a (l1 ++ Comment d :: l2)) = exc_node e r (Elem s t a (l1 ++ l2)).
Proof. apply exc_children. rewrite !flat_map_app. reflexivity. Qed.
(* text may be split into several character-data nodes (CDATA sections, entity boundaries, comments in between) *)
Lemma spec_text_split_invariant e r s t a l1 d1 d2 l2 :
  exc_node e r (Elem s t a (l1 ++ CharData (d1 ++ d2) :: l2)) = exc_node e r (Elem s t a (l1 ++ CharData d1 :: CharData d2 :: l2)).
Proof.
  apply exc_children. rewrite !flat_map_app. cbn [flat_map exc_node]. rewrite flat_map_app, <- !app_assoc. reflexivity.
Qed.
(* a child may be replaced by any child with the same canonical form in that context *)
Lemma spec_child_congruence e r s t a l1 c c' l2 :
  exc_node (fst (child_env e r s a)) (snd (child_env e r s a)) c = exc_node (fst (child_env e r s a)) (snd (child_env e r s a)) c' ->
  exc_node e r (Elem s t a (l1 ++ c :: l2)) = exc_node e r (Elem s t a (l1 ++ c' :: l2)).
Proof. intros H. apply exc_children. rewrite !flat_map_app. cbn [flat_map]. now rewrite H. Qed.
(* the faithful model ignores comments as well *)
Lemma kids_app D' l1 l2 : kids D' (l1 ++ l2) = kids D' l1 ++ kids D' l2.
Proof.
  unfold kids. induction l1 as [|c l1 IH]; [reflexivity|]. cbn [app].
  destruct (child_kept (kind_of c)); [cbn [app]; now rewrite IH | exact IH].
Qed.
Lemma relic_comment_invariant ctx s t a l1 d l2 :
  relic_c14n ctx (Elem s t a (l1 ++ Comment d :: l2)) = relic_c14n ctx (Elem s t a (l1 ++ l2)).
Proof.
  rewrite !relic_is_top_down. unfold relic_c14n_td. rewrite !walkD_unfold.
  destruct (place_all s a (collect_spaces ctx)) as [a1 pass]. destruct (own_loop s [] a1 []) as [a2 down].
  rewrite !kids_app. reflexivity.
Qed.

(* ================================================================== the specification depends on environments only through lookups *)
Definition env_eq (e e' : env) : Prop := forall p, env_get e p = env_get e' p.
Lemma env_set_ext e e' p v : env_eq e e' -> env_eq (env_set e p v) (env_set e' p v).
Proof. intros H q. rewrite !env_get_set. now rewrite H. Qed.
Lemma env_add_ext d : forall e e', env_eq e e' -> env_eq (env_add e d) (env_add e' d).
Proof.
  unfold env_add. induction d as [|x d IH]; intros e e' H; [exact H|]. cbn [fold_left]. apply IH. now apply env_set_ext.
Qed.
Lemma render_ext out : forall g g' r r', (forall p, g p = g' p) -> env_eq r r' -> env_eq (render g out r) (render g' out r').
Proof.
  unfold render. induction out as [|p out IH]; intros g g' r r' Hg H; [exact H|]. cbn [fold_left]. apply IH; [assumption|].
  rewrite Hg. now apply env_set_ext.
Qed.
Lemma attr_uri_ext e e' a : env_eq e e' -> attr_uri e a = attr_uri e' a.
Proof. intros H. unfold attr_uri. destruct (a3_space a); [reflexivity|]. now rewrite H. Qed.
Lemma xattr_lt_ext e e' a b : env_eq e e' -> xattr_lt e a b = xattr_lt e' a b.
Proof. intros H. unfold xattr_lt. now rewrite !(attr_uri_ext e e' _ H). Qed.
Lemma flat_map_ext_in {A B} (f g : A -> list B) l : (forall x, In x l -> f x = g x) -> flat_map f l = flat_map g l.
Proof.
  induction l as [|x l IH]; intros H; [reflexivity|]. cbn. rewrite (H x (or_introl eq_refl)), IH; [reflexivity|].
  intros y Hy. apply H. now right.
Qed.

Theorem exc_node_ext n : forall e e' r r', env_eq e e' -> env_eq r r' -> exc_node e r n = exc_node e' r' n.
Proof.
  induction n as [s t a ch IH| | | |] using node_ind'; intros e e' r r' He Hr; try reflexivity.
  cbn [exc_node].
  assert (Hi : env_eq (env_add e (own_decls a)) (env_add e' (own_decls a))) by now apply env_add_ext.
  set (i1 := env_add e (own_decls a)) in *. set (i2 := env_add e' (own_decls a)) in *.
  assert (HF : filter (fun p => negb (bytes_eqb (env_get i1 p) (env_get r p))) (utilized s a) =
               filter (fun p => negb (bytes_eqb (env_get i2 p) (env_get r' p))) (utilized s a)).
  { apply filter_ext. intros p. now rewrite Hi, Hr. }
  rewrite <- HF. set (out := isort prefix_lt _).
  f_equal. f_equal. f_equal; [|f_equal].
  - apply flat_map_ext'. intros p. now rewrite Hi.
  - f_equal. apply isort_ext. intros x y _ _. now apply xattr_lt_ext.
  - f_equal. f_equal. apply flat_map_ext_in. intros c Hc. rewrite Forall_forall in IH. apply IH; [assumption|assumption|].
    apply (render_ext out (env_get i1) (env_get i2) r r'); [exact Hi | exact Hr].
Qed.

(* ================================================================== lexicographic order on pairs of byte strings *)
Definition lex_lt (x y : bytes * bytes) : bool :=
  if bytes_eqb (fst x) (fst y) then str_ltb (snd x) (snd y) else str_ltb (fst x) (fst y).
Lemma lex_irrefl x : lex_lt x x = false.
Proof. unfold lex_lt. rewrite beq_refl. apply str_ltb_irrefl. Qed.
Lemma lex_trans x y z : lex_lt x y = true -> lex_lt y z = true -> lex_lt x z = true.
Proof.
  unfold lex_lt. destruct x as [a b], y as [c d], z as [e f]. cbn [fst snd]. intros H1 H2.
  destruct (bytes_dec a c) as [->|Hac].
  - rewrite beq_refl in H1. destruct (bytes_dec c e) as [->|Hce].
    + rewrite beq_refl in *. eapply str_ltb_trans; eassumption.
    + rewrite (proj2 (beq_false c e) Hce) in *. exact H2.
  - rewrite (proj2 (beq_false a c) Hac) in H1. destruct (bytes_dec c e) as [->|Hce].
    + rewrite beq_refl in H2. rewrite (proj2 (beq_false a e) Hac). exact H1.
    + rewrite (proj2 (beq_false c e) Hce) in H2. pose proof (str_ltb_trans _ _ _ H1 H2) as T.
      destruct (bytes_dec a e) as [->|Hae].
      * rewrite str_ltb_irrefl in T. discriminate.
      * rewrite (proj2 (beq_false a e) Hae). exact T.
Qed.
Lemma lex_total x y : x <> y -> lex_lt x y = true \/ lex_lt y x = true.
Proof.
  unfold lex_lt. destruct x as [a b], y as [c d]. cbn [fst snd]. intros H. rewrite (beq_sym c a).
  destruct (bytes_eqb a c) eqn:E.
  - apply beq_iff in E. subst. apply str_ltb_total. congruence.
  - apply beq_false in E. now apply str_ltb_total.
Qed.

(* ================================================================== attribute order does not matter *)
Lemma existsb_perm {A} (f : A -> bool) l l' : Permutation l l' -> existsb f l = existsb f l'.
Proof.
  intros P. destruct (existsb f l) eqn:E.
  - apply existsb_exists in E as (x & Hx & Fx). symmetry. apply existsb_exists. exists x. split; [|assumption].
    now apply (Permutation_in _ P).
  - symmetry. apply existsb_false_iff. intros x Hx. rewrite existsb_false_iff in E. apply E.
    apply (Permutation_in _ (Permutation_sym P)). exact Hx.
Qed.
Lemma filter_perm {A} (f : A -> bool) l l' : Permutation l l' -> Permutation (filter f l) (filter f l').
Proof.
  induction 1; cbn.
  - constructor.
  - destruct (f x); [now constructor | assumption].
  - destruct (f x), (f y); try reflexivity. apply perm_swap.
  - etransitivity; eassumption.
Qed.
Lemma nodup_map_inj {A B} (f : A -> B) l a b : NoDup (map f l) -> In a l -> In b l -> f a = f b -> a = b.
Proof.
  induction l as [|x l IH]; intros ND Ha Hb E; [contradiction|]. cbn [map] in ND. inversion ND as [|? ? Nin ND']; subst.
  destruct Ha as [->|Ha], Hb as [->|Hb].
  - reflexivity.
  - exfalso. apply Nin. rewrite E. now apply in_map.
  - exfalso. apply Nin. rewrite <- E. now apply in_map.
  - now apply IH.
Qed.

Theorem spec_attr_order_invariant e r s t a a' ch :
  Permutation a a' ->
  NoDup (map fst (own_decls a)) ->
  NoDup (map (fun x => (attr_uri (env_add e (own_decls a)) x, a3_key x)) (plain_attrs a)) ->
  exc_node e r (Elem s t a ch) = exc_node e r (Elem s t a' ch).
Proof.
  intros P ND NU. cbn [exc_node].
  assert (Pd : Permutation (own_decls a) (own_decls a')).
  { unfold own_decls. apply Permutation_map. now apply filter_perm. }
  assert (Pp : Permutation (plain_attrs a) (plain_attrs a')) by (unfold plain_attrs; now apply filter_perm).
  assert (ND' : NoDup (map fst (own_decls a'))).
  { eapply Permutation_NoDup; [|exact ND]. now apply Permutation_map. }
  assert (Hi : env_eq (env_add e (own_decls a)) (env_add e (own_decls a'))).
  { intros p. destruct (in_dec bytes_dec p (map fst (own_decls a))) as [Hin|Hn].
    - apply in_fst_exists in Hin as (v & Hv). rewrite (env_add_in _ e p v ND Hv).
      symmetry. apply env_add_in; [assumption|]. now apply (Permutation_in _ Pd).
    - rewrite (env_add_notin _ e p Hn). symmetry. apply env_add_notin. intros G. apply Hn.
      apply (Permutation_in _ (Permutation_sym (Permutation_map fst Pd))). exact G. }
  set (i1 := env_add e (own_decls a)) in *. set (i2 := env_add e (own_decls a')) in *.
  assert (HU : forall p, usesP s a p = usesP s a' p).
  { intros p. unfold usesP. f_equal. f_equal. now apply existsb_perm. }
  assert (HO : isort prefix_lt (filter (fun p => negb (bytes_eqb (env_get i1 p) (env_get r p))) (utilized s a)) =
               isort prefix_lt (filter (fun p => negb (bytes_eqb (env_get i2 p) (env_get r p))) (utilized s a'))).
  { apply (isort_unique prefix_lt (fun _ => True)).
    - intros x _. apply str_ltb_irrefl.
    - intros x y z _ _ _. apply str_ltb_trans.
    - intros x y _ _. apply str_ltb_total.
    - apply Forall_forall; auto.
    - apply Forall_forall; auto.
    - apply NoDup_filter, utilized_nodup.
    - apply NoDup_filter, utilized_nodup.
    - intros p. rewrite !filter_In, !utilized_in, HU, Hi. reflexivity. }
  rewrite <- HO. set (out := isort prefix_lt _).
  assert (HA : isort (xattr_lt i1) (plain_attrs a) = isort (xattr_lt i2) (plain_attrs a')).
  { rewrite (isort_ext (xattr_lt i2) (xattr_lt i1) (plain_attrs a')) by (intros; symmetry; now apply xattr_lt_ext).
    set (key := fun x : attr => (attr_uri i1 x, a3_key x)).
    assert (XL : forall x y, xattr_lt i1 x y = lex_lt (key x) (key y)) by reflexivity.
    apply (isort_unique (xattr_lt i1) (fun x => In x (plain_attrs a))).
    - intros x _. rewrite XL. apply lex_irrefl.
    - intros x y z _ _ _. rewrite !XL. apply lex_trans.
    - intros x y Hx Hy Hxy. rewrite !XL. apply lex_total. intros E. apply Hxy. exact (nodup_map_inj key _ x y NU Hx Hy E).
    - apply Forall_forall; auto.
    - apply Forall_forall. intros x Hx. apply (Permutation_in _ (Permutation_sym Pp)). exact Hx.
    - apply (NoDup_map_inv key). exact NU.
    - eapply Permutation_NoDup; [exact Pp|]. apply (NoDup_map_inv key). exact NU.
    - intros x. split; apply Permutation_in; [exact Pp | now apply Permutation_sym]. }
  rewrite <- HA.
  f_equal. f_equal. f_equal; [|f_equal].
  - apply flat_map_ext'. intros p. now rewrite Hi.
  - f_equal. f_equal. apply flat_map_ext'. intros c. apply exc_node_ext; [exact Hi|].
    apply (render_ext out (env_get i1) (env_get i2) r r); [exact Hi | intros p; reflexivity].
Qed.

(* ================================================================== sort.Slice: any correct sort gives the model's list *)
Definition rank (a : attr) : Z * (bytes * bytes) :=
  ((if bytes_eqb (a3_space a) [] && bytes_eqb (a3_key a) s_xmlns then 0 else if bytes_eqb (a3_space a) s_xmlns then 1 else 2),
   (a3_space a, a3_key a)).
Definition rank_lt (r1 r2 : Z * (bytes * bytes)) : bool :=
  (fst r1 <? fst r2) || ((fst r1 =? fst r2) && lex_lt (snd r1) (snd r2)).
Lemma rank_irrefl r : rank_lt r r = false.
Proof. unfold rank_lt. rewrite lex_irrefl. lia. Qed.
Lemma rank_trans a b c : rank_lt a b = true -> rank_lt b c = true -> rank_lt a c = true.
Proof.
  unfold rank_lt. intros H1 H2. apply orb_true_iff in H1. apply orb_true_iff in H2. apply orb_true_iff.
  destruct H1 as [H1|H1], H2 as [H2|H2].
  - left. lia.
  - apply andb_true_iff in H2 as [E _]. left. lia.
  - apply andb_true_iff in H1 as [E _]. left. lia.
  - apply andb_true_iff in H1 as [E1 L1]. apply andb_true_iff in H2 as [E2 L2]. right. apply andb_true_iff.
    split; [lia|]. eapply lex_trans; eassumption.
Qed.
Lemma rank_total a b : a <> b -> rank_lt a b = true \/ rank_lt b a = true.
Proof.
  unfold rank_lt. destruct a as [ca pa], b as [cb pb]. cbn [fst snd]. intros H.
  destruct (Z.lt_trichotomy ca cb) as [L|[E|L]].
  - left. apply orb_true_iff. left. lia.
  - subst. assert (Hp : pa <> pb) by congruence. destruct (lex_total pa pb Hp) as [G|G]; [left|right];
      apply orb_true_iff; right; apply andb_true_iff; split; try lia; assumption.
  - right. apply orb_true_iff. left. lia.
Qed.
Lemma attr_lt_rank x y :
  (a3_space x, a3_key x) <> (a3_space y, a3_key y) -> attr_lt x y = rank_lt (rank x) (rank y).
Proof.
  intros Hn. rewrite attr_lt_unfold. unfold rank, rank_lt, lex_lt. cbn [fst snd].
  destruct (bytes_eqb (a3_space x) [] && bytes_eqb (a3_key x) s_xmlns) eqn:Dx.
  - destruct (bytes_eqb (a3_space y) [] && bytes_eqb (a3_key y) s_xmlns) eqn:Dy.
    + exfalso. apply Hn. apply andb_true_iff in Dx as [A B]. apply andb_true_iff in Dy as [C D].
      apply beq_iff in A, B, C, D. congruence.
    + destruct (bytes_eqb (a3_space y) s_xmlns); reflexivity.
  - destruct (bytes_eqb (a3_space y) [] && bytes_eqb (a3_key y) s_xmlns) eqn:Dy.
    + destruct (bytes_eqb (a3_space x) s_xmlns); reflexivity.
    + destruct (bytes_eqb (a3_space x) s_xmlns) eqn:Nx, (bytes_eqb (a3_space y) s_xmlns) eqn:Ny; cbn [negb andb orb Z.ltb Z.eqb Z.compare Pos.compare Pos.compare_cont Pos.eqb].
      * destruct (bytes_eqb (a3_space x) (a3_space y)); reflexivity.
      * reflexivity.
      * reflexivity.
      * destruct (bytes_eqb (a3_space x) (a3_space y)); reflexivity.
Qed.

Lemma sorted_weaken {A} (P Q : A -> A -> Prop) l :
  NoDup l -> (forall x y, In x l -> In y l -> x <> y -> P x y -> Q x y) -> StronglySorted P l -> StronglySorted Q l.
Proof.
  induction l as [|x l IH]; intros ND H S; [constructor|]. inversion S as [|? ? S' F]; subst. inversion ND as [|? ? Nin ND']; subst.
  constructor.
  - apply IH; try assumption. intros a b Ha Hb. apply H; now right.
  - rewrite Forall_forall in *. intros y Hy. apply H; [now left | now right | intros ->; contradiction | now apply F].
Qed.

(* Go's sort.Slice promises only: afterwards no later element is less than an earlier one.  With distinct attribute
   names that pins the result down, whatever algorithm is used (the real one is an unstable pattern-defeating quicksort). *)
Theorem sort_slice_unique l l' :
  NoDup (attr_names l) -> Permutation l' l -> StronglySorted (fun x y => attr_lt y x = false) l' -> l' = isort attr_lt l.
Proof.
  intros NDn P S.
  assert (ND : NoDup l) by (apply (NoDup_map_inv (fun a : attr => (a3_space a, a3_key a))); exact NDn).
  assert (ND' : NoDup l') by (eapply Permutation_NoDup; [apply Permutation_sym; exact P | exact ND]).
  set (lt2 := fun x y : attr => rank_lt (rank x) (rank y)).
  assert (Hname : forall x y, In x l -> In y l -> x <> y -> (a3_space x, a3_key x) <> (a3_space y, a3_key y)).
  { intros x y Hx Hy Hxy E. apply Hxy. exact (nodup_map_inj (fun a : attr => (a3_space a, a3_key a)) l x y NDn Hx Hy E). }
  rewrite (isort_ext_nodup attr_lt lt2 l ND) by (intros x y Hx Hy Hxy; apply attr_lt_rank; now apply Hname).
  assert (Hrank : forall x y, In x l -> In y l -> x <> y -> rank x <> rank y).
  { intros x y Hx Hy Hxy E. apply (Hname x y Hx Hy Hxy). unfold rank in E. now inversion E. }
  apply (sorted_unique lt2 (fun x => In x l)).
  - intros a _. apply rank_irrefl.
  - intros a b c _ _ _. apply rank_trans.
  - apply Forall_forall. intros x Hx. now apply (Permutation_in _ P).
  - apply Forall_forall. intros x Hx. now apply (proj1 (isort_in lt2 l x)).
  - apply (sorted_weaken (fun x y => attr_lt y x = false) (ltP lt2) l' ND'); [|exact S].
    intros x y Hx Hy Hxy H. apply (Permutation_in _ P) in Hx. apply (Permutation_in _ P) in Hy.
    rewrite attr_lt_rank in H by (apply Hname; auto). unfold ltP, lt2.
    destruct (rank_total (rank x) (rank y) (Hrank x y Hx Hy Hxy)) as [G|G]; [exact G | congruence].
  - apply (isort_sorted lt2 (fun x => In x l)).
    + intros a b c _ _ _. apply rank_trans.
    + intros a b Ha Hb Hab. apply rank_total. now apply Hrank.
    + apply Forall_forall. auto.
    + exact ND.
  - intros x. rewrite isort_in. split; apply Permutation_in; [exact P | now apply Permutation_sym].
Qed.

(* ================================================================== consequences on K *)
Theorem relic_attr_order_invariant_on_K ctx s t a a' ch :
  inK ctx (Elem s t a ch) = true -> inK ctx (Elem s t a' ch) = true -> Permutation a a' ->
  NoDup (map (fun x => (attr_uri (env_add (ctx_env ctx) (own_decls a)) x, a3_key x)) (plain_attrs a)) ->
  relic_c14n ctx (Elem s t a ch) = relic_c14n ctx (Elem s t a' ch).
Proof.
  intros K1 K2 P NU. rewrite (relic_eq_spec_on_K _ _ K1), (relic_eq_spec_on_K _ _ K2). unfold exc_c14n.
  apply spec_attr_order_invariant; try assumption.
  unfold inK, K_codes in K1. destruct (ctx_codes ctx ++ k_codes (ctx_env ctx) [] (Elem s t a ch)) eqn:E; [|discriminate].
  apply app_eq_nil in E as [_ E]. apply k_elem in E as (K6 & K5 & _). apply own_decls_nodup; [assumption|]. now apply nodup_b_NoDup.
Qed.

(* ================================================================== unused namespace declarations do not matter *)
(* does the subtree visibly utilise prefix q under the binding that reaches its root? *)
Fixpoint uses_in_subtree (q : bytes) (n : node) : bool :=
  match n with
  | Elem s t a ch => usesP s a q || (negb (has_decl q a) && existsb (uses_in_subtree q) ch)
  | _ => false
  end.

Lemma render_ext_in out : forall g g' r r', (forall p, In p out -> g p = g' p) -> env_eq r r' -> env_eq (render g out r) (render g' out r').
Proof.
  unfold render. induction out as [|p out IH]; intros g g' r r' Hg H; [exact H|]. cbn [fold_left]. apply IH.
  - intros x Hx. apply Hg. now right.
  - rewrite (Hg p (or_introl eq_refl)). now apply env_set_ext.
Qed.
Lemma env_add_off d q : forall e e', (forall p, p <> q -> env_get e p = env_get e' p) ->
  forall p, p <> q -> env_get (env_add e d) p = env_get (env_add e' d) p.
Proof.
  unfold env_add. induction d as [|x d IH]; intros e e' H p Hp; [now apply H|]. cbn [fold_left]. apply IH; [|assumption].
  intros p' Hp'. rewrite !env_get_set. destruct (bytes_eqb p' (fst x)); [reflexivity | now apply H].
Qed.

Lemma env_add_shadow d q : forall e e', In q (map fst d) -> env_get (env_add e d) q = env_get (env_add e' d) q.
Proof.
  induction d as [|x d IH]; intros e e' H; [contradiction|]. unfold env_add. cbn [fold_left].
  fold (env_add (env_set e (fst x) (snd x)) d). fold (env_add (env_set e' (fst x) (snd x)) d).
  destruct (in_dec bytes_dec q (map fst d)) as [I|N]; [now apply IH|].
  rewrite !(env_add_notin d _ q N), !env_get_set. destruct H as [->|H]; [|contradiction]. now rewrite beq_refl.
Qed.
Lemma exc_elem_ext s t a ch e e' r r' :
  env_eq (env_add e (own_decls a)) (env_add e' (own_decls a)) -> env_eq r r' ->
  exc_node e r (Elem s t a ch) = exc_node e' r' (Elem s t a ch).
Proof.
  intros Hi Hr. cbn [exc_node].
  set (i1 := env_add e (own_decls a)) in *. set (i2 := env_add e' (own_decls a)) in *.
  assert (HF : filter (fun p => negb (bytes_eqb (env_get i1 p) (env_get r p))) (utilized s a) =
               filter (fun p => negb (bytes_eqb (env_get i2 p) (env_get r' p))) (utilized s a)).
  { apply filter_ext. intros p. now rewrite Hi, Hr. }
  rewrite <- HF. set (out := isort prefix_lt _).
  f_equal. f_equal. f_equal; [|f_equal].
  - apply flat_map_ext'. intros p. now rewrite Hi.
  - f_equal. apply isort_ext. intros x y _ _. now apply xattr_lt_ext.
  - f_equal. f_equal. apply flat_map_ext'. intros c. apply exc_node_ext; [assumption|].
    apply (render_ext out (env_get i1) (env_get i2) r r'); [exact Hi | exact Hr].
Qed.

Theorem exc_node_irrelevant q n : forall e e' r,
  (forall p, p <> q -> env_get e p = env_get e' p) -> uses_in_subtree q n = false ->
  exc_node e r n = exc_node e' r n.
Proof.
  induction n as [s t a ch IH| | | |] using node_ind'; intros e e' r He Hu; try reflexivity.
  cbn [uses_in_subtree] in Hu. apply orb_false_iff in Hu as [Hu Hc].
  destruct (has_decl q a) eqn:Hd.
  - (* redeclared here: the environments below agree everywhere *)
    apply exc_elem_ext; [|intros p; reflexivity]. intros p. destruct (bytes_dec p q) as [->|Hp]; [|now apply (env_add_off _ q)].
    apply env_add_shadow. now apply has_decl_in.
  - cbn [andb negb] in Hc.
    cbn [exc_node].
    assert (Hi : forall p, p <> q -> env_get (env_add e (own_decls a)) p = env_get (env_add e' (own_decls a)) p) by now apply (env_add_off _ q).
    set (i1 := env_add e (own_decls a)) in *. set (i2 := env_add e' (own_decls a)) in *.
    assert (Hq : forall p, In p (utilized s a) -> p <> q).
    { intros p Hp ->. apply utilized_in in Hp as [Hp _]. congruence. }
    assert (HF : filter (fun p => negb (bytes_eqb (env_get i1 p) (env_get r p))) (utilized s a) =
                 filter (fun p => negb (bytes_eqb (env_get i2 p) (env_get r p))) (utilized s a)).
    { apply filter_ext_in'. intros p Hp. now rewrite (Hi p (Hq p Hp)). }
    rewrite <- HF. set (out := isort prefix_lt _).
    assert (Hout : forall p, In p out -> p <> q).
    { intros p Hp. apply Hq. unfold out in Hp. apply (proj1 (isort_in _ _ _)) in Hp. now apply filter_In in Hp as [Hp _]. }
    assert (Hattr : forall x, In x (plain_attrs a) -> attr_uri i1 x = attr_uri i2 x).
    { intros x Hx. unfold attr_uri. destruct (a3_space x) as [|z sp] eqn:Es; [reflexivity|].
      destruct (bytes_eqb (z :: sp) s_xml); [reflexivity|]. apply Hi. intros E.
      unfold usesP in Hu. apply orb_false_iff in Hu as [_ Hu]. rewrite <- E in Hu. cbn [negb andb] in Hu.
      change (bytes_eqb (z :: sp) []) with false in Hu. cbn [negb andb] in Hu. rewrite existsb_false_iff in Hu.
      specialize (Hu x Hx). rewrite Es, beq_refl in Hu. discriminate. }
    f_equal. f_equal. f_equal; [|f_equal].
    + apply flat_map_ext_in. intros p Hp. now rewrite (Hi p (Hout p Hp)).
    + f_equal. apply isort_ext. intros x y Hx Hy. unfold xattr_lt. now rewrite (Hattr x Hx), (Hattr y Hy).
    + f_equal. f_equal. apply flat_map_ext_in. intros c Hc'. rewrite Forall_forall in IH.
      rewrite existsb_false_iff in Hc. rewrite (IH c Hc' i1 i2 _ Hi (Hc c Hc')).
      apply exc_node_ext; [intros p; reflexivity|].
      apply (render_ext_in out (env_get i1) (env_get i2) r r); [|intros p; reflexivity]. intros p Hp. apply Hi. now apply Hout.
Qed.

Lemma own_decls_cons_decl d a : own_decls (decl_attr d :: a) = d :: own_decls a.
Proof.
  unfold own_decls. cbn [filter]. rewrite decl_attr_is_decl. cbn [map]. rewrite decl_attr_prefix, decl_attr_val. now destruct d.
Qed.
Lemma plain_cons_decl_attr d a : plain_attrs (decl_attr d :: a) = plain_attrs a.
Proof. unfold plain_attrs. cbn [filter]. now rewrite decl_attr_is_decl. Qed.
Lemma exc_add_decl e r s t a ch d :
  exc_node e r (Elem s t (decl_attr d :: a) ch) = exc_node (env_set e (fst d) (snd d)) r (Elem s t a ch).
Proof.
  cbn [exc_node]. unfold utilized. rewrite own_decls_cons_decl, !plain_cons_decl_attr. reflexivity.
Qed.
(* a namespace declaration that nothing below visibly utilises can be added or removed *)
Theorem spec_unused_decl_invariant e r s t a ch q v :
  has_decl q a = false -> usesP s a q = false -> existsb (uses_in_subtree q) ch = false ->
  exc_node e r (Elem s t (decl_attr (q, v) :: a) ch) = exc_node e r (Elem s t a ch).
Proof.
  intros Hd Hu Hc. rewrite exc_add_decl. cbn [fst snd]. apply (exc_node_irrelevant q).
  - intros p Hp. rewrite env_get_set. now rewrite (proj2 (beq_false p q) Hp).
  - cbn [uses_in_subtree]. now rewrite Hu, Hd, Hc.
Qed.

(* ================================================================== ECDSA r||s *)
Lemma bitlen_nonneg n : 0 <= bitlen n.
Proof. unfold bitlen. destruct (n <=? 0) eqn:E; [lia|]. pose proof (Z.log2_nonneg n). lia. Qed.
Lemma bitlen_bound n : 0 <= n -> n < 2 ^ bitlen n.
Proof.
  intros H. unfold bitlen. destruct (n <=? 0) eqn:E.
  - assert (n = 0) by lia. subst. cbn. lia.
  - assert (0 < n) by lia. pose proof (Z.log2_spec n H0). replace (Z.log2 n + 1) with (Z.succ (Z.log2 n)) by lia. lia.
Qed.
Lemma bitlen_lower n : 0 < n -> 2 ^ (bitlen n - 1) <= n.
Proof.
  intros H. unfold bitlen. destruct (n <=? 0) eqn:E; [lia|].
  replace (Z.log2 n + 1 - 1) with (Z.log2 n) by lia. apply (Z.log2_spec n H).
Qed.

Definition maxbits (r s : Z) : Z := Z.max (bitlen r) (bitlen s).
Definition pack_w (r s : Z) : Z := (maxbits r s + 7) / 8.

Lemma pack_shape r s : pack r s = be_enc (Z.to_nat (pack_w r s)) r ++ be_enc (Z.to_nat (pack_w r s)) s.
Proof.
  unfold pack, pack_w, maxbits, pack_s_wider, pack_nbytes, pack_total_len, pack_r_first_half, pack_s_second_half.
  cbn [andb]. pose proof (bitlen_nonneg r). pose proof (bitlen_nonneg s).
  assert (E : (if bitlen s >? bitlen r then bitlen s else bitlen r) = Z.max (bitlen r) (bitlen s)).
  { destruct (bitlen s >? bitlen r) eqn:G; lia. }
  rewrite E. rewrite Z.quot_div_nonneg by lia.
  replace (2 * ((Z.max (bitlen r) (bitlen s) + 7) / 8) - (Z.max (bitlen r) (bitlen s) + 7) / 8)
    with ((Z.max (bitlen r) (bitlen s) + 7) / 8) by lia.
  reflexivity.
Qed.
Lemma pack_w_nonneg r s : 0 <= pack_w r s.
Proof. unfold pack_w, maxbits. pose proof (bitlen_nonneg r). apply Z.div_pos; lia. Qed.
Lemma pack_len r s : zlen (pack r s) = 2 * pack_w r s.
Proof. rewrite pack_shape, zlen_app, !be_enc_zlen. pose proof (pack_w_nonneg r s). lia. Qed.

Lemma fits r s : 0 <= r -> r < 256 ^ Z.of_nat (Z.to_nat (pack_w r s)).
Proof.
  intros H. pose proof (pack_w_nonneg r s). rewrite Z2Nat.id by lia.
  pose proof (bitlen_bound r H). pose proof (bitlen_nonneg r).
  assert (bitlen r <= 8 * pack_w r s). { unfold pack_w, maxbits. lia. }
  replace 256 with (2 ^ 8) by reflexivity. rewrite <- Z.pow_mul_r by lia.
  eapply Z.lt_le_trans; [eassumption|]. apply Z.pow_le_mono_r; lia.
Qed.
Lemma fits_s r s : 0 <= s -> s < 256 ^ Z.of_nat (Z.to_nat (pack_w r s)).
Proof.
  intros H. pose proof (pack_w_nonneg r s). rewrite Z2Nat.id by lia.
  pose proof (bitlen_bound s H). pose proof (bitlen_nonneg s).
  assert (bitlen s <= 8 * pack_w r s). { unfold pack_w, maxbits. lia. }
  replace 256 with (2 ^ 8) by reflexivity. rewrite <- Z.pow_mul_r by lia.
  eapply Z.lt_le_trans; [eassumption|]. apply Z.pow_le_mono_r; lia.
Qed.

(* relic is self-consistent: what Pack writes, UnpackEcdsaSignature reads back *)
Lemma unpack_pack r s : 0 <= r -> 0 <= s -> unpack (pack r s) = Ok (r, s).
Proof.
  intros Hr Hs. unfold unpack. rewrite pack_len. pose proof (pack_w_nonneg r s).
  unfold unpack_bytelen, unpack_bad_size. rewrite Z.quot_div_nonneg by lia.
  replace (2 * pack_w r s / 2) with (pack_w r s) by lia.
  replace (negb (2 * pack_w r s =? pack_w r s * 2)) with false by lia.
  rewrite pack_shape.
  assert (L : zlen (be_enc (Z.to_nat (pack_w r s)) r) = pack_w r s) by (rewrite be_enc_zlen; lia).
  rewrite ztake_app_l by lia. rewrite ztake_all by lia.
  rewrite zdrop_app_r by lia. rewrite L. replace (pack_w r s - pack_w r s) with 0 by lia. rewrite zdrop_0.
  rewrite !be_dec_enc; [reflexivity| |].
  - split; [assumption|]. now apply fits_s.
  - split; [assumption|]. now apply fits.
Qed.

(* the exact region where Pack produces the fixed-width encoding of a curve of `bits` bits *)
Lemma pack_fixed_iff bits r s :
  0 <= bits ->
  (pack_w r s = curve_bytes bits <-> pack r s = fixed_pack bits r s).
Proof.
  intros Hb. split; intros H.
  - rewrite pack_shape, H. reflexivity.
  - apply (f_equal zlen) in H. rewrite pack_len in H. unfold fixed_pack in H.
    rewrite zlen_app, !be_enc_zlen in H.
    assert (0 <= curve_bytes bits) by (unfold curve_bytes; apply Z.div_pos; lia). lia.
Qed.
Lemma pack_ok_when_top_bits_set bits r s :
  0 <= bits -> 8 * (curve_bytes bits - 1) < maxbits r s <= 8 * curve_bytes bits ->
  pack r s = fixed_pack bits r s.
Proof.
  intros Hb H. apply pack_fixed_iff; [assumption|]. unfold pack_w. lia.
Qed.
Lemma pack_short_when_small bits r s :
  0 <= bits -> maxbits r s <= 8 * (curve_bytes bits - 1) -> zlen (pack r s) < 2 * curve_bytes bits.
Proof.
  intros Hb H. rewrite pack_len. unfold pack_w. lia.
Qed.
(* P-521: r, s < 2^520 are perfectly valid signature values (a quarter of all signatures) *)
Lemma pack_fixed_width_refuted :
  exists bits r s, In bits defined_curve_bits /\ 0 < r < 2 ^ (bits - 1) /\ 0 < s < 2 ^ (bits - 1) /\
                   pack r s <> fixed_pack bits r s /\ zlen (pack r s) = 130 /\ zlen (fixed_pack bits r s) = 132.
Proof.
  exists 521, (2 ^ 519 + 5), (2 ^ 500 + 3). split; [cbn; tauto|].
  split; [split; [reflexivity | reflexivity]|]. split; [split; reflexivity|].
  split; [|split; vm_compute; reflexivity].
  intros E. apply (f_equal zlen) in E. vm_compute in E. discriminate.
Qed.

(* ================================================================== witnesses outside the class K *)
From Coq Require Import String Ascii.
Definition s2b (s : string) : bytes := map (fun a => Z.of_N (N_of_ascii a)) (list_ascii_of_string s).
Definition A (sp k v : string) : attr := (s2b sp, s2b k, s2b v).
Definition E (sp t : string) (attrs : list attr) (ch : list node) : node := Elem (s2b sp) (s2b t) attrs ch.
Local Open Scope string_scope.

(* <a><?pi x?></a> *)
Definition w_pi : node := E "" "a" [] [ProcInst (s2b "pi") (s2b "x")].
(* <a xmlns:p="urn:p" p:x="1"><b xmlns:p="urn:p" p:y="2"/></a> *)
Definition w_redundant : node :=
  E "" "a" [A "xmlns" "p" "urn:p"; A "p" "x" "1"] [E "" "b" [A "xmlns" "p" "urn:p"; A "p" "y" "2"] []].
(* <p:a xmlns:p="urn:p"><b xmlns:p="urn:q"><p:c xmlns:p="urn:p"/></b></p:a> : not redundant with respect to the
   namespace in scope, but redundant with respect to what the output ancestors rendered *)
Definition w_redundant_far : node :=
  E "p" "a" [A "xmlns" "p" "urn:p"] [E "" "b" [A "xmlns" "p" "urn:q"] [E "p" "c" [A "xmlns" "p" "urn:p"] []]].
(* <a xmlns:b="urn:a" xmlns:a="urn:b" b:x="1" a:x="2"/> *)
Definition w_attr_order : node :=
  E "" "a" [A "xmlns" "b" "urn:a"; A "xmlns" "a" "urn:b"; A "b" "x" "1"; A "a" "x" "2"] [].
(* <a xmlns:p="urn:p" xml:lang="en" p:x="1"/> *)
Definition w_attr_order_xml : node := E "" "a" [A "xmlns" "p" "urn:p"; A "xml" "lang" "en"; A "p" "x" "1"] [].
(* <a xmlns=""/> *)
Definition w_xmlns_empty : node := E "" "a" [A "" "xmlns" ""] [].
(* <c/> inside <a xmlns="urn:u"><b xmlns=""> *)
Definition w_ctx_undeclare : list (list attr) * node := ([[A "" "xmlns" ""]; [A "" "xmlns" "urn:u"]], E "" "c" [] []).
(* <p:a xmlns:p="urn:p" xmlns="urn:u"><b p:xmlns="v"/></p:a> *)
Definition w_attr_named_xmlns : node :=
  E "p" "a" [A "xmlns" "p" "urn:p"; A "" "xmlns" "urn:u"] [E "" "b" [A "p" "xmlns" "v"] []].

Definition diverges (ctx : list (list attr)) (t : node) (c : Z) : Prop :=
  wf_doc ctx t = true /\ K_codes ctx t = [c] /\ relic_c14n ctx t <> exc_c14n ctx t.
Ltac diverge := split; [vm_compute; reflexivity | split; [vm_compute; reflexivity | vm_compute; discriminate]].

Lemma pi_dropped_refuted : diverges [] w_pi 1.                              Proof. diverge. Qed.
Lemma redundant_redeclaration_refuted : diverges [] w_redundant 3.          Proof. diverge. Qed.
Lemma redundant_wrt_rendered_refuted : diverges [] w_redundant_far 3.       Proof. diverge. Qed.
Lemma attr_order_refuted : diverges [] w_attr_order 4.                      Proof. diverge. Qed.
Lemma attr_order_xml_refuted : diverges [] w_attr_order_xml 4.              Proof. diverge. Qed.
Lemma xmlns_empty_refuted : diverges [] w_xmlns_empty 3.                    Proof. diverge. Qed.
Lemma ctx_undeclare_refuted : diverges (fst w_ctx_undeclare) (snd w_ctx_undeclare) 2. Proof. diverge. Qed.
Lemma attr_named_xmlns_refuted : diverges [] w_attr_named_xmlns 5.          Proof. diverge. Qed.
