(* C19/SignProofs.v — lemmas about the signing / verifying pipelines of C19/Sign.v. *)
From Relic Require Import Base.Prelude Base.Enc Generated.C19_gen C19.Model C19.Proofs C19.Sign.

(* ================================================================== ties: the order of statements read from the source *)
Lemma hc_ok_true : hc_ok = true.       Proof. reflexivity. Qed.
Lemma xv_ok_true : xv_ok = true.       Proof. reflexivity. Qed.
Lemma am_ok_true : am_ok = true.       Proof. reflexivity. Qed.
Lemma rm_loop_shape_true : rm_loop_shape = true. Proof. reflexivity. Qed.
Lemma xs_tags : xs_remove_tag = c_Signature /\ xs_create_tag = c_Signature /\ xs_sigattr_key = c_xmlns /\ xs_sigattr_val = ns_xmldsig /\ xs_ref_id = [].
Proof. repeat split; reflexivity. Qed.

(* the literals of the hand-written builders are the literals of the source *)
Lemma pipeline_literals :
  bsi_strs = [c_SignedInfo; s_Algorithm; c_CanonicalizationMethod; s_Algorithm; c_SignatureMethod; c_Reference; s_URI; []; s_URI; s_Type;
              c_Transforms; s_Algorithm; alg_enveloped; c_Transform; s_Algorithm; c_Transform; s_Algorithm; c_DigestMethod; c_DigestValue]
  /\ fin_strs = [c_SignatureValue; c_KeyInfo]
  /\ am_asi_strs = [c_assemblyIdentity; c_publicKeyToken]
  /\ am_pub_strs = [c_publisherIdentity; c_publisherIdentity; c_name; c_issuerKeyHash]
  /\ am_ids_strs = [c_Signature; c_Id; c_KeyInfo; c_Id]
  /\ firstn 7 am_sign_strs = [c_StrongNameSignature; c_StrongNameKeyInfo; c_AuthenticodeSignature; []; c_msrel_RelData; c_xmlns ++ 58 :: c_msrel; ns_msrel]
  /\ am_license_strs = [c_r ++ 58 :: c_license; c_xmlns ++ 58 :: c_r; ns_mpeg21; c_xmlns ++ 58 :: c_as; ns_authenticode; c_r ++ 58 :: c_grant;
                        c_as ++ 58 :: c_ManifestInformation; c_Hash; c_Description; []; c_Url; []; c_as ++ 58 :: c_SignedBy;
                        c_as ++ 58 :: c_X509SubjectName; c_as ++ 58 :: c_AuthenticodePublisher; c_r ++ 58 :: c_issuer]
  /\ firstn 3 amv_strs = [c_Signature; c_Signature ++ 47 :: c_KeyInfo ++ 47 :: c_msrel_RelData ++ 47 :: c_r_license; c_issuer ++ 47 :: c_Signature].
Proof. repeat split; reflexivity. Qed.

(* buildSignedInfo with the generated branch conditions is the builder of Model.v (whose canonical form is W3C: signed_info_in_K) *)
Lemma signed_info_g_eq ref_id ha sa dv c : signed_info_g ref_id ha sa dv c = signed_info ref_id ha sa dv c.
Proof. destruct ref_id; reflexivity. Qed.

(* ================================================================== RemoveElements *)
Definition is_sig_child (c : node) : bool := is_elem c && bytes_eqb (etag c) c_Signature.
Definition strip_sigs (ch : list node) : list node := filter (fun c => negb (is_sig_child c)) ch.

Lemma remove_elements_sig ch : remove_elements xs_remove_tag ch = strip_sigs ch.
Proof.
  unfold remove_elements. rewrite rm_loop_shape_true. unfold strip_sigs. apply filter_ext_in'. intros c _.
  unfold rm_hit, is_sig_child, rm_match. reflexivity.
Qed.
Lemma strip_sigs_idem ch : strip_sigs (strip_sigs ch) = strip_sigs ch.
Proof.
  unfold strip_sigs. induction ch as [|c r IH]; [reflexivity|]. cbn [filter].
  destruct (negb (is_sig_child c)) eqn:E; cbn [filter]; [rewrite E, IH; reflexivity | exact IH].
Qed.
Lemma strip_sigs_app a b : strip_sigs (a ++ b) = strip_sigs a ++ strip_sigs b.
Proof. apply filter_app. Qed.
Lemma strip_sigs_none ch : forallb (fun c => negb (is_sig_child c)) (strip_sigs ch) = true.
Proof. apply forallb_forall. intros c Hc. apply filter_In in Hc. tauto. Qed.

(* ================================================================== xmldsig.Sign: what the instruction list computes *)
Definition sig_attrs0 : list attr := [mkattr [] c_xmlns ns_xmldsig].
Definition keyinfo_kids (P : sigparams) : list node :=
  (if fin_kv_cond (sp_include_kv P) then sp_kv P else []) ++ (if fin_x509_cond (sp_include_x509 P) (sp_ncerts P) then sp_x509 P else []).
Definition sig_kids (P : sigparams) (si : node) (si_oct : bytes) : list node :=
  [si; el c_SignatureValue [] [CharData (sp_sig_text P si_oct)]]
  ++ (if fin_attach_cond (zlen (keyinfo_kids P)) then [el c_KeyInfo [] (keyinfo_kids P)] else []).
(* guard; RemoveElements(parent, "Signature"); digest of the canonical form of root; algorithm names; Signature / SignedInfo;
   signature value over the canonical SignedInfo; KeyInfo *)
Definition xsign_ref (P : sigparams) (ctx0 : list (list attr)) (fs : list frame) (ps pt : bytes) (pa : list attr) (ch : list node) : result sst :=
  if xs_bad_key (sp_ncerts P) (sp_same_key P) then Err 1 else
  let ch1 := strip_sigs ch in
  let oct := relic_c14n ctx0 (plug fs (Elem ps pt pa ch1)) in
  let '(ha, sa, e) := hash_algs (sp_hash P) (sp_keykind P) (sp_ms P) in
  if e then Err 2 else
  let si := signed_info [] ha sa (sp_digest_text P oct) (c14n_ns (sp_rec P)) in
  let si_oct := relic_c14n (sig_attrs0 :: pa :: frames_ctx fs ++ ctx0) si in
  Ok (SSt ch1 (Some (sig_attrs0, sig_kids P si si_oct)) (Some oct) (Some (ha, sa)) (Some si) false si_oct true).

Lemma cur_root_nosig fs ps pt pa st : s_sig st = None -> cur_root fs ps pt pa st = plug fs (Elem ps pt pa (s_ch st)).
Proof. intros E. unfold cur_root, cur_parent, sig_child. rewrite E. rewrite app_nil_r. reflexivity. Qed.

(* The proof evaluates the interpreter on whatever instruction list srcgen produced: it goes through for the order of
   statements in the source and for reorderings that do not change what is computed (e.g. algorithm validation moved to the
   front), and fails for any order under which a different tree state is digested. *)
Lemma xsign_is_ref P ctx0 fs ps pt pa ch : xsign P ctx0 fs ps pt pa ch = xsign_ref P ctx0 fs ps pt pa ch.
Proof.
  unfold xsign, xsign_ref, sst0, xs_prog.
  repeat (cbn -[relic_c14n hash_algs signed_info_g signed_info remove_elements canon_octets plug finish xs_bad_key create_attr c14n_ns cur_root];
          match goal with
          | |- context [xs_bad_key ?a ?b] => destruct (xs_bad_key a b); [reflexivity|]
          | |- context [hash_algs ?a ?b ?c] => destruct (hash_algs a b c) as [[? ?] []]; [reflexivity|]
          end).
  cbn -[relic_c14n hash_algs signed_info_g signed_info remove_elements canon_octets plug finish xs_bad_key create_attr c14n_ns cur_root].
  rewrite !cur_root_nosig by reflexivity. cbn [s_ch].
  unfold finish. cbn [s_sig s_si s_ch s_ref s_algs]. replace (fin_ok) with true by reflexivity. cbn [negb].
  unfold canon_octets. rewrite hc_ok_true.
  destruct xs_tags as (_ & _ & Hk & Hv & Hr). rewrite Hr, signed_info_g_eq, remove_elements_sig.
  replace (create_attr xs_sigattr_key xs_sigattr_val []) with sig_attrs0 by reflexivity.
  unfold parent_ctx. cbn [s_done]. reflexivity.
Qed.

(* ---- consequences for every document, every position of the parent, every parameter *)
Lemma xsign_ok_inv P ctx0 fs ps pt pa ch st :
  xsign P ctx0 fs ps pt pa ch = Ok st ->
  exists ha sa,
    xs_bad_key (sp_ncerts P) (sp_same_key P) = false /\
    hash_algs (sp_hash P) (sp_keykind P) (sp_ms P) = (ha, sa, false) /\
    let oct := relic_c14n ctx0 (plug fs (Elem ps pt pa (strip_sigs ch))) in
    let si := signed_info [] ha sa (sp_digest_text P oct) (c14n_ns (sp_rec P)) in
    let si_oct := relic_c14n (sig_attrs0 :: pa :: frames_ctx fs ++ ctx0) si in
    st = SSt (strip_sigs ch) (Some (sig_attrs0, sig_kids P si si_oct)) (Some oct) (Some (ha, sa)) (Some si) false si_oct true.
Proof.
  rewrite xsign_is_ref. unfold xsign_ref.
  destruct (xs_bad_key (sp_ncerts P) (sp_same_key P)); [discriminate|].
  destruct (hash_algs (sp_hash P) (sp_keykind P) (sp_ms P)) as [[ha sa] e].
  destruct e; [discriminate|]. intros E. injection E as <-. exists ha, sa. repeat split.
Qed.

(* the signature element Sign appends *)
Definition new_sig (st : sst) : node := match s_sig st with Some (a, c) => Elem [] c_Signature a c | None => CharData [] end.

(* T: the reference digest is taken of the document with EVERY Signature child of the parent removed, whatever those
   children are, and the parent ends up with exactly these children plus the new Signature *)
Lemma xsign_digest_ignores_existing_signatures P ctx0 fs ps pt pa ch st :
  xsign P ctx0 fs ps pt pa ch = Ok st ->
  ref_octets st = relic_c14n ctx0 (plug fs (Elem ps pt pa (strip_sigs ch)))
  /\ out_parent ps pt pa st = Elem ps pt pa (strip_sigs ch ++ [new_sig st])
  /\ is_sig_child (new_sig st) = true.
Proof.
  intros H. apply xsign_ok_inv in H as (ha & sa & _ & _ & ->).
  unfold ref_octets, out_parent, cur_parent, sig_child, new_sig. cbn [s_ref s_sig s_ch].
  destruct xs_tags as (_ & -> & _). repeat split.
Qed.

Lemma xsign_depends_on_stripped P ctx0 fs ps pt pa ch ch' :
  strip_sigs ch = strip_sigs ch' -> xsign P ctx0 fs ps pt pa ch = xsign P ctx0 fs ps pt pa ch'.
Proof. intros E. rewrite !xsign_is_ref. unfold xsign_ref. rewrite E. reflexivity. Qed.

(* documents that differ only in Signature children of the signing parent get the same digest — in particular a stale or
   foreign signature cannot influence it *)
Lemma xsign_same_digest_when_only_signatures_differ P P' ctx0 fs ps pt pa ch ch' st st' :
  strip_sigs ch = strip_sigs ch' ->
  xsign P ctx0 fs ps pt pa ch = Ok st -> xsign P' ctx0 fs ps pt pa ch' = Ok st' -> ref_octets st' = ref_octets st.
Proof.
  intros E H1 H2. apply xsign_digest_ignores_existing_signatures in H1 as (-> & _). apply xsign_digest_ignores_existing_signatures in H2 as (-> & _).
  rewrite E. reflexivity.
Qed.

(* signing what Sign returned, with any key, digest algorithm and options: the same octets are digested *)
Lemma xsign_resign_same_digest P P' ctx0 fs ps pt pa ch st st' :
  xsign P ctx0 fs ps pt pa ch = Ok st ->
  xsign P' ctx0 fs ps pt pa (echildren (out_parent ps pt pa st)) = Ok st' ->
  ref_octets st' = ref_octets st /\ s_ch st' = s_ch st.
Proof.
  intros H1 H2. pose proof (xsign_digest_ignores_existing_signatures _ _ _ _ _ _ _ _ H1) as (R1 & O1 & S1).
  pose proof (xsign_digest_ignores_existing_signatures _ _ _ _ _ _ _ _ H2) as (R2 & _ & _).
  assert (E : strip_sigs (echildren (out_parent ps pt pa st)) = strip_sigs ch).
  { rewrite O1. cbn [echildren]. rewrite strip_sigs_app, strip_sigs_idem. unfold strip_sigs at 2. cbn [filter]. rewrite S1. cbn [negb]. apply app_nil_r. }
  split; [rewrite R1, R2, E; reflexivity|].
  apply xsign_ok_inv in H1 as (? & ? & _ & _ & ->). apply xsign_ok_inv in H2 as (? & ? & _ & _ & ->). cbn [s_ch]. exact E.
Qed.

(* ================================================================== paths into a document with a distinguished parent *)
Lemma find_kids_unique f q y : forall l i r,
  (forall c, In c l -> qmatch q c = false) -> (forall c, In c r -> qmatch q c = false) -> qmatch q y = true ->
  find_kids f q i (l ++ y :: r) = map (cons (i + List.length l)%nat) (f y).
Proof.
  induction l as [|c l IH]; intros i r Hl Hr Hy.
  - cbn [app find_kids List.length]. rewrite Hy, Nat.add_0_r.
    assert (E : find_kids f q (S i) r = []).
    { clear -Hr. revert i. induction r as [|c r IH]; intros i; [reflexivity|]. cbn [find_kids]. rewrite (Hr c) by (left; reflexivity).
      cbn [app]. apply IH. intros c' Hc'. apply Hr. right. exact Hc'. }
    rewrite E. apply app_nil_r.
  - cbn [app find_kids List.length]. rewrite (Hl c) by (left; reflexivity). cbn [app].
    rewrite IH; [|intros c' Hc'; apply Hl; right; exact Hc' | exact Hr | exact Hy].
    f_equal. f_equal. lia.
Qed.

(* the tags leading from root down to the parent (root's own tag excluded) *)
Fixpoint down_steps (fs : list frame) (pt : bytes) : list bytes :=
  match fs with
  | [] => []
  | _ :: rest => (match rest with [] => pt | r :: _ => f_tag r end) :: down_steps rest pt
  end.
Lemma down_steps_eq f inner pt : down_steps (f :: inner) pt = map f_tag inner ++ [pt].
Proof.
  revert f. induction inner as [|g inner IH]; intros f; [reflexivity|].
  change (down_steps (f :: g :: inner) pt) with (f_tag g :: down_steps (g :: inner) pt). rewrite IH. reflexivity.
Qed.
Lemma sig_steps_eq fs pt : sig_steps fs pt = map any_tag (down_steps fs pt) ++ [any_tag c_Signature].
Proof.
  destruct xs_tags as (_ & E & _). destruct fs as [|f inner]; unfold sig_steps; rewrite E; [reflexivity|].
  rewrite down_steps_eq, map_app, map_map, <- app_assoc. reflexivity.
Qed.

(* the route from root to the parent is unambiguous: no sibling along the way carries the tag of the next step *)
Definition top_tag (fs : list frame) (pt : bytes) : bytes := match fs with [] => pt | f :: _ => f_tag f end.
Fixpoint route_ok (fs : list frame) (pt : bytes) : bool :=
  match fs with
  | [] => true
  | f :: rest => forallb (fun c => negb (qmatch (any_tag (top_tag rest pt)) c)) (f_left f ++ f_right f) && route_ok rest pt
  end.

Lemma etag_plug fs ps pt pa ch : etag (plug fs (Elem ps pt pa ch)) = top_tag fs pt.
Proof. destruct fs; reflexivity. Qed.
Lemma qmatch_any_tag t n : is_elem n = true -> qmatch (any_tag t) n = bytes_eqb t (etag n).
Proof. destruct n; try discriminate. intros _. reflexivity. Qed.
Lemma is_elem_plug fs ps pt pa ch : is_elem (plug fs (Elem ps pt pa ch)) = true.
Proof. destruct fs; reflexivity. Qed.

Lemma find_plug ps pt pa tail : forall fs ch,
  route_ok fs pt = true ->
  find_paths (map any_tag (down_steps fs pt) ++ tail) (plug fs (Elem ps pt pa ch))
  = map (app (frames_path fs)) (find_paths tail (Elem ps pt pa ch)).
Proof.
  induction fs as [|f rest IH]; intros ch Hr.
  - cbn [down_steps map app plug fold_right frames_path]. rewrite map_id. reflexivity.
  - cbn [route_ok] in Hr. apply andb_true_iff in Hr as [Hs Hr].
    cbn [down_steps map app plug fold_right]. fold (plug rest (Elem ps pt pa ch)).
    unfold plug1 at 1. cbn [find_paths echildren].
    rewrite forallb_forall in Hs.
    rewrite find_kids_unique.
    + rewrite IH by exact Hr. rewrite map_map. cbn [frames_path map]. apply map_ext. intros p. reflexivity.
    + intros c Hc. specialize (Hs c (in_or_app _ _ _ (or_introl Hc))). apply negb_true_iff in Hs.
      destruct rest; exact Hs.
    + intros c Hc. specialize (Hs c (in_or_app _ _ _ (or_intror Hc))). apply negb_true_iff in Hs.
      destruct rest; exact Hs.
    + rewrite qmatch_any_tag by apply is_elem_plug. rewrite etag_plug.
      destruct rest; apply beq_refl.
Qed.

Lemma nth_error_mid {A} (l : list A) y r : nth_error (l ++ y :: r) (List.length l) = Some y.
Proof. induction l; [reflexivity | exact IHl]. Qed.
Lemma get_at_plug n p : forall fs ctx,
  get_at (frames_path fs ++ p) ctx (plug fs n) = get_at p (frames_ctx fs ++ ctx) n.
Proof.
  induction fs as [|f rest IH]; intros ctx; [reflexivity|].
  cbn [frames_path map app plug fold_right]. fold (plug rest n). unfold plug1 at 1. cbn [get_at echildren eattrs].
  rewrite nth_error_mid. fold (frames_path rest). rewrite IH. unfold frames_ctx. cbn [map rev]. rewrite <- app_assoc. reflexivity.
Qed.

Lemma map_nth_mid {A} (g : A -> A) (l : list A) y r : map_nth (List.length l) g (l ++ y :: r) = l ++ g y :: r.
Proof. induction l; [reflexivity|]. cbn [List.length app map_nth]. rewrite IHl. reflexivity. Qed.
Lemma remove_at_plug s t a c i : forall fs,
  remove_at (frames_path fs ++ [i]) (plug fs (Elem s t a c)) = plug fs (Elem s t a (drop_nth i c)).
Proof.
  induction fs as [|f rest IH]; [reflexivity|].
  cbn [frames_path map app plug fold_right]. fold (plug rest (Elem s t a c)) (plug rest (Elem s t a (drop_nth i c))) (frames_path rest).
  unfold plug1. 
  assert (E : forall x n, remove_at (x :: frames_path rest ++ [i]) n
                          = match n with Elem s' t' a' c' => Elem s' t' a' (map_nth x (remove_at (frames_path rest ++ [i])) c') | _ => n end).
  { intros x n. destruct (frames_path rest ++ [i]) eqn:E; [destruct (frames_path rest); discriminate|]. reflexivity. }
  rewrite E, map_nth_mid, IH. reflexivity.
Qed.
Lemma drop_nth_last {A} (l : list A) y : drop_nth (List.length l) (l ++ [y]) = l.
Proof.
  unfold drop_nth. rewrite firstn_app, Nat.sub_diag, firstn_all. cbn [firstn]. rewrite app_nil_r.
  replace (skipn (S (List.length l)) (l ++ [y])) with (@nil A); [apply app_nil_r|].
  symmetry. apply skipn_all2. rewrite app_length. cbn. lia.
Qed.

(* ================================================================== algorithm names: what hashAlgs writes, parseAlgs reads back *)
Definition pub_name (kk : Z) : bytes := if kk =? 0 then [114; 115; 97] else [101; 99; 100; 115; 97].   (* "rsa" / "ecdsa" *)
Lemma hash_algs_domain h kk ms ha sa : hash_algs h kk ms = (ha, sa, false) -> In h [3; 4; 5; 6; 7] /\ In kk [0; 1].
Proof.
  unfold hash_algs, hash_names, ha_pub_names. cbn [assoc find fst].
  destruct (h =? 3) eqn:E3; [apply Z.eqb_eq in E3|]; [|destruct (h =? 4) eqn:E4; [apply Z.eqb_eq in E4|]; [|destruct (h =? 5) eqn:E5; [apply Z.eqb_eq in E5|];
    [|destruct (h =? 6) eqn:E6; [apply Z.eqb_eq in E6|]; [|destruct (h =? 7) eqn:E7; [apply Z.eqb_eq in E7|]]]]].
  all: try (cbn; discriminate).
  all: subst h; destruct (0 =? kk) eqn:K0; [apply Z.eqb_eq in K0|destruct (1 =? kk) eqn:K1; [apply Z.eqb_eq in K1|]]; try (cbn; discriminate);
    subst kk; intros _; cbn; tauto.
Qed.
Lemma algs_roundtrip h kk ms ha sa : hash_algs h kk ms = (ha, sa, false) -> parse_algs ha sa = Ok (h, pub_name kk).
Proof.
  intros H. destruct (hash_algs_domain _ _ _ _ _ H) as [Hh Hk].
  cbn [In] in Hh, Hk.
  destruct Hh as [<-|[<-|[<-|[<-|[<-|[]]]]]]; destruct Hk as [<-|[<-|[]]]; destruct ms; vm_compute in H; injection H as <- <-; vm_compute; reflexivity.
Qed.
(* an unsupported digest or key type is refused, never signed *)
Lemma hash_algs_refuses h kk ms : (~ In h [3; 4; 5; 6; 7] \/ ~ In kk [0; 1]) -> snd (hash_algs h kk ms) = true.
Proof.
  intros Hn. destruct (hash_algs h kk ms) as [[ha sa] e] eqn:E. destruct e; [reflexivity|].
  apply hash_algs_domain in E. tauto.
Qed.

(* ================================================================== the namespace context only matters through its declarations *)
Definition nodecl (a : attr) : bool := negb (snd (get_decl (a3_space a) (a3_key a))).
Lemma collect_attr_nodecl m a : nodecl a = true -> collect_attr m a = m.
Proof.
  unfold nodecl, collect_attr. destruct (get_decl (a3_space a) (a3_key a)) as [sp isd]. cbn [snd]. intros E.
  apply negb_true_iff in E. subst isd. reflexivity.
Qed.
Lemma collect_attrs_nodecl l : forall m, forallb nodecl l = true -> fold_left collect_attr l m = m.
Proof.
  induction l as [|a l IH]; intros m H; [reflexivity|]. cbn [forallb] in H. apply andb_true_iff in H as [Ha Hl].
  cbn [fold_left]. rewrite collect_attr_nodecl by exact Ha. apply IH. exact Hl.
Qed.
Definition ctx_nodecl (ctx : list (list attr)) : bool := forallb (forallb nodecl) ctx.
Lemma collect_from_nodecl ctx : forall m, ctx_nodecl ctx = true -> collect_from m ctx = m.
Proof.
  induction ctx as [|a ctx IH]; intros m H; [reflexivity|]. cbn [ctx_nodecl forallb] in H. apply andb_true_iff in H as [Ha Hc].
  unfold collect_from. cbn [fold_left]. rewrite collect_attrs_nodecl by exact Ha. apply IH. exact Hc.
Qed.
Lemma collect_spaces_app c1 c2 : collect_spaces (c1 ++ c2) = collect_from (collect_spaces c1) c2.
Proof. unfold collect_spaces, collect_from. apply fold_left_app. Qed.
Lemma collect_spaces_cons_app a xa ctx : forallb nodecl xa = true -> collect_spaces ((a ++ xa) :: ctx) = collect_spaces (a :: ctx).
Proof.
  intros H. unfold collect_spaces. cbn [fold_left]. rewrite fold_left_app, (collect_attrs_nodecl xa) by exact H. reflexivity.
Qed.
Lemma relic_c14n_ctx c1 c2 n : collect_spaces c1 = collect_spaces c2 -> relic_c14n c1 n = relic_c14n c2 n.
Proof. intros E. unfold relic_c14n, relic_tree, pull_down. rewrite E. reflexivity. Qed.
Lemma relic_c14n_nodecl ctx n : ctx_nodecl ctx = true -> relic_c14n ctx n = relic_c14n [] n.
Proof.
  intros H. apply relic_c14n_ctx. change ctx with ([] ++ ctx). rewrite collect_spaces_app. apply collect_from_nodecl. exact H.
Qed.
Lemma relic_c14n_tail_nodecl c1 ctx0 n : ctx_nodecl ctx0 = true -> relic_c14n (c1 ++ ctx0) n = relic_c14n c1 n.
Proof.
  intros H. apply relic_c14n_ctx. rewrite collect_spaces_app. apply collect_from_nodecl. exact H.
Qed.

(* ================================================================== Verify on what Sign built, possibly decorated afterwards *)
(* appmanifest adds Id attributes to Signature and KeyInfo and appends msrel:RelData to KeyInfo after signing *)
Definition keymat (c : node) : bool := is_elem c && (bytes_eqb (etag c) c_KeyValue || bytes_eqb (etag c) c_X509Data).
Definition deco_sig (P : sigparams) (si : node) (si_oct : bytes) (xa ka : list attr) (kx : list node) : node :=
  Elem [] c_Signature (sig_attrs0 ++ xa)
    ([si; el c_SignatureValue [] [CharData (sp_sig_text P si_oct)]]
     ++ (if fin_attach_cond (zlen (keyinfo_kids P)) then [Elem [] c_KeyInfo ka (keyinfo_kids P ++ kx)] else [])).
Definition key_mat_of (P : sigparams) : list node :=
  if fin_attach_cond (zlen (keyinfo_kids P)) then filter keymat (keyinfo_kids P) else [].

Lemma deco_plain P si si_oct : deco_sig P si si_oct [] [] [] = Elem [] c_Signature sig_attrs0 (sig_kids P si si_oct).
Proof.
  unfold deco_sig, sig_kids, el. rewrite !app_nil_r. reflexivity.
Qed.

Lemma parse_sig_built ha sa dv c14n svel rest :
  parse_sig (signed_info [] ha sa dv c14n :: svel :: rest)
  = VFields c14n sa [] [alg_enveloped; c14n] ha dv (txt_of (child_el c_SignatureValue (svel :: rest))).
Proof.
  unfold parse_sig. change (child_el c_SignedInfo (signed_info [] ha sa dv c14n :: svel :: rest)) with (Some (signed_info [] ha sa dv c14n)).
  change (child_el c_SignatureValue (signed_info [] ha sa dv c14n :: svel :: rest)) with (child_el c_SignatureValue (svel :: rest)).
  f_equal. cbn. apply app_nil_r.
Qed.

Lemma nodecl_not_nsdecl a : nodecl a = negb (is_nsdecl a).
Proof. unfold nodecl. rewrite get_decl_spec. reflexivity. Qed.
Lemma own_decls_nodecl xa : forallb nodecl xa = true -> own_decls xa = [].
Proof.
  intros H. unfold own_decls. rewrite filter_none; [reflexivity|]. intros a Ha.
  rewrite forallb_forall in H. specialize (H a Ha). rewrite nodecl_not_nsdecl in H. apply negb_true_iff in H. exact H.
Qed.
Lemma own_decls_app a b : own_decls (a ++ b) = own_decls a ++ own_decls b.
Proof. unfold own_decls. rewrite filter_app, map_app. reflexivity. Qed.
Lemma is_sig_child_qmatch c : qmatch (any_tag c_Signature) c = is_sig_child c.
Proof. destruct c; try reflexivity. unfold qmatch, any_tag, is_sig_child. cbn [fst snd space_match is_elem etag andb]. apply beq_sym. Qed.

Lemma c14n_ns_ok r : xv_bad_c14n (c14n_ns r) = false /\ xv_bad_env_transforms 2 alg_enveloped (c14n_ns r) = false.
Proof. destruct r; split; vm_compute; reflexivity. Qed.

Lemma key_material_deco P si svel ka kx :
  forallb (fun c => negb (keymat c)) kx = true ->
  key_material (si :: svel :: (if fin_attach_cond (zlen (keyinfo_kids P)) then [Elem [] c_KeyInfo ka (keyinfo_kids P ++ kx)] else []))
  = (if bytes_eqb (etag si) c_KeyInfo && is_elem si then key_material [si] else
     if bytes_eqb (etag svel) c_KeyInfo && is_elem svel then key_material [svel] else key_mat_of P).
Proof.
  intros Hk. unfold key_material, key_mat_of, child_el. cbn [find].
  rewrite (andb_comm (is_elem si)), (andb_comm (is_elem svel)).
  destruct (bytes_eqb (etag si) c_KeyInfo && is_elem si); [reflexivity|].
  destruct (bytes_eqb (etag svel) c_KeyInfo && is_elem svel); [reflexivity|].
  destruct (fin_attach_cond (zlen (keyinfo_kids P))); [|reflexivity].
  cbn [find is_elem etag andb]. rewrite beq_refl. cbn [echildren]. rewrite filter_app.
  replace (filter _ kx) with (@nil node); [rewrite app_nil_r; reflexivity|].
  symmetry. apply filter_none. intros c Hc. rewrite forallb_forall in Hk. specialize (Hk c Hc). apply negb_true_iff in Hk. exact Hk.
Qed.

Lemma verify_struct_built P fs ps pt pa chN ha sa dv si_oct xa ka kx :
  route_ok fs pt = true ->
  forallb (fun c => negb (is_sig_child c)) chN = true ->
  hash_algs (sp_hash P) (sp_keykind P) (sp_ms P) = (ha, sa, false) ->
  forallb nodecl xa = true -> forallb (fun c => negb (keymat c)) kx = true ->
  let si := signed_info [] ha sa dv (c14n_ns (sp_rec P)) in
  verify_struct (plug fs (Elem ps pt pa (chN ++ [deco_sig P si si_oct xa ka kx]))) (sig_steps fs pt)
  = Ok (VResult (sp_hash P) (pub_name (sp_keykind P)) (key_mat_of P)
          (relic_c14n ((sig_attrs0 ++ xa) :: pa :: frames_ctx fs) si) (sp_sig_text P si_oct)
          (relic_c14n [] (plug fs (Elem ps pt pa chN))) dv (frames_path fs ++ [List.length chN])).
Proof.
  intros Hroute Hno Halg Hxa Hkx si.
  unfold verify_struct. rewrite xv_ok_true. cbn [negb].
  rewrite sig_steps_eq, find_plug by exact Hroute.
  cbn [find_paths echildren].
  rewrite find_kids_unique.
  2:{ intros c Hc. rewrite is_sig_child_qmatch. rewrite forallb_forall in Hno. specialize (Hno c Hc). apply negb_true_iff in Hno. exact Hno. }
  2:{ intros c []. }
  2:{ reflexivity. }
  cbn [map Nat.add app].
  change (xv_none (zlen [frames_path fs ++ [List.length chN]])) with false.
  change (xv_multi (zlen [frames_path fs ++ [List.length chN]])) with false. cbn iota.
  rewrite get_at_plug. cbn [get_at echildren eattrs]. rewrite nth_error_mid. rewrite app_nil_r.
  unfold deco_sig at 1.
  set (kids := [si; el c_SignatureValue [] [CharData (sp_sig_text P si_oct)]] ++ _).
  assert (Hname : sig_name_ok (pa :: frames_ctx fs) (Elem [] c_Signature (sig_attrs0 ++ xa) kids) = true).
  { unfold sig_name_ok. cbn [etag eattrs espace]. rewrite beq_refl. cbn [andb].
    rewrite own_decls_app, (own_decls_nodecl xa) by exact Hxa. rewrite app_nil_r. reflexivity. }
  rewrite Hname. cbn [negb].
  subst kids si. cbn [app]. rewrite parse_sig_built. cbn [v_cm v_sm v_uri v_transforms v_dm v_dv v_sv].
  destruct (c14n_ns_ok (sp_rec P)) as [Hc Ht]. rewrite Hc.
  rewrite (algs_roundtrip _ _ _ _ _ Halg).
  change (child_el c_SignedInfo (signed_info [] ha sa dv (c14n_ns (sp_rec P)) :: _)) with (Some (signed_info [] ha sa dv (c14n_ns (sp_rec P)))). cbn iota.
  change (xv_enveloped []) with true. cbn iota.
  change (zlen [alg_enveloped; c14n_ns (sp_rec P)]) with 2. cbn [nth]. rewrite Ht.
  replace (xv_no_parent match frames_path fs ++ [List.length chN] with [] => true | _ :: _ => false end) with false
    by (destruct (frames_path fs); reflexivity).
  rewrite remove_at_plug, drop_nth_last.
  unfold canon_octets. rewrite hc_ok_true.
  rewrite key_material_deco by exact Hkx.
  replace (bytes_eqb (etag (signed_info [] ha sa dv (c14n_ns (sp_rec P)))) c_KeyInfo) with false by reflexivity.
  replace (bytes_eqb (etag (el c_SignatureValue [] [CharData (sp_sig_text P si_oct)])) c_KeyInfo) with false by reflexivity.
  cbn [andb].
  replace (txt_of (child_el c_SignatureValue (el c_SignatureValue [] [CharData (sp_sig_text P si_oct)] :: _))) with (sp_sig_text P si_oct);
    [reflexivity|].
  unfold child_el. cbn [find el is_elem etag andb]. rewrite beq_refl. cbn [txt_of text_of echildren flat_map]. symmetry. apply app_nil_r.
Qed.

(* ================================================================== verify (sign doc) accepts *)
Section Crypto.
  Variable Hf : Z -> bytes -> bytes.                      (* the digest functions *)
  Variable b64e : bytes -> bytes.
  Variable b64d : bytes -> option bytes.
  Variable sig_ok : list node -> Z -> bytes -> bytes -> bytes -> bool.
  Hypothesis b64_roundtrip : forall x, b64d (b64e x) = Some x.
  Definition C : vcrypto := VCrypto Hf b64d sig_ok.
  (* the signer: DigestValue text is base64 of the digest; the signature value it produces over some octets verifies
     under the key material it writes into KeyInfo (RSA / ECDSA correctness, Pack / Unpack, addKeyInfo / parseKey) *)
  Definition signer_ok (P : sigparams) : Prop :=
    (forall o, sp_digest_text P o = b64e (Hf (sp_hash P) o)) /\
    (forall o, sig_ok (key_mat_of P) (sp_hash P) (pub_name (sp_keykind P)) o (sp_sig_text P o) = true).

  Definition the_si (st : sst) : node := match s_si st with Some si => si | None => CharData [] end.

  Lemma out_root_plain P fs ps pt pa st ctx0 ch :
    xsign P ctx0 fs ps pt pa ch = Ok st ->
    out_root fs ps pt pa st = plug fs (Elem ps pt pa (s_ch st ++ [deco_sig P (the_si st) (s_si_octets st) [] [] []])).
  Proof.
    intros H. apply xsign_ok_inv in H as (ha & sa & _ & _ & ->).
    unfold out_root, cur_root, cur_parent, sig_child, the_si. cbn [s_sig s_ch s_si s_si_octets].
    rewrite deco_plain. destruct xs_tags as (_ & -> & _). reflexivity.
  Qed.

  Theorem verify_accepts_xsign P ctx0 fs ps pt pa ch st xa ka kx :
    signer_ok P -> ctx_nodecl ctx0 = true -> route_ok fs pt = true ->
    xsign P ctx0 fs ps pt pa ch = Ok st ->
    forallb nodecl xa = true -> forallb (fun c => negb (keymat c)) kx = true ->
    exists r,
      verify C (plug fs (Elem ps pt pa (s_ch st ++ [deco_sig P (the_si st) (s_si_octets st) xa ka kx]))) (sig_steps fs pt) = Ok r
      /\ vr_ref_octets r = ref_octets st
      /\ vr_dv r = sp_digest_text P (ref_octets st)
      /\ vr_sigpath r = frames_path fs ++ [List.length (s_ch st)]
      /\ vr_hash r = sp_hash P.
  Proof.
    intros [Hdig Hsig] Hctx Hroute H Hxa Hkx.
    apply xsign_ok_inv in H as (ha & sa & _ & Halg & ->).
    unfold the_si, ref_octets. cbn [s_ch s_si s_si_octets s_ref].
    set (oct := relic_c14n ctx0 (plug fs (Elem ps pt pa (strip_sigs ch)))).
    set (si := signed_info [] ha sa (sp_digest_text P oct) (c14n_ns (sp_rec P))).
    set (si_oct := relic_c14n (sig_attrs0 :: pa :: frames_ctx fs ++ ctx0) si).
    pose proof (verify_struct_built P fs ps pt pa (strip_sigs ch) ha sa (sp_digest_text P oct) si_oct xa ka kx Hroute (strip_sigs_none ch) Halg Hxa Hkx) as V.
    cbv zeta in V. fold si in V.
    eexists. split.
    - unfold verify. rewrite V. cbn [vr_key vr_hash vr_pubtype vr_si_octets vr_sv vr_ref_octets vr_dv C vc_sig_ok vc_hash vc_b64d].
      assert (E1 : relic_c14n ((sig_attrs0 ++ xa) :: pa :: frames_ctx fs) si = si_oct).
      { subst si_oct. change (sig_attrs0 :: pa :: frames_ctx fs ++ ctx0) with ((sig_attrs0 :: pa :: frames_ctx fs) ++ ctx0).
        rewrite relic_c14n_tail_nodecl by exact Hctx. apply relic_c14n_ctx. apply collect_spaces_cons_app. exact Hxa. }
      rewrite E1, Hsig. cbn [negb].
      assert (E2 : relic_c14n [] (plug fs (Elem ps pt pa (strip_sigs ch))) = oct).
      { subst oct. symmetry. apply relic_c14n_nodecl. exact Hctx. }
      rewrite E2, Hdig, b64_roundtrip.
      unfold xv_bad_digest_len, xv_digest_differs. rewrite Z.eqb_refl, beq_refl. cbn [negb orb]. reflexivity.
    - cbn [vr_ref_octets vr_dv vr_sigpath vr_hash].
      split; [first [reflexivity | symmetry; apply relic_c14n_nodecl; exact Hctx]|].
      split; [rewrite ?Hdig; reflexivity|]. split; reflexivity.
  Qed.
End Crypto.

(* ================================================================== the digest is the one the declared transforms define *)
Lemma firstn_mid {A} (l : list A) y r : firstn (List.length l) (l ++ y :: r) = l.
Proof. rewrite firstn_app, Nat.sub_diag, firstn_all. cbn [firstn]. apply app_nil_r. Qed.
Lemma skipn_mid {A} (l : list A) y r : skipn (List.length l + 1) (l ++ y :: r) = r.
Proof. induction l; [reflexivity | exact IHl]. Qed.
Lemma spec_drop_plug s t a c i : forall fs,
  spec_drop (frames_path fs ++ [i]) (plug fs (Elem s t a c)) = plug fs (Elem s t a (firstn i c ++ skipn (i + 1) c)).
Proof.
  induction fs as [|f rest IH]; [reflexivity|].
  cbn [frames_path map app plug fold_right]. fold (plug rest (Elem s t a c)) (plug rest (Elem s t a (firstn i c ++ skipn (i + 1) c))) (frames_path rest).
  unfold plug1.
  assert (E : forall x s' t' a' c', spec_drop (x :: frames_path rest ++ [i]) (Elem s' t' a' c')
              = Elem s' t' a' (firstn x c' ++ match nth_error c' x with Some y => [spec_drop (frames_path rest ++ [i]) y] | None => [] end ++ skipn (x + 1) c')).
  { intros. destruct (frames_path rest ++ [i]) eqn:E; [destruct (frames_path rest); discriminate|]. reflexivity. }
  rewrite E, firstn_mid, nth_error_mid, skipn_mid, IH. reflexivity.
Qed.
Lemma firstn_skipn_last {A} (l : list A) y : firstn (List.length l) (l ++ [y]) ++ skipn (List.length l + 1) (l ++ [y]) = l.
Proof. rewrite firstn_mid, skipn_mid. apply app_nil_r. Qed.

Theorem xsign_digest_is_declared P ctx0 fs ps pt pa ch st :
  xsign P ctx0 fs ps pt pa ch = Ok st -> ctx_nodecl ctx0 = true ->
  inK [] (plug fs (Elem ps pt pa (strip_sigs ch))) = true ->
  ref_octets st = spec_enveloped_octets (out_root fs ps pt pa st) (frames_path fs ++ [List.length (s_ch st)]).
Proof.
  intros H Hctx HK.
  pose proof (xsign_digest_ignores_existing_signatures _ _ _ _ _ _ _ _ H) as (R & O & _).
  assert (Hch : s_ch st = strip_sigs ch) by (apply xsign_ok_inv in H as (? & ? & _ & _ & ->); reflexivity).
  rewrite R, relic_c14n_nodecl by exact Hctx. rewrite relic_eq_spec_on_K by exact HK.
  unfold spec_enveloped_octets. f_equal.
  unfold out_root, cur_root. fold (out_parent ps pt pa st). rewrite O, Hch, spec_drop_plug, firstn_skipn_last. reflexivity.
Qed.

(* ================================================================== appmanifest.Sign *)
Lemma update_first_none p f l : (forall c, In c l -> p c = false) -> update_first p f l = l.
Proof.
  induction l as [|c l IH]; intros H; [reflexivity|]. cbn [update_first]. rewrite (H c) by (left; reflexivity).
  f_equal. apply IH. intros c' Hc'. apply H. right. exact Hc'.
Qed.
Lemma update_first_hit p f l y r : (forall c, In c l -> p c = false) -> p y = true -> update_first p f (l ++ y :: r) = l ++ f y :: r.
Proof.
  induction l as [|c l IH]; intros H Hy; cbn [app update_first]; [rewrite Hy; reflexivity|].
  rewrite (H c) by (left; reflexivity). f_equal. apply IH; [|exact Hy]. intros c' Hc'. apply H. right. exact Hc'.
Qed.
Lemma update_first_app_l p f l r : existsb p l = true -> update_first p f (l ++ r) = update_first p f l ++ r.
Proof.
  induction l as [|c l IH]; intros H; [discriminate|]. cbn [app update_first]. cbn [existsb] in H.
  destruct (p c); [reflexivity|]. cbn [orb] in H. cbn [app]. f_equal. apply IH. exact H.
Qed.
Lemma update_first_filter p f q l :
  (forall c, p c = true -> q c = true) -> (forall c, q (f c) = q c) ->
  update_first p f (filter q l) = filter q (update_first p f l).
Proof.
  intros Hpq Hqf. induction l as [|c l IH]; [reflexivity|]. cbn [filter update_first].
  destruct (p c) eqn:Ep.
  - rewrite (Hpq c Ep). cbn [update_first filter]. rewrite Ep, Hqf, (Hpq c Ep). reflexivity.
  - destruct (q c) eqn:Eq; cbn [update_first filter]; rewrite ?Ep, ?Eq, IH; reflexivity.
Qed.
Lemma update_first_idem p f l :
  (forall c, p c = true -> p (f c) = true) -> (forall c, p c = true -> f (f c) = f c) ->
  update_first p f (update_first p f l) = update_first p f l.
Proof.
  intros Hp Hf. induction l as [|c l IH]; [reflexivity|]. cbn [update_first]. destruct (p c) eqn:E; cbn [update_first].
  - rewrite (Hp c E), (Hf c E). reflexivity.
  - rewrite E, IH. reflexivity.
Qed.
Lemma existsb_update_first p f l : (forall c, p c = true -> p (f c) = true) -> existsb p (update_first p f l) = existsb p l.
Proof.
  intros Hp. induction l as [|c l IH]; [reflexivity|]. cbn [update_first existsb]. destruct (p c) eqn:E; cbn [existsb].
  - rewrite (Hp c E). reflexivity.
  - rewrite E, IH. reflexivity.
Qed.
Lemma existsb_filter_keep {A} (p q : A -> bool) l : (forall c, p c = true -> q c = true) -> existsb p (filter q l) = existsb p l.
Proof.
  intros H. induction l as [|c l IH]; [reflexivity|]. cbn [filter existsb]. destruct (q c) eqn:E; cbn [existsb]; rewrite IH; [reflexivity|].
  destruct (p c) eqn:Ep; [rewrite (H c Ep) in E; discriminate | reflexivity].
Qed.
Lemma filter_comm {A} (p q : A -> bool) l : filter p (filter q l) = filter q (filter p l).
Proof.
  induction l as [|c l IH]; [reflexivity|]. cbn [filter]. destruct (q c) eqn:Eq, (p c) eqn:Ep; cbn [filter]; rewrite ?Eq, ?Ep, IH; reflexivity.
Qed.
Lemma filter_idem {A} (p : A -> bool) l : filter p (filter p l) = filter p l.
Proof. induction l as [|c l IH]; [reflexivity|]. cbn [filter]. destruct (p c) eqn:E; cbn [filter]; rewrite ?E, IH; reflexivity. Qed.
Lemma find_existsb {A} (p : A -> bool) l : existsb p l = match find p l with Some _ => true | None => false end.
Proof. induction l as [|c l IH]; [reflexivity|]. cbn [existsb find]. destruct (p c); [reflexivity | exact IH]. Qed.

(* CreateAttr twice with the same key and value is CreateAttr once *)
Lemma replace_val_fix sp sk v : forall a l, replace_val sp sk v a = Some l -> replace_val sp sk v l = Some l.
Proof.
  induction a as [|x a IH]; intros l H; [discriminate|]. cbn [replace_val] in H.
  destruct (bytes_eqb sp (a3_space x) && bytes_eqb sk (a3_key x)) eqn:E.
  - injection H as <-. cbn [replace_val]. unfold mkattr, a3_space, a3_key. cbn [fst snd]. rewrite !beq_refl. reflexivity.
  - destruct (replace_val sp sk v a) as [r'|] eqn:R; [|discriminate]. injection H as <-. cbn [replace_val]. rewrite E, (IH r' eq_refl). reflexivity.
Qed.
Lemma replace_val_appended sp sk v : forall a, replace_val sp sk v a = None -> replace_val sp sk v (a ++ [mkattr sp sk v]) = Some (a ++ [mkattr sp sk v]).
Proof.
  induction a as [|x a IH]; intros H.
  - cbn [app replace_val]. unfold mkattr, a3_space, a3_key. cbn [fst snd]. rewrite !beq_refl. reflexivity.
  - cbn [replace_val] in H. destruct (bytes_eqb sp (a3_space x) && bytes_eqb sk (a3_key x)) eqn:E; [discriminate|].
    destruct (replace_val sp sk v a) eqn:R; [discriminate|]. cbn [app replace_val]. rewrite E, (IH eq_refl). reflexivity.
Qed.
Lemma create_attr_idem k v a : create_attr k v (create_attr k v a) = create_attr k v a.
Proof.
  unfold create_attr. destruct (space_decompose k) as [sp sk]. destruct (replace_val sp sk v a) as [l|] eqn:R.
  - rewrite (replace_val_fix _ _ _ _ _ R). reflexivity.
  - rewrite (replace_val_appended _ _ _ _ R). reflexivity.
Qed.
Lemma set_attr_idem k v n : set_attr k v (set_attr k v n) = set_attr k v n.
Proof. destruct n; try reflexivity. cbn [set_attr]. rewrite create_attr_idem. reflexivity. Qed.
Lemma set_attr_tag k v n : etag (set_attr k v n) = etag n /\ espace (set_attr k v n) = espace n /\ is_elem (set_attr k v n) = is_elem n.
Proof. destruct n; repeat split. Qed.

Definition f_asi (I : identity) : node -> node := set_attr c_publicKeyToken (id_token I).
Definition notpub (c : node) : bool := negb (rm_hit c_publisherIdentity c).
Definition notsig (c : node) : bool := negb (is_sig_child c).
Definition pub_el (I : identity) : node :=
  Elem [] c_publisherIdentity [mkattr [] c_name (id_subject I); mkattr [] c_issuerKeyHash (id_issuer_hash I)] [].
(* the children of the manifest root after setAssemblyIdentity and setPublisherIdentity *)
Definition prep (I : identity) (ch : list node) : list node := filter notpub (update_first is_asi (f_asi I) ch) ++ [pub_el I].
(* what the primary signature covers *)
Definition am_content (I : identity) (ch : list node) : list node := strip_sigs (prep I ch).
Definition reldata_of (lic : node) : node := Elem c_msrel c_RelData [mkattr c_xmlns c_msrel ns_msrel] [lic].

Lemma set_publisher_prep I ch1 : set_publisher I ch1 = filter notpub ch1 ++ [pub_el I].
Proof. unfold set_publisher, remove_elements. rewrite rm_loop_shape_true. reflexivity. Qed.

Lemma am_sign_inv I P1 P2 mh rs rt ra ch o :
  am_sign I P1 P2 mh rs rt ra ch = Ok o ->
  exists asi st1 st2,
    find is_asi ch = Some asi /\
    xsign P1 [] [] rs rt ra (prep I ch) = Ok st1 /\
    let lf := license_frame (f_asi I asi) (id_subject I) (mh (sp_digest_text P1 (ref_octets st1))) in
    xsign P2 [] [lf] c_r c_issuer [] [] = Ok st2 /\
    o = AmOut (Elem rs rt ra (set_sig_ids c_StrongNameSignature c_StrongNameKeyInfo
                                [reldata_of (plug [lf] (match out_parent c_r c_issuer [] st2 with
                                                        | Elem a b c d => Elem a b c (set_sig_ids c_AuthenticodeSignature [] [] d)
                                                        | x => x end))]
                                (echildren (out_parent rs rt ra st1)))) st1 st2.
Proof.
  unfold am_sign. rewrite am_ok_true. cbn [negb]. unfold set_asi.
  destruct (find is_asi ch) as [asi|] eqn:Fa; [|discriminate].
  rewrite set_publisher_prep. fold (f_asi I). fold (prep I ch).
  destruct (xsign P1 [] [] rs rt ra (prep I ch)) as [st1| |] eqn:X1; try discriminate.
  destruct (xsign P2 [] [license_frame (f_asi I asi) (id_subject I) (mh (sp_digest_text P1 (ref_octets st1)))] c_r c_issuer [] []) as [st2| |] eqn:X2; try discriminate.
  intros E. injection E as <-. exists asi, st1, st2. repeat split; assumption.
Qed.

(* T: the primary (strong-name) digest of a manifest covers the manifest with the identity fields of the signer and
   without ANY Signature child of the root — a manifest that was signed before gets the digest of its unsigned self *)
Lemma am_primary_digest I P1 P2 mh rs rt ra ch o :
  am_sign I P1 P2 mh rs rt ra ch = Ok o ->
  ref_octets (ao_primary o) = relic_c14n [] (Elem rs rt ra (am_content I ch)).
Proof.
  intros H. apply am_sign_inv in H as (asi & st1 & st2 & _ & X1 & _ & ->). cbn [ao_primary].
  apply xsign_digest_ignores_existing_signatures in X1 as (R & _). exact R.
Qed.

(* ---- signing a signed manifest again *)
Lemma is_asi_tag c : is_asi c = true -> is_elem c = true /\ etag c = c_assemblyIdentity.
Proof.
  destruct c; try discriminate. unfold is_asi, qmatch. cbn [fst snd qname_of]. change (space_decompose c_assemblyIdentity) with (@nil Z, c_assemblyIdentity).
  cbn [fst snd space_match andb]. intros E. apply beq_iff in E. split; [reflexivity | symmetry; exact E].
Qed.
Lemma is_asi_f I c : is_asi (f_asi I c) = is_asi c.
Proof. destruct c; reflexivity. Qed.
Lemma asi_notpub c : is_asi c = true -> notpub c = true.
Proof. intros H. apply is_asi_tag in H as [He Ht]. unfold notpub, rm_hit, rm_match. rewrite He, Ht. reflexivity. Qed.
Lemma asi_notsig c : is_asi c = true -> notsig c = true.
Proof. intros H. apply is_asi_tag in H as [He Ht]. unfold notsig, is_sig_child. rewrite He, Ht. reflexivity. Qed.
Lemma notpub_f I c : notpub (f_asi I c) = notpub c.
Proof. destruct c; reflexivity. Qed.
Lemma notsig_f I c : notsig (f_asi I c) = notsig c.
Proof. destruct c; reflexivity. Qed.
Lemma sig_notpub c : is_sig_child c = true -> notpub c = true.
Proof.
  unfold is_sig_child, notpub, rm_hit, rm_match. intros H. apply andb_true_iff in H as [He Ht]. apply beq_iff in Ht. rewrite He, Ht. reflexivity.
Qed.

Lemma am_content_shape I ch :
  am_content I ch = update_first is_asi (f_asi I) (filter notsig (filter notpub ch)) ++ [pub_el I].
Proof.
  unfold am_content, prep. rewrite strip_sigs_app. unfold strip_sigs at 2. cbn [filter]. change (negb (is_sig_child (pub_el I))) with true. cbn iota.
  f_equal. unfold strip_sigs. fold notsig.
  rewrite <- (update_first_filter is_asi (f_asi I) notpub) by (first [intros c Hc; apply asi_notpub; exact Hc | intros c; apply notpub_f]).
  rewrite <- (update_first_filter is_asi (f_asi I) notsig) by (first [intros c Hc; apply asi_notsig; exact Hc | intros c; apply notsig_f]).
  reflexivity.
Qed.

Lemma am_content_resign I ch S :
  existsb is_asi ch = true -> is_sig_child S = true ->
  am_content I (am_content I ch ++ [S]) = am_content I ch.
Proof.
  intros Hasi HS. rewrite (am_content_shape I (am_content I ch ++ [S])).
  rewrite !filter_app. cbn [filter]. rewrite (sig_notpub S HS). cbn [filter]. unfold notsig at 2. rewrite HS. cbn [negb]. rewrite app_nil_r.
  rewrite am_content_shape.
  set (Y := update_first is_asi (f_asi I) (filter notsig (filter notpub ch))).
  rewrite !filter_app. cbn [filter]. change (notpub (pub_el I)) with false. cbn iota. rewrite app_nil_r.
  assert (HY : filter notsig (filter notpub Y) = Y).
  { subst Y.
    rewrite <- (update_first_filter is_asi (f_asi I) notpub) by (first [intros c Hc; apply asi_notpub; exact Hc | intros c; apply notpub_f]).
    rewrite <- (update_first_filter is_asi (f_asi I) notsig) by (first [intros c Hc; apply asi_notsig; exact Hc | intros c; apply notsig_f]).
    f_equal. rewrite (filter_comm notpub notsig (filter notpub ch)), !filter_idem. reflexivity. }
  rewrite HY. f_equal. subst Y. apply update_first_idem.
  - intros c Hc. rewrite is_asi_f. exact Hc.
  - intros c _. apply set_attr_idem.
Qed.

Lemma is_sig_is_sig_child c : is_sig c = is_sig_child c.
Proof. unfold is_sig. change (qname_of c_Signature) with (any_tag c_Signature). apply is_sig_child_qmatch. Qed.

Definition id_attrs (cond : bytes -> bool) (v : bytes) : list attr := if cond v then [mkattr [] c_Id v] else [].
Lemma set_sig_ids_built P si oct sn kn kx X :
  forallb notsig X = true -> is_keyinfo si = false ->
  set_sig_ids sn kn kx (X ++ [Elem [] c_Signature sig_attrs0 (sig_kids P si oct)])
  = X ++ [deco_sig P si oct (id_attrs am_ids_sig_cond sn) (id_attrs am_ids_ki_cond kn) kx].
Proof.
  intros HX Eki.
  unfold set_sig_ids. rewrite update_first_hit.
  2:{ intros c Hc. rewrite is_sig_is_sig_child. rewrite forallb_forall in HX. specialize (HX c Hc). apply negb_true_iff in HX. exact HX. }
  2:{ reflexivity. }
  f_equal. f_equal. unfold deco_sig, id_attrs, sig_kids.
  assert (Hk : update_first is_keyinfo
                 (fun k => match (if am_ids_ki_cond kn then set_attr c_Id kn k else k) with Elem a b c d => Elem a b c (d ++ kx) | x => x end)
                 ([si; el c_SignatureValue [] [CharData (sp_sig_text P oct)]] ++
                  (if fin_attach_cond (zlen (keyinfo_kids P)) then [el c_KeyInfo [] (keyinfo_kids P)] else []))
               = [si; el c_SignatureValue [] [CharData (sp_sig_text P oct)]] ++
                 (if fin_attach_cond (zlen (keyinfo_kids P))
                  then [Elem [] c_KeyInfo (if am_ids_ki_cond kn then [mkattr [] c_Id kn] else []) (keyinfo_kids P ++ kx)] else [])).
  { cbn [app update_first]. rewrite Eki. change (is_keyinfo (el c_SignatureValue [] [CharData (sp_sig_text P oct)])) with false. cbn iota.
    destruct (fin_attach_cond (zlen (keyinfo_kids P))); [|reflexivity]. cbn [update_first].
    change (is_keyinfo (el c_KeyInfo [] (keyinfo_kids P))) with true. cbn iota.
    destruct (am_ids_ki_cond kn); reflexivity. }
  destruct (am_ids_sig_cond sn).
  - unfold sig_kids. cbn [set_attr]. change (create_attr c_Id sn sig_attrs0) with (sig_attrs0 ++ [mkattr [] c_Id sn]).
    rewrite Hk. reflexivity.
  - cbv iota beta. unfold sig_kids. rewrite Hk. rewrite app_nil_r. reflexivity.
Qed.

Lemma xsign_out_parent P ctx0 fs ps pt pa ch st :
  xsign P ctx0 fs ps pt pa ch = Ok st ->
  out_parent ps pt pa st = Elem ps pt pa (s_ch st ++ [Elem [] c_Signature sig_attrs0 (sig_kids P (the_si st) (s_si_octets st))])
  /\ s_ch st = strip_sigs ch /\ is_keyinfo (the_si st) = false.
Proof.
  intros H. apply xsign_ok_inv in H as (ha & sa & _ & _ & ->).
  unfold out_parent, cur_parent, sig_child, the_si. cbn [s_sig s_ch s_si s_si_octets]. destruct xs_tags as (_ & -> & _). repeat split.
Qed.

(* the manifest appmanifest.Sign returns: the covered content, then the decorated primary Signature *)
Definition sn_attrs : list attr := id_attrs am_ids_sig_cond c_StrongNameSignature.
Definition sk_attrs : list attr := id_attrs am_ids_ki_cond c_StrongNameKeyInfo.
Definition as_attrs : list attr := id_attrs am_ids_sig_cond c_AuthenticodeSignature.
Lemma am_sign_shape I P1 P2 mh rs rt ra ch o :
  am_sign I P1 P2 mh rs rt ra ch = Ok o ->
  exists asi,
    find is_asi ch = Some asi /\
    let st1 := ao_primary o in let st2 := ao_secondary o in
    let lf := license_frame (f_asi I asi) (id_subject I) (mh (sp_digest_text P1 (ref_octets st1))) in
    let lic := plug [lf] (Elem c_r c_issuer [] (s_ch st2 ++ [deco_sig P2 (the_si st2) (s_si_octets st2) as_attrs [] []])) in
    xsign P1 [] [] rs rt ra (prep I ch) = Ok st1 /\
    xsign P2 [] [lf] c_r c_issuer [] [] = Ok st2 /\
    s_ch st1 = am_content I ch /\ s_ch st2 = [] /\
    ao_root o = Elem rs rt ra (s_ch st1 ++ [deco_sig P1 (the_si st1) (s_si_octets st1) sn_attrs sk_attrs [reldata_of lic]]).
Proof.
  intros H. apply am_sign_inv in H as (asi & st1 & st2 & Fa & X1 & X2 & ->). exists asi. split; [exact Fa|].
  cbn [ao_primary ao_secondary ao_root]. cbv zeta in X2 |- *. split; [exact X1|]. split; [exact X2|].
  destruct (xsign_out_parent _ _ _ _ _ _ _ _ X1) as (O1 & C1 & K1).
  destruct (xsign_out_parent _ _ _ _ _ _ _ _ X2) as (O2 & C2 & K2).
  split; [exact C1|]. split; [exact C2|].
  f_equal. rewrite O1, O2. cbn [echildren].
  rewrite (set_sig_ids_built P2) by (first [rewrite C2; reflexivity | exact K2]).
  rewrite (set_sig_ids_built P1) by (first [rewrite C1; apply strip_sigs_none | exact K1]).
  reflexivity.
Qed.

(* T: signing a manifest that appmanifest.Sign has signed (same identity fields; any keys, digests, licence) digests the
   same octets again: the earlier signature leaves no trace in the new digest *)
Theorem am_resign_same_digest I P1 P2 mh P1' P2' mh' rs rt ra ch o o' :
  am_sign I P1 P2 mh rs rt ra ch = Ok o ->
  am_sign I P1' P2' mh' rs rt ra (echildren (ao_root o)) = Ok o' ->
  ref_octets (ao_primary o') = ref_octets (ao_primary o).
Proof.
  intros H1 H2. rewrite (am_primary_digest _ _ _ _ _ _ _ _ _ H1), (am_primary_digest _ _ _ _ _ _ _ _ _ H2).
  apply am_sign_shape in H1 as (asi & Fa & _ & _ & Hch & _ & ->). cbn [echildren]. rewrite Hch.
  rewrite am_content_resign; [reflexivity | rewrite find_existsb, Fa; reflexivity | reflexivity].
Qed.

(* ---- appmanifest.Verify on what appmanifest.Sign returns *)
Lemma keymat_not_reldata c : keymat c = true -> qmatch (qname_of c_msrel_RelData) c = false.
Proof.
  destruct c; try discriminate. unfold keymat, qmatch. cbn [is_elem etag andb]. change (qname_of c_msrel_RelData) with (c_msrel, c_RelData). cbn [fst snd].
  intros H. apply orb_true_iff in H as [H|H]; apply beq_iff in H; subst tag; [change (bytes_eqb c_RelData c_KeyValue) with false | change (bytes_eqb c_RelData c_X509Data) with false];
    apply andb_false_r.
Qed.

Lemma license_found P1 si oct rs rt ra X xa ka lic :
  forallb notsig X = true -> is_keyinfo si = false -> is_sig si = false ->
  fin_attach_cond (zlen (keyinfo_kids P1)) = true -> forallb keymat (keyinfo_kids P1) = true ->
  qmatch (qname_of c_r_license) lic = true ->
  let root := Elem rs rt ra (X ++ [deco_sig P1 si oct xa ka [reldata_of lic]]) in
  exists p ctx, find_paths license_steps root = [p] /\ get_at p [] root = Some (ctx, lic).
Proof.
  intros HX Hki Hsg Hat Hkm Hlic root.
  exists [List.length X; 2%nat; List.length (keyinfo_kids P1); 0%nat]. eexists. split.
  - unfold license_steps, root. cbn [find_paths echildren].
    rewrite find_kids_unique.
    2:{ intros c Hc. change (qname_of c_Signature) with (any_tag c_Signature). rewrite is_sig_child_qmatch. rewrite forallb_forall in HX.
        specialize (HX c Hc). apply negb_true_iff in HX. exact HX. }
    2:{ intros c []. }
    2:{ reflexivity. }
    cbn [Nat.add]. unfold deco_sig at 1. rewrite Hat. cbn [echildren app find_kids].
    fold (is_keyinfo si). rewrite Hki.
    change (qmatch (qname_of c_KeyInfo) (el c_SignatureValue [] [CharData (sp_sig_text P1 oct)])) with false.
    change (qmatch (qname_of c_KeyInfo) (Elem [] c_KeyInfo ka (keyinfo_kids P1 ++ [reldata_of lic]))) with true.
    cbn iota. cbn [app echildren]. rewrite app_nil_r.
    rewrite find_kids_unique.
    2:{ intros c Hc. apply keymat_not_reldata. rewrite forallb_forall in Hkm. apply Hkm. exact Hc. }
    2:{ intros c []. }
    2:{ reflexivity. }
    cbn [Nat.add reldata_of echildren find_kids]. rewrite Hlic. cbn [find_paths map app]. reflexivity.
  - unfold root. cbn [get_at echildren eattrs]. rewrite nth_error_mid. unfold deco_sig at 1. rewrite Hat. cbn [echildren eattrs app nth_error get_at].
    rewrite nth_error_mid. cbn [reldata_of echildren eattrs nth_error get_at]. reflexivity.
Qed.

Section AmCrypto.
  Variable Hf : Z -> bytes -> bytes.
  Variable b64e : bytes -> bytes.
  Variable b64d : bytes -> option bytes.
  Variable sig_ok : list node -> Z -> bytes -> bytes -> bytes -> bool.
  Hypothesis b64_roundtrip : forall x, b64d (b64e x) = Some x.
  Let CC := C Hf b64d sig_ok.

  (* T: what appmanifest.Sign returns — for ANY manifest with a top-level assemblyIdentity, signed before or not — passes
     both signature checks of appmanifest.Verify, and the two reference digests are those of the content Sign digested *)
  Theorem am_verify_accepts_am_sign I P1 P2 mh rs rt ra ch o :
    signer_ok Hf b64e sig_ok P1 -> signer_ok Hf b64e sig_ok P2 ->
    fin_attach_cond (zlen (keyinfo_kids P1)) = true -> forallb keymat (keyinfo_kids P1) = true ->
    am_sign I P1 P2 mh rs rt ra ch = Ok o ->
    exists r1 r2,
      am_verify CC (ao_root o) = Ok (r1, r2)
      /\ vr_ref_octets r1 = ref_octets (ao_primary o) /\ vr_dv r1 = sp_digest_text P1 (ref_octets (ao_primary o))
      /\ vr_ref_octets r2 = ref_octets (ao_secondary o) /\ vr_dv r2 = sp_digest_text P2 (ref_octets (ao_secondary o))
      /\ vr_ref_octets r1 = relic_c14n [] (Elem rs rt ra (am_content I ch)).
  Proof.
    intros S1 S2 Hat Hkm H.
    pose proof (am_primary_digest _ _ _ _ _ _ _ _ _ H) as PD.
    apply am_sign_shape in H as (asi & Fa & X1 & X2 & C1 & C2 & Hroot). cbv zeta in X2, Hroot.
    set (st1 := ao_primary o) in *. set (st2 := ao_secondary o) in *.
    set (lf := license_frame (f_asi I asi) (id_subject I) (mh (sp_digest_text P1 (ref_octets st1)))) in *.
    set (lic := plug [lf] (Elem c_r c_issuer [] (s_ch st2 ++ [deco_sig P2 (the_si st2) (s_si_octets st2) as_attrs [] []]))) in *.
    assert (Hnd : forall cond v, forallb nodecl (id_attrs cond v) = true) by (intros cond v; unfold id_attrs; destruct (cond v); reflexivity).
    destruct (verify_accepts_xsign Hf b64e b64d sig_ok b64_roundtrip P1 [] [] rs rt ra (prep I ch) st1 sn_attrs sk_attrs [reldata_of lic]
                S1 eq_refl eq_refl X1 (Hnd _ _) eq_refl) as (r1 & V1 & R1 & D1 & _).
    destruct (verify_accepts_xsign Hf b64e b64d sig_ok b64_roundtrip P2 [] [lf] c_r c_issuer [] [] st2 as_attrs [] []
                S2 eq_refl eq_refl X2 (Hnd _ _) eq_refl) as (r2 & V2 & R2 & D2 & _).
    exists r1, r2. split.
    - unfold am_verify, am_verify_with. rewrite Hroot. cbn [plug fold_right] in V1.
      change (sig_steps [] rt) with [qname_of c_Signature] in V1. fold CC in V1. rewrite V1.
      destruct (xsign_out_parent _ _ _ _ _ _ _ _ X1) as (_ & _ & K1).
      destruct (license_found P1 (the_si st1) (s_si_octets st1) rs rt ra (s_ch st1) sn_attrs sk_attrs lic) as (p & ctx & Fp & Gp).
      + rewrite C1. apply strip_sigs_none.
      + exact K1.
      + apply xsign_ok_inv in X1 as (? & ? & _ & _ & E). unfold the_si. rewrite E. reflexivity.
      + exact Hat.
      + exact Hkm.
      + reflexivity.
      + cbv zeta in Fp, Gp. rewrite Fp, Gp.
        change [qname_of c_issuer; qname_of c_Signature] with (sig_steps [lf] c_issuer). fold CC in V2. fold lic in V2. rewrite V2. reflexivity.
    - repeat split; try assumption. rewrite R1. exact PD.
  Qed.
End AmCrypto.

(* ================================================================== refusals, and the one hypothesis that cannot be dropped *)
Lemma xsign_refuses_unsupported P ctx0 fs ps pt pa ch :
  (~ In (sp_hash P) [3; 4; 5; 6; 7] \/ ~ In (sp_keykind P) [0; 1] \/ sp_ncerts P < 1 \/ sp_same_key P = false) ->
  is_ok (xsign P ctx0 fs ps pt pa ch) = false.
Proof.
  intros Hn. destruct (xsign P ctx0 fs ps pt pa ch) as [st| |] eqn:E; try reflexivity. exfalso.
  apply xsign_ok_inv in E as (ha & sa & Hk & Ha & _). apply hash_algs_domain in Ha as [Hh Hkk].
  unfold xs_bad_key in Hk. apply orb_false_iff in Hk as [Hk1 Hk2]. apply negb_false_iff in Hk2.
  destruct Hn as [Hn|[Hn|[Hn|Hn]]]; [tauto | tauto | lia | congruence].
Qed.

(* Verify works on root.Copy(), which has no parent, Sign canonicalises root where it stands: if root is NOT the document
   element and uses a namespace declared on one of its ancestors, the two digests are taken of different octets.
   (relic's callers always sign a document element or a free-standing element) *)
Definition w_ctx_P : sigparams := SigParams 5 0 1 true false false true false [Elem [] c_KeyValue [] []] [] (fun _ => [68; 86]) (fun _ => [83; 86]).
Lemma sign_below_namespace_context_refuted :
  exists ctx0 rs rt st r,
    xsign w_ctx_P ctx0 [] rs rt [] [] = Ok st /\ verify_struct (out_root [] rs rt [] st) (sig_steps [] rt) = Ok r /\
    vr_ref_octets r <> ref_octets st.
Proof.
  exists [[mkattr c_xmlns [112] [117; 114; 110; 58; 112]]], [112], [100; 111; 99].
  destruct (xsign w_ctx_P [[mkattr c_xmlns [112] [117; 114; 110; 58; 112]]] [] [112] [100; 111; 99] [] []) as [st| |] eqn:E; [|vm_compute in E; discriminate ..].
  exists st. vm_compute in E. injection E as <-. eexists. split; [reflexivity|]. split; [vm_compute; reflexivity|].
  vm_compute. discriminate.
Qed.

(* ================================================================== the document around the document element *)
(* Sign digests the document element; the declared Reference URI="" covers the document.  The two agree exactly when no
   processing instruction stands outside the document element (comments and the XML declaration do not count) *)
Lemma spec_document_octets_no_pi lead trail doc sigp :
  existsb is_pi lead = false -> existsb is_pi trail = false ->
  spec_document_octets lead trail doc sigp = spec_enveloped_octets doc sigp.
Proof.
  intros Hl Ht. unfold spec_document_octets.
  rewrite (filter_none is_pi lead), (filter_none is_pi trail).
  - cbn [flat_map app]. apply app_nil_r.
  - rewrite existsb_false_iff in Ht. exact Ht.
  - rewrite existsb_false_iff in Hl. exact Hl.
Qed.
Theorem xsign_digest_is_declared_for_document P ctx0 fs ps pt pa ch st lead trail :
  xsign P ctx0 fs ps pt pa ch = Ok st -> ctx_nodecl ctx0 = true ->
  inK [] (plug fs (Elem ps pt pa (strip_sigs ch))) = true ->
  existsb is_pi lead = false -> existsb is_pi trail = false ->
  ref_octets st = spec_document_octets lead trail (out_root fs ps pt pa st) (frames_path fs ++ [List.length (s_ch st)]).
Proof.
  intros H Hc HK Hl Ht. rewrite spec_document_octets_no_pi by assumption. exact (xsign_digest_is_declared _ _ _ _ _ _ _ _ H Hc HK).
Qed.
(* <?lead pi?><doc/> : the digest relic records is not the digest of the declared canonical form *)
Lemma pi_outside_document_element_refuted :
  exists lead rt st,
    xsign w_ctx_P [[]] [] [] rt [] [] = Ok st /\ inK [] (Elem [] rt [] (strip_sigs [])) = true /\
    ref_octets st <> spec_document_octets lead [] (out_root [] [] rt [] st) [List.length (s_ch st)].
Proof.
  exists [ProcInst [108; 101; 97; 100] [112; 105]], [100; 111; 99].
  destruct (xsign w_ctx_P [[]] [] [] [100; 111; 99] [] []) as [st| |] eqn:E; [|vm_compute in E; discriminate ..].
  exists st. vm_compute in E. injection E as <-. split; [reflexivity|]. split; [vm_compute; reflexivity|].
  vm_compute. discriminate.
Qed.
