(* C19/Model.v — executable definitions only.
   Part 1: etree data model and the faithful model of lib/xmldsig.SerializeCanonical (pullDown, pushDown, walkAttributes,
           usesSpace, getDecl/putDecl, the sort.Slice comparator, etree's canonical writer).  Every constant, branch
           condition and the comparator come from Generated/C19_gen.v.
   Part 2: the same algorithm with the pending declarations carried top-down (walkD); Proofs.v shows it equals part 1.
   Part 3: an INDEPENDENT specification  exc_c14n  transcribed from W3C "Exclusive XML Canonicalization 1.0" (without
           comments, empty InclusiveNamespaces list) and Canonical XML 1.0 (escaping, attribute order, PIs).
   Part 4: the decidable class K on which the two agree, with one code per clause.
   Part 5: the documents relic itself builds (SignedInfo, VSIX Object).
   Part 6: ECDSA r||s packing (faithful) and the fixed-width encoding of XMLDSIG / IEEE 1363. *)
From Relic Require Import Base.Prelude Base.Enc Generated.C19_gen.

(* ------------------------------------------------------------------ Part 1: data model *)
Definition attr := (bytes * bytes * bytes)%type.      (* etree.Attr: (Space, Key, Value) *)
Definition mkattr (sp k v : bytes) : attr := (sp, k, v).

Inductive node : Type :=
| Elem (space tag : bytes) (attrs : list attr) (ch : list node)
| CharData (data : bytes)
| Comment (data : bytes)
| ProcInst (target inst : bytes)
| Directive (data : bytes).

Definition kind_of (n : node) : Z :=
  match n with Elem _ _ _ _ => 0 | CharData _ => 1 | Comment _ => 2 | ProcInst _ _ => 3 | Directive _ => 4 end.

(* Go compares strings bytewise *)
Fixpoint str_ltb (a b : bytes) : bool :=
  match a, b with
  | _, [] => false
  | [], _ :: _ => true
  | x :: a', y :: b' => (x <? y) || ((x =? y) && str_ltb a' b')
  end.

(* etree helpers.go *)
Fixpoint split_colon (s : bytes) : option (bytes * bytes) :=
  match s with
  | [] => None
  | c :: r => if c =? 58 then Some ([], r)
              else match split_colon r with Some (a, b) => Some (c :: a, b) | None => None end
  end.
Definition space_decompose (s : bytes) : bytes * bytes :=
  match split_colon s with Some p => p | None => ([], s) end.
Definition space_match (a b : bytes) : bool := match a with [] => true | _ => bytes_eqb a b end.

(* Element.SelectAttr(key) != nil *)
Definition select_attr (key : bytes) (attrs : list attr) : bool :=
  let '(sp, sk) := space_decompose key in
  existsb (fun a => space_match sp (a3_space a) && bytes_eqb sk (a3_key a)) attrs.
(* Element.CreateAttr(key, value): replace the value of an exactly matching attribute or append *)
Fixpoint replace_val (sp sk v : bytes) (attrs : list attr) : option (list attr) :=
  match attrs with
  | [] => None
  | a :: r => if bytes_eqb sp (a3_space a) && bytes_eqb sk (a3_key a) then Some (mkattr sp sk v :: r)
              else match replace_val sp sk v r with Some r' => Some (a :: r') | None => None end
  end.
Definition create_attr (key value : bytes) (attrs : list attr) : list attr :=
  let '(sp, sk) := space_decompose key in
  match replace_val sp sk value attrs with Some l => l | None => attrs ++ [mkattr sp sk value] end.

(* usesSpace(elem, space) *)
Definition uses_space (espace : bytes) (attrs : list attr) (space : bytes) : bool :=
  if uses_elem_cond espace space then true
  else if uses_default_cond space then false
  else existsb (fun a => uses_attr_cond (a3_space a) space) attrs.

(* pushDown(top, elem, space, key, value); not_top = (elem != top) *)
Fixpoint push_down (not_top : bool) (space key value : bytes) (n : node) : node :=
  match n with
  | Elem s t attrs ch =>
      if pd_redeclared not_top (select_attr key attrs) then n
      else if pd_declare_here (uses_space s attrs space) then
        Elem s t (if pd_creates_attr then create_attr key value attrs else attrs) ch
      else Elem s t attrs (if pd_recurses then map (push_down true space key value) ch else ch)
  | _ => n
  end.

(* pullDown: the map `spaces` (insertion order stands for Go's unspecified map order; the attributes are sorted
   afterwards under a total order, see Proofs.isort_perm) *)
Fixpoint sp_get (m : list (bytes * bytes)) (k : bytes) : bytes :=
  match m with [] => [] | (k', v) :: r => if bytes_eqb k k' then v else sp_get r k end.
Fixpoint sp_set (m : list (bytes * bytes)) (k v : bytes) : list (bytes * bytes) :=
  match m with
  | [] => [(k, v)]
  | (k', v') :: r => if bytes_eqb k k' then (k, v) :: r else (k', v') :: sp_set r k v
  end.
Definition collect_attr (m : list (bytes * bytes)) (a : attr) : list (bytes * bytes) :=
  let '(sp, isd) := get_decl (a3_space a) (a3_key a) in
  if pull_skip_nondecl isd then m
  else if pull_skip_seen (sp_get m sp) then m
  else sp_set m sp (a3_val a).
(* ctx: attribute lists of the ancestors of the element, nearest first *)
Definition collect_spaces (ctx : list (list attr)) : list (bytes * bytes) :=
  fold_left (fun m attrs => fold_left collect_attr attrs m) ctx [].
Definition push_decl (n : node) (d : bytes * bytes) : node :=
  push_down true (fst d) (put_decl (fst d)) (snd d) n.
Definition pull_down (ctx : list (list attr)) (n : node) : node :=
  if pull_pushes_with_nil_top then fold_left push_decl (collect_spaces ctx) n else n.

(* sort.Slice(elem.Attr, less): modelled as insertion sort; Proofs.isort_perm shows that under the comparator's
   total order every sorted permutation is this one whenever attribute names are distinct *)
Fixpoint insert {A} (lt : A -> A -> bool) (x : A) (l : list A) : list A :=
  match l with [] => [x] | y :: r => if lt x y then x :: l else y :: insert lt x r end.
Definition isort {A} (lt : A -> A -> bool) (l : list A) : list A := fold_right (insert lt) [] l.
Definition attr_lt : attr -> attr -> bool := attr_less str_ltb.

(* the attribute loop of walkAttributes; ch is elem.Child (push-downs modify the children) *)
Fixpoint walk_attrs (s t : bytes) (done_rev rest : list attr) (ch : list node) : list attr * list node :=
  match rest with
  | [] => (rev done_rev, ch)
  | a :: rest' =>
      let cur := rev done_rev ++ rest in
      let '(space, isd) := get_decl (a3_space a) (a3_key a) in
      if walk_push_cond isd (uses_space s cur space) then
        let ch' := if walk_pushes_from_self then
                     match push_down false space (put_decl space) (a3_val a) (Elem s t cur ch) with
                     | Elem _ _ _ c => c | _ => ch end
                   else ch in
        if walk_removes_pushed then walk_attrs s t done_rev rest' ch' else walk_attrs s t (a :: done_rev) rest' ch'
      else walk_attrs s t (a :: done_rev) rest' ch
  end.
Definition walk_children (w : node -> node) (l : list node) : list node :=
  flat_map (fun c => if child_kept (kind_of c) then [if child_walked (kind_of c) then w c else c] else []) l.
(* walkAttributes; the recursion visits children that the push-downs have just rewritten, hence the fuel (= height) *)
Fixpoint walk (fuel : nat) (n : node) : node :=
  match fuel with
  | O => n
  | S f =>
      match n with
      | Elem s t attrs ch =>
          let '(attrs1, ch1) := walk_attrs s t [] attrs ch in
          Elem s t (isort attr_lt attrs1) (walk_children (walk f) ch1)
      | _ => n
      end
  end.
Fixpoint height (n : node) : nat :=
  match n with
  | Elem _ _ _ ch => S (fold_right (fun c m => Nat.max (height c) m) O ch)
  | _ => 1%nat
  end.

(* etree writer with the WriteSettings chosen by SerializeCanonical. escape modes: 0 normal, 1 canonical text,
   2 canonical attribute value (helpers.go escapeString; input assumed valid UTF-8 of XML characters) *)
Definition esc_byte (m c : Z) : bytes :=
  if c =? 38 then [38; 97; 109; 112; 59]                                   (* &amp; *)
  else if c =? 60 then [38; 108; 116; 59]                                   (* &lt; *)
  else if c =? 62 then (if m =? 2 then [c] else [38; 103; 116; 59])         (* &gt; *)
  else if c =? 39 then (if m =? 0 then [38; 97; 112; 111; 115; 59] else [c]) (* &apos; *)
  else if c =? 34 then (if m =? 1 then [c] else [38; 113; 117; 111; 116; 59]) (* &quot; *)
  else if c =? 9 then (if m =? 2 then [38; 35; 120; 57; 59] else [c])       (* &#x9; *)
  else if c =? 10 then (if m =? 2 then [38; 35; 120; 65; 59] else [c])      (* &#xA; *)
  else if c =? 13 then (if m =? 0 then [c] else [38; 35; 120; 68; 59])      (* &#xD; *)
  else [c].
Definition escape (m : Z) (s : bytes) : bytes := flat_map (esc_byte m) s.

Definition full_tag (sp tag : bytes) : bytes := match sp with [] => tag | _ => sp ++ 58 :: tag end.
Definition write_attr (a : attr) : bytes :=
  let q := if ws_attr_single_quote then 39 else 34 in
  32 :: full_tag (a3_space a) (a3_key a) ++ 61 :: q :: escape (if ws_canonical_attr_val then 2 else 0) (a3_val a) ++ [q].
Fixpoint write_node (n : node) : bytes :=
  match n with
  | Elem s t attrs ch =>
      60 :: full_tag s t ++ flat_map write_attr attrs ++
      match ch with
      | [] => if ws_canonical_end_tags then [62; 60; 47] ++ full_tag s t ++ [62] else [47; 62]
      | _ => 62 :: flat_map write_node ch ++ [60; 47] ++ full_tag s t ++ [62]
      end
  | CharData d => escape (if ws_canonical_text then 1 else 0) d
  | Comment d => [60; 33; 45; 45] ++ d ++ [45; 45; 62]
  | ProcInst t i => [60; 63] ++ t ++ (match i with [] => [] | _ => 32 :: i end) ++ [63; 62]
  | Directive d => [60; 33] ++ d ++ [62]
  end.

(* SerializeCanonical(el) where ctx = attribute lists of el's ancestors, nearest first.
   The phase order Copy, pullDown, walkAttributes, WriteToBytes is read from the source. *)
Definition relic_tree (ctx : list (list attr)) (n : node) : node := walk (height n) (pull_down ctx n).
Definition relic_c14n (ctx : list (list attr)) (n : node) : bytes :=
  if list_eqb Z.eqb ser_call_order [0; 1; 2; 3] then write_node (relic_tree ctx n) else [].

(* ------------------------------------------------------------------ Part 2: top-down form *)
(* the pushes waiting above an element are carried as a list D of (prefix, value) and applied on arrival *)
Definition place_one (s : bytes) (st : list attr * list (bytes * bytes)) (d : bytes * bytes) : list attr * list (bytes * bytes) :=
  let '(attrs, pass) := st in
  let key := put_decl (fst d) in
  if pd_redeclared true (select_attr key attrs) then (attrs, pass)
  else if pd_declare_here (uses_space s attrs (fst d)) then
    ((if pd_creates_attr then create_attr key (snd d) attrs else attrs), pass)
  else (attrs, if pd_recurses then pass ++ [d] else pass).
Definition place_all (s : bytes) (attrs : list attr) (D : list (bytes * bytes)) : list attr * list (bytes * bytes) :=
  fold_left (place_one s) D (attrs, []).
(* the attribute loop, returning the kept attributes and the declarations it pushes to the children *)
Fixpoint own_loop (s : bytes) (done_rev rest : list attr) (down : list (bytes * bytes)) : list attr * list (bytes * bytes) :=
  match rest with
  | [] => (rev done_rev, down)
  | a :: rest' =>
      let cur := rev done_rev ++ rest in
      let '(space, isd) := get_decl (a3_space a) (a3_key a) in
      if walk_push_cond isd (uses_space s cur space) then
        let down' := if walk_pushes_from_self then
                       if pd_redeclared false (select_attr (put_decl space) cur) then down
                       else if pd_declare_here (uses_space s cur space) then down
                       else if pd_recurses then down ++ [(space, a3_val a)] else down
                     else down in
        if walk_removes_pushed then own_loop s done_rev rest' down' else own_loop s (a :: done_rev) rest' down'
      else own_loop s (a :: done_rev) rest' down
  end.
Fixpoint walkD (D : list (bytes * bytes)) (n : node) : node :=
  match n with
  | Elem s t attrs ch =>
      let '(attrs1, pass) := place_all s attrs D in
      let '(attrs2, down) := own_loop s [] attrs1 [] in
      let D' := pass ++ down in
      Elem s t (isort attr_lt attrs2)
        ((fix go (l : list node) : list node :=
            match l with
            | [] => []
            | c :: r => if child_kept (kind_of c) then (if child_walked (kind_of c) then walkD D' c else c) :: go r else go r
            end) ch)
  | _ => n
  end.
Definition relic_c14n_td (ctx : list (list attr)) (n : node) : bytes :=
  write_node (walkD (collect_spaces ctx) n).

(* ------------------------------------------------------------------ Part 3: specification (W3C exc-c14n) *)
(* Namespace environment: prefix -> URI, newest binding first; "" stands for "no binding"
   (xmlns="" un-declares the default namespace; xmlns:p="" is not allowed by Namespaces in XML 1.0). *)
Definition env := list (bytes * bytes).
Fixpoint env_get (e : env) (p : bytes) : bytes :=
  match e with [] => [] | (q, v) :: r => if bytes_eqb p q then v else env_get r p end.
Definition env_set (e : env) (p v : bytes) : env := (p, v) :: e.

Definition s_xmlns : bytes := [120; 109; 108; 110; 115].
Definition s_xml : bytes := [120; 109; 108].
(* http://www.w3.org/XML/1998/namespace *)
Definition xml_ns_uri : bytes :=
  [104; 116; 116; 112; 58; 47; 47; 119; 119; 119; 46; 119; 51; 46; 111; 114; 103; 47; 88; 77; 76; 47; 49; 57; 57; 56; 47;
   110; 97; 109; 101; 115; 112; 97; 99; 101].

(* an attribute  xmlns="..."  or  xmlns:p="..."  is a namespace declaration, not an attribute node *)
Definition is_nsdecl (a : attr) : bool :=
  match a3_space a with
  | [] => bytes_eqb (a3_key a) s_xmlns
  | sp => bytes_eqb sp s_xmlns
  end.
Definition decl_prefix (a : attr) : bytes := match a3_space a with [] => [] | _ => a3_key a end.
Definition own_decls (attrs : list attr) : list (bytes * bytes) :=
  map (fun a => (decl_prefix a, a3_val a)) (filter is_nsdecl attrs).
Definition plain_attrs (attrs : list attr) : list attr := filter (fun a => negb (is_nsdecl a)) attrs.
Definition env_add (e : env) (decls : list (bytes * bytes)) : env :=
  fold_left (fun e d => env_set e (fst d) (snd d)) decls e.

Fixpoint dedup (l : list bytes) : list bytes :=
  match l with
  | [] => []
  | x :: r => if existsb (bytes_eqb x) r then dedup r else x :: dedup r
  end.
(* visibly utilised prefixes of an element (exc-c14n section 3): the prefix of its name ("" = default namespace) and the
   prefixes of its attributes; unprefixed attributes use no namespace; the xml prefix is never declared in the output *)
Definition utilized (s : bytes) (attrs : list attr) : list bytes :=
  filter (fun p => negb (bytes_eqb p s_xml))
         (dedup (s :: map a3_space (filter (fun a => match a3_space a with [] => false | _ => true end) (plain_attrs attrs)))).

(* namespace declarations are written in the order: default first, then by prefix *)
Definition prefix_lt (p q : bytes) : bool := str_ltb p q.
(* attributes: by namespace URI (none first), then by local name *)
Definition attr_uri (e : env) (a : attr) : bytes :=
  match a3_space a with
  | [] => []
  | sp => if bytes_eqb sp s_xml then xml_ns_uri else env_get e sp
  end.
Definition xattr_lt (e : env) (a b : attr) : bool :=
  let ua := attr_uri e a in let ub := attr_uri e b in
  if bytes_eqb ua ub then str_ltb (a3_key a) (a3_key b) else str_ltb ua ub.

(* Canonical XML 1.0 section 2.3: text nodes escape & < > and #xD; attribute values escape & < (double quote) #x9 #xA #xD *)
Definition x_esc_text (c : Z) : bytes :=
  if c =? 38 then [38; 97; 109; 112; 59] else if c =? 60 then [38; 108; 116; 59] else if c =? 62 then [38; 103; 116; 59]
  else if c =? 13 then [38; 35; 120; 68; 59] else [c].
Definition x_esc_attr (c : Z) : bytes :=
  if c =? 38 then [38; 97; 109; 112; 59] else if c =? 60 then [38; 108; 116; 59] else if c =? 34 then [38; 113; 117; 111; 116; 59]
  else if c =? 9 then [38; 35; 120; 57; 59] else if c =? 10 then [38; 35; 120; 65; 59] else if c =? 13 then [38; 35; 120; 68; 59]
  else [c].
Definition qname (p l : bytes) : bytes := match p with [] => l | _ => p ++ 58 :: l end.
Definition x_attr_string (name value : bytes) : bytes := 32 :: name ++ [61; 34] ++ flat_map x_esc_attr value ++ [34].
Definition x_ns_string (p v : bytes) : bytes := x_attr_string (match p with [] => s_xmlns | _ => s_xmlns ++ 58 :: p end) v.

(* inscope: namespaces in scope at the parent; rendered: what the output ancestors have already written (ns_rendered) *)
Fixpoint exc_node (inscope rendered : env) (n : node) : bytes :=
  match n with
  | Elem s t attrs ch =>
      let inscope' := env_add inscope (own_decls attrs) in
      let out_ns := isort prefix_lt
                      (filter (fun p => negb (bytes_eqb (env_get inscope' p) (env_get rendered p))) (utilized s attrs)) in
      let rendered' := fold_left (fun r p => env_set r p (env_get inscope' p)) out_ns rendered in
      let out_attrs := isort (xattr_lt inscope') (plain_attrs attrs) in
      60 :: qname s t
        ++ flat_map (fun p => x_ns_string p (env_get inscope' p)) out_ns
        ++ flat_map (fun a => x_attr_string (qname (a3_space a) (a3_key a)) (a3_val a)) out_attrs
        ++ 62 :: flat_map (exc_node inscope' rendered') ch
        ++ [60; 47] ++ qname s t ++ [62]
  | CharData d => flat_map x_esc_text d
  | Comment _ => []
  | ProcInst t i => [60; 63] ++ t ++ (match i with [] => [] | _ => 32 :: i end) ++ [63; 62]
  | Directive _ => []
  end.
(* the namespaces in scope at the parent of the apex element: ancestors outermost first, later bindings shadow *)
Definition ctx_env (ctx : list (list attr)) : env :=
  fold_left (fun e attrs => env_add e (own_decls attrs)) (rev ctx) [].
Definition exc_c14n (ctx : list (list attr)) (n : node) : bytes := exc_node (ctx_env ctx) [] n.

(* namespace well-formedness (the domain of the specification): used prefixes are bound, prefixes are not bound to "",
   xml / xmlns are not (re)declared, names are distinct, no markup declarations inside elements *)
Fixpoint nodup_b (l : list (bytes * bytes)) : bool :=
  match l with
  | [] => true
  | (a, b) :: r => negb (existsb (fun q => bytes_eqb a (fst q) && bytes_eqb b (snd q)) r) && nodup_b r
  end.
Definition attr_names (attrs : list attr) : list (bytes * bytes) := map (fun a => (a3_space a, a3_key a)) attrs.
Definition decl_ok (d : bytes * bytes) : bool :=
  negb (bytes_eqb (fst d) s_xml) && negb (bytes_eqb (fst d) s_xmlns)
  && match fst d with [] => true | _ => match snd d with [] => false | _ => true end end.
Fixpoint wf_node (inscope : env) (n : node) : bool :=
  match n with
  | Elem s t attrs ch =>
      let inscope' := env_add inscope (own_decls attrs) in
      nodup_b (attr_names attrs)
      && forallb decl_ok (own_decls attrs)
      && negb (bytes_eqb s s_xmlns)
      && forallb (fun p => match p with [] => true | _ => match env_get inscope' p with [] => false | _ => true end end) (utilized s attrs)
      && nodup_b (map (fun a => (attr_uri inscope' a, a3_key a)) (plain_attrs attrs))
      && forallb (wf_node inscope') ch
  | Directive _ => false
  | _ => true
  end.
Definition wf_doc (ctx : list (list attr)) (n : node) : bool :=
  forallb (fun attrs => nodup_b (attr_names attrs) && forallb decl_ok (own_decls attrs)) ctx && wf_node (ctx_env ctx) n.

(* ------------------------------------------------------------------ Part 4: the class K *)
(* Codes: 1 processing instruction / directive child; 2 an ancestor carries xmlns="" (or a declaration with empty value);
   3 redundant re-declaration (a declaration whose value the output ancestors have already rendered for that prefix,
     including xmlns="" with no rendered default namespace); 4 attribute order by prefix differs from order by
     namespace URI; 5 an attribute whose local name is "xmlns", or a declaration of the prefixes xml / xmlns;
   6 two attributes with the same (prefix, local name). *)
Definition name_ok (a : attr) : bool :=
  (negb (bytes_eqb (a3_key a) s_xmlns) || match a3_space a with [] => true | _ => false end)
  && negb (bytes_eqb (a3_space a) s_xmlns && (bytes_eqb (a3_key a) s_xml || match a3_key a with [] => true | _ => false end)).
Definition names_ok (attrs : list attr) : bool := forallb name_ok attrs.
(* order by (prefix, local name), written down here and not taken from relic's comparator *)
Definition plain_lt (x y : attr) : bool :=
  if bytes_eqb (a3_space x) (a3_space y) then str_ltb (a3_key x) (a3_key y) else str_ltb (a3_space x) (a3_space y).
Definition order_ok (e : env) (attrs : list attr) : bool :=
  let pl := plain_attrs attrs in
  forallb (fun x => forallb (fun y => Bool.eqb (plain_lt x y) (xattr_lt e x y)) pl) pl.
Definition not_redundant (rendered : env) (attrs : list attr) : bool :=
  forallb (fun d => negb (bytes_eqb (snd d) (env_get rendered (fst d)))) (own_decls attrs).
Definition code (b : bool) (c : Z) : list Z := if b then [] else [c].
Fixpoint k_codes (inscope rendered : env) (n : node) : list Z :=
  match n with
  | Elem s t attrs ch =>
      let inscope' := env_add inscope (own_decls attrs) in
      let out_ns := isort prefix_lt
                      (filter (fun p => negb (bytes_eqb (env_get inscope' p) (env_get rendered p))) (utilized s attrs)) in
      let rendered' := fold_left (fun r p => env_set r p (env_get inscope' p)) out_ns rendered in
      code (nodup_b (attr_names attrs)) 6 ++ code (names_ok attrs) 5 ++ code (not_redundant rendered attrs) 3
      ++ code (order_ok inscope' attrs) 4 ++ flat_map (k_codes inscope' rendered') ch
  | ProcInst _ _ => [1]
  | Directive _ => [1]
  | _ => []
  end.
Definition ctx_codes (ctx : list (list attr)) : list Z :=
  flat_map (fun attrs => code (nodup_b (attr_names attrs)) 6 ++ code (names_ok attrs) 5
                         ++ code (forallb (fun d => match snd d with [] => false | _ => true end) (own_decls attrs)) 2) ctx.
Definition K_codes (ctx : list (list attr)) (n : node) : list Z :=
  match n with
  | Elem _ _ _ _ => ctx_codes ctx ++ k_codes (ctx_env ctx) [] n
  | _ => [0]
  end.
Definition inK (ctx : list (list attr)) (n : node) : bool := match K_codes ctx n with [] => true | _ => false end.

(* ------------------------------------------------------------------ Part 5: documents relic builds *)
Definition s_Algorithm : bytes := [65; 108; 103; 111; 114; 105; 116; 104; 109].
Definition s_URI : bytes := [85; 82; 73].
Definition s_Type : bytes := [84; 121; 112; 101].
Definition s_Id : bytes := [73; 100].
Definition s_Object : bytes := [79; 98; 106; 101; 99; 116].
Definition el (tag : bytes) (attrs : list attr) (ch : list node) : node := Elem [] tag attrs ch.
Definition alg_el (tag alg : bytes) : node := el tag [mkattr [] s_Algorithm alg] [].
(* xmldsig.buildSignedInfo(signature, refId, hashAlg, sigAlg, refDigest, opts); c14n = opts.c14nNamespace(),
   digest = base64 text *)
Definition signed_info (ref_id hash_alg sig_alg digest c14n : bytes) : node :=
  el [83;105;103;110;101;100;73;110;102;111]                                            (* SignedInfo *)
    []
    [ alg_el [67;97;110;111;110;105;99;97;108;105;122;97;116;105;111;110;77;101;116;104;111;100] c14n  (* CanonicalizationMethod *)
    ; alg_el [83;105;103;110;97;116;117;114;101;77;101;116;104;111;100] sig_alg                 (* SignatureMethod *)
    ; el [82;101;102;101;114;101;110;99;101]                                                  (* Reference *)
        (match ref_id with
         | [] => [mkattr [] s_URI []]
         | _ => [mkattr [] s_URI (35 :: ref_id); mkattr [] s_Type (ns_xmldsig ++ s_Object)]
         end)
        [ el [84;114;97;110;115;102;111;114;109;115] []                                       (* Transforms *)
            ((match ref_id with [] => [alg_el [84;114;97;110;115;102;111;114;109] alg_enveloped] | _ => [] end)
             ++ [alg_el [84;114;97;110;115;102;111;114;109] c14n])                            (* Transform *)
        ; alg_el [68;105;103;101;115;116;77;101;116;104;111;100] hash_alg                     (* DigestMethod *)
        ; el [68;105;103;101;115;116;86;97;108;117;101] [] [CharData digest] ] ].             (* DigestValue *)
(* the Signature element that is SignedInfo's parent carries exactly xmlns=NsXMLDsig (plus Id, added later by
   appmanifest.setSigIds); ctx nearest first, `outer` = whatever encloses Signature *)
Definition sig_ctx (sig_extra : list attr) (outer : list (list attr)) : list (list attr) :=
  (mkattr [] s_xmlns ns_xmldsig :: sig_extra) :: outer.

(* signers/vsix makeSignature: Object Id="idPackageObject" with Manifest/Reference* and SignatureProperties *)
Definition vsix_reference (uri hash_uri digest : bytes) : node :=
  el [82;101;102;101;114;101;110;99;101] [mkattr [] s_URI uri]
    [ alg_el [68;105;103;101;115;116;77;101;116;104;111;100] hash_uri
    ; el [68;105;103;101;115;116;86;97;108;117;101] [] [CharData digest] ].
Definition vsix_object (refs : list (bytes * bytes)) (hash_uri ns_digsig fmt time : bytes) : node :=
  el s_Object [mkattr [] s_Id [105;100;80;97;99;107;97;103;101;79;98;106;101;99;116]]                 (* idPackageObject *)
    [ el [77;97;110;105;102;101;115;116] [] (map (fun r => vsix_reference (fst r) hash_uri (snd r)) refs)  (* Manifest *)
    ; el [83;105;103;110;97;116;117;114;101;80;114;111;112;101;114;116;105;101;115] []                 (* SignatureProperties *)
        [ el [83;105;103;110;97;116;117;114;101;80;114;111;112;101;114;116;121]                         (* SignatureProperty *)
            [mkattr [] s_Id [105;100;83;105;103;110;97;116;117;114;101;84;105;109;101];               (* idSignatureTime *)
             mkattr [] [84;97;114;103;101;116] []]                                                      (* Target="" *)
            [ el [83;105;103;110;97;116;117;114;101;84;105;109;101] [mkattr [] s_xmlns ns_digsig]       (* SignatureTime *)
                [ el [70;111;114;109;97;116] [] [CharData fmt]                                          (* Format *)
                ; el [86;97;108;117;101] [] [CharData time] ] ] ] ].                                    (* Value *)

(* ------------------------------------------------------------------ Part 6: ECDSA r||s *)
Definition bitlen (n : Z) : Z := if n <=? 0 then 0 else Z.log2 n + 1.          (* big.Int.BitLen *)
Definition pack (r s : Z) : bytes :=
  let nbits := bitlen r in
  let nbits := if pack_s_wider (bitlen s) nbits then bitlen s else nbits in
  let nbytes := pack_nbytes nbits in
  let total := pack_total_len nbytes in
  if pack_r_first_half && pack_s_second_half
  then be_enc (Z.to_nat nbytes) r ++ be_enc (Z.to_nat (total - nbytes)) s     (* FillBytes: big-endian, zero padded *)
  else [].
Definition unpack (l : bytes) : result (Z * Z) :=
  let blen := unpack_bytelen (zlen l) in
  if unpack_bad_size (zlen l) blen then Err 1
  else Ok (be_dec (ztake blen l), be_dec (zdrop blen l)).
(* XMLDSIG 1.1 section 6.4.3 / IEEE 1363: r and s as octet strings of the byte length of the curve order *)
Definition curve_bytes (bits : Z) : Z := (bits + 7) / 8.
Definition fixed_pack (bits r s : Z) : bytes :=
  be_enc (Z.to_nat (curve_bytes bits)) r ++ be_enc (Z.to_nat (curve_bytes bits)) s.
