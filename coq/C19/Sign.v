(* C19/Sign.v — executable definitions only: the SIGNING and VERIFYING pipelines of lib/xmldsig and lib/appmanifest.
   Part 1: etree operations used by the pipelines (RemoveElements, SelectElement, CreateAttr, FindElements, RemoveChild).
   Part 2: a document with a distinguished `parent` element (zipper): what xmldsig.Sign(root, parent, ...) works on.
   Part 3: xmldsig.Sign as an INTERPRETER of the instruction list Generated.C19_gen.xs_prog (one instruction per Go
           statement, in source order), so that the reference digest is taken of exactly the tree state the code digests;
           buildSignedInfo, finishSignature, hashAlgs with every decision taken from the generated definitions.
   Part 4: xmldsig.Verify (enveloped branch): FindElements, the unmarshalled fields, parseAlgs, the enveloped-signature
           transform (RemoveChild of the signature being verified), reference digest.
   Part 5: appmanifest.Sign / Verify on top.
   Part 6: an INDEPENDENT specification of what the declared transforms mean (XMLDSIG-core 6.6.4 enveloped signature
           transform followed by Exclusive XML Canonicalization), written over C19.Model.exc_c14n.
   Cryptography is a parameter record (no axioms): the theorems quantify over it, Run.v instantiates it with the values
   observed on the implementation. *)
From Relic Require Import Base.Prelude Base.Enc Generated.C19_gen C19.Model.
From Coq Require Import String Ascii.

Definition sb (s : string) : bytes := map (fun a => Z.of_N (N_of_ascii a)) (list_ascii_of_string s).
(* string constants as byte lists (evaluated here so that the extracted model does not mention Coq strings) *)
Definition c_AuthenticodePublisher : bytes := Eval vm_compute in sb "AuthenticodePublisher".
Definition c_AuthenticodeSignature : bytes := Eval vm_compute in sb "AuthenticodeSignature".
Definition c_CanonicalizationMethod : bytes := Eval vm_compute in sb "CanonicalizationMethod".
Definition c_Description : bytes := Eval vm_compute in sb "Description".
Definition c_DigestMethod : bytes := Eval vm_compute in sb "DigestMethod".
Definition c_DigestValue : bytes := Eval vm_compute in sb "DigestValue".
Definition c_Hash : bytes := Eval vm_compute in sb "Hash".
Definition c_Id : bytes := Eval vm_compute in sb "Id".
Definition c_KeyInfo : bytes := Eval vm_compute in sb "KeyInfo".
Definition c_KeyValue : bytes := Eval vm_compute in sb "KeyValue".
Definition c_ManifestInformation : bytes := Eval vm_compute in sb "ManifestInformation".
Definition c_Reference : bytes := Eval vm_compute in sb "Reference".
Definition c_RelData : bytes := Eval vm_compute in sb "RelData".
Definition c_Signature : bytes := Eval vm_compute in sb "Signature".
Definition c_SignatureMethod : bytes := Eval vm_compute in sb "SignatureMethod".
Definition c_SignatureValue : bytes := Eval vm_compute in sb "SignatureValue".
Definition c_SignedBy : bytes := Eval vm_compute in sb "SignedBy".
Definition c_SignedInfo : bytes := Eval vm_compute in sb "SignedInfo".
Definition c_StrongNameKeyInfo : bytes := Eval vm_compute in sb "StrongNameKeyInfo".
Definition c_StrongNameSignature : bytes := Eval vm_compute in sb "StrongNameSignature".
Definition c_Transform : bytes := Eval vm_compute in sb "Transform".
Definition c_Transforms : bytes := Eval vm_compute in sb "Transforms".
Definition c_Url : bytes := Eval vm_compute in sb "Url".
Definition c_X509Data : bytes := Eval vm_compute in sb "X509Data".
Definition c_X509SubjectName : bytes := Eval vm_compute in sb "X509SubjectName".
Definition c_as : bytes := Eval vm_compute in sb "as".
Definition c_assemblyIdentity : bytes := Eval vm_compute in sb "assemblyIdentity".
Definition c_grant : bytes := Eval vm_compute in sb "grant".
Definition c_issuer : bytes := Eval vm_compute in sb "issuer".
Definition c_issuerKeyHash : bytes := Eval vm_compute in sb "issuerKeyHash".
Definition c_license : bytes := Eval vm_compute in sb "license".
Definition c_msrel : bytes := Eval vm_compute in sb "msrel".
Definition c_msrel_RelData : bytes := Eval vm_compute in sb "msrel:RelData".
Definition c_name : bytes := Eval vm_compute in sb "name".
Definition c_publicKeyToken : bytes := Eval vm_compute in sb "publicKeyToken".
Definition c_publisherIdentity : bytes := Eval vm_compute in sb "publisherIdentity".
Definition c_r : bytes := Eval vm_compute in sb "r".
Definition c_r_license : bytes := Eval vm_compute in sb "r:license".
Definition c_xmlns : bytes := Eval vm_compute in sb "xmlns".


(* ------------------------------------------------------------------ Part 1: etree operations *)
Definition is_elem (n : node) : bool := match n with Elem _ _ _ _ => true | _ => false end.
Definition etag (n : node) : bytes := match n with Elem _ t _ _ => t | _ => [] end.
Definition espace (n : node) : bytes := match n with Elem s _ _ _ => s | _ => [] end.
Definition eattrs (n : node) : list attr := match n with Elem _ _ a _ => a | _ => [] end.
Definition echildren (n : node) : list node := match n with Elem _ _ _ c => c | _ => [] end.

(* xmldsig.RemoveElements(root, tag): the loop removes every child for which the generated condition holds *)
Definition rm_hit (tag : bytes) (c : node) : bool := rm_match (is_elem c) (etag c) tag.
Definition remove_elements (tag : bytes) (ch : list node) : list node :=
  if rm_loop_shape then filter (fun c => negb (rm_hit tag c)) ch else ch.

(* Element.SelectElement(tag) / one step of an etree path: "p:tag" matches prefix p exactly, "tag" any prefix *)
Definition qname_of (s : bytes) : bytes * bytes := space_decompose s.
Definition qmatch (q : bytes * bytes) (c : node) : bool :=
  match c with Elem s t _ _ => space_match (fst q) s && bytes_eqb (snd q) t | _ => false end.
Definition select_element (tag : bytes) (ch : list node) : option node := find (qmatch (qname_of tag)) ch.
Fixpoint update_first (p : node -> bool) (f : node -> node) (ch : list node) : list node :=
  match ch with
  | [] => []
  | c :: r => if p c then f c :: r else c :: update_first p f r
  end.
Definition set_attr (key value : bytes) (n : node) : node :=
  match n with Elem s t a c => Elem s t (create_attr key value a) c | _ => n end.
Definition add_child (x : node) (n : node) : node :=
  match n with Elem s t a c => Elem s t a (c ++ [x]) | _ => n end.
(* unprefixed attribute by key (xml.Unmarshal `xml:",attr"` / SelectAttrValue with the empty default) *)
Definition attr_value (key : bytes) (attrs : list attr) : bytes :=
  match find (fun a => bytes_eqb (a3_key a) key) attrs with Some a => a3_val a | None => [] end.
Definition text_of (n : node) : bytes :=
  flat_map (fun c => match c with CharData d => d | _ => [] end) (echildren n).

(* Element.FindElements(path) for paths made of child steps: index paths of the matches, in document order *)
Fixpoint find_kids (f : node -> list (list nat)) (q : bytes * bytes) (i : nat) (ch : list node) : list (list nat) :=
  match ch with
  | [] => []
  | c :: rest => (if qmatch q c then map (cons i) (f c) else []) ++ find_kids f q (S i) rest
  end.
Fixpoint find_paths (steps : list (bytes * bytes)) (n : node) : list (list nat) :=
  match steps with
  | [] => [[]]
  | q :: r => find_kids (find_paths r) q O (echildren n)
  end.
Fixpoint get_at (p : list nat) (ctx : list (list attr)) (n : node) : option (list (list attr) * node) :=
  match p with
  | [] => Some (ctx, n)
  | i :: r => match nth_error (echildren n) i with
              | Some c => get_at r (eattrs n :: ctx) c
              | None => None
              end
  end.
Fixpoint map_nth {A} (i : nat) (f : A -> A) (l : list A) : list A :=
  match l, i with
  | [], _ => []
  | x :: r, O => f x :: r
  | x :: r, S j => x :: map_nth j f r
  end.
Definition drop_nth {A} (i : nat) (l : list A) : list A := firstn i l ++ skipn (S i) l.
(* parent.RemoveChild(sigEl) with sigEl found at index path p *)
Fixpoint remove_at (p : list nat) (n : node) : node :=
  match p with
  | [] => n
  | [i] => match n with Elem s t a c => Elem s t a (drop_nth i c) | _ => n end
  | i :: r => match n with Elem s t a c => Elem s t a (map_nth i (remove_at r) c) | _ => n end
  end.

(* ------------------------------------------------------------------ Part 2: document with a distinguished parent *)
(* frames: the ancestors of `parent` inside `root`, OUTERMOST FIRST; root = plug frames parent; no frame: root == parent *)
Record frame := Frame { f_space : bytes; f_tag : bytes; f_attrs : list attr; f_left : list node; f_right : list node }.
Definition plug1 (f : frame) (n : node) : node :=
  Elem (f_space f) (f_tag f) (f_attrs f) (f_left f ++ n :: f_right f).
Definition plug (fs : list frame) (n : node) : node := fold_right plug1 n fs.
(* attribute lists of the frames, nearest first *)
Definition frames_ctx (fs : list frame) : list (list attr) := rev (map f_attrs fs).
(* index path of the parent inside root *)
Definition frames_path (fs : list frame) : list nat := map (fun f => List.length (f_left f)) fs.

(* ------------------------------------------------------------------ Part 3: xmldsig.Sign *)
Record sigparams := SigParams {
  sp_hash : Z;                       (* crypto.Hash value *)
  sp_keykind : Z;                    (* 0 *rsa.PublicKey, 1 *ecdsa.PublicKey, anything else: another type *)
  sp_ncerts : Z;                     (* len(certs) *)
  sp_same_key : bool;                (* x509tools.SameKey(pubKey, certs[0].PublicKey) *)
  sp_ms : bool;                      (* opts.MsCompatHashNames *)
  sp_rec : bool;                     (* opts.UseRecC14n *)
  sp_include_kv : bool;              (* opts.IncludeKeyValue *)
  sp_include_x509 : bool;            (* opts.IncludeX509 *)
  sp_kv : list node;                 (* what addKeyInfo appends to KeyInfo *)
  sp_x509 : list node;               (* what addCerts appends to KeyInfo *)
  sp_digest_text : bytes -> bytes;   (* canonical octets -> base64(hash(octets)), the DigestValue text *)
  sp_sig_text : bytes -> bytes       (* canonical octets of SignedInfo -> base64(signature), the SignatureValue text *)
}.

Fixpoint assoc (k : Z) (l : list (Z * bytes)) : bytes :=
  match l with [] => [] | (k', v) :: r => if k =? k' then v else assoc k r end.
(* hashAlgs(hash, pubKey, opts): (hashAlg, sigAlg, error) *)
Definition hash_algs (hash keykind : Z) (ms : bool) : bytes * bytes * bool :=
  let hn := assoc hash hash_names in
  if ha_no_hash hn then ([], [], true)
  else match find (fun p => fst p =? keykind) ha_pub_names with
       | None => ([], [], true)
       | Some p => ha_tail hn (snd p) (assoc hash hash_uris) ms
       end.

(* buildSignedInfo with the two branch conditions taken from the source (SignProofs: equal to Model.signed_info) *)
Definition signed_info_g (ref_id hash_alg sig_alg digest c14n : bytes) : node :=
  el c_SignedInfo []
    [ alg_el c_CanonicalizationMethod c14n
    ; alg_el c_SignatureMethod sig_alg
    ; el c_Reference
        (if bsi_uri_empty ref_id then [mkattr [] s_URI []]
         else [mkattr [] s_URI (35 :: ref_id); mkattr [] s_Type (ns_xmldsig ++ s_Object)])
        [ el c_Transforms []
            ((if bsi_enveloped ref_id then [alg_el c_Transform alg_enveloped] else [])
             ++ [alg_el c_Transform c14n])
        ; alg_el c_DigestMethod hash_alg
        ; el c_DigestValue [] [CharData digest] ] ].

(* hashCanon(el, hash): the octets that are digested *)
Definition hc_ok : bool :=
  list_eqb Z.eqb hc_call_order [0; 1; 2; 3] && hc_serializes_root && hc_digests_canon && hc_returns_sum.
Definition canon_octets (ctx : list (list attr)) (n : node) : bytes := if hc_ok then relic_c14n ctx n else [].

Record sst := SSt {
  s_ch : list node;                            (* children of parent, without the signature under construction *)
  s_sig : option (list attr * list node);      (* `signature` (attributes, children): the last child of parent *)
  s_ref : option bytes;                        (* octets digested into refDigest *)
  s_algs : option (bytes * bytes);             (* hashAlg, sigAlg *)
  s_si : option node;                          (* signedinfo *)
  s_err : bool;                                (* the variable err is non-nil *)
  s_si_octets : bytes;                         (* octets digested into siDigest *)
  s_done : bool                                (* the function has returned nil *)
}.

Section SignOn.
  Variable P : sigparams.
  Variable ctx0 : list (list attr).            (* attribute lists of root's own ancestors, nearest first *)
  Variable fs : list frame.
  Variables (ps pt : bytes) (pa : list attr).  (* the parent element without its children *)

  Definition sig_child (st : sst) : list node :=
    match s_sig st with Some (a, c) => [Elem [] xs_create_tag a c] | None => [] end.
  Definition cur_parent (st : sst) : node := Elem ps pt pa (s_ch st ++ sig_child st).
  Definition cur_root (st : sst) : node := plug fs (cur_parent st).
  Definition parent_ctx : list (list attr) := frames_ctx fs ++ ctx0.

  Definition fin_ok : bool :=
    list_eqb Z.eqb fin_call_order [0; 1; 2; 3; 4; 5; 6; 7; 8] && fin_digests_signedinfo && fin_signs_sidigest
    && fin_sigvalue_is_b64_sig && fin_attaches_keyinfo.
  (* finishSignature(signature, signedinfo, ...) *)
  Definition finish (st : sst) : result sst :=
    match s_sig st, s_si st with
    | Some (a, c), Some si =>
        if negb fin_ok then Err 96 else
        let oct := canon_octets (a :: pa :: parent_ctx) si in
        let kich := (if fin_kv_cond (sp_include_kv P) then sp_kv P else [])
                    ++ (if fin_x509_cond (sp_include_x509 P) (sp_ncerts P) then sp_x509 P else []) in
        let c' := c ++ [el c_SignatureValue [] [CharData (sp_sig_text P oct)]]
                    ++ (if fin_attach_cond (zlen kich) then [el c_KeyInfo [] kich] else []) in
        Ok (SSt (s_ch st) (Some (a, c')) (s_ref st) (s_algs st) (s_si st) false oct true)
    | _, _ => Err 97
    end.

  (* one Go statement of xmldsig.Sign; Err 97: an order of statements this interpreter gives no meaning to *)
  Definition step (ins : Z * Z) (st : sst) : result sst :=
    let '(op, arg) := ins in
    if op =? 0 then Ok st
    else if op =? 1 then (if xs_bad_key (sp_ncerts P) (sp_same_key P) then Err 1 else Ok st)
    else if op =? 2 then
      match s_sig st with
      | Some _ => Err 97
      | None => if (arg =? 0) || ((arg =? 1) && match fs with [] => true | _ => false end)
                then Ok (SSt (remove_elements xs_remove_tag (s_ch st)) None (s_ref st) (s_algs st) (s_si st) (s_err st) (s_si_octets st) false)
                else Err 97
      end
    else if op =? 3 then
      (if arg =? 1 then Ok (SSt (s_ch st) (s_sig st) (Some (canon_octets ctx0 (cur_root st))) (s_algs st) (s_si st) false (s_si_octets st) false)
       else if arg =? 0 then Ok (SSt (s_ch st) (s_sig st) (Some (canon_octets parent_ctx (cur_parent st))) (s_algs st) (s_si st) false (s_si_octets st) false)
       else Err 97)
    else if op =? 4 then (if s_err st then Err 2 else Ok st)
    else if op =? 5 then
      let '(ha, sa, e) := hash_algs (sp_hash P) (sp_keykind P) (sp_ms P) in
      Ok (SSt (s_ch st) (s_sig st) (s_ref st) (Some (ha, sa)) (s_si st) e (s_si_octets st) false)
    else if op =? 6 then
      match s_sig st with
      | Some _ => Err 97
      | None => if arg =? 0 then Ok (SSt (s_ch st) (Some ([], [])) (s_ref st) (s_algs st) (s_si st) (s_err st) (s_si_octets st) false) else Err 97
      end
    else if op =? 7 then
      match s_sig st with
      | Some (a, c) => Ok (SSt (s_ch st) (Some (create_attr xs_sigattr_key xs_sigattr_val a, c)) (s_ref st) (s_algs st) (s_si st) (s_err st) (s_si_octets st) false)
      | None => Err 97
      end
    else if op =? 8 then
      match s_sig st, s_algs st, s_ref st with
      | Some (a, c), Some (ha, sa), Some oct =>
          if negb ((arg =? 0) && bsi_digest_text_is_b64_refdigest) then Err 97 else
          let si := signed_info_g xs_ref_id ha sa (sp_digest_text P oct) (c14n_ns (sp_rec P)) in
          Ok (SSt (s_ch st) (Some (a, c ++ [si])) (s_ref st) (s_algs st) (Some si) (s_err st) (s_si_octets st) false)
      | _, _, _ => Err 97
      end
    else if op =? 9 then (if arg =? 0 then finish st else Err 97)
    else Err 97.

  Fixpoint exec (prog : list (Z * Z)) (st : sst) : result sst :=
    match prog with
    | [] => Err 98                                   (* fell off the end without a return *)
    | ins :: rest => match step ins st with
                     | Ok st' => if s_done st' then Ok st' else exec rest st'
                     | Err e => Err e
                     | Panic e => Panic e
                     end
    end.

  Definition sst0 (ch : list node) : sst := SSt ch None None None None false [] false.
  (* xmldsig.Sign(root, parent, hash, privKey, certs, opts) where parent = Elem ps pt pa ch *)
  Definition xsign (ch : list node) : result sst := exec xs_prog (sst0 ch).
End SignOn.

(* what Sign leaves behind: the new parent, the new root, the octets that went into the two digests *)
Definition out_parent (ps pt : bytes) (pa : list attr) (st : sst) : node := cur_parent ps pt pa st.
Definition out_root (fs : list frame) (ps pt : bytes) (pa : list attr) (st : sst) : node := cur_root fs ps pt pa st.
Definition ref_octets (st : sst) : bytes := match s_ref st with Some o => o | None => [] end.

(* ------------------------------------------------------------------ Part 4: xmldsig.Verify *)
Fixpoint has_prefix (p s : bytes) : bool :=
  match p, s with
  | [], _ => true
  | x :: p', y :: s' => (x =? y) && has_prefix p' s'
  | _ :: _, [] => false
  end.
Definition has_suffix (p s : bytes) : bool := has_prefix (rev p) (rev s).
Fixpoint strip_first_prefix (pfxs : list bytes) (s : bytes) : bytes :=
  match pfxs with
  | [] => s
  | p :: r => if has_prefix p s then skipn (List.length p) s else strip_first_prefix r s
  end.
(* HashAlgorithm(hashAlg): name without namespace, crypto.Hash (0 if unknown) *)
Definition hash_algorithm (alg : bytes) : bytes * Z :=
  let a := strip_first_prefix ns_prefixes alg in
  (a, match find (fun p => bytes_eqb a (snd p)) hash_names with Some p => fst p | None => 0 end).
(* crypto.Hash.Available(): the hash functions linked into relic (SHA-1, SHA-2 family) *)
Definition hash_available (h : Z) : bool := (3 <=? h) && (h <=? 7).
Definition parse_algs (hash_alg sig_alg : bytes) : result (Z * bytes) :=
  let '(hn, h) := hash_algorithm hash_alg in
  if pa_hash_unavailable (hash_available h) then Err 10 else
  let sa := strip_first_prefix ns_prefixes sig_alg in
  if pa_bad_suffix (has_suffix (45 :: hn) sa) then Err 11 else
  let sa' := firstn (List.length sa - List.length hn - 1) sa in
  if pa_bad_pubtype sa' then Err 11 else Ok (h, sa').

(* the fields xml.Unmarshal fills from the canonical bytes of the Signature element (first match per path) *)
Record vfields := VFields { v_cm : bytes; v_sm : bytes; v_uri : bytes; v_transforms : list bytes; v_dm : bytes; v_dv : bytes; v_sv : bytes }.
Definition child_el (tag : bytes) (ch : list node) : option node := find (fun c => is_elem c && bytes_eqb (etag c) tag) ch.
Definition sub (tag : bytes) (n : option node) : option node :=
  match n with Some x => child_el tag (echildren x) | None => None end.
Definition alg_of (n : option node) : bytes := match n with Some x => attr_value s_Algorithm (eattrs x) | None => [] end.
Definition txt_of (n : option node) : bytes := match n with Some x => text_of x | None => [] end.
Definition parse_sig (ch : list node) : vfields :=
  let si := child_el c_SignedInfo ch in
  let rf := sub c_Reference si in
  VFields (alg_of (sub c_CanonicalizationMethod si)) (alg_of (sub c_SignatureMethod si))
          (match rf with Some x => attr_value s_URI (eattrs x) | None => [] end)
          (match sub c_Transforms rf with
           | Some t => map (fun c => attr_value s_Algorithm (eattrs c)) (filter (fun c => is_elem c && bytes_eqb (etag c) c_Transform) (echildren t))
           | None => [] end)
          (alg_of (sub c_DigestMethod rf)) (txt_of (sub c_DigestValue rf)) (txt_of (child_el c_SignatureValue ch)).
(* the key material Verify reads: KeyInfo>KeyValue and KeyInfo>X509Data *)
Definition key_material (ch : list node) : list node :=
  match child_el c_KeyInfo ch with
  | Some k => filter (fun c => is_elem c && (bytes_eqb (etag c) c_KeyValue || bytes_eqb (etag c) c_X509Data)) (echildren k)
  | None => []
  end.
(* XMLName `http://www.w3.org/2000/09/xmldsig# Signature`: the element's namespace as the canonical bytes declare it *)
Definition sig_name_ok (ctx : list (list attr)) (n : node) : bool :=
  bytes_eqb (etag n) c_Signature
  && bytes_eqb (env_get (env_add (ctx_env ctx) (own_decls (eattrs n))) (espace n)) ns_xmldsig.

Definition xv_ok : bool :=
  list_eqb Z.eqb xv_call_order [0; 1; 2; 3; 4; 5; 6; 7; 8; 9; 9; 10; 11; 12; 7; 13]
  && xv_copies_root && xv_finds_by_path && xv_takes_first && xv_parses_canonical_sig && xv_selects_signedinfo && xv_digests_signedinfo
  && xv_parent_of_sig && xv_removes_sig && xv_reference_is_root && xv_digests_reference && xv_given_is_b64_digestvalue.

Record vresult := VResult {
  vr_hash : Z; vr_pubtype : bytes; vr_key : list node;
  vr_si_octets : bytes; vr_sv : bytes;          (* what the signature value must verify over, and its text *)
  vr_ref_octets : bytes; vr_dv : bytes;         (* what the reference digest is computed over, and the DigestValue text *)
  vr_sigpath : list nat }.

(* Verify(root, sigpath, nil) up to the cryptographic comparisons. root.Copy() has no parent: no namespace context.
   Errors: 20 not signed, 21 multiple signatures, 22 unmarshal, 23 canonicalization method, 10/11 algorithms, 24 no SignedInfo,
   25 reference transform, 26 no parent, 90 enveloping reference (URI "#id": not modelled here) *)
Definition verify_struct (root : node) (steps : list (bytes * bytes)) : result vresult :=
  if negb xv_ok then Err 96 else
  let sigs := find_paths steps root in
  if xv_none (zlen sigs) then Err 20
  else if xv_multi (zlen sigs) then Err 21
  else match sigs with
       | [] => Err 20
       | p :: _ =>
           match get_at p [] root with
           | Some (ctx, Elem ss st sa sch) =>
               if negb (sig_name_ok ctx (Elem ss st sa sch)) then Err 22 else
               let f := parse_sig sch in
               if xv_bad_c14n (v_cm f) then Err 23 else
               match parse_algs (v_dm f) (v_sm f) with
               | Err e => Err e
               | Panic e => Panic e
               | Ok (h, pt) =>
                   match child_el c_SignedInfo sch with
                   | None => if xv_no_signedinfo true then Err 24 else Err 97
                   | Some si =>
                       let si_oct := canon_octets (sa :: ctx) si in
                       if xv_enveloped (v_uri f) then
                         if xv_bad_env_transforms (zlen (v_transforms f)) (nth 0 (v_transforms f) []) (nth 1 (v_transforms f) []) then Err 25
                         else if xv_no_parent (match p with [] => true | _ => false end) then Err 26
                         else Ok (VResult h pt (key_material sch) si_oct (v_sv f) (canon_octets [] (remove_at p root)) (v_dv f) p)
                       else Err 90
                   end
               end
           | _ => Err 22
           end
       end.

(* the cryptographic half: signature value over SignedInfo, then the reference digest (order as in Verify) *)
Record vcrypto := VCrypto {
  vc_hash : Z -> bytes -> bytes;                                  (* crypto.Hash -> octets -> digest *)
  vc_b64d : bytes -> option bytes;                                (* base64.StdEncoding.DecodeString *)
  vc_sig_ok : list node -> Z -> bytes -> bytes -> bytes -> bool   (* key material, hash, pubtype, SignedInfo octets, SignatureValue text *)
}.
Definition verify (C : vcrypto) (root : node) (steps : list (bytes * bytes)) : result vresult :=
  match verify_struct root steps with
  | Ok r =>
      if negb (vc_sig_ok C (vr_key r) (vr_hash r) (vr_pubtype r) (vr_si_octets r) (vr_sv r)) then Err 30 else
      let calc := vc_hash C (vr_hash r) (vr_ref_octets r) in
      match vc_b64d C (vr_dv r) with
      | None => if xv_bad_digest_len 0 (zlen calc) true then Err 31 else Err 97
      | Some given =>
          if xv_bad_digest_len (zlen given) (zlen calc) false then Err 31
          else if xv_digest_differs (bytes_eqb given calc) then Err 32
          else Ok r
      end
  | Err e => Err e
  | Panic e => Panic e
  end.

(* the sigpath under which the signature made by Sign(root, parent) is looked for: the tags leading from root to parent,
   then "Signature" (appmanifest: "Signature" and "issuer/Signature") *)
Definition any_tag (t : bytes) : bytes * bytes := ([], t).
Definition sig_steps (fs : list frame) (pt : bytes) : list (bytes * bytes) :=
  match fs with
  | [] => [any_tag xs_create_tag]
  | _ :: inner => map (fun f => any_tag (f_tag f)) inner ++ [any_tag pt; any_tag xs_create_tag]
  end.

(* ------------------------------------------------------------------ Part 5: appmanifest.Sign / Verify *)
Record identity := Identity { id_token : bytes; id_subject : bytes; id_issuer_hash : bytes }.

(* setAssemblyIdentity: the first child `assemblyIdentity` gets publicKeyToken *)
Definition is_asi (c : node) : bool := qmatch (qname_of c_assemblyIdentity) c.
Definition set_asi (token : bytes) (ch : list node) : option (list node * node) :=
  match find is_asi ch with
  | Some asi => Some (update_first is_asi (set_attr c_publicKeyToken token) ch, set_attr c_publicKeyToken token asi)
  | None => None
  end.
(* setPublisherIdentity *)
Definition set_publisher (I : identity) (ch : list node) : list node :=
  remove_elements c_publisherIdentity ch
  ++ [Elem [] c_publisherIdentity [mkattr [] c_name (id_subject I); mkattr [] c_issuerKeyHash (id_issuer_hash I)] []].
(* setSigIds(root, sigName, keyinfoName) on the children of root: first Signature, its first KeyInfo *)
Definition is_sig (c : node) : bool := qmatch (qname_of c_Signature) c.
Definition is_keyinfo (c : node) : bool := qmatch (qname_of c_KeyInfo) c.
Definition set_sig_ids (sig_name ki_name : bytes) (ki_extra : list node) (ch : list node) : list node :=
  update_first is_sig
    (fun s => match (if am_ids_sig_cond sig_name then set_attr c_Id sig_name s else s) with
              | Elem ss st sa sc =>
                  Elem ss st sa (update_first is_keyinfo
                                   (fun k => match (if am_ids_ki_cond ki_name then set_attr c_Id ki_name k else k) with
                                             | Elem a b c d => Elem a b c (d ++ ki_extra)
                                             | x => x end) sc)
              | x => x end) ch.
(* makeLicense(asi, subjectName, manifestHash): the license element without r:issuer, and the (empty) r:issuer *)
Definition license_attrs : list attr := [mkattr c_xmlns c_r ns_mpeg21; mkattr c_xmlns c_as ns_authenticode].
Definition license_grant (asi : node) (subject mhash : bytes) : node :=
  Elem c_r c_grant []
    [ Elem c_as c_ManifestInformation [mkattr [] c_Hash mhash; mkattr [] c_Description []; mkattr [] c_Url []]
        [match asi with Elem _ t a c => Elem (if am_license_asi_prefix then c_as else espace asi) t a c | x => x end]
    ; Elem c_as c_SignedBy [] []
    ; Elem c_as c_AuthenticodePublisher [] [Elem c_as c_X509SubjectName [] [CharData subject]] ].
Definition license_frame (asi : node) (subject mhash : bytes) : frame :=
  Frame c_r c_license license_attrs [license_grant asi subject mhash] [].

Definition am_ok : bool :=
  list_eqb Z.eqb am_call_order [0; 1; 2; 3; 4; 5; 6; 7; 4; 5; 8; 9; 10; 11; 12]
  && match am_sign_args with [(1, 1, 0); (4, 5, 0)] => true | _ => false end
  && am_opts_ms_kv && am_second_includes_x509 && am_ids_primary && am_ids_secondary && am_hash_of_primary && am_license_args
  && list_eqb Z.eqb am_asi_order [0; 1; 2] && list_eqb Z.eqb am_pub_order [0; 1; 2; 3; 3].

Record am_out := AmOut { ao_root : node; ao_primary : sst; ao_secondary : sst }.
(* appmanifest.Sign on the parsed root element Elem rs rt ra ch.  P1 / P2: parameters of the two xmldsig.Sign calls
   (hash texts, signature texts, key material); mhash: makeManifestHash as a function of the primary DigestValue text *)
Definition am_sign (I : identity) (P1 P2 : sigparams) (mhash : bytes -> bytes) (rs rt : bytes) (ra : list attr) (ch : list node) : result am_out :=
  if negb am_ok then Err 96 else
  match set_asi (id_token I) ch with
  | None => if am_asi_missing true then Err 40 else Err 97
  | Some (ch1, asi) =>
      let ch2 := set_publisher I ch1 in
      match xsign P1 [] [] rs rt ra ch2 with
      | Ok st1 =>
          let dv := sp_digest_text P1 (ref_octets st1) in
          let lf := license_frame asi (id_subject I) (mhash dv) in
          match xsign P2 [] [lf] c_r c_issuer [] [] with
          | Ok st2 =>
              let issuer := match out_parent c_r c_issuer [] st2 with
                            | Elem a b c d => Elem a b c (set_sig_ids c_AuthenticodeSignature [] [] d)
                            | x => x end in
              let license := plug [lf] issuer in
              let reldata := Elem c_msrel c_RelData [mkattr c_xmlns c_msrel ns_msrel] [license] in
              let ch3 := set_sig_ids c_StrongNameSignature c_StrongNameKeyInfo [reldata] (echildren (out_parent rs rt ra st1)) in
              Ok (AmOut (Elem rs rt ra ch3) st1 st2)
          | Err e => Err e
          | Panic e => Panic e
          end
      | Err e => Err e
      | Panic e => Panic e
      end
  end.

(* appmanifest.Verify up to the cryptographic comparisons: the primary signature at "Signature", the license at
   Signature/KeyInfo/msrel:RelData/r:license, its signature at issuer/Signature *)
Definition license_steps : list (bytes * bytes) :=
  [qname_of c_Signature; qname_of c_KeyInfo; qname_of c_msrel_RelData; qname_of c_r_license].
Definition am_verify_with (V : node -> list (bytes * bytes) -> result vresult) (root : node) : result (vresult * vresult) :=
  match V root [qname_of c_Signature] with
  | Ok r1 =>
      match find_paths license_steps root with
      | [] => Err 20
      | p :: _ => match get_at p [] root with
                  | Some (_, lic) => match V lic [qname_of c_issuer; qname_of c_Signature] with
                                     | Ok r2 => Ok (r1, r2)
                                     | Err e => Err (100 + e)
                                     | Panic e => Panic e
                                     end
                  | None => Err 20
                  end
      end
  | Err e => Err e
  | Panic e => Panic e
  end.
Definition am_verify_struct (root : node) : result (vresult * vresult) := am_verify_with verify_struct root.
(* with the cryptographic comparisons (the SameKey / publicKeyToken comparisons of appmanifest.Verify concern the
   identity fields and are not part of this model) *)
Definition am_verify (C : vcrypto) (root : node) : result (vresult * vresult) := am_verify_with (verify C) root.

(* ------------------------------------------------------------------ Part 6: specification *)
(* XMLDSIG-core 6.6.4: the enveloped signature transform removes the Signature element that contains the transform
   (the whole element, wherever it is) from the node-set of the document; exc-c14n of the result is what is digested.
   `sigp`: position of that Signature element (child indices from the document element). *)
Fixpoint spec_drop (sigp : list nat) (n : node) : node :=
  match sigp, n with
  | [], _ => n
  | [i], Elem s t a c => Elem s t a (firstn i c ++ skipn (i + 1) c)
  | i :: r, Elem s t a c => Elem s t a (firstn i c ++ match nth_error c i with Some x => [spec_drop r x] | None => [] end ++ skipn (i + 1) c)
  | _, _ => n
  end.
Definition spec_enveloped_octets (doc : node) (sigp : list nat) : bytes := exc_c14n [] (spec_drop sigp doc).
(* Reference URI="" selects the whole document (comments excepted), not only the document element: Canonical XML 1.0
   section 2.3 renders processing instructions that precede / follow the document element, each separated from it by #xA.
   `lead` / `trail`: the children of the document node before / after the document element. *)
Definition is_pi (n : node) : bool := match n with ProcInst _ _ => true | _ => false end.
Definition spec_document_octets (lead trail : list node) (doc : node) (sigp : list nat) : bytes :=
  flat_map (fun n => exc_node [] [] n ++ [10]) (filter is_pi lead)
  ++ spec_enveloped_octets doc sigp
  ++ flat_map (fun n => 10 :: exc_node [] [] n) (filter is_pi trail).
