(* Laws/Pipeline.v — the digest-then-patch pipeline shared by every signer
   (Transform.GetReader -> Signer.Sign -> Transformer.Apply -> Fixup), abstracted as a `format`, the laws each
   format model has to prove, and the generic theorems that follow for C01 / C02 / C03 / C08.
   Cryptography is symbolic: section variables and hypotheses, no axioms. *)
From Relic Require Import Base.Prelude.

Section Pipeline.
  (* ---- symbolic cryptography *)
  Variables key pubk sigv : Type.
  Variable H : Z -> bytes -> bytes.                 (* digest algorithm id -> message -> digest *)
  Variable pub : key -> pubk.
  Variable sign : key -> bytes -> sigv.
  Variable vrfy : pubk -> bytes -> sigv -> bool.
  Hypothesis sign_correct : forall k m, vrfy (pub k) m (sign k m) = true.

  (* the signature blob embedded in an artefact (CMS SignedData / PGP signature), abstractly *)
  Record sigblob := mkBlob { sb_alg : Z; sb_digest : bytes; sb_cert : pubk; sb_sig : sigv }.
  Variable tbs : Z -> bytes -> bytes.               (* what the signature value covers: signed attributes with the digest *)
  Variable ser : sigblob -> bytes.
  Variable deser : bytes -> option sigblob.
  Hypothesis deser_ser : forall b, deser (ser b) = Some b.

  Definition mksig (k : key) (a : Z) (d : bytes) : sigblob := mkBlob a d (pub k) (sign k (tbs a d)).
  Definition blob_ok (b : sigblob) : bool := vrfy (sb_cert b) (tbs (sb_alg b) (sb_digest b)) (sb_sig b).

  (* ---- a format *)
  Variable payload : Type.
  Record format := mkFormat {
    f_hashin  : bytes -> result bytes;            (* digest preimage of a file; existing signature regions skipped *)
    f_embed   : bytes -> bytes -> result bytes;   (* file -> blob -> signed file (patch applied, fixups done) *)
    f_extract : bytes -> result (option bytes);   (* the embedded blob; None = not signed *)
    f_payload : bytes -> result payload           (* the independent reader's view of everything that is not signature *)
  }.
  Variable F : format.

  (* the laws (per-format proof obligations) *)
  Definition law_extract := forall f b g, f_embed F f b = Ok g -> f_extract F g = Ok (Some b).
  Definition law_hashin  := forall f b g, f_embed F f b = Ok g -> f_hashin F g = f_hashin F f.
  Definition law_payload := forall f b g, f_embed F f b = Ok g -> f_payload F g = f_payload F f.
  Definition law_hash_defined := forall f b g, f_embed F f b = Ok g -> exists pre, f_hashin F f = Ok pre.

  (* ---- sign and verify *)
  Definition sign_file (k : key) (a : Z) (f : bytes) : result bytes :=
    pre <- f_hashin F f ;; f_embed F f (ser (mksig k a (H a pre))).

  Inductive verdict := Accept (p : pubk) (a : Z) | NotSigned | Reject.
  Definition verify_file (g : bytes) : verdict :=
    match f_extract F g with
    | Ok None => NotSigned
    | Ok (Some bb) =>
        match deser bb with
        | None => Reject
        | Some b =>
            match f_hashin F g with
            | Ok pre => if blob_ok b && bytes_eqb (H (sb_alg b) pre) (sb_digest b) then Accept (sb_cert b) (sb_alg b) else Reject
            | _ => Reject
            end
        end
    | _ => Reject
    end.
  Definition is_signed (g : bytes) : bool :=
    match f_extract F g with Ok (Some _) => true | _ => false end.

  Hypothesis L1 : law_extract.
  Hypothesis L2 : law_hashin.
  Hypothesis L3 : law_payload.

  (* C01: whatever is signed verifies, and names the configured certificate and the requested digest *)
  Theorem sign_then_verify : forall k a f g,
    sign_file k a f = Ok g -> verify_file g = Accept (pub k) a.
  Proof.
    unfold sign_file, verify_file. intros k a f g Hs.
    destruct (f_hashin F f) as [pre| |] eqn:Hh; cbn [bind] in Hs; try discriminate.
    rewrite (L1 _ _ _ Hs), deser_ser, (L2 _ _ _ Hs), Hh.
    unfold blob_ok, mksig. cbn [sb_alg sb_digest sb_cert sb_sig].
    rewrite sign_correct. cbn [andb].
    replace (bytes_eqb (H a pre) (H a pre)) with true; [reflexivity|].
    symmetry. apply list_eqb_Z_eq. reflexivity.
  Qed.

  (* C08: any history of re-signing keeps the artefact verifiable under the last key, signed, with the original payload *)
  Fixpoint resign (hist : list (key * Z)) (f : bytes) : result bytes :=
    match hist with
    | [] => Ok f
    | (k, a) :: r => g <- sign_file k a f ;; resign r g
    end.
  Theorem resign_history : forall hist f g k a,
    resign (hist ++ [(k, a)]) f = Ok g ->
    verify_file g = Accept (pub k) a /\ is_signed g = true /\ f_payload F g = f_payload F f /\ f_hashin F g = f_hashin F f.
  Proof.
    induction hist as [|[k0 a0] hist IH]; intros f g k a Hr.
    - cbn [app resign] in Hr. destruct (sign_file k a f) as [g'| |] eqn:Hs; cbn [bind] in Hr; try discriminate.
      inversion Hr; subst g'. pose proof (sign_then_verify _ _ _ _ Hs) as Hv.
      unfold sign_file in Hs. destruct (f_hashin F f) as [pre| |] eqn:Hh; cbn [bind] in Hs; try discriminate.
      repeat split.
      + exact Hv.
      + unfold is_signed. now rewrite (L1 _ _ _ Hs).
      + exact (L3 _ _ _ Hs).
      + rewrite (L2 _ _ _ Hs). exact Hh.
    - cbn [app resign] in Hr. destruct (sign_file k0 a0 f) as [g0| |] eqn:Hs; cbn [bind] in Hr; try discriminate.
      destruct (IH _ _ _ _ Hr) as [Hv [Hi [Hp Hh]]].
      unfold sign_file in Hs. destruct (f_hashin F f) as [pre| |] eqn:Hh0; cbn [bind] in Hs; try discriminate.
      repeat split; auto.
      + rewrite Hp. exact (L3 _ _ _ Hs).
      + rewrite Hh, (L2 _ _ _ Hs). exact Hh0.
  Qed.

  (* C08: the digest of an artefact does not depend on whether it already carries a signature *)
  Theorem digest_ignores_signature : forall f b g a, f_embed F f b = Ok g ->
    (pre <- f_hashin F g ;; Ok (H a pre)) = (pre <- f_hashin F f ;; Ok (H a pre)).
  Proof. intros. now rewrite (L2 _ _ _ H0). Qed.

  (* C02: under the symbolic idealisation (collision-free digest on the compared values, unforgeable signatures), an artefact
     accepted under key k's certificate has the digest preimage of some artefact k actually signed with that algorithm *)
  Variable issued : key -> Z -> bytes -> Prop.      (* k has signed digest d under algorithm a *)
  Hypothesis unforgeable : forall k a d s, vrfy (pub k) (tbs a d) s = true -> issued k a d.
  Hypothesis pub_injective : forall k k', pub k = pub k' -> k = k'.
  Theorem tamper_rejected : forall g' k a,
    verify_file g' = Accept (pub k) a ->
    exists pre, f_hashin F g' = Ok pre /\ issued k a (H a pre).
  Proof.
    unfold verify_file. intros g' k a Hv.
    destruct (f_extract F g') as [[bb|]| |]; try discriminate.
    destruct (deser bb) as [b|]; try discriminate.
    destruct (f_hashin F g') as [pre| |] eqn:Hh; try discriminate.
    destruct (blob_ok b) eqn:Hb; cbn [andb] in Hv; try discriminate.
    destruct (bytes_eqb (H (sb_alg b) pre) (sb_digest b)) eqn:He; try discriminate.
    inversion Hv as [[Hc Ha]]. exists pre. split; [reflexivity|].
    apply list_eqb_Z_eq in He. unfold blob_ok in Hb. rewrite Hc in Hb. subst a. rewrite He.
    eapply unforgeable. exact Hb.
  Qed.
  (* ... so with a collision-free digest the preimage — i.e. every byte the format's digest covers — is unchanged *)
  Theorem tamper_rejected_preimage : forall g g' k a pre,
    (forall d, issued k a d -> d = H a pre) ->            (* k has signed only g's digest under a *)
    (forall x y, H a x = H a y -> x = y) ->                (* idealised collision freedom *)
    f_hashin F g = Ok pre ->
    verify_file g' = Accept (pub k) a -> f_hashin F g' = Ok pre.
  Proof.
    intros g g' k a pre Honly Hinj Hg Hv.
    destruct (tamper_rejected _ _ _ Hv) as [pre' [Hh Hi]].
    rewrite Hh. f_equal. apply Hinj. exact (Honly _ Hi).
  Qed.
End Pipeline.
