(* FmtXAR/Properties.v — property theorems only, for the two Apple container formats of this unit:
   xar_  flat packages (lib/fruit/xar, signers/xar),  dmg_  disk images (lib/fruit/dmg, signers/dmg).
   Each theorem is closed by a lemma of FmtXAR/ProofsHdr.v, ProofsDMG.v, ProofsXAR.v or WitnessXAR.v.  Grouped by the property served
   (C01 C02 C03 C05 C08 C11); checks/fmtxar.py ASPECT_THEOREMS lists the same names.  Where the faithful model violates a statement at
   full strength the theorem `*_refuted` exhibits a concrete witness (replayed on the real code by checks/fmtxar.py) and the theorem
   itself is stated on the exact domain where it holds (xar_dom / dmg_dom).

   Opaque in this unit: zlib + the XML document of a xar table of contents (a decoder `dec` / encoder `enc` to the abstract table of
   contents of Model.v, assumed to round-trip on the tables of contents `good` that occur), digests (`Hf`), the RSA signature (`csig`),
   the CMS blob (unit C16) and the CodeDirectory / superblob (unit FmtMACHO).  xar_hypotheses_satisfiable shows the assumptions have a
   model. *)
From Relic Require Import Base.Prelude Base.Enc Generated.FmtXAR_gen FmtXAR.Model FmtXAR.Codec FmtXAR.ProofsHdr FmtXAR.ProofsDMG FmtXAR.ProofsXAR FmtXAR.WitnessXAR.
From Relic Require Laws.Pipeline.

(* ====================================================================================================== headers and trailers *)
(* C01 C05: parse (marshal h) = h for every field value in range (sizes as int64, two's complement); the header is 28 bytes; a reader
   written from the xar format description reads relic's header back (magic 0, size 4, version 6, compressed length 8, uncompressed
   length 16, checksum algorithm 24, big endian) *)
Theorem xar_header_roundtrip : forall h rest hid, xhdr_ok h -> xh_magic h = xar_magic -> xh_version h = 1 ->
  assoc_z (xh_htype h) xar_hash_of_enum = Some hid ->
  xar_parse_header (xar_marshal_header h ++ rest) = Ok (h, hid) /\ zlen (xar_marshal_header h) = 28 /\
  (all_bytes rest = true -> 0 <= xh_clen h -> 0 <= xh_ulen h -> spec_xar_header (xar_marshal_header h ++ rest) = Some h).
Proof.
  intros h rest hid H1 H2 H3 H4. split; [now apply header_roundtrip|]. split; [now apply marshal_header_zlen|].
  intros. now apply (header_spec_reads_relic h rest hid).
Qed.
(* C05: whatever parseHeader accepts, the specification reader reads the same values at the published offsets, and relic's hash
   enumeration is the format's (1 SHA-1, 3 SHA-256, 4 SHA-512) *)
Theorem xar_header_spec_agree : forall b h hid, all_bytes b = true -> xar_parse_header b = Ok (h, hid) -> 0 <= xh_clen h -> 0 <= xh_ulen h ->
  spec_xar_header b = Some h /\ spec_cksum_hash (xh_htype h) = Some hid.
Proof. exact FmtXAR.ProofsHdr.header_spec_agree. Qed.
(* C11: the header parser never panics on any byte string and looks at 28 bytes only *)
Theorem xar_parse_header_no_panic : forall b p, xar_parse_header b <> Panic p /\ xar_parse_header (ztake 28 b) = xar_parse_header b.
Proof. intros b p. split; [apply parse_header_no_panic|apply parse_header_prefix]. Qed.

(* C01 C05: the UDIF trailer: parse (marshal k) = k for every trailer value in range; 512 bytes *)
Theorem dmg_koly_roundtrip : forall k rest, koly_ok k -> dmg_parse_koly (dmg_marshal_koly k ++ rest) = Ok k /\ zlen (dmg_marshal_koly k) = 512.
Proof. intros k rest H. split; [now apply koly_roundtrip|now apply marshal_koly_zlen]. Qed.
(* C05: relic's struct layout IS the published layout of the koly block (field by field: signature 0 ... reserved 500..512) *)
Theorem dmg_koly_layout_is_published : forall b, split_w dmg_koly_widths b = spec_koly_slices b.
Proof. exact FmtXAR.ProofsHdr.koly_positions. Qed.
(* C05 C02: re-serialising a parsed trailer reproduces every field's bytes at its place, except the three reserved areas, which come
   out as zeros (so they are not part of anything relic hashes: dmg_reserved_unprotected) *)
Theorem dmg_koly_marshal_parse : forall b k, all_bytes b = true -> zlen b = 512 -> dmg_parse_koly b = Ok k ->
  spec_koly_slices (dmg_marshal_koly k) = blank_parts dmg_koly_widths dmg_koly_blank (spec_koly_slices b) /\ koly_ok k.
Proof.
  intros b k Hb Hl Hp. split; [|now apply (parse_koly_ok b)]. rewrite <- !koly_positions. now apply koly_marshal_parse.
Qed.

(* ====================================================================================================== disk images *)
(* dmg_format = (dmg_hashin, dmg_embed_wf, dmg_extract, spec_dmg_payload); dmg_embed_wf = dmg_embed when dmg_dom f && dmg_blob_ok blob,
   Err E_DOMAIN otherwise.  dmg_dom (ProofsDMG.v): all bytes; a trailer with the koly magic; the end of the property list
   (XMLOffset + XMLLength, where relic cuts the image) lies in the file in front of the trailer; data fork, resource fork and property
   list lie in front of that point.  dmg_blob_ok: 1 .. 10^7 bytes. *)

(* ---- C01 *)
Theorem dmg_law_extract : forall f blob g, dmg_embed_wf f blob = Ok g -> dmg_extract g = Ok (Some blob).
Proof. exact FmtXAR.ProofsDMG.dmg_law_extract. Qed.
(* C01 + C08: the digest input (single code page = the bytes in front of the signature, and the trailer with the signature length
   blanked) does not see the signature just written nor one that was there *)
Theorem dmg_law_hashin : forall f blob g, dmg_embed_wf f blob = Ok g -> dmg_hashin g = dmg_hashin f.
Proof. exact FmtXAR.ProofsDMG.dmg_law_hashin. Qed.
(* the verifier (DMG.Verify: trailer as found in the file, pages up to the end of the property list) recomputes the signer's input *)
Theorem dmg_verifier_recomputes : forall f blob g, dmg_embed_wf f blob = Ok g -> dmg_vhashin g = dmg_hashin f.
Proof. exact FmtXAR.ProofsDMG.dmg_vhashin_signed. Qed.
Theorem dmg_embed_total : forall f blob, dmg_dom f = true -> dmg_blob_ok blob = true ->
  (exists g, dmg_embed_wf f blob = Ok g) \/
  (dmg_embed_wf f blob = Err E_GAP /\ exists k, dmg_parse_koly (zdrop (zlen f - 512) f) = Ok k /\
     kget dmg_koly_idx_SignatureOffset k <> 0 /\ kget dmg_koly_idx_SignatureOffset k <> kget dmg_koly_idx_XMLOffset k + kget dmg_koly_idx_XMLLength k).
Proof. exact FmtXAR.ProofsDMG.dmg_embed_total. Qed.
(* refusals of dmg.Sign for EVERY input: shorter than a trailer; an existing signature that does not start at the end of the property
   list; a property list end outside the file.  (Nothing else is refused: in particular not a wrong magic, see the report.) *)
Theorem dmg_refuses_clean : forall f blob e, dmg_embed f blob = Err e ->
  (e = E_EOF /\ zlen f < 512) \/
  exists k, dmg_parse_koly (zdrop (zlen f - 512) f) = Ok k /\
    let bundle := kget dmg_koly_idx_XMLOffset k + kget dmg_koly_idx_XMLLength k in
    (e = E_GAP /\ kget dmg_koly_idx_SignatureOffset k <> 0 /\ kget dmg_koly_idx_SignatureOffset k <> bundle) \/
    (e = E_PATCH /\ (bundle < 0 \/ zlen f < bundle)).
Proof. exact FmtXAR.ProofsDMG.dmg_refuses. Qed.

(* ---- C08 *)
Theorem dmg_dom_preserved : forall f blob g, dmg_embed_wf f blob = Ok g -> dmg_dom g = true.
Proof. exact FmtXAR.ProofsDMG.dmg_dom_preserved. Qed.
Theorem dmg_is_signed_spec : forall f, dmg_dom f = true -> (dmg_extract f = Ok None <-> spec_dmg_signature f = Some None).
Proof. exact FmtXAR.ProofsDMG.dmg_is_signed_spec. Qed.

(* ---- C03 *)
(* law_payload: data fork, resource fork, property list and every trailer field except the code signature's offset / length and the
   reserved areas, as a reader of the published layout finds them, are unchanged *)
Theorem dmg_law_payload : forall f blob g, dmg_embed_wf f blob = Ok g -> spec_dmg_payload g = spec_dmg_payload f.
Proof. exact FmtXAR.ProofsDMG.dmg_law_payload. Qed.
(* full statement without dmg_dom: fails.  Witness: the property list IN FRONT of the data fork: relic cuts the image at the end of
   the property list, the data fork is gone, signing reports success and the result verifies *)
Theorem dmg_payload_refuted : exists g,
  dmg_embed w_dmg_xml_first [9; 9] = Ok g /\ dmg_extract g = Ok (Some [9; 9]) /\
  (exists it, spec_dmg_payload w_dmg_xml_first = Ok it /\ di_data it = Some [1; 2; 3]) /\
  (exists it, spec_dmg_payload g = Ok it /\ di_data it <> Some [1; 2; 3]) /\
  zlen g < zlen w_dmg_xml_first + 2.
Proof. exact FmtXAR.ProofsDMG.dmg_payload_refuted. Qed.

(* ---- C05 C02 *)
(* what is hashed for a disk image is exactly what lies in front of the code signature offset the rewritten trailer declares; the
   file is pages ++ blob ++ trailer and nothing else; the specification reader finds the blob at that offset with that length *)
Theorem dmg_code_size_is_data_end : forall f blob g, dmg_embed_wf f blob = Ok g ->
  exists sk pages rep trailer,
    spec_dmg_trailer g = Some sk /\ sk_sigoff sk = zlen pages /\ sk_siglen sk = zlen blob /\
    spec_dmg_signature g = Some (Some blob) /\
    dmg_hashin f = Ok (pages ++ rep) /\ dmg_vhashin g = Ok (pages ++ rep) /\ zlen rep = 512 /\ zlen trailer = 512 /\
    pages = ztake (sk_sigoff sk) g /\ pages = ztake (zlen pages) f /\ g = pages ++ blob ++ trailer /\
    sk_xmloff sk + sk_xmllen sk = sk_sigoff sk.
Proof. exact FmtXAR.ProofsDMG.dmg_code_size_is_data_end. Qed.
(* C02: two images with the same verifier digest input agree on every byte in front of the end of the property list and on every
   trailer field relic parses, except the signature length *)
Theorem dmg_protect : forall g1 g2 p, all_bytes g1 = true -> all_bytes g2 = true -> dmg_vhashin g1 = Ok p -> dmg_vhashin g2 = Ok p ->
  exists k1 k2, dmg_parse_koly (zdrop (zlen g1 + dmg_open_seek) g1) = Ok k1 /\ dmg_parse_koly (zdrop (zlen g2 + dmg_open_seek) g2) = Ok k2 /\
    (forall i, i <> dmg_koly_idx_SignatureLength -> kget i k1 = kget i k2) /\
    let n := kget dmg_koly_idx_XMLOffset k1 + kget dmg_koly_idx_XMLLength k1 in ztake n g1 = ztake n g2.
Proof. exact FmtXAR.ProofsDMG.dmg_protect. Qed.
(* recorded finding (C02:spec:dmg:koly-reserved): reserved trailer bytes are outside the digest input *)
Theorem dmg_reserved_unprotected : exists g1 g2,
  g1 <> g2 /\ dmg_vhashin g1 = dmg_vhashin g2 /\ dmg_extract g1 = dmg_extract g2 /\ dmg_extract g1 = Ok (Some [9; 9]) /\
  zlen g1 = zlen g2 /\ nth 240 (zdrop (zlen g1 - 512) g1) 0 <> nth 240 (zdrop (zlen g2 - 512) g2) 0.
Proof. exact FmtXAR.ProofsDMG.dmg_reserved_unprotected. Qed.

(* ---- C11 *)
Theorem dmg_open_no_panic : forall f p, dmg_open f <> Panic p.
Proof. exact FmtXAR.ProofsDMG.dmg_open_no_panic. Qed.
Theorem dmg_open_allocs_bounded : forall f o, dmg_open f = Ok o -> Forall (fun n => 0 < n <= 10000000) (do_allocs o).
Proof. exact FmtXAR.ProofsDMG.dmg_open_allocs_bounded. Qed.
Theorem dmg_sign_no_panic : forall f blob p, dmg_sign f blob <> Panic p.
Proof. exact FmtXAR.ProofsDMG.dmg_sign_no_panic. Qed.

(* ---- C01 C08: the pipeline of Laws/Pipeline.v, cryptography symbolic *)
Section DMGCrypto.
  Variables key pubk sigv : Type.
  Variable H : Z -> bytes -> bytes.
  Variable pub : key -> pubk.
  Variable sign : key -> bytes -> sigv.
  Variable vrfy : pubk -> bytes -> sigv -> bool.
  Hypothesis sign_correct : forall k m, vrfy (pub k) m (sign k m) = true.
  Variable tbs : Z -> bytes -> bytes.
  Variable ser : Pipeline.sigblob pubk sigv -> bytes.
  Variable deser : bytes -> option (Pipeline.sigblob pubk sigv).
  Hypothesis deser_ser : forall b, deser (ser b) = Some b.
  Theorem dmg_sign_then_verify : forall k a f g,
    Pipeline.sign_file key pubk sigv H pub sign tbs ser dmg_items dmg_format k a f = Ok g ->
    Pipeline.verify_file pubk sigv H vrfy tbs deser dmg_items dmg_format g = Pipeline.Accept pubk (pub k) a.
  Proof. exact (FmtXAR.ProofsDMG.dmg_sign_then_verify key pubk sigv H pub sign vrfy sign_correct tbs ser deser deser_ser). Qed.
  Theorem dmg_resign_history : forall hist f g k a,
    Pipeline.resign key pubk sigv H pub sign tbs ser dmg_items dmg_format (hist ++ [(k, a)]) f = Ok g ->
    Pipeline.verify_file pubk sigv H vrfy tbs deser dmg_items dmg_format g = Pipeline.Accept pubk (pub k) a
    /\ Pipeline.is_signed dmg_items dmg_format g = true
    /\ spec_dmg_payload g = spec_dmg_payload f /\ dmg_hashin g = dmg_hashin f.
  Proof. exact (FmtXAR.ProofsDMG.dmg_resign_history key pubk sigv H pub sign vrfy sign_correct tbs ser deser deser_ser). Qed.
End DMGCrypto.

(* non-vacuity: the example image is in the domain, signs, re-signs, and every law holds on it by computation *)
Example dmg_dom_inhabited : dmg_dom w_dmg = true /\ dmg_dom w_dmg_xml_first = false.
Proof. exact FmtXAR.ProofsDMG.dmg_dom_inhabited. Qed.
Example dmg_laws_computed :
  match dmg_embed_wf w_dmg [7; 7; 7] with
  | Ok g => dmg_extract g = Ok (Some [7; 7; 7]) /\ dmg_hashin g = dmg_hashin w_dmg /\ dmg_vhashin g = dmg_hashin w_dmg /\
            spec_dmg_payload g = spec_dmg_payload w_dmg /\ dmg_dom g = true /\ zlen g = zlen w_dmg + 3 /\
            match dmg_embed_wf g [8] with Ok g2 => dmg_extract g2 = Ok (Some [8]) /\ zlen g2 = zlen w_dmg + 1 /\ spec_dmg_payload g2 = spec_dmg_payload w_dmg | _ => False end
  | _ => False
  end.
Proof. exact FmtXAR.ProofsDMG.dmg_laws_computed. Qed.

(* ====================================================================================================== flat packages *)
Section Xar.
  Variable Hf : Z -> bytes -> bytes.          (* digest function by Go hash number *)
  Variable dec : bytes -> option xtoc.        (* inflate + read the table of contents *)
  Variable enc : xtoc -> bytes.               (* write + deflate *)
  Variable usize : xtoc -> Z.
  Variable csig : bytes -> bytes.             (* RSA signature over a digest *)
  Variable good : xtoc -> Prop.               (* the tables of contents on which the codec is assumed to round-trip, in relic's size class *)
  Hypothesis dec_enc : forall t, good t -> dec (enc t) = Some t.
  Hypothesis Hf_len : forall hid x, zlen (Hf hid x) = hash_size hid.
  Hypothesis enc_small : forall t, good t -> zlen (enc t) <= 1000000.
  Hypothesis usize_ok : forall t, good t -> 0 <= usize t <= 10000000.
  Hypothesis enc_bytes : forall t, good t -> all_bytes (enc t) = true.
  Hypothesis Hf_bytes : forall hid x, all_bytes (Hf hid x) = true.
  Hypothesis csig_bytes : forall x, all_bytes (csig x) = true.

  Notation xar_embed := (xar_embed Hf dec enc usize csig).
  Notation xar_sign := (xar_sign Hf dec enc usize csig).
  Notation xar_dom := (xar_dom dec).
  Notation params_ok := (params_ok csig).
  Notation new_toc := ProofsXAR.new_toc.

  (* ---- C03 C01 *)
  (* the slot plan of reserveSignatures: checksum at 0 with the digest size, the classic signature (RSA leaf only), the CMS slot of
     6144 + certificates bytes; contiguous from 0; the old slots are all removed and their sizes summed *)
  Theorem xar_plan_layout : forall P t, toc_wf t = true ->
    xar_new_toc P t = (toc_orig t, plan_total P, mkToc (plan_slots P) (map (xar_adjust_ref (plan_total P - toc_orig t)) (t_refs t)) (t_strict t)) /\
    zsum (map (fun s => if sl_has_size s then sl_size s else 0) (plan_slots P)) = plan_total P.
  Proof. intros P t H. split; [exact (new_toc_shape P t H)|apply plan_slots_sum]. Qed.
  (* the heap as a reader following the rewritten table of contents finds it: declared slots = planned slots; checksum slot = digest of
     the emitted compressed table of contents; classic slot = RSA signature over it; CMS slot = blob + zero padding; every data
     reference moved behind the slots and naming the same bytes as before *)
  Theorem xar_heap_layout : forall P f h hid t cms g, good (new_toc P t) -> params_ok P -> xar_dom f h hid t -> xar_embed P f cms = Ok g ->
    exists hdr' z' heap',
      spec_xar_split g = Some (hdr', z', heap') /\ dec z' = Some (new_toc P t) /\ t_slots (new_toc P t) = plan_slots P /\
      xh_hsize hdr' = 28 /\ xh_clen hdr' = zlen z' /\ spec_cksum_hash (xh_htype hdr') = Some (sp_hash P) /\
      (let hs := hash_size (sp_hash P) in let ck := Hf (sp_hash P) z' in
       spec_slot_bytes heap' (mkSlot K_CHECKSUM 0 true hs 0) = Some ck /\
       (sp_rsa P = true -> spec_slot_bytes heap' (mkSlot K_SIGNATURE hs true (sp_classic P) (sp_ncerts P)) = Some (csig ck)) /\
       spec_slot_bytes heap' (mkSlot K_XSIGNATURE (hs + (if sp_rsa P then sp_classic P else 0)) true (6144 + sp_certsum P) (sp_ncerts P)) = Some (cms_slot P cms)) /\
      Forall (fun r' => is_data_kind (fr_kind r') = true -> plan_total P <= fr_off r') (t_refs (new_toc P t)) /\
      map (spec_ref_bytes heap') (t_refs (new_toc P t)) = map (spec_ref_bytes (heap_of f h)) (t_refs t).
  Proof. intros. eapply ProofsXAR.xar_heap_layout; eassumption. Qed.
  (* law_payload on the domain *)
  Theorem xar_law_payload : forall P f h hid t cms g, good (new_toc P t) -> params_ok P -> xar_dom f h hid t -> xar_embed P f cms = Ok g ->
    spec_xar_payload dec g = spec_xar_payload dec f.
  Proof. intros. eapply ProofsXAR.xar_law_payload_dom; eassumption. Qed.

  (* ---- C01 C02 *)
  Theorem xar_toc_checksum_covers_toc : forall P f h hid t cms g, good (new_toc P t) -> params_ok P -> xar_dom f h hid t -> xar_embed P f cms = Ok g ->
    exists z', spec_xar_ztoc g = Ok z' /\ z' = enc (new_toc P t) /\
      (exists o, xar_open Hf dec g = Ok o /\ xo_tochash_pre o = z' /\ xo_hash o = sp_hash P /\
                 xo_classic o = (if sp_rsa P then Some (csig (Hf (sp_hash P) z')) else None)) /\
      zslice (28 + zlen z') (28 + zlen z' + hash_size (sp_hash P)) g = Hf (sp_hash P) z' /\
      xar_checksum_covers = 1 /\ xar_classic_signs = 2 /\ xar_cms_content = 2 /\ xar_verify_cms_content = 0 /\ xar_verify_classic_content = 0.
  Proof. intros. eapply ProofsXAR.xar_toc_checksum_covers_toc; eassumption. Qed.
  Theorem xar_law_extract : forall P f h hid t cms g, good (new_toc P t) -> params_ok P -> xar_dom f h hid t -> xar_embed P f cms = Ok g ->
    xar_extract Hf dec g = Ok (Some (cms_slot P cms)).
  Proof. intros. eapply ProofsXAR.xar_law_extract_dom; eassumption. Qed.
  (* relic's own verifier accepts the structure of what Sign wrote (Open succeeds, CMS route, digest of the stored table of contents,
     every member check passes) — on archives whose verifier-selected members all carry an archived checksum (verify_covered) *)
  Theorem xar_sign_then_verify_struct : forall P f h hid t cms g, good (new_toc P t) -> params_ok P -> xar_dom f h hid t -> verify_covered t ->
    xar_embed P f cms = Ok g -> xar_verify_struct Hf dec g false = Ok (2, cms_slot P cms, Hf (sp_hash P) (enc (new_toc P t))).
  Proof. intros. eapply ProofsXAR.xar_sign_then_verify_struct; eassumption. Qed.
  (* on the domain Sign succeeds exactly when the member checks pass and the signatures fit *)
  Theorem xar_sign_total : forall P f h hid t cms, params_ok P -> xar_dom f h hid t ->
    xar_check_files_sign Hf (heap_of f h) (mkToc (plan_slots P) (t_refs t) (t_strict t)) = Ok tt ->
    hash_size (sp_hash P) + (if sp_rsa P then sp_classic P else 0) + zlen cms <= plan_total P ->
    exists s, xar_sign P f cms = Ok s.
  Proof. intros. eapply ProofsXAR.sign_total; eassumption. Qed.
  (* the size estimate: the reserved space is sufficient exactly for CMS blobs of at most 6144 bytes plus the certificates; a larger
     blob is refused with an error (nothing is written) *)
  Theorem xar_size_estimate : forall P ztoc ulen cms, params_ok P ->
    (xar_append Hf csig P ztoc ulen (plan_total P) cms = Err E_OVERFLOW <-> 6144 + sp_certsum P < zlen cms) /\
    (zlen cms <= 6144 + sp_certsum P -> exists nb, xar_append Hf csig P ztoc ulen (plan_total P) cms = Ok nb /\ zlen nb = 28 + zlen ztoc + plan_total P).
  Proof. intros. eapply ProofsXAR.xar_size_estimate; eassumption. Qed.

  (* ---- C08 *)
  Theorem xar_dom_preserved : forall P f h hid t cms g, good (new_toc P t) -> params_ok P -> xar_dom f h hid t -> all_bytes cms = true -> xar_embed P f cms = Ok g ->
    exists h', xar_dom g h' (sp_hash P) (new_toc P t) /\ toc_orig (new_toc P t) = plan_total P /\
      heap_of g h' = sig_area Hf enc csig P t cms ++ zdrop (toc_orig t) (heap_of f h).
  Proof. intros. eapply ProofsXAR.xar_dom_preserved; eassumption. Qed.
  (* signing a signed archive again with any key / digest / chain succeeds whenever the new CMS fits, removes exactly the slots of the
     previous signing, keeps the members, and the verifier finds the new CMS *)
  Theorem xar_resign : forall P1 P2 f h hid t cms1 cms2 g1, good (new_toc P1 t) -> good (new_toc P2 (new_toc P1 t)) ->
    params_ok P1 -> params_ok P2 -> xar_dom f h hid t -> all_bytes cms1 = true -> xar_embed P1 f cms1 = Ok g1 ->
    hash_size (sp_hash P2) + (if sp_rsa P2 then sp_classic P2 else 0) + zlen cms2 <= plan_total P2 ->
    exists g2 s2, xar_sign P2 g1 cms2 = Ok s2 /\ xs_file s2 = g2 /\ xs_orig s2 = plan_total P1 /\
      t_slots (xs_toc s2) = plan_slots P2 /\
      spec_xar_payload dec g2 = spec_xar_payload dec f /\ xar_extract Hf dec g2 = Ok (Some (cms_slot P2 cms2)).
  Proof. intros. eapply ProofsXAR.xar_resign; eassumption. Qed.
  Theorem xar_resign_history : forall hist f h hid t P c g,
    Forall (fun pc => params_ok (fst pc) /\ all_bytes (snd pc) = true) (hist ++ [(P, c)]) -> chain_good good (hist ++ [(P, c)]) t -> xar_dom f h hid t ->
    xar_history Hf dec enc usize csig (hist ++ [(P, c)]) f = Ok g ->
    spec_xar_payload dec g = spec_xar_payload dec f /\ xar_extract Hf dec g = Ok (Some (cms_slot P c)) /\
    exists h' t', xar_dom g h' (sp_hash P) t' /\ t_slots t' = plan_slots P /\ toc_orig t' = plan_total P.
  Proof. intros. eapply ProofsXAR.xar_resign_history; eassumption. Qed.

  (* ---- C02 *)
  (* a structurally accepted archive: the digest handed to the signature check is that of the stored compressed table of contents; every
     member the verifier selects has heap bytes whose digest is the one recorded in the table of contents *)
  Theorem xar_protect : forall g route sigb content, xar_verify_struct Hf dec g false = Ok (route, sigb, content) ->
    exists o, xar_open Hf dec g = Ok o /\ content = Hf (xo_hash o) (xo_tochash_pre o) /\
      Forall (fun r => verify_checks r = true ->
                exists hid, style_hash (fr_ck r) = Some hid /\
                  Hf hid (zslice (fr_off r) (fr_off r + fr_len r) (zdrop (xo_base o) g)) = fr_digest r) (t_refs (xo_toc o)).
  Proof. exact (ProofsXAR.xar_protect Hf dec). Qed.

  (* ---- C11 *)
  Theorem xar_sign_no_panic : forall P f cms p, xar_sign P f cms <> Panic p.
  Proof. intros. apply ProofsXAR.xar_sign_no_panic. Qed.
  (* Open never panics and never allocates beyond 64 |file| + 1 MiB (the model's P_ALLOC), for every byte string and every table of
     contents the decoder may deliver: both signature elements are checked against the file size before anything is allocated
     (relic 67d720d; before it: makeslice panic on a negative size, allocation of any declared size) *)
  Theorem xar_open_no_panic : forall f p, xar_open Hf dec f <> Panic p.
  Proof. exact (ProofsXAR.xar_open_no_panic Hf dec). Qed.

  (* ---- C01: sign, then verify, cryptography symbolic (types of Laws/Pipeline.v) *)
  Section XarCrypto.
    Variables key pubk sigv : Type.
    Variable H : Z -> bytes -> bytes.
    Variable pub : key -> pubk.
    Variable sign : key -> bytes -> sigv.
    Variable vrfy : pubk -> bytes -> sigv -> bool.
    Hypothesis sign_correct : forall k m, vrfy (pub k) m (sign k m) = true.
    Variable tbs : Z -> bytes -> bytes.
    Variable ser : Pipeline.sigblob pubk sigv -> bytes.
    Variable deser : bytes -> option (Pipeline.sigblob pubk sigv).
    Hypothesis deser_pad : forall b n, deser (ser b ++ zeros n) = Some b.
    Theorem xar_sign_then_verify : forall P f h hid t k a g, good (new_toc P t) -> params_ok P -> xar_dom f h hid t -> verify_covered t ->
      xar_sign_file Hf dec enc usize csig key pubk sigv H pub sign tbs ser P t k a f = Ok g ->
      xar_verify_file Hf dec pubk sigv H vrfy tbs deser g = Pipeline.Accept pubk (pub k) a.
    Proof. intros. eapply ProofsXAR.xar_sign_then_verify; eassumption. Qed.
  End XarCrypto.
End Xar.

(* C02 C11: the meaning of the translated decisions the theorems above are stated over: the verifier takes EVERY reachable member with a
   length other than zero; the signer skips exactly the members without archived checksum; integrity checking is on unless asked
   otherwise; a forward-only stream refuses to go back; dmg.Open refuses signature lengths outside 0..10^7; the supported member
   checksum styles are sha1 / sha256 / sha512.  (A weakened comparison in relic changes the generated definition and breaks this.) *)
Theorem xar_decisions_spec : forall len has_ck p pos siglen,
  xar_gather_takes len = negb (len =? 0) /\ xar_check_skips has_ck = negb has_ck /\ xar_verify_checks_files false = true /\
  xar_stream_backwards p pos = (p <? pos) /\ xar_stream_skips p pos = (p >? pos) /\
  dmg_open_sig_unreasonable siglen = ((siglen <? 0) || (siglen >? 10000000)) /\ dmg_open_has_sig siglen = negb (siglen =? 0) /\
  xar_file_styles = [([115; 104; 97; 49], 3); ([115; 104; 97; 50; 53; 54], 5); ([115; 104; 97; 53; 49; 50], 7)] /\
  xar_verify_chain = [0; 1] /\ xar_open_slot_guard_covers = [1; 2] /\ dmg_hashing_zeroes_siglen = true /\ dmg_sign_hashes_new_offset = true.
Proof. intros. repeat split; reflexivity. Qed.

(* ---- witnesses (toy instance of the opaque parts, WitnessXAR.v), each replayed on the real code by checks/fmtxar.py *)
(* C03: extended attribute stored in the heap: its offset is not moved *)
Theorem xar_payload_ea_refuted :
  toy_embed P_ec w_toc_ea w_heap [48; 1; 0] = Ok g_ea /\
  toy_payload P_ec w_toc_ea (toy_file w_heap) = Ok [Some [7; 8; 9]; Some [5; 6]] /\
  toy_payload P_ec w_toc_ea g_ea = Ok [Some [7; 8; 9]; Some [0; 0]].
Proof. exact FmtXAR.WitnessXAR.xar_payload_ea_refuted. Qed.
(* C03 C01: existing signature slot behind the member data: the member is destroyed, relic's verifier rejects its own output *)
Theorem xar_slots_behind_files_refuted :
  toy_embed P_ec w_toc_behind w_heap_behind [48; 1; 0] = Ok g_behind /\
  toy_payload P_ec w_toc_behind (toy_file w_heap_behind) = Ok [Some [7; 8; 9]] /\
  toy_payload P_ec w_toc_behind g_behind = Ok [Some [0; 0; 0]] /\
  toy_verify P_ec w_toc_behind g_behind = Err E_MISMATCH.
Proof. exact FmtXAR.WitnessXAR.xar_slots_behind_files_refuted. Qed.
(* C01: a member without archived checksum: signed, then rejected by relic's own verifier *)
Theorem xar_sign_unverifiable_refuted :
  toy_embed P_ec w_toc_nock (zeros 20 ++ [7; 8; 9]) [48; 1; 0] = Ok g_nock /\ toy_verify P_ec w_toc_nock g_nock = Err E_STYLE.
Proof. exact FmtXAR.WitnessXAR.xar_sign_unverifiable_refuted. Qed.
(* C02: a member nested in a member with data is not checked by the verifier *)
Theorem xar_verify_unchecked_refuted :
  toy_embed P_ec w_toc_nested w_heap [48; 1; 0] = Ok g_nested /\
  toy_verify P_ec w_toc_nested g_nested' = toy_verify P_ec w_toc_nested g_nested /\ is_ok (toy_verify P_ec w_toc_nested g_nested) = true /\
  toy_payload P_ec w_toc_nested g_nested = Ok [Some [7; 8; 9]; Some [5; 6]] /\ toy_payload P_ec w_toc_nested g_nested' = Ok [Some [7; 8; 9]; Some [5; 66]].
Proof. exact FmtXAR.WitnessXAR.xar_verify_unchecked_refuted. Qed.
(* C11 regression: negative / huge <signature> or <x-signature> size in a 49-byte file: refused *)
Theorem xar_open_sizes_refused :
  (exists o, xar_open toy_H (toy_dec w_toc w_toc) (toy_file (toy_H 3 [1])) = Ok o) /\
  xar_open toy_H (toy_dec w_toc_neg w_toc_neg) (toy_file (toy_H 3 [1])) = Err E_TOOBIG /\
  xar_open toy_H (toy_dec w_toc_huge w_toc_huge) (toy_file (toy_H 3 [1])) = Err E_TOOBIG /\
  zlen (toy_file (toy_H 3 [1])) = 49.
Proof. exact FmtXAR.WitnessXAR.xar_open_sizes_refused. Qed.

(* non-vacuity *)
Example xar_hypotheses_satisfiable :
  let good := fun t => t = toy_new P_ec w_toc in
  let dec := toy_dec w_toc (toy_new P_ec w_toc) in
  (forall t, good t -> dec (toy_enc t) = Some t) /\ (forall hid x, zlen (toy_H hid x) = hash_size hid) /\
  (forall t, good t -> zlen (toy_enc t) <= 1000000) /\ (forall t, good t -> 0 <= toy_usize t <= 10000000) /\
  (forall t, good t -> all_bytes (toy_enc t) = true) /\ (forall hid x, all_bytes (toy_H hid x) = true) /\ (forall x, all_bytes (toy_csig x) = true) /\
  good (ProofsXAR.new_toc P_ec w_toc) /\ params_ok toy_csig P_ec /\ params_ok toy_csig P_rsa /\
  xar_dom dec (toy_file w_heap) (mkXhdr xar_magic 28 1 1 5 1) 3 w_toc /\ verify_covered w_toc.
Proof. exact FmtXAR.WitnessXAR.xar_hypotheses_satisfiable. Qed.
Example xar_example_computed :
  toy_embed P_ec w_toc w_heap [48; 1; 0] = Ok g_ok /\
  toy_payload P_ec w_toc g_ok = toy_payload P_ec w_toc (toy_file w_heap) /\
  toy_payload P_ec w_toc g_ok = Ok [Some [7; 8; 9]; Some [5; 6]] /\
  toy_verify P_ec w_toc g_ok = Ok (2, [48; 1; 0] ++ zeros 6151, toy_H 3 [2]) /\
  zlen g_ok = 28 + 1 + (20 + 6154) + 5.
Proof. exact FmtXAR.WitnessXAR.xar_example_computed. Qed.
(* the reviewed names and paths the abstract table of contents is read by (a changed path in relic changes these generated values) *)
Example xar_paths_reviewed :
  xar_remove_keys = [[99; 104; 101; 99; 107; 115; 117; 109]; [115; 105; 103; 110; 97; 116; 117; 114; 101]; [120; 45; 115; 105; 103; 110; 97; 116; 117; 114; 101]] /\
  xar_path_adjust = [47; 47; 100; 97; 116; 97; 47; 111; 102; 102; 115; 101; 116] /\ xar_path_check = [47; 47; 102; 105; 108; 101; 47; 100; 97; 116; 97] /\
  xar_path_toc = [47; 120; 97; 114; 47; 116; 111; 99] /\ xar_check_requires = [97; 114; 99; 104; 105; 118; 101; 100; 45; 99; 104; 101; 99; 107; 115; 117; 109] /\
  xar_remove_size_child = [115; 105; 122; 101] /\ xar_sign_order = [0; 1; 2; 3; 4; 5; 6; 7; 8] /\ xar_append_order = [0; 1; 2; 3; 4; 5] /\
  xar_sign_toc_len_is = 0 /\ xar_sign_toc_limit_is = 0 /\ xar_gather_descends_only_if_not_taken = true /\ xar_verify_chain_has_else = true /\
  dmg_sign_calls = [0; 1; 2; 3] /\ xar_hash_none = 0 /\ xar_hash_md5 = 2 /\ xar_hash_sha1 = 1 /\ xar_hash_sha256 = 3 /\ xar_hash_sha512 = 4 /\
  xar_enum_of_hash_default_refuses = true /\ dmg_cksum_size = 136.
Proof. repeat split; reflexivity. Qed.
